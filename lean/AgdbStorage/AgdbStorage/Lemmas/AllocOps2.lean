import AgdbStorage.Lemmas.AllocOps
import AgdbStorage.Lemmas.AllocSpecBytes
/-
`resize_value`, `replace`, `move_at`, `remove`: effects on `live` / `val`.
-/
namespace AgdbStorage

theorem bindRes_ok {α β : Type} (x : Res α) (f : Storage → α → Res β) (a : α)
    (h : x.2 = .ok a) : bindRes x f = f x.1 a := by
  obtain ⟨s, r⟩ := x
  simp only at h
  subst h
  rfl

theorem bindRes_err {α β : Type} (x : Res α) (f : Storage → α → Res β) (e : Err)
    (h : x.2 = .error e) : bindRes x f = (x.1, .error e) := by
  obtain ⟨s, r⟩ := x
  simp only at h
  subst h
  rfl

/-- closing the transaction opened by `bump` -/
theorem ModOK.commit {s s2 : Storage} {i : Nat} {v : Bytes} (hM : ModOK s.bump s2 i v) :
    (s2.commit (s.txn + 1)).2 = .ok () ∧ ModOK s (s2.commit (s.txn + 1)).1 i v := by
  obtain ⟨c1, c2, c3, c4⟩ := Storage.commit_ok s2 (s.txn + 1) hM.txn
  refine ⟨c1, hM.inv.of_eq c2 c3, fun j => by rw [c2]; exact hM.live j,
    by rw [Storage.val_of_eq c2 c3]; exact hM.vali,
    fun j hj hlj => by rw [Storage.val_of_eq c2 c3]; exact hM.valo j hj hlj, ?_⟩
  rw [c4, hM.txn]
  rfl

/-! ### `resize_value` -/

theorem Storage.resizeValue_dead (s : Storage) (hi : IdxInv s.records) (i n : Nat)
    (hl : ¬ s.records.live i) : s.resizeValue i n = (s, .error .notFound) := by
  unfold Storage.resizeValue
  rw [Records.record_eq _ hi, if_neg hl]

theorem Storage.resizeValue_spec (hE : EnlargeSpec) (hS : ShrinkSpec) (s : Storage) (hs : SInv s)
    (i n : Nat) (hl : s.records.live i) :
    (s.resizeValue i n).2 = .ok () ∧
      ModOK s (s.resizeValue i n).1 i
        ((s.val i).take n ++ List.replicate (n - (s.val i).length) 0) := by
  have hvl := hs.val_length hl
  have key : ∃ s2 : Storage, s.resizeValue i n = s2.commit (s.txn + 1) ∧
      ModOK s.bump s2 i ((s.val i).take n ++ List.replicate (n - (s.val i).length) 0) := by
    unfold Storage.resizeValue
    rw [Records.record_eq _ hs.idx, if_pos hl]
    simp only [Storage.begin_eq]
    by_cases h1 : n > (s.records.get i).size
    · rw [if_pos h1]
      exact ⟨_, rfl, (hE s.bump i n hs.bump hl h1).1.modOK⟩
    · rw [if_neg h1]
      by_cases h2 : n < (s.records.get i).size
      · rw [if_pos h2]
        exact ⟨_, rfl, (hS s.bump i n hs.bump hl h2).1.modOK⟩
      · rw [if_neg h2]
        refine ⟨_, rfl, hs, fun _ => Iff.rfl, ?_, fun _ _ _ => rfl, rfl⟩
        show s.val i = _
        have : n = (s.val i).length := by omega
        rw [this, List.take_length, Nat.sub_self, List.replicate_zero, List.append_nil]
  obtain ⟨s2, he, hM⟩ := key
  rw [he]
  exact hM.commit

/-! ### `replace` -/

theorem Storage.replace_dead (s : Storage) (hi : IdxInv s.records) (i : Nat) (bs : Bytes)
    (hl : ¬ s.records.live i) : s.replace i bs = (s.bump, .error .notFound) := by
  unfold Storage.replace
  simp only [Storage.begin_eq]
  rw [Storage.insertBytesAt_dead s.bump hi i 0 bs hl]
  rfl

theorem Storage.replace_spec (hE : EnlargeSpec) (hS : ShrinkSpec) (s : Storage) (hs : SInv s)
    (i : Nat) (bs : Bytes) (hl : s.records.live i) :
    (s.replace i bs).2 = .ok () ∧ ModOK s (s.replace i bs).1 i bs := by
  obtain ⟨a1, a2⟩ := Storage.insertBytesAt_spec hE s.bump hs.bump i 0 bs hl
  have hl2 : (s.bump.insertBytesAt i 0 bs).1.records.live i := (a2.live i).mpr hl
  obtain ⟨b1, b2⟩ := Storage.resizeValue_spec hE hS _ a2.inv i bs.length hl2
  have hM := a2.trans_val b2
  rw [a2.vali, specInsertAt_zero_take] at hM
  have he : s.replace i bs =
      ((s.bump.insertBytesAt i 0 bs).1.resizeValue i bs.length).1.commit (s.txn + 1) := by
    unfold Storage.replace
    simp only [Storage.begin_eq]
    rw [bindRes_ok _ _ () a1, bindRes_ok _ _ () b1]
  rw [he]
  exact hM.commit

/-! ### `remove` -/

theorem Storage.remove_dead (s : Storage) (hi : IdxInv s.records) (i : Nat)
    (hl : ¬ s.records.live i) : s.remove i = (s, .error .notFound) := by
  unfold Storage.remove
  rw [Records.record_eq _ hi, if_neg hl]

theorem Storage.remove_spec (s : Storage) (hs : SInv s) (i : Nat) (hl : s.records.live i) :
    (s.remove i).2 = .ok () ∧ SInv (s.remove i).1 ∧
      (∀ j, (s.remove i).1.records.live j ↔ s.records.live j ∧ j ≠ i) ∧
      (∀ j, s.records.live j → j ≠ i → (s.remove i).1.val j = s.val j) ∧
      (s.remove i).1.txn = s.txn := by
  have he : s.remove i = (s.bump.removeCore i (s.records.get i)).commit (s.txn + 1) := by
    unfold Storage.remove
    rw [Records.record_eq _ hs.idx, if_pos hl]
    rfl
  rw [he]
  obtain ⟨r1, r2, r3, r4⟩ := Storage.removeCore_spec s.bump hs.bump i hl
  obtain ⟨c1, c2, c3, c4⟩ := Storage.commit_ok (s.bump.removeCore i (s.records.get i)) (s.txn + 1)
    r4
  refine ⟨c1, r1.of_eq c2 c3, fun j => by rw [c2]; exact r2 j, ?_, ?_⟩
  rotate_left
  · rw [c4]
    show (s.bump.removeCore i (s.bump.records.get i)).txn - 1 = s.txn
    rw [r4]
    rfl
  intro j hj hji
  rw [Storage.val_of_eq c2 c3]
  exact r3 j hj hji

/-! ### `move_at` -/

theorem Storage.valueAtSize_eq (s : Storage) (hs : SInv s) (i f n : Nat) :
    s.valueAtSize i f n =
      if s.records.live i then
        (if f + n ≤ (s.val i).length then .ok (readAt (s.val i) f n) else .error .outOfBounds)
      else .error .notFound := by
  unfold Storage.valueAtSize
  rw [Records.record_eq _ hs.idx]
  by_cases hl : s.records.live i
  · have hvl := hs.val_length hl
    rw [if_pos hl, if_pos hl, hvl]
    simp only [validateReadSize]
    by_cases h1 : f > (s.records.get i).size
    · rw [if_pos h1, if_neg (by omega)]
    · rw [if_neg h1]
      by_cases h2 : f + n > (s.records.get i).size
      · rw [if_pos h2, if_neg (by omega)]
      · rw [if_neg h2, if_pos (by omega)]
        simp only [Storage.val, SRec.valueStart, RECORD_SIZE]
        rw [readAt_readAt _ _ _ _ _ (by omega)]
  · rw [if_neg hl, if_neg hl]

/-- `erase_bytes` inside the value of a live slot -/
theorem Storage.eraseBytes_spec (s : Storage) (hs : SInv s) (i f t n : Nat)
    (hl : s.records.live i) (hb : f + n ≤ (s.records.get i).size) :
    ModOK s (s.eraseBytes (s.records.get i).valueStart f t n) i (eraseV (s.val i) f t n) := by
  have hvs : (s.records.get i).valueStart = (s.records.get i).pos + 16 := rfl
  unfold Storage.eraseBytes eraseV
  rw [hvs]
  by_cases c1 : f < t
  · rw [if_pos c1, if_pos c1]
    obtain ⟨w1, w2, w3⟩ := hs.write_value i f (List.replicate (min n (t - f)) 0) hl
      (by rw [List.length_replicate]; omega)
    exact ⟨w1, fun _ => Iff.rfl, w2, fun j hj hlj => w3 j hlj hj, rfl⟩
  · rw [if_neg c1, if_neg c1]
    by_cases c2 : f > t
    · rw [if_pos c2, if_pos c2]
      obtain ⟨w1, w2, w3⟩ := hs.write_value i (max (t + n) f)
        (List.replicate (f + n - max (t + n) f) 0) hl (by rw [List.length_replicate]; omega)
      exact ⟨w1, fun _ => Iff.rfl, w2, fun j hj hlj => w3 j hlj hj, rfl⟩
    · rw [if_neg c2, if_neg c2]
      exact ⟨hs, fun _ => Iff.rfl, rfl, fun _ _ _ => rfl, rfl⟩

theorem Storage.moveAt_fail (s : Storage) (hs : SInv s) (i f t n : Nat)
    (h : ¬ (s.records.live i ∧ f + n ≤ (s.val i).length)) :
    (s.moveAt i f t n).1 = s ∧ ∃ e, (s.moveAt i f t n).2 = .error e := by
  unfold Storage.moveAt
  rw [Storage.valueAtSize_eq s hs]
  by_cases hl : s.records.live i
  · rw [if_pos hl, if_neg (fun c => h ⟨hl, c⟩)]
    exact ⟨rfl, _, rfl⟩
  · rw [if_neg hl]
    exact ⟨rfl, _, rfl⟩

theorem Storage.moveAt_spec (hE : EnlargeSpec) (s : Storage) (hs : SInv s) (i f t n : Nat)
    (hl : s.records.live i) (hb : f + n ≤ (s.val i).length) :
    (s.moveAt i f t n).2 = .ok () ∧ ModOK s (s.moveAt i f t n).1 i (specMove (s.val i) f t n) := by
  obtain ⟨a1, a2⟩ := Storage.insertBytesAt_spec hE s.bump hs.bump i t (readAt (s.val i) f n) hl
  have hl2 : (s.bump.insertBytesAt i t (readAt (s.val i) f n)).1.records.live i :=
    (a2.live i).mpr hl
  have hsz2 := a2.inv.val_length hl2
  rw [a2.vali] at hsz2
  have hsrc : (readAt (s.val i) f n).length = n := by rw [length_readAt]; omega
  have hlen2 : f + n ≤ ((s.bump.insertBytesAt i t (readAt (s.val i) f n)).1.records.get i).size := by
    rw [← hsz2, length_specInsertAt]
    have : (s.bump.val i) = s.val i := rfl
    rw [this]
    omega
  have b2 := Storage.eraseBytes_spec _ a2.inv i f t n hl2 hlen2
  have hM := a2.trans_val b2
  rw [a2.vali] at hM
  have hv : s.bump.val i = s.val i := rfl
  rw [hv, ← specMove_eq _ _ _ _ hb] at hM
  have he : s.moveAt i f t n =
      ((s.bump.insertBytesAt i t (readAt (s.val i) f n)).1.eraseBytes
        ((s.bump.insertBytesAt i t (readAt (s.val i) f n)).1.records.get i).valueStart f t n).commit
          (s.txn + 1) := by
    unfold Storage.moveAt
    rw [Storage.valueAtSize_eq s hs, if_pos hl, if_pos hb]
    simp only [Storage.begin_eq]
    rw [bindRes_ok _ _ () a1, Records.record_eq _ a2.inv.idx, if_pos hl2]
  rw [he]
  exact hM.commit

end AgdbStorage
