import AgdbStorage.Lemmas.AllocShrink
import AgdbStorage.Lemmas.AllocTrace
/-
Well-formedness of the `StorageData` calls issued by `move_to_end` and `shrink_value`.
-/
namespace AgdbStorage

/-- the merged free region produced by `free_a_region` of a hole interval lies inside the file -/
theorem RG.freeRegion_bound {r : Records} {X H : Nat → Prop} {d : Bytes} {V : Nat → Bytes}
    (h : RG r X H d V) (hx0 : ¬ X 0) (a s : Nat) (hin : ∀ y, a ≤ y → y < a + 16 + s → H y) :
    (r.markFreeCompact a s).2.1 + 16 + (r.markFreeCompact a s).2.2 ≤ d.length := by
  have hd := h.fdisj hx0
  have hhole : Hole r.free a (a + 16 + s) := by
    intro x hx
    exact h.lay.block_hole (i := 0) ⟨Records.Blk_zero.mpr hx, hx0⟩ (by omega) hin
  obtain ⟨m, _⟩ := Records.markFreeCompact_spec r a s h.sorted hd hhole
  have ha1 := h.lay.hbnd a (hin a (Nat.le_refl _) (by omega))
  have ha2 := h.lay.hbnd (a + 16 + s - 1) (hin _ (by omega) (by omega))
  have hle := m.le_p
  have hsep := m.sep d.length (d.length + 1) (by omega) (Or.inr (by omega))
    (fun x hx => Or.inr (h.lay.bnd 0 x.1 x.2 ⟨Records.Blk_zero.mpr hx, hx0⟩).2)
  omega

/-- `free_a_region` of a hole interval issues one write, inside the file -/
theorem WfStep.freeARegion {s : Storage} {X H : Nat → Prop} {V : Nat → Bytes}
    (h : RG s.records X H s.data V) (hx0 : ¬ X 0) (a z : Nat)
    (hin : ∀ y, a ≤ y → y < a + 16 + z → H y) (hl : s.data.length < 2 ^ 64) :
    WfStep s (s.freeARegion a z) := by
  have hb := h.freeRegion_bound hx0 a z hin
  show WfStep s (({ s with records := (s.records.markFreeCompact a z).1 } : Storage).writeRecord
    ⟨0, (s.records.markFreeCompact a z).2.1, (s.records.markFreeCompact a z).2.2⟩)
  refine WfStep.trans (WfStep.of_eq (s' := { s with records := (s.records.markFreeCompact a z).1 })
    rfl rfl) (WfStep.writeRecord _ _ (Or.inl ?_) ?_)
  · show (s.records.markFreeCompact a z).2.1 + 16 ≤ s.data.length
    omega
  · show (s.records.markFreeCompact a z).2.1 + 16 < 2 ^ 64
    omega

/-- the steps of `move_to_end` after `free_a_region`: table update, header at the end of the file,
value bytes after it -/
theorem moveToEnd_tail_wf (s0 s1 : Storage) (R : Records) (r' : SRec) (bytes : Bytes)
    (hp : r'.pos = s1.data.length) (hfit : s1.data.length + 16 + bytes.length < 2 ^ 64)
    (W1 : WfStep s0 s1) :
    WfStep s0 ((({ s1 with records := R } : Storage).writeRecord r').append bytes) := by
  have W2 : WfStep s1 ({ s1 with records := R } : Storage) := WfStep.of_eq rfl rfl
  have W3 := WfStep.writeRecord ({ s1 with records := R } : Storage) r' (Or.inr hp)
    (by rw [hp]; show s1.data.length + 16 < _; omega)
  have hl3 : (({ s1 with records := R } : Storage).writeRecord r').data.length =
      s1.data.length + 16 := by
    show (writeAt s1.data r'.pos (le8 _ ++ le8 _)).length = _
    rw [hp, length_writeAt _ _ _ (Nat.le_refl _)]
    simp only [List.length_append, le8_length]
    omega
  have W4 := WfStep.append (({ s1 with records := R } : Storage).writeRecord r') bytes
    (by rw [hl3]; omega)
  exact W1.trans (W2.trans (W3.trans W4))

theorem moveToEnd_wf : MoveToEndWf := by
  intro s k n hs hl hfit
  have hk0 : k ≠ 0 := hl.1
  have G0 := RG.intro hs
  have G1 := G0.suspend k hl (fun h => h)
  have hx0 : ¬ ((fun j => False ∨ j = k) 0) := by
    intro h; rcases h with h | h
    · exact h
    · exact hk0 h.symm
  have hin1 : ∀ y, (s.records.get k).pos ≤ y →
      y < (s.records.get k).pos + 16 + (s.records.get k).size →
      (fun y => False ∨ ((s.records.get k).pos ≤ y ∧
        y < (s.records.get k).pos + 16 + (s.records.get k).size)) y :=
    fun y h1 h2 => Or.inr ⟨h1, h2⟩
  have hlen1 := G1.freeRegion_length hx0 (s.records.get k).pos (s.records.get k).size hin1
  have W1 : WfStep s (s.freeARegion (s.records.get k).pos (s.records.get k).size) :=
    WfStep.freeARegion G1 hx0 _ _ hin1 (by omega)
  have hl1 : (s.freeARegion (s.records.get k).pos (s.records.get k).size).data.length =
      s.data.length := hlen1
  refine moveToEnd_tail_wf s (s.freeARegion (s.records.get k).pos (s.records.get k).size) _
    ⟨(s.records.get k).index, s.data.length, n⟩ _ hl1.symm ?_ W1
  rw [hl1, moveToEnd_bytes_length]
  omega

theorem shrinkValue_wf : ShrinkWf := by
  intro s k n hs hl hn hfit
  have hbnd := hs.lay.bnd k _ _ (Records.Blk_of_live hl)
  have hlen1 : (writeAt s.data ((s.records.get k).pos + 8) (le8 n)).length = s.data.length := by
    rw [length_writeAt _ _ _ (by omega), le8_length]; omega
  have W1 : WfStep s ({ s with records := s.records.setSize k n } : Storage) := WfStep.of_eq rfl rfl
  have W2 := WfStep.dataWrite ({ s with records := s.records.setSize k n } : Storage)
    ((s.records.get k).pos + 8) (le8 n)
    (Or.inl (by show _ + (le8 n).length ≤ s.data.length; rw [le8_length]; omega))
    (by rw [le8_length]; omega)
  by_cases hend : s.data.length = (s.records.get k).pos + 16 + (s.records.get k).size
  · rw [Storage.shrinkValue_atEnd s _ n hend, hl.2]
    have W3 := WfStep.truncate (({ s with records := s.records.setSize k n } : Storage).dataWrite
      ((s.records.get k).pos + 8) (le8 n)) ((s.records.get k).pos + 16 + n) (by omega)
      (by show (writeAt s.data _ _).length < _; rw [hlen1]; omega)
    exact W1.trans (W2.trans W3)
  · by_cases hz : 16 ≤ (s.records.get k).size - n
    · rw [Storage.shrinkValue_inPlace s _ n hend hz, hl.2]
      have G := shrink_common s k n hs hl hn
      have W3 := WfStep.freeARegion
        (s := ({ s with records := s.records.setSize k n } : Storage).dataWrite
          ((s.records.get k).pos + 8) (le8 n)) G (fun h => h)
        ((s.records.get k).pos + 16 + n) ((s.records.get k).size - n - 16)
        (fun y h1 h2 => ⟨h1, by omega⟩)
        (by show (writeAt s.data _ _).length < _; rw [hlen1]; omega)
      exact W1.trans (W2.trans W3)
    · rw [Storage.shrinkValue_move s _ n hend hz]
      exact moveToEnd_wf s k n hs hl hfit

end AgdbStorage
