import AgdbStorage.Lemmas.AllocEnlargeWfA
import AgdbStorage.Lemmas.AllocMoveToEnd
/-
The file length after `Storage::enlarge_value`: at most `len + 16 + n`
(`enlargeAtEnd`: `len + (n - size)`; `enlargeInPlace`/`enlargeMoveTo`: unchanged; `moveToEnd`:
exactly `len + 16 + n`).
-/
namespace AgdbStorage

theorem enlargeAtEnd_len (s : Storage) (k n : Nat) (hs : SInv s) (hl : s.records.live k)
    (hlt : (s.records.get k).size < n) :
    (s.enlargeAtEnd (s.records.get k) n).1.data.length =
      s.data.length + (n - (s.records.get k).size) := by
  have hbnd := hs.lay.bnd k _ _ (Records.Blk_of_live hl)
  have hl1 : (writeAt s.data ((s.records.get k).pos + 8) (le8 n)).length = s.data.length := by
    rw [length_writeAt _ _ _ (by omega)]; simp only [le8_length]; omega
  show (writeAt (writeAt s.data ((s.records.get k).pos + 8) (le8 n))
    (writeAt s.data ((s.records.get k).pos + 8) (le8 n)).length
    (List.replicate (n - (s.records.get k).size) 0)).length = _
  rw [length_writeAt _ _ _ (Nat.le_refl _), hl1, List.length_replicate]
  omega

theorem moveToEnd_len (s : Storage) (k n : Nat) (hs : SInv s) (hl : s.records.live k) :
    (s.moveToEnd (s.records.get k) n).1.data.length = s.data.length + 16 + n := by
  have hk0 : k ≠ 0 := hl.1
  have G0 := RG.intro hs
  have G1 := G0.suspend k hl (fun h => h)
  have hx0 : ¬ ((fun j => False ∨ j = k) 0) := by
    intro h; rcases h with h | h
    · exact h
    · exact hk0 h.symm
  have hlen1 := G1.freeRegion_length hx0 (s.records.get k).pos (s.records.get k).size
    (fun y h1 h2 => Or.inr ⟨h1, h2⟩)
  have hlen2 : (writeAt (writeAt s.data
      (s.records.markFreeCompact (s.records.get k).pos (s.records.get k).size).2.1
      (le8 0 ++ le8 (s.records.markFreeCompact (s.records.get k).pos (s.records.get k).size).2.2))
      s.data.length (le8 (s.records.get k).index ++ le8 n)).length = s.data.length + 16 := by
    rw [length_writeAt _ _ _ (by omega), hlen1]
    simp only [List.length_append, le8_length]
    omega
  have hd : (s.moveToEnd (s.records.get k) n).1.data = writeAt (writeAt (writeAt s.data (s.records.markFreeCompact (s.records.get k).pos (s.records.get k).size).2.1
      (le8 0 ++ le8 (s.records.markFreeCompact (s.records.get k).pos (s.records.get k).size).2.2))
      s.data.length (le8 (s.records.get k).index ++ le8 n))
      (writeAt (writeAt s.data (s.records.markFreeCompact (s.records.get k).pos (s.records.get k).size).2.1
      (le8 0 ++ le8 (s.records.markFreeCompact (s.records.get k).pos (s.records.get k).size).2.2))
      s.data.length (le8 (s.records.get k).index ++ le8 n)).length
      ((readAt s.data (s.records.get k).valueStart (s.records.get k).size).take n ++
        List.replicate (n - (readAt s.data (s.records.get k).valueStart
          (s.records.get k).size).length) 0) := rfl
  rw [hd]
  rw [length_writeAt _ _ _ (Nat.le_refl _), hlen2, moveToEnd_bytes_length]
  omega

theorem enlargeInPlace_len (s : Storage) (k n fsz e : Nat) (hs : SInv s) (hl : s.records.live k)
    (hlt : (s.records.get k).size < n)
    (he : e = (s.records.get k).pos + 16 + (s.records.get k).size)
    (hm : (e, fsz) ∈ s.records.free)
    (hfit : 16 + fsz = n - (s.records.get k).size ∨ n - (s.records.get k).size ≤ fsz) :
    (({ s with records := s.records.removeFree e } : Storage).enlargeInPlace
      (s.records.get k) n fsz).1.data.length = s.data.length := by
  subst he
  have hklt := Records.live_lt hl
  have hki : (s.records.get k).index = k := hl.2
  have hbnd := hs.lay.bnd k _ _ (Records.Blk_of_live hl)
  have hfb := hs.lay.bnd 0 _ _ (Records.Blk_zero.mpr hm)
  generalize hpos : (s.records.get k).pos = pos at *
  generalize hsize : (s.records.get k).size = size at *
  generalize hr1 : s.records.removeFree (pos + 16 + size) = r1
  have hrecs1 : r1.recs = s.records.recs := by rw [← hr1]; rfl
  have hget1 : ∀ j, r1.get j = s.records.get j := Records.get_of_recs_eq hrecs1
  have hklt1 : k < r1.recs.length := by rw [hrecs1]; exact hklt
  have hlive1 : ∀ j, r1.live j ↔ s.records.live j := Records.live_of_recs_eq hrecs1
  have G0 := RG.intro hs
  have G1 := G0.takeFree (fun h => h) _ _ hm
  rw [hr1] at G1
  have G2 := G1.suspend k ((hlive1 k).mpr hl) (fun h => h)
  rw [hget1, hpos, hsize] at G2
  have G3 := G2.modify (r' := r1.setSize k n) (by simp)
    (G2.idx.congr (by simp) (Records.setSize_index _ _ _))
    (fun j _ hx => by
      rw [Records.setSize_get _ _ _ _ hklt1, if_neg (fun e => hx (Or.inr e))])
  have G4 := G3.write (pos + 8) (le8 n) (by omega) (fun y h1 h2 h3 => by
    simp only [le8_length] at h2; right; omega)
  have hl4 : (writeAt s.data (pos + 8) (le8 n)).length = s.data.length := by
    rw [length_writeAt _ _ _ (by omega)]; simp; omega
  have G5 := G4.write (pos + 16 + size) (List.replicate (n - size) 0) (by omega)
    (fun y h1 h2 h3 => by
      simp only [List.length_replicate] at h2; left; left; right; omega)
  have hl5 : (writeAt (writeAt s.data (pos + 8) (le8 n)) (pos + 16 + size)
      (List.replicate (n - size) 0)).length = s.data.length := by
    rw [length_writeAt _ _ _ (by omega), hl4]; simp; omega
  rcases hfit with hf | hf
  · have hrem : ((size + 16 + fsz - n) != 0) = false := by simp; omega
    have hres : ({ s with records := r1 } : Storage).enlargeInPlace (s.records.get k) n fsz =
        ((({ s with records := r1.setSize k n } : Storage).dataWrite (pos + 8) (le8 n)).dataWrite
          (pos + 16 + size) (List.replicate (n - size) 0), { s.records.get k with size := n }) := by
      simp only [Storage.enlargeInPlace, RECORD_SIZE, SRec.fin, hpos, hsize, hki, hrem,
        Bool.false_eq_true, ↓reduceIte]
    rw [hres]
    exact hl5
  · have hrem : ((size + 16 + fsz - n) != 0) = true := by simp; omega
    have hres : ({ s with records := r1 } : Storage).enlargeInPlace (s.records.get k) n fsz =
        (((({ s with records := r1.setSize k n } : Storage).dataWrite (pos + 8) (le8 n)).dataWrite
          (pos + 16 + size) (List.replicate (n - size) 0)).freeARegion (pos + 16 + n)
            (size + 16 + fsz - n - 16), { s.records.get k with size := n }) := by
      simp only [Storage.enlargeInPlace, RECORD_SIZE, SRec.fin, hpos, hsize, hki, hrem, ↓reduceIte]
    rw [hres]
    have := Enlarge.freeARegion_length
      (s := (({ s with records := r1.setSize k n } : Storage).dataWrite (pos + 8) (le8 n)).dataWrite
        (pos + 16 + size) (List.replicate (n - size) 0))
      (X := fun j => False ∨ j = k) G5
      (fun h => h.elim id (fun e => hl.1 e.symm)) (pos + 16 + n) (size + 16 + fsz - n - 16)
      (fun y h1 h2 => by left; left; left; right; omega)
    exact this.trans hl5

theorem enlargeMoveTo_len (s : Storage) (k n fp fsz : Nat) (hs : SInv s) (hl : s.records.live k)
    (hlt : (s.records.get k).size < n)
    (hm : (fp, fsz) ∈ s.records.free)
    (hfit : fsz = n ∨ n + 16 ≤ fsz) :
    (({ s with records := s.records.removeFree fp } : Storage).enlargeMoveTo
      (s.records.get k) n fp fsz).1.data.length = s.data.length := by
  have hklt := Records.live_lt hl
  have hki : (s.records.get k).index = k := hl.2
  have hbnd := hs.lay.bnd k _ _ (Records.Blk_of_live hl)
  have hfb := hs.lay.bnd 0 _ _ (Records.Blk_zero.mpr hm)
  have hdisj : (s.records.get k).pos + 16 + (s.records.get k).size ≤ fp ∨
      fp + 16 + fsz ≤ (s.records.get k).pos := by
    rcases hs.lay.disj k _ _ 0 fp fsz (Records.Blk_of_live hl) (Records.Blk_zero.mpr hm) with
      e | e | e
    · exact absurd e.1 hl.1
    · exact Or.inl e
    · exact Or.inr e
  have hvl := hs.val_length hl
  have hval : s.val k = readAt s.data ((s.records.get k).pos + 16) (s.records.get k).size := rfl
  generalize hpos : (s.records.get k).pos = pos at *
  generalize hsize : (s.records.get k).size = size at *
  generalize hr1 : s.records.removeFree fp = r1
  have hrecs1 : r1.recs = s.records.recs := by rw [← hr1]; rfl
  have hget1 : ∀ j, r1.get j = s.records.get j := Records.get_of_recs_eq hrecs1
  have hlive1 : ∀ j, r1.live j ↔ s.records.live j := Records.live_of_recs_eq hrecs1
  obtain ⟨bs, hbs⟩ : ∃ bs, bs = (readAt s.data (pos + 16) size).take n ++
      List.replicate (n - (readAt s.data (pos + 16) size).length) 0 := ⟨_, rfl⟩
  have hbl : bs.length = n := by rw [hbs]; exact moveToEnd_bytes_length _ _
  have G0 := RG.intro hs
  have G1 := G0.takeFree (fun h => h) _ _ hm
  rw [hr1] at G1
  have G2 := G1.suspend k ((hlive1 k).mpr hl) (fun h => h)
  rw [hget1, hpos, hsize] at G2
  have hx0 : ¬ (False ∨ 0 = k) := fun h => h.elim id (fun e => hl.1 e.symm)
  have G3 := G2.freeRegion hx0 pos size (fun y h1 h2 => Or.inr ⟨h1, h2⟩)
  have hl3 := Enlarge.freeRegion_length G2 hx0 pos size (fun y h1 h2 => Or.inr ⟨h1, h2⟩)
  have hrecs2 : (r1.markFreeCompact pos size).1.recs = s.records.recs := by
    rw [Records.markFreeCompact_recs, hrecs1]
  have hklt2 : k < (r1.markFreeCompact pos size).1.recs.length := by rw [hrecs2]; exact hklt
  have hklt3 : k < ((r1.markFreeCompact pos size).1.setPos k fp).recs.length := by
    rw [Records.setPos_length]; exact hklt2
  have hidx3 : ∀ j, ((((r1.markFreeCompact pos size).1.setPos k fp).setSize k n).get j).index =
      ((r1.markFreeCompact pos size).1.get j).index := fun j => by
    rw [Records.setSize_index, Records.setPos_index]
  have G4 := G3.modify (r' := ((r1.markFreeCompact pos size).1.setPos k fp).setSize k n)
    (by simp) (G3.idx.congr (by simp) hidx3)
    (fun j _ hx => by
      rw [Records.setSize_get _ _ _ _ hklt3, if_neg (fun e => hx (Or.inr e)),
        Records.setPos_get _ _ _ _ hklt2, if_neg (fun e => hx (Or.inr e))])
  have G5 := G4.write fp (le8 k ++ le8 n) (by omega) (fun y h1 h2 h3 => by
    simp only [List.length_append, le8_length] at h2
    refine ⟨Or.inl (Or.inr ⟨h1, by omega⟩), ?_⟩
    omega)
  have hl5 : (writeAt (writeAt s.data (r1.markFreeCompact pos size).2.1
      (le8 0 ++ le8 (r1.markFreeCompact pos size).2.2)) fp (le8 k ++ le8 n)).length =
      s.data.length := by
    rw [length_writeAt _ _ _ (by omega), hl3]; simp; omega
  have G6 := G5.write (fp + 16) bs (by omega) (fun y h1 h2 h3 => by
    rw [hbl] at h2
    refine Or.inl ⟨Or.inl (Or.inr ⟨by omega, by omega⟩), ?_⟩
    omega)
  have hl6 : (writeAt (writeAt (writeAt s.data (r1.markFreeCompact pos size).2.1
      (le8 0 ++ le8 (r1.markFreeCompact pos size).2.2)) fp (le8 k ++ le8 n)) (fp + 16) bs).length =
      s.data.length := by
    rw [length_writeAt _ _ _ (by omega), hl5, hbl]; omega
  have hr : (((({ s with records := r1 } : Storage).freeARegion pos size).updateRecord
      (s.records.get k) fp n).1.dataWrite (fp + 16) bs).records =
      ((r1.markFreeCompact pos size).1.setPos k fp).setSize k n := by
    simp only [Storage.updateRecord, Storage.dataWrite_records, Storage.writeRecord_records,
      Storage.freeARegion_records, hki]
  have hd : (((({ s with records := r1 } : Storage).freeARegion pos size).updateRecord
      (s.records.get k) fp n).1.dataWrite (fp + 16) bs).data =
      writeAt (writeAt (writeAt s.data (r1.markFreeCompact pos size).2.1
        (le8 0 ++ le8 (r1.markFreeCompact pos size).2.2)) fp (le8 k ++ le8 n)) (fp + 16) bs := by
    simp only [Storage.updateRecord, Storage.dataWrite_data, Storage.writeRecord_data,
      Storage.freeARegion_data, hki]
  rcases hfit with hf | hf
  · have hres : ({ s with records := r1 } : Storage).enlargeMoveTo (s.records.get k) n fp fsz =
        (((({ s with records := r1 } : Storage).freeARegion pos size).updateRecord
            (s.records.get k) fp n).1.dataWrite (fp + 16) bs,
          { s.records.get k with pos := fp, size := n }) := by
      simp only [Storage.enlargeMoveTo, RECORD_SIZE, SRec.fin, SRec.valueStart, hpos, hsize, hki,
        Storage.updateRecord, if_neg (show ¬ fsz > n by omega), ← hbs]
    rw [hres, hd, hl6]
  · have hres : ({ s with records := r1 } : Storage).enlargeMoveTo (s.records.get k) n fp fsz =
        ((((({ s with records := r1 } : Storage).freeARegion pos size).updateRecord
            (s.records.get k) fp n).1.dataWrite (fp + 16) bs).freeARegion (fp + 16 + n)
              (fsz - n - 16),
          { s.records.get k with pos := fp, size := n }) := by
      simp only [Storage.enlargeMoveTo, RECORD_SIZE, SRec.fin, SRec.valueStart, hpos, hsize, hki,
        Storage.updateRecord, if_pos (show fsz > n by omega), ← hbs]
    rw [hres]
    rw [← hd, ← hr] at G6
    have := Enlarge.freeARegion_length G6 hx0 (fp + 16 + n) (fsz - n - 16) (fun y h1 h2 => by
      refine Or.inl (Or.inl ⟨Or.inl (Or.inr ⟨by omega, by omega⟩), ?_⟩)
      omega)
    rw [this, hd, hl6]

theorem enlargeValue_len : ∀ (s : Storage) (k n : Nat), SInv s → s.records.live k →
    (s.records.get k).size < n →
    (s.enlargeValue (s.records.get k) n).1.data.length ≤ s.data.length + 16 + n := by
  intro s k n hs hl hlt
  unfold Storage.enlargeValue
  split
  · rw [enlargeAtEnd_len s k n hs hl hlt]; omega
  · cases h1 : s.records.takeFreeAfter (s.records.get k).fin (n - (s.records.get k).size) with
    | some x =>
      obtain ⟨recs, p, fsz⟩ := x
      obtain ⟨e1, _, e3, e4⟩ := Records.takeFreeAfter_some h1
      subst e1
      have := enlargeInPlace_len s k n fsz _ hs hl hlt (by simp only [SRec.fin, RECORD_SIZE]) e3 e4
      simp only
      omega
    | none =>
      cases h2 : s.records.takeFree n with
      | some x =>
        obtain ⟨recs, fp, fsz⟩ := x
        obtain ⟨e1, e2, e3⟩ := Records.takeFree_some h2
        subst e1
        have := enlargeMoveTo_len s k n fp fsz hs hl hlt e2 e3
        simp only
        omega
      | none =>
        simp only
        rw [moveToEnd_len s k n hs hl]
        exact Nat.le_refl _

end AgdbStorage
