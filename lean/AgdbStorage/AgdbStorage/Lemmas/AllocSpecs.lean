import AgdbStorage.Lemmas.AllocGlue
/-
Statements of the per-operation lemmas (each proved in its own file `Alloc<Op>.lean`), so that the
composition (`AllocOps.lean`) and the individual proofs can be developed independently.
-/
namespace AgdbStorage

/-- `enlarge_value` on a live slot -/
def EnlargeSpec : Prop :=
  ∀ (s : Storage) (k n : Nat), SInv s → s.records.live k → (s.records.get k).size < n →
    ResizeOK s (s.enlargeValue (s.records.get k) n).1 k n ∧
    (s.enlargeValue (s.records.get k) n).2 = (s.enlargeValue (s.records.get k) n).1.records.get k

/-- `move_to_end` on a live slot that is not the last block of the file -/
def MoveToEndSpec : Prop :=
  ∀ (s : Storage) (k n : Nat), SInv s → s.records.live k →
    s.data.length ≠ (s.records.get k).pos + 16 + (s.records.get k).size →
    ResizeOK s (s.moveToEnd (s.records.get k) n).1 k n ∧
    (s.moveToEnd (s.records.get k) n).2 = (s.moveToEnd (s.records.get k) n).1.records.get k

/-- `shrink_value` on a live slot -/
def ShrinkSpec : Prop :=
  ∀ (s : Storage) (k n : Nat), SInv s → s.records.live k → n < (s.records.get k).size →
    ResizeOK s (s.shrinkValue (s.records.get k) n).1 k n ∧
    (s.shrinkValue (s.records.get k) n).2 = (s.shrinkValue (s.records.get k) n).1.records.get k

/-- `insert_bytes` -/
def InsertSpec : Prop :=
  ∀ (s : Storage) (bs : Bytes), SInv s →
    ∃ i, (s.insertBytes bs).2 = .ok i ∧ i ≠ 0 ∧ ¬ s.records.live i ∧
      SInv (s.insertBytes bs).1 ∧
      (∀ j, (s.insertBytes bs).1.records.live j ↔ s.records.live j ∨ j = i) ∧
      (s.insertBytes bs).1.val i = bs ∧
      (∀ j, s.records.live j → (s.insertBytes bs).1.val j = s.val j) ∧
      (s.insertBytes bs).1.txn = s.txn

/-- `shrink_to_fit` -/
def OptimizeSpec : Prop :=
  ∀ (s : Storage), SInv s →
    (s.optimize).2 = .ok () ∧ SInv (s.optimize).1 ∧
      (∀ j, (s.optimize).1.records.live j ↔ s.records.live j) ∧
      (∀ j, s.records.live j → (s.optimize).1.val j = s.val j) ∧
      (s.optimize).1.txn = s.txn ∧ (s.optimize).1.records.free = [] ∧
      (s.optimize).1.len = 24 + (((s.optimize).1.records.recs.filter (s.optimize).1.records.isValid).map
        fun r => 16 + r.size).sum

/-- re-reading the record table from the bytes -/
def ReopenSpec : Prop :=
  ∀ (s : Storage), SInv s → Fits s →
    ∃ s', Storage.openImage s.data = .ok s' ∧ SInv s' ∧ s'.data = s.data ∧ s'.txn = 0 ∧
      (∀ j, s'.records.live j ↔ s.records.live j) ∧
      (∀ j, s.records.live j → s'.val j = s.val j)

end AgdbStorage
