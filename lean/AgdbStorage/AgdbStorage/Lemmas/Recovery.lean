import AgdbStorage.Lemmas.Wal
namespace AgdbStorage

/-- Reopening the pair of files yields content `c` and an empty log. -/
def Good (c : Bytes) (d : Disk) : Prop := recover d = ⟨c, []⟩

/-- Running-state invariant: the log is a sequence of complete records whose undo (newest first)
turns the current data file into the committed content. -/
def Inv (c : Bytes) (d : Disk) : Prop :=
  ∃ rs, RecsOk rs ∧ d.wal = serAll rs ∧ undoAll d.data rs = c

theorem good_of_torn (data c : Bytes) (rs : List Rec) (t : Bytes) (hok : RecsOk rs) (ht : Torn t)
    (hu : undoAll data rs = c) : Good c ⟨data, serAll rs ++ t⟩ := by
  simp [Good, recover, parse_ser_torn rs t hok ht, hu]

theorem good_of_inv (c : Bytes) (d : Disk) (h : Inv c d) : Good c d := by
  obtain ⟨data, wal⟩ := d
  obtain ⟨rs, hok, hw, hu⟩ := h
  simp at hw hu
  subst hw
  have := good_of_torn data c rs [] hok torn_nil hu
  simpa using this

theorem crashStates_append (d : Disk) (xs ys : List Sys) :
    crashStates d (xs ++ ys) = crashStates d xs ++ crashStates (applyAll d xs) ys := by
  induction xs generalizing d with
  | nil => simp [crashStates, applyAll]
  | cons x xs ih => simp [crashStates, applyAll, ih]

theorem applyAll_append (d : Disk) (xs ys : List Sys) :
    applyAll d (xs ++ ys) = applyAll (applyAll d xs) ys := by
  simp [applyAll]

theorem crashStates_cons (d : Disk) (s : Sys) (ss : List Sys) :
    crashStates d (s :: ss) =
      d :: (s.partials.map fun p => p.apply d) ++ crashStates (s.apply d) ss := rfl

theorem mem_crash_walAppend (data w b : Bytes) (ss : List Sys) (d : Disk) :
    d ∈ crashStates ⟨data, w⟩ (.walAppend b :: ss) ↔
      d = ⟨data, w⟩ ∨ (∃ k, k < b.length ∧ d = ⟨data, w ++ b.take k⟩) ∨
        d ∈ crashStates ⟨data, w ++ b⟩ ss := by
  rw [crashStates_cons]
  simp only [Sys.partials, Sys.apply, List.mem_cons, List.mem_append, List.mem_map, List.mem_range,
    List.cons_append]
  constructor
  · rintro (h | ⟨_, ⟨k, hk, rfl⟩, rfl⟩ | h)
    · exact Or.inl h
    · exact Or.inr (Or.inl ⟨k, hk, rfl⟩)
    · exact Or.inr (Or.inr h)
  · rintro (h | ⟨k, hk, rfl⟩ | h)
    · exact Or.inl h
    · exact Or.inr (Or.inl ⟨_, ⟨k, hk, rfl⟩, rfl⟩)
    · exact Or.inr (Or.inr h)

theorem mem_crash_dataWrite (data w b : Bytes) (pos : Nat) (ss : List Sys) (d : Disk) :
    d ∈ crashStates ⟨data, w⟩ (.dataWrite pos b :: ss) ↔
      d = ⟨data, w⟩ ∨ (∃ k, k < b.length ∧ d = ⟨writeAt data pos (b.take k), w⟩) ∨
        d ∈ crashStates ⟨writeAt data pos b, w⟩ ss := by
  rw [crashStates_cons]
  simp only [Sys.partials, Sys.apply, List.mem_cons, List.mem_append, List.mem_map, List.mem_range,
    List.cons_append]
  constructor
  · rintro (h | ⟨_, ⟨k, hk, rfl⟩, rfl⟩ | h)
    · exact Or.inl h
    · exact Or.inr (Or.inl ⟨k, hk, rfl⟩)
    · exact Or.inr (Or.inr h)
  · rintro (h | ⟨k, hk, rfl⟩ | h)
    · exact Or.inl h
    · exact Or.inr (Or.inl ⟨_, ⟨k, hk, rfl⟩, rfl⟩)
    · exact Or.inr (Or.inr h)

theorem mem_crash_dataSetLen (data w : Bytes) (n : Nat) (ss : List Sys) (d : Disk) :
    d ∈ crashStates ⟨data, w⟩ (.dataSetLen n :: ss) ↔
      d = ⟨data, w⟩ ∨ d ∈ crashStates ⟨setLen data n, w⟩ ss := by
  rw [crashStates_cons]
  simp [Sys.partials, Sys.apply]

theorem mem_crash_walSetLen (data w : Bytes) (n : Nat) (ss : List Sys) (d : Disk) :
    d ∈ crashStates ⟨data, w⟩ (.walSetLen n :: ss) ↔
      d = ⟨data, w⟩ ∨ d ∈ crashStates ⟨data, setLen w n⟩ ss := by
  rw [crashStates_cons]
  simp [Sys.partials, Sys.apply]

/-- Appending one record to the log: every crash point inside the three `write_all`s (also a torn
one) still recovers to `c`, provided the new record is a no-op on the current data. -/
theorem walInsert_crash (data c : Bytes) (rs : List Rec) (p : Nat) (v : Bytes)
    (hok : RecsOk rs) (hu : undoAll data rs = c) (hp : p < 2 ^ 64) (hv : v.length < 2 ^ 64)
    (hnoop : applyRec data ⟨p, v⟩ = data) :
    (∀ d ∈ crashStates ⟨data, serAll rs⟩ (walInsert p v), Good c d) ∧
      applyAll ⟨data, serAll rs⟩ (walInsert p v) = ⟨data, serAll (rs ++ [⟨p, v⟩])⟩ := by
  constructor
  · intro d hd
    rw [walInsert, mem_crash_walAppend, mem_crash_walAppend, mem_crash_walAppend] at hd
    simp only [crashStates, List.not_mem_nil, or_false] at hd
    rcases hd with rfl | ⟨k, hk, rfl⟩ | rfl | ⟨k, hk, rfl⟩ | rfl | ⟨k, hk, rfl⟩
    · have := good_of_torn data c rs [] hok torn_nil hu
      simpa using this
    · exact good_of_torn data c rs _ hok (torn_short _ (by simp at hk ⊢; omega)) hu
    · exact good_of_torn data c rs _ hok (torn_short _ (by simp)) hu
    · rw [List.append_assoc]
      exact good_of_torn data c rs _ hok (torn_short _ (by simp at hk ⊢; omega)) hu
    · rw [List.append_assoc]
      by_cases hv0 : v = []
      · subst hv0
        have hser : serAll rs ++ (le8 p ++ le8 ([] : Bytes).length) = serAll (rs ++ [⟨p, []⟩]) ++ [] := by
          simp [serAll_append, Rec.ser]
        rw [hser]
        apply good_of_torn _ _ _ _ (recsOk_snoc rs _ hok ⟨hp, by simp⟩) torn_nil
        rw [undoAll_snoc, hnoop, hu]
      · have : Torn (le8 p ++ (le8 v.length ++ [])) :=
          torn_header p v.length [] hv (by
            cases v with
            | nil => exact absurd rfl hv0
            | cons a v => simp)
        simp only [List.append_nil] at this
        exact good_of_torn data c rs _ hok this hu
    · rw [List.append_assoc, List.append_assoc]
      exact good_of_torn data c rs _ hok (torn_header p v.length _ hv (by simp; omega)) hu
  · simp [walInsert, applyAll, Sys.apply, serAll_append, Rec.ser]

end AgdbStorage
