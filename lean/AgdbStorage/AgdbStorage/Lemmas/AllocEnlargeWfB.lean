import AgdbStorage.Lemmas.AllocEnlargeWfA
/-
Well-formedness of the calls of `enlargeInPlace` (branch 2 of `enlarge_value`).
-/
namespace AgdbStorage

theorem enlargeInPlace_wf (s : Storage) (k n fsz e : Nat) (hs : SInv s) (hl : s.records.live k)
    (hlt : (s.records.get k).size < n)
    (he : e = (s.records.get k).pos + 16 + (s.records.get k).size)
    (hm : (e, fsz) ∈ s.records.free)
    (hfit : 16 + fsz = n - (s.records.get k).size ∨ n - (s.records.get k).size ≤ fsz)
    (hb : s.data.length < 2 ^ 64) :
    WfStep s (({ s with records := s.records.removeFree e } : Storage).enlargeInPlace
      (s.records.get k) n fsz).1 := by
  subst he
  have hklt := Records.live_lt hl
  have hki : (s.records.get k).index = k := hl.2
  have hbnd := hs.lay.bnd k _ _ (Records.Blk_of_live hl)
  have hfb := hs.lay.bnd 0 _ _ (Records.Blk_zero.mpr hm)
  generalize hpos : (s.records.get k).pos = pos at *
  generalize hsize : (s.records.get k).size = size at *
  generalize hr1 : s.records.removeFree (pos + 16 + size) = r1
  have hrecs1 : r1.recs = s.records.recs := by rw [← hr1]; rfl
  have hget1 : ∀ j, r1.get j = s.records.get j := Records.get_of_recs_eq hrecs1
  have hklt1 : k < r1.recs.length := by rw [hrecs1]; exact hklt
  have hlive1 : ∀ j, r1.live j ↔ s.records.live j := Records.live_of_recs_eq hrecs1
  -- the `RG` chain up to the state before the optional `free_a_region`
  have G0 := RG.intro hs
  have G1 := G0.takeFree (fun h => h) _ _ hm
  rw [hr1] at G1
  have G2 := G1.suspend k ((hlive1 k).mpr hl) (fun h => h)
  rw [hget1, hpos, hsize] at G2
  have G3 := G2.modify (r' := r1.setSize k n) (by simp)
    (G2.idx.congr (by simp) (Records.setSize_index _ _ _))
    (fun j _ hx => by
      rw [Records.setSize_get _ _ _ _ hklt1, if_neg (fun e => hx (Or.inr e))])
  have G4 := G3.write (pos + 8) (le8 n) (by omega) (fun y h1 h2 h3 => by
    simp only [le8_length] at h2; right; omega)
  have hl4 : (writeAt s.data (pos + 8) (le8 n)).length = s.data.length := by
    rw [length_writeAt _ _ _ (by omega)]; simp; omega
  have G5 := G4.write (pos + 16 + size) (List.replicate (n - size) 0) (by omega)
    (fun y h1 h2 h3 => by
      simp only [List.length_replicate] at h2; left; left; right; omega)
  have hl5 : (writeAt (writeAt s.data (pos + 8) (le8 n)) (pos + 16 + size)
      (List.replicate (n - size) 0)).length = s.data.length := by
    rw [length_writeAt _ _ _ (by omega), hl4]; simp; omega
  -- the steps
  have W1 : WfStep s ({ s with records := r1.setSize k n } : Storage) := WfStep.of_eq rfl rfl
  have W2 := WfStep.dataWrite ({ s with records := r1.setSize k n } : Storage) (pos + 8) (le8 n)
    (Or.inl (by simp only [le8_length]; omega)) (by simp only [le8_length]; omega)
  have W3 := WfStep.dataWrite
    (({ s with records := r1.setSize k n } : Storage).dataWrite (pos + 8) (le8 n))
    (pos + 16 + size) (List.replicate (n - size) 0)
    (Or.inl (by
      simp only [Storage.dataWrite_data, List.length_replicate]; rw [hl4]; omega))
    (by simp only [List.length_replicate]; omega)
  have W := W1.trans (W2.trans W3)
  rcases hfit with hf | hf
  · have hrem : ((size + 16 + fsz - n) != 0) = false := by simp; omega
    have hres : ({ s with records := r1 } : Storage).enlargeInPlace (s.records.get k) n fsz =
        ((({ s with records := r1.setSize k n } : Storage).dataWrite (pos + 8) (le8 n)).dataWrite
          (pos + 16 + size) (List.replicate (n - size) 0), { s.records.get k with size := n }) := by
      simp only [Storage.enlargeInPlace, RECORD_SIZE, SRec.fin, hpos, hsize, hki, hrem,
        Bool.false_eq_true, ↓reduceIte]
    rw [hres]
    exact W
  · have hrem : ((size + 16 + fsz - n) != 0) = true := by simp; omega
    have hres : ({ s with records := r1 } : Storage).enlargeInPlace (s.records.get k) n fsz =
        (((({ s with records := r1.setSize k n } : Storage).dataWrite (pos + 8) (le8 n)).dataWrite
          (pos + 16 + size) (List.replicate (n - size) 0)).freeARegion (pos + 16 + n)
            (size + 16 + fsz - n - 16), { s.records.get k with size := n }) := by
      simp only [Storage.enlargeInPlace, RECORD_SIZE, SRec.fin, hpos, hsize, hki, hrem, ↓reduceIte]
    rw [hres]
    refine W.trans (Enlarge.wfStep_freeARegion (X := fun j => False ∨ j = k) G5
      (fun h => h.elim id (fun e => hl.1 e.symm)) _ _ (fun y h1 h2 => ?_) ?_)
    · left; left; left; right; omega
    · show (writeAt (writeAt s.data (pos + 8) (le8 n)) (pos + 16 + size)
        (List.replicate (n - size) 0)).length < 2 ^ 64
      rw [hl5]; exact hb

end AgdbStorage
