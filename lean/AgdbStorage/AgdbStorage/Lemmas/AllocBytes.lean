import AgdbStorage.Model.Bytes
import AgdbStorage.Lemmas.Bytes
/-
Pointwise (`getElem?`) characterisations of the file primitives: the frame lemmas used by every
allocator proof.  A write at `pos ≤ len` changes exactly the bytes `[pos, pos + |bs|)`.
-/
namespace AgdbStorage

theorem length_writeAt (d bs : Bytes) (pos : Nat) (h : pos ≤ d.length) :
    (writeAt d pos bs).length = max d.length (pos + bs.length) := by
  simp only [writeAt, List.length_append, List.length_take, List.length_replicate,
    List.length_drop]
  omega

theorem getElem?_writeAt (d bs : Bytes) (pos y : Nat) (h : pos ≤ d.length) :
    (writeAt d pos bs)[y]? =
      if y < pos then d[y]? else if y < pos + bs.length then bs[y - pos]? else d[y]? := by
  have h0 : pos - d.length = 0 := by omega
  simp only [writeAt, h0, List.replicate_zero, List.append_nil]
  by_cases h1 : y < pos
  · rw [if_pos h1, List.append_assoc, List.getElem?_append_left (by simp; omega)]
    simp [List.getElem?_take, h1]
  · rw [if_neg h1]
    have hl : (List.take pos d).length = pos := by simp; omega
    rw [List.append_assoc, List.getElem?_append_right (by omega), hl]
    by_cases h2 : y < pos + bs.length
    · rw [if_pos h2, List.getElem?_append_left (by omega)]
    · rw [if_neg h2, List.getElem?_append_right (by omega), List.getElem?_drop]
      congr 1
      omega

theorem length_setLen (d : Bytes) (n : Nat) : (setLen d n).length = n := by
  simp only [setLen, List.length_append, List.length_take, List.length_replicate]
  omega

theorem getElem?_setLen (d : Bytes) (n y : Nat) (h : n ≤ d.length) :
    (setLen d n)[y]? = if y < n then d[y]? else none := by
  have h0 : n - d.length = 0 := by omega
  simp only [setLen, h0, List.replicate_zero, List.append_nil, List.getElem?_take]

theorem getElem?_readAt (d : Bytes) (p n k : Nat) :
    (readAt d p n)[k]? = if k < n then d[p + k]? else none := by
  simp only [readAt, List.getElem?_take, List.getElem?_drop]

theorem length_readAt (d : Bytes) (p n : Nat) : (readAt d p n).length = min n (d.length - p) := by
  simp [readAt]

/-- Reading a range depends only on the bytes of that range. -/
theorem readAt_congr (d d' : Bytes) (p n : Nat) (h : ∀ y, p ≤ y → y < p + n → d'[y]? = d[y]?) :
    readAt d' p n = readAt d p n := by
  apply List.ext_getElem?
  intro k
  rw [getElem?_readAt, getElem?_readAt]
  split
  · exact h _ (by omega) (by omega)
  · rfl

theorem readAt_eq_of_getElem? (d : Bytes) (p n : Nat) (v : Bytes) (hv : v.length = n)
    (h : ∀ k, k < n → d[p + k]? = v[k]?) : readAt d p n = v := by
  apply List.ext_getElem?
  intro k
  rw [getElem?_readAt]
  split
  · exact h k ‹_›
  · rw [List.getElem?_eq_none (by omega)]

theorem getElem?_replicate_zero (n k : Nat) :
    (List.replicate n (0 : UInt8))[k]? = if k < n then some 0 else none := by
  simp [List.getElem?_replicate]

end AgdbStorage
