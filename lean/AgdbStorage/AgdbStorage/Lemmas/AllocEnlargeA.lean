import AgdbStorage.Lemmas.AllocSpecs
/-
`Storage::enlarge_value`, branch 1: the record is the last block of the file (`enlargeAtEnd`).
Also the small helper lemmas shared by the other branches.
-/
namespace AgdbStorage

/-! ### helpers (in namespace `Enlarge` to avoid clashes with the sibling `Alloc*.lean` files) -/

/-- reading `size` old bytes followed by `n - size` freshly written zeros -/
theorem Enlarge.readAt_value_zeros (d : Bytes) (p size n : Nat) (v : Bytes) (hsz : size ≤ n)
    (h1 : readAt d p size = v)
    (h2 : readAt d (p + size) (n - size) = List.replicate (n - size) 0) :
    readAt d p n = v ++ List.replicate (n - size) 0 := by
  have : n = size + (n - size) := by omega
  rw [this, readAt_split, h1, h2]
  congr 2
  omega

/-- the common last step of every branch: leave the generalised invariant -/
theorem Enlarge.resizeOK_of_RG {s s' : Storage} {k n : Nat} {X H : Nat → Prop} {V : Nat → Bytes}
    (hs : SInv s) (hl : s.records.live k) (hn : (s.records.get k).size ≤ n)
    (G : RG s'.records X H s'.data V) (hX : ∀ i, ¬ X i) (hH : ∀ y, ¬ H y)
    (hlive : ∀ j, s'.records.live j ↔ s.records.live j)
    (hsz : (s'.records.get k).size = n)
    (hVk : V k = s.val k ++ List.replicate (n - (s.records.get k).size) 0)
    (hVo : ∀ j, j ≠ k → V j = s.val j)
    (htxn : s'.txn = s.txn) : ResizeOK s s' k n := by
  obtain ⟨h1, h2⟩ := RG.elim' G hX hH
  have hvl := hs.val_length hl
  refine ⟨h1, hlive, hsz, ?_, ?_, htxn⟩
  · rw [h2 k ((hlive k).mpr hl), hVk, hvl, List.take_of_length_le (by omega)]
  · intro j hj hlj
    rw [h2 j ((hlive j).mpr hlj), hVo j hj]

theorem enlargeAtEnd_spec (s : Storage) (k n : Nat) (hs : SInv s) (hl : s.records.live k)
    (hlt : (s.records.get k).size < n)
    (hend : s.data.length = (s.records.get k).pos + 16 + (s.records.get k).size) :
    ResizeOK s (s.enlargeAtEnd (s.records.get k) n).1 k n ∧
      (s.enlargeAtEnd (s.records.get k) n).2 = (s.enlargeAtEnd (s.records.get k) n).1.records.get k := by
  have hklt := Records.live_lt hl
  have hidx := hs.idx
  have hki : (s.records.get k).index = k := hl.2
  have hbnd := hs.lay.bnd k _ _ (Records.Blk_of_live hl)
  have hhdr := hs.hdr k _ _ (Records.Blk_of_live hl)
  generalize hpos : (s.records.get k).pos = pos at *
  generalize hsize : (s.records.get k).size = size at *
  have hgetk : (s.records.setSize k n).get k = { s.records.get k with size := n } := by
    rw [Records.setSize_get _ _ _ _ hklt, if_pos rfl]
  have hlive' : ∀ j, (s.records.setSize k n).live j ↔ s.records.live j :=
    Records.live_congr (Records.setSize_index _ _ _)
  have G0 := RG.intro hs
  have G1 := G0.suspend k hl (fun h => h)
  have G2 := G1.modify (r' := s.records.setSize k n) (by simp)
    (hidx.congr (by simp) (Records.setSize_index _ _ _))
    (fun j _ hx => by
      rw [Records.setSize_get _ _ _ _ hklt, if_neg (fun e => hx (Or.inr e))])
  rw [hpos, hsize] at G2
  have G3 := G2.write (pos + 8) (le8 n) (by omega) (fun y h1 h2 h3 => by
    simp only [le8_length] at h2; right; omega)
  have hl3 : (writeAt s.data (pos + 8) (le8 n)).length = s.data.length := by
    rw [length_writeAt _ _ _ (by omega)]; simp; omega
  have G4 := G3.write s.data.length (List.replicate (n - size) 0) (by omega) (fun y h1 h2 h3 => by
    omega)
  have G5 := G4.congr (X' := fun j => j = k) (H' := fun y => pos ≤ y ∧ y < pos + 16 + n)
    (fun j => by simp) (fun y => by
      rw [hl3]; simp only [le8_length, List.length_replicate, false_or]; omega)
  have G6 := G5.congrV (V' := fun j => if j = k then
      readAt s.data (pos + 16) size ++ List.replicate (n - size) 0
      else readAt s.data ((s.records.get j).pos + 16) (s.records.get j).size)
    (fun j _ hx => by simp only [if_neg hx])
  have hk' : (s.records.setSize k n).live k := (hlive' k).mpr hl
  have hgp : ((s.records.setSize k n).get k).pos = pos := by rw [hgetk]; exact hpos
  have hgs : ((s.records.setSize k n).get k).size = n := by rw [hgetk]
  have G7 := G6.resume k hk' (by rw [hgp, hgs]; intro y h1 h2; exact ⟨h1, h2⟩)
    (by
      rw [hgp, hgs, readAt_writeAt_before _ _ _ _ _ (by omega) (by omega)]
      exact hdr_update _ _ _ _ _ hhdr (by omega))
    (by
      rw [hgp, hgs]
      simp only [if_pos]
      apply Enlarge.readAt_value_zeros _ _ _ _ _ (by omega)
      · rw [readAt_writeAt_before _ _ _ _ _ (by omega) (by omega),
          readAt_writeAt_after _ _ _ _ _ (by omega) (by simp)]
      · have := readAt_writeAt_self (writeAt s.data (pos + 8) (le8 n))
          (List.replicate (n - size) 0) s.data.length (by omega)
        rw [List.length_replicate, hend] at this
        rw [hend]; exact this)
  rw [hgp, hgs] at G7
  have hr : (s.enlargeAtEnd (s.records.get k) n).1.records = s.records.setSize k n := by
    simp only [Storage.enlargeAtEnd, Storage.append_records, Storage.dataWrite_records, hki]
  have hd : (s.enlargeAtEnd (s.records.get k) n).1.data =
      writeAt (writeAt s.data (pos + 8) (le8 n)) s.data.length (List.replicate (n - size) 0) := by
    simp only [Storage.enlargeAtEnd, Storage.append_data, Storage.dataWrite_data, hpos, hsize, hl3]
  rw [← hd, ← hr] at G7
  refine ⟨Enlarge.resizeOK_of_RG hs hl (by omega) G7 (fun _ h => h.2 h.1) (fun _ h => h.2 h.1)
    (fun j => by rw [hr]; exact hlive' j) (by rw [hr]; exact hgs) ?_ ?_ ?_, ?_⟩
  · simp only [if_pos, Storage.val, hpos, hsize]
  · intro j hj; simp only [if_neg hj, Storage.val]
  · simp [Storage.enlargeAtEnd]
  · rw [hr, hgetk]; rfl

end AgdbStorage
