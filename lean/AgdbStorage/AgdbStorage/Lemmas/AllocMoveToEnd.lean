import AgdbStorage.Lemmas.AllocSpecs
/-
`Storage::move_to_end` (record not the last block of the file).
-/
namespace AgdbStorage

/-- `free_a_region` of a hole interval writes its header inside the file: the length is unchanged -/
theorem RG.freeRegion_length {r : Records} {X H : Nat → Prop} {d : Bytes} {V : Nat → Bytes}
    (h : RG r X H d V) (hx0 : ¬ X 0) (a s : Nat) (hin : ∀ y, a ≤ y → y < a + 16 + s → H y) :
    (writeAt d (r.markFreeCompact a s).2.1 (le8 0 ++ le8 (r.markFreeCompact a s).2.2)).length =
      d.length := by
  have hd := h.fdisj hx0
  have hhole : Hole r.free a (a + 16 + s) := by
    intro x hx
    exact h.lay.block_hole (i := 0) ⟨Records.Blk_zero.mpr hx, hx0⟩ (by omega) hin
  obtain ⟨m, _⟩ := Records.markFreeCompact_spec r a s h.sorted hd hhole
  have ha1 := h.lay.hbnd a (hin a (Nat.le_refl _) (by omega))
  have ha2 := h.lay.hbnd (a + 16 + s - 1) (hin _ (by omega) (by omega))
  have hle := m.le_p
  have hsep := m.sep d.length (d.length + 1) (by omega) (Or.inr (by omega))
    (fun x hx => Or.inr (h.lay.bnd 0 x.1 x.2 ⟨Records.Blk_zero.mpr hx, hx0⟩).2)
  rw [length_writeAt d _ _ (by omega)]
  simp only [List.length_append, le8_length]
  omega

theorem moveToEnd_bytes_length (v : Bytes) (n : Nat) :
    (v.take n ++ List.replicate (n - v.length) (0 : UInt8)).length = n := by
  simp only [List.length_append, List.length_take, List.length_replicate]
  omega

theorem moveToEnd_spec : MoveToEndSpec := by
  intro s k n hs hl hne
  have hk0 : k ≠ 0 := hl.1
  have hklt := Records.live_lt hl
  have hbnd := hs.lay.bnd k _ _ (Records.Blk_of_live hl)
  have hvl := hs.val_length hl
  -- the chain
  have G0 := RG.intro hs
  have G1 := G0.suspend k hl (fun h => h)
  have hx0 : ¬ ((fun j => False ∨ j = k) 0) := by
    intro h; rcases h with h | h
    · exact h
    · exact hk0 h.symm
  have hin1 : ∀ y, (s.records.get k).pos ≤ y →
      y < (s.records.get k).pos + 16 + (s.records.get k).size →
      (fun y => False ∨ ((s.records.get k).pos ≤ y ∧
        y < (s.records.get k).pos + 16 + (s.records.get k).size)) y :=
    fun y h1 h2 => Or.inr ⟨h1, h2⟩
  have hlen1 := G1.freeRegion_length hx0 (s.records.get k).pos (s.records.get k).size hin1
  have G2 := G1.freeRegion hx0 (s.records.get k).pos (s.records.get k).size hin1
  -- name the pieces
  have hr : (s.moveToEnd (s.records.get k) n).1.records =
      (((s.records.markFreeCompact (s.records.get k).pos (s.records.get k).size).1.setPos k
        s.data.length).setSize k n) := by
    show (((s.records.markFreeCompact (s.records.get k).pos (s.records.get k).size).1.setPos
      (s.records.get k).index s.data.length).setSize (s.records.get k).index n) = _
    rw [hl.2]
  have hd : (s.moveToEnd (s.records.get k) n).1.data =
      writeAt (writeAt (writeAt s.data
        (s.records.markFreeCompact (s.records.get k).pos (s.records.get k).size).2.1
        (le8 0 ++ le8 (s.records.markFreeCompact (s.records.get k).pos (s.records.get k).size).2.2))
        s.data.length (le8 k ++ le8 n))
        (writeAt (writeAt s.data
        (s.records.markFreeCompact (s.records.get k).pos (s.records.get k).size).2.1
        (le8 0 ++ le8 (s.records.markFreeCompact (s.records.get k).pos (s.records.get k).size).2.2))
        s.data.length (le8 k ++ le8 n)).length
        ((s.val k).take n ++ List.replicate (n - (s.val k).length) 0) := by
    show writeAt (writeAt (writeAt s.data _ _) s.data.length (le8 (s.records.get k).index ++ le8 n))
      _ _ = _
    rw [hl.2]
    rfl
  have htxn : (s.moveToEnd (s.records.get k) n).1.txn = s.txn := rfl
  have h2 : (s.moveToEnd (s.records.get k) n).2 =
      ⟨k, s.data.length, n⟩ := by
    show (⟨(s.records.get k).index, s.data.length, n⟩ : SRec) = _
    rw [hl.2]
  generalize (s.moveToEnd (s.records.get k) n).1 = s' at hr hd htxn ⊢
  rw [h2]
  generalize hmf : s.records.markFreeCompact (s.records.get k).pos (s.records.get k).size = res
    at G2 hlen1 hr hd
  obtain ⟨R1, p0, sz0⟩ := res
  simp only at G2 hlen1 hr hd
  have hrecs1 : R1.recs = s.records.recs := by
    have := Records.markFreeCompact_recs s.records (s.records.get k).pos (s.records.get k).size
    rw [hmf] at this; exact this
  have hget1 : ∀ j, R1.get j = s.records.get j := Records.get_of_recs_eq hrecs1
  have hlt1 : k < R1.recs.length := by rw [hrecs1]; exact hklt
  have hget2 : ∀ j, ((R1.setPos k s.data.length).setSize k n).get j =
      if j = k then ⟨k, s.data.length, n⟩ else s.records.get j := by
    intro j
    rw [Records.setSize_get _ k n j (by simpa using hlt1), Records.setPos_get _ k _ _ hlt1, hget1]
    by_cases hj : j = k
    · simp only [hj, if_true, hl.2]
    · simp only [hj, if_false]
      rw [Records.setPos_get _ k _ _ hlt1, if_neg hj, hget1]
  have hidx2 : ∀ j, (((R1.setPos k s.data.length).setSize k n).get j).index =
      (s.records.get j).index := by
    intro j; rw [Records.setSize_index, Records.setPos_index, hget1]
  have G3 := G2.modify (r' := (R1.setPos k s.data.length).setSize k n) (by simp)
    (IdxInv.congr G2.idx (by simp) (fun j => by rw [Records.setSize_index, Records.setPos_index]))
    (fun j _ hx => by
      rw [hget2, if_neg (fun e => hx (Or.inr e)), hget1])
  have G4 := G3.write s.data.length (le8 k ++ le8 n) (by omega) (fun y h1 _ h3 => by omega)
  have hlen2 : (writeAt (writeAt s.data p0 (le8 0 ++ le8 sz0)) s.data.length
      (le8 k ++ le8 n)).length = s.data.length + 16 := by
    rw [length_writeAt _ _ _ (by omega), hlen1]
    simp only [List.length_append, le8_length]
    omega
  rw [hlen2] at hd
  have hbl := moveToEnd_bytes_length (s.val k) n
  have G5 := G4.write (s.data.length + 16)
    ((s.val k).take n ++ List.replicate (n - (s.val k).length) 0) (by omega)
    (fun y h1 _ h3 => by omega)
  rw [← hd] at G5
  have G6 := G5.congr (X' := fun j => False ∨ j = k)
    (H' := fun y => s.data.length ≤ y ∧ y < s.data.length + 16 + n) (fun _ => Iff.rfl)
    (fun y => by
      simp only [hlen1, hlen2, hbl, List.length_append, le8_length, false_or]
      constructor <;> intro h <;> omega)
  have G7 := G6.congrV
    (V' := fun j => if j = k then (s.val k).take n ++ List.replicate (n - (s.val k).length) 0
      else s.val j)
    (fun j _ hx => by
      have : j ≠ k := fun e => hx (Or.inr e)
      simp only [this, if_false]; rfl)
  have hlive2 : ∀ j, ((R1.setPos k s.data.length).setSize k n).live j ↔ s.records.live j :=
    Records.live_congr hidx2
  have hgk := hget2 k
  rw [if_pos rfl] at hgk
  have G8 := G7.resume k ((hlive2 k).mpr hl)
    (by rw [hgk]; intro y h1 h2; exact ⟨h1, h2⟩)
    (by
      rw [hgk, hd]
      show readAt _ s.data.length 16 = le8 k ++ le8 n
      rw [readAt_writeAt_before _ _ _ _ _ (by omega) (by omega)]
      have := readAt_writeAt_self (writeAt s.data p0 (le8 0 ++ le8 sz0)) (le8 k ++ le8 n)
        s.data.length (by omega)
      simpa using this)
    (by
      rw [hgk, hd]
      show readAt _ (s.data.length + 16) n = _
      simp only [if_true]
      have := readAt_writeAt_self (writeAt (writeAt s.data p0 (le8 0 ++ le8 sz0)) s.data.length
        (le8 k ++ le8 n)) ((s.val k).take n ++ List.replicate (n - (s.val k).length) 0)
        (s.data.length + 16) (by omega)
      rw [hbl] at this
      exact this)
  rw [← hr] at G8 hlive2 hgk
  obtain ⟨i1, i2⟩ := RG.elim' G8 (fun j h => h.2 (h.1.resolve_left (fun f => f)))
    (fun y h => by rw [hgk] at h; exact h.2 h.1)
  refine ⟨⟨i1, hlive2, by rw [hgk], ?_, ?_, htxn⟩, hgk.symm⟩
  · rw [i2 k ((hlive2 k).mpr hl)]; simp
  · intro j hj hjl
    rw [i2 j ((hlive2 j).mpr hjl)]; simp [hj]

end AgdbStorage
