import AgdbStorage.Lemmas.AllocSpecs
/-
Well-formedness of the `StorageData` calls an operation issues (link to C01): `WfStep s s'` says
that `s'` is `s` after some calls, each of them accepted by `FileStorage` (`FsOp.wf`: a write lies
inside the file or starts exactly at its end; all offsets `< 2^64`), and that the data of `s'` is the
data of `s` after those calls.
-/
namespace AgdbStorage

def dataAll (d : Bytes) (cs : List FsOp) : Bytes := cs.foldl dataAfter d

theorem wfOps_append (d : Bytes) (a b : List FsOp) :
    wfOps d (a ++ b) ↔ wfOps d a ∧ wfOps (dataAll d a) b := by
  induction a generalizing d with
  | nil => simp [wfOps, dataAll]
  | cons x xs ih =>
    simp only [List.cons_append, wfOps, dataAll, List.foldl_cons]
    rw [ih]
    simp only [dataAll, and_assoc]

def WfStep (s s' : Storage) : Prop :=
  ∃ cs, s'.trace = s.trace ++ cs ∧ wfOps s.data cs ∧ s'.data = dataAll s.data cs

theorem WfStep.refl (s : Storage) : WfStep s s := ⟨[], by simp, trivial, rfl⟩

theorem WfStep.of_eq {s s' : Storage} (ht : s'.trace = s.trace) (hd : s'.data = s.data) :
    WfStep s s' := ⟨[], by simp [ht], trivial, hd⟩

theorem WfStep.trans {s s' s'' : Storage} (h1 : WfStep s s') (h2 : WfStep s' s'') :
    WfStep s s'' := by
  obtain ⟨a, ta, wa, da⟩ := h1
  obtain ⟨b, tb, wb, db⟩ := h2
  refine ⟨a ++ b, by rw [tb, ta, List.append_assoc], ?_, ?_⟩
  · rw [wfOps_append]; exact ⟨wa, da ▸ wb⟩
  · rw [db, da]; simp [dataAll]

theorem writeAt_nil (d : Bytes) (pos : Nat) (h : pos ≤ d.length) : writeAt d pos [] = d := by
  simp [writeAt, Nat.sub_eq_zero_of_le h]

/-- a `write` inside the file or exactly at its end -/
theorem WfStep.dataWrite (s : Storage) (pos : Nat) (bs : Bytes)
    (h : pos + bs.length ≤ s.data.length ∨ pos = s.data.length) (hb : pos + bs.length < 2 ^ 64) :
    WfStep s (s.dataWrite pos bs) := by
  refine ⟨[.write pos bs], rfl, ⟨⟨h, hb⟩, trivial⟩, ?_⟩
  show writeAt s.data pos bs = if bs.isEmpty then s.data else writeAt s.data pos bs
  by_cases he : bs.isEmpty = true
  · rw [if_pos he]
    have : bs = [] := by simpa using he
    subst this
    refine writeAt_nil _ _ ?_
    rcases h with h | h
    · simp only [List.length_nil, Nat.add_zero] at h; exact h
    · omega
  · rw [if_neg he]

theorem WfStep.writeRecord (s : Storage) (r : SRec)
    (h : r.pos + 16 ≤ s.data.length ∨ r.pos = s.data.length) (hb : r.pos + 16 < 2 ^ 64) :
    WfStep s (s.writeRecord r) :=
  WfStep.dataWrite s r.pos _ (by simpa using h) (by simpa using hb)

theorem WfStep.append (s : Storage) (bs : Bytes) (hb : s.data.length + bs.length < 2 ^ 64) :
    WfStep s (s.append bs) := WfStep.dataWrite s s.data.length bs (Or.inr rfl) hb

theorem WfStep.dataResize (s : Storage) (n : Nat) (hn : n < 2 ^ 64) (hl : s.data.length < 2 ^ 64) :
    WfStep s (s.dataResize n) := ⟨[.resize n], rfl, ⟨⟨hn, hl⟩, trivial⟩, rfl⟩

theorem WfStep.truncate (s : Storage) (n : Nat) (hn : n < 2 ^ 64) (hl : s.data.length < 2 ^ 64) :
    WfStep s (s.truncate n) := by
  unfold Storage.truncate
  split
  · exact WfStep.dataResize s n hn hl
  · exact WfStep.refl s

theorem WfStep.dataFlush (s : Storage) : WfStep s s.dataFlush :=
  ⟨[.flush], rfl, ⟨trivial, trivial⟩, rfl⟩

theorem WfStep.commit (s : Storage) (id : Nat) : WfStep s (s.commit id).1 := by
  unfold Storage.commit
  split
  · exact WfStep.refl s
  · split
    · simp only []
      split
      · exact WfStep.trans (WfStep.of_eq rfl rfl) (WfStep.dataFlush _)
      · exact WfStep.of_eq rfl rfl
    · exact WfStep.refl s

/-! ### statements of the per-operation lemmas -/

def MoveToEndWf : Prop :=
  ∀ (s : Storage) (k n : Nat), SInv s → s.records.live k → s.data.length + n + 16 < 2 ^ 64 →
    WfStep s (s.moveToEnd (s.records.get k) n).1

def EnlargeWf : Prop :=
  ∀ (s : Storage) (k n : Nat), SInv s → s.records.live k → (s.records.get k).size < n →
    s.data.length + n + 16 < 2 ^ 64 → WfStep s (s.enlargeValue (s.records.get k) n).1

def ShrinkWf : Prop :=
  ∀ (s : Storage) (k n : Nat), SInv s → s.records.live k → n < (s.records.get k).size →
    s.data.length + n + 16 < 2 ^ 64 → WfStep s (s.shrinkValue (s.records.get k) n).1

def InsertWf : Prop :=
  ∀ (s : Storage) (bs : Bytes), SInv s → s.data.length + bs.length + 16 < 2 ^ 64 →
    WfStep s (s.insertBytes bs).1

def OptimizeWf : Prop :=
  ∀ (s : Storage), SInv s → s.data.length < 2 ^ 64 → WfStep s (s.optimize).1

end AgdbStorage
