import AgdbStorage.Lemmas.AllocFree
/-
Abstract layouts with holes.  `B i p z` is a set of blocks, `H` a set of bytes owned by nobody
(the intermediate states of an operation); `LayG B len H` says the blocks are disjoint, avoid `H`,
and together with `H` cover `[24, len)`.  `DatG B d V` says the headers of the blocks are on disk
and block `i ≠ 0` holds the value `V i`.
-/
namespace AgdbStorage

abbrev BlkP := Nat → Nat → Nat → Prop

structure LayG (B : BlkP) (len : Nat) (H : Nat → Prop) : Prop where
  len24 : 24 ≤ len
  bnd : ∀ i p z, B i p z → 24 ≤ p ∧ p + 16 + z ≤ len
  disj : ∀ i p z i' p' z', B i p z → B i' p' z' →
    (i = i' ∧ p = p' ∧ z = z') ∨ p + 16 + z ≤ p' ∨ p' + 16 + z' ≤ p
  hfree : ∀ i p z y, B i p z → p ≤ y → y < p + 16 + z → ¬ H y
  hbnd : ∀ y, H y → 24 ≤ y ∧ y < len
  cover : ∀ y, 24 ≤ y → y < len → H y ∨ ∃ i p z, B i p z ∧ p ≤ y ∧ y < p + 16 + z

structure DatG (B : BlkP) (d : Bytes) (V : Nat → Bytes) : Prop where
  hdr : ∀ i p z, B i p z → readAt d p 16 = le8 i ++ le8 z
  ver : readAt d 0 24 = le8 0 ++ (le8 8 ++ le8 1)
  val : ∀ i p z, B i p z → i ≠ 0 → readAt d (p + 16) z = V i

theorem LayG.of_lay {B : BlkP} {len : Nat} (h : Lay B len) : LayG B len (fun _ => False) :=
  ⟨h.len24, h.bnd, h.disj, fun _ _ _ _ _ _ _ hf => hf, fun _ hf => hf.elim,
    fun y h1 h2 => Or.inr (h.cover y h1 h2)⟩

theorem LayG.to_lay {B : BlkP} {len : Nat} {H : Nat → Prop} (h : LayG B len H) (hH : ∀ y, ¬ H y) :
    Lay B len :=
  ⟨h.len24, h.bnd, h.disj, fun y h1 h2 => (h.cover y h1 h2).resolve_left (hH y)⟩

theorem LayG.congr {B B' : BlkP} {len : Nat} {H H' : Nat → Prop} (h : LayG B len H)
    (hB : ∀ i p z, B' i p z ↔ B i p z) (hH : ∀ y, H' y ↔ H y) : LayG B' len H' := by
  refine ⟨h.len24, ?_, ?_, ?_, ?_, ?_⟩
  · intro i p z hb; exact h.bnd i p z ((hB _ _ _).mp hb)
  · intro i p z i' p' z' hb hb'; exact h.disj _ _ _ _ _ _ ((hB _ _ _).mp hb) ((hB _ _ _).mp hb')
  · intro i p z y hb h1 h2 hh; exact h.hfree i p z y ((hB _ _ _).mp hb) h1 h2 ((hH y).mp hh)
  · intro y hh; exact h.hbnd y ((hH y).mp hh)
  · intro y h1 h2
    rcases h.cover y h1 h2 with hh | ⟨i, p, z, hb, hy⟩
    · exact Or.inl ((hH y).mpr hh)
    · exact Or.inr ⟨i, p, z, (hB _ _ _).mpr hb, hy⟩

/-- a block and a hole interval never overlap -/
theorem LayG.block_hole {B : BlkP} {len : Nat} {H : Nat → Prop} (h : LayG B len H)
    {i p z a e : Nat} (hb : B i p z) (hae : a < e) (hin : ∀ y, a ≤ y → y < e → H y) :
    p + 16 + z ≤ a ∨ e ≤ p := by
  by_cases h1 : p + 16 + z ≤ a
  · exact Or.inl h1
  · by_cases h2 : e ≤ p
    · exact Or.inr h2
    · exfalso
      by_cases h3 : p ≤ a
      · exact h.hfree i p z a hb h3 (by omega) (hin a (Nat.le_refl _) (by omega))
      · exact h.hfree i p z p hb (Nat.le_refl _) (by omega) (hin p (by omega) (by omega))

/-- take a block out: its bytes become a hole -/
theorem LayG.remove {B : BlkP} {len : Nat} {H : Nat → Prop} (h : LayG B len H)
    {i0 p0 z0 : Nat} (hb0 : B i0 p0 z0) :
    LayG (fun i p z => B i p z ∧ ¬ (i = i0 ∧ p = p0 ∧ z = z0)) len
      (fun y => H y ∨ (p0 ≤ y ∧ y < p0 + 16 + z0)) := by
  refine ⟨h.len24, ?_, ?_, ?_, ?_, ?_⟩
  · intro i p z hb; exact h.bnd i p z hb.1
  · intro i p z i' p' z' hb hb'; exact h.disj _ _ _ _ _ _ hb.1 hb'.1
  · intro i p z y hb h1 h2 hh
    rcases hh with hh | hh
    · exact h.hfree i p z y hb.1 h1 h2 hh
    · rcases h.disj _ _ _ _ _ _ hb.1 hb0 with e | e | e
      · exact hb.2 e
      · omega
      · omega
  · intro y hh
    rcases hh with hh | hh
    · exact h.hbnd y hh
    · have := h.bnd _ _ _ hb0; omega
  · intro y h1 h2
    rcases h.cover y h1 h2 with hh | ⟨i, p, z, hb, hy⟩
    · exact Or.inl (Or.inl hh)
    · by_cases e : i = i0 ∧ p = p0 ∧ z = z0
      · obtain ⟨e1, e2, e3⟩ := e; subst e1 e2 e3
        exact Or.inl (Or.inr hy)
      · exact Or.inr ⟨i, p, z, ⟨hb, e⟩, hy⟩

/-- put a block into a hole -/
theorem LayG.add {B : BlkP} {len : Nat} {H : Nat → Prop} (h : LayG B len H)
    {i0 p0 z0 : Nat} (hin : ∀ y, p0 ≤ y → y < p0 + 16 + z0 → H y) :
    LayG (fun i p z => B i p z ∨ (i = i0 ∧ p = p0 ∧ z = z0)) len
      (fun y => H y ∧ ¬ (p0 ≤ y ∧ y < p0 + 16 + z0)) := by
  have hb1 := h.hbnd p0 (hin p0 (Nat.le_refl _) (by omega))
  have hb2 := h.hbnd (p0 + 16 + z0 - 1) (hin _ (by omega) (by omega))
  refine ⟨h.len24, ?_, ?_, ?_, ?_, ?_⟩
  · intro i p z hb
    rcases hb with hb | ⟨_, e2, e3⟩
    · exact h.bnd i p z hb
    · subst e2 e3; omega
  · intro i p z i' p' z' hb hb'
    rcases hb with hb | ⟨e1, e2, e3⟩ <;> rcases hb' with hb' | ⟨e1', e2', e3'⟩
    · exact h.disj _ _ _ _ _ _ hb hb'
    · subst e2' e3'
      right; exact h.block_hole hb (by omega) hin
    · subst e2 e3
      right
      have := h.block_hole hb' (by omega) hin
      omega
    · left; omega
  · intro i p z y hb h1 h2 hh
    rcases hb with hb | ⟨_, e2, e3⟩
    · exact h.hfree i p z y hb h1 h2 hh.1
    · subst e2 e3; exact hh.2 ⟨h1, h2⟩
  · intro y hh; exact h.hbnd y hh.1
  · intro y h1 h2
    rcases h.cover y h1 h2 with hh | ⟨i, p, z, hb, hy⟩
    · by_cases e : p0 ≤ y ∧ y < p0 + 16 + z0
      · exact Or.inr ⟨i0, p0, z0, Or.inr ⟨rfl, rfl, rfl⟩, e⟩
      · exact Or.inl ⟨hh, e⟩
    · exact Or.inr ⟨i, p, z, Or.inl hb, hy⟩

/-- the file grows: the new bytes are a hole -/
theorem LayG.extend {B : BlkP} {len : Nat} {H : Nat → Prop} (h : LayG B len H) (len' : Nat)
    (hl : len ≤ len') : LayG B len' (fun y => H y ∨ (len ≤ y ∧ y < len')) := by
  have := h.len24
  refine ⟨by omega, ?_, h.disj, ?_, ?_, ?_⟩
  · intro i p z hb; have := h.bnd i p z hb; omega
  · intro i p z y hb h1 h2 hh
    rcases hh with hh | hh
    · exact h.hfree i p z y hb h1 h2 hh
    · have := h.bnd i p z hb; omega
  · intro y hh
    rcases hh with hh | hh
    · have := h.hbnd y hh; omega
    · omega
  · intro y h1 h2
    by_cases hy : y < len
    · rcases h.cover y h1 hy with hh | hh
      · exact Or.inl (Or.inl hh)
      · exact Or.inr hh
    · exact Or.inl (Or.inr (by omega))

/-- the file shrinks by a hole at its end -/
theorem LayG.truncate {B : BlkP} {len : Nat} {H : Nat → Prop} (h : LayG B len H) (len' : Nat)
    (h24 : 24 ≤ len') (hl : len' ≤ len) (hin : ∀ y, len' ≤ y → y < len → H y) :
    LayG B len' (fun y => H y ∧ y < len') := by
  refine ⟨h24, ?_, h.disj, ?_, ?_, ?_⟩
  · intro i p z hb
    have hbn := h.bnd i p z hb
    refine ⟨hbn.1, ?_⟩
    apply Classical.byContradiction
    intro hc
    exact h.hfree i p z (p + 16 + z - 1) hb (by omega) (by omega) (hin _ (by omega) (by omega))
  · intro i p z y hb h1 h2 hh
    exact h.hfree i p z y hb h1 h2 hh.1
  · intro y hh; have := h.hbnd y hh.1; exact ⟨this.1, hh.2⟩
  · intro y h1 h2
    rcases h.cover y h1 (by omega) with hh | hh
    · exact Or.inl ⟨hh, h2⟩
    · exact Or.inr hh

/-- `mark_free_compact` of a hole interval -/
theorem LayG.merge {B : BlkP} {len : Nat} {H : Nat → Prop} (h : LayG B len H)
    {F F' : FreeMap} {a s p0 sz0 : Nat} (hF : ∀ p z, B 0 p z ↔ (p, z) ∈ F)
    (m : MFC F a s F' p0 sz0) (hin : ∀ y, a ≤ y → y < a + 16 + s → H y) :
    LayG (fun i p z => (i ≠ 0 ∧ B i p z) ∨ (i = 0 ∧ (p, z) ∈ F')) len
      (fun y => H y ∧ ¬ (a ≤ y ∧ y < a + 16 + s)) := by
  have hle := m.le_p
  have hle2 := m.le_e
  have ha1 := h.hbnd a (hin a (Nat.le_refl _) (by omega))
  have ha2 := h.hbnd (a + 16 + s - 1) (hin _ (by omega) (by omega))
  have hFb : ∀ x ∈ F, 24 ≤ x.1 ∧ x.1 + 16 + x.2 ≤ len := fun x hx =>
    h.bnd 0 x.1 x.2 ((hF _ _).mpr hx)
  -- every non-free block is outside the merged region
  have K1 : ∀ i p z, B i p z → i ≠ 0 → p + 16 + z ≤ p0 ∨ p0 + 16 + sz0 ≤ p := by
    intro i p z hb hi
    apply m.sep p (p + 16 + z) (by omega) (h.block_hole hb (by omega) hin)
    intro x hx
    rcases h.disj _ _ _ _ _ _ hb ((hF x.1 x.2).mpr hx) with e | e | e
    · exact absurd e.1 hi
    · exact Or.inl e
    · exact Or.inr e
  have K2a : 24 ≤ p0 := by
    have := m.sep 0 24 (by omega) (Or.inl ha1.1) (fun x hx => Or.inl (hFb x hx).1)
    omega
  have K2b : p0 + 16 + sz0 ≤ len := by
    have := m.sep len (len + 1) (by omega) (Or.inr (by omega)) (fun x hx => Or.inr (hFb x hx).2)
    omega
  have K3 : ∀ y, p0 ≤ y → y < p0 + 16 + sz0 → H y → a ≤ y ∧ y < a + 16 + s := by
    intro y h1 h2 hh
    apply Classical.byContradiction
    intro hc
    have := m.sep y (y + 1) (by omega) (by omega) (fun x hx => by
      have := h.hfree 0 x.1 x.2 y ((hF _ _).mpr hx)
      by_cases c1 : y + 1 ≤ x.1
      · exact Or.inl c1
      · by_cases c2 : x.1 + 16 + x.2 ≤ y
        · exact Or.inr c2
        · exact absurd hh (this (by omega) (by omega)))
    omega
  refine ⟨h.len24, ?_, ?_, ?_, ?_, ?_⟩
  · intro i p z hb
    rcases hb with ⟨_, hb⟩ | ⟨_, hb⟩
    · exact h.bnd i p z hb
    · rcases (m.mem (p, z)).mp hb with e | ⟨e, _⟩
      · simp only [Prod.mk.injEq] at e; omega
      · exact hFb _ e
  · intro i p z i' p' z' hb hb'
    rcases hb with ⟨hi, hb⟩ | ⟨hi, hb⟩ <;> rcases hb' with ⟨hi', hb'⟩ | ⟨hi', hb'⟩
    · exact h.disj _ _ _ _ _ _ hb hb'
    · rcases (m.mem (p', z')).mp hb' with e | ⟨e, _⟩
      · simp only [Prod.mk.injEq] at e
        have := K1 i p z hb hi
        right; omega
      · have := h.disj _ _ _ _ _ _ hb ((hF p' z').mpr e)
        rcases this with e | e | e
        · exact absurd e.1 hi
        · exact Or.inr (Or.inl e)
        · exact Or.inr (Or.inr e)
    · rcases (m.mem (p, z)).mp hb with e | ⟨e, _⟩
      · simp only [Prod.mk.injEq] at e
        have := K1 i' p' z' hb' hi'
        right; omega
      · have := h.disj _ _ _ _ _ _ ((hF p z).mpr e) hb'
        rcases this with e | e | e
        · exact absurd e.1.symm hi'
        · exact Or.inr (Or.inl e)
        · exact Or.inr (Or.inr e)
    · rcases (m.mem (p, z)).mp hb with e | ⟨e, eo⟩ <;>
        rcases (m.mem (p', z')).mp hb' with e' | ⟨e', eo'⟩
      · simp only [Prod.mk.injEq] at e e'; left; omega
      · simp only [Prod.mk.injEq] at e; simp only at eo'; right; omega
      · simp only [Prod.mk.injEq] at e'; simp only at eo; right; omega
      · have := h.disj _ _ _ _ _ _ ((hF p z).mpr e) ((hF p' z').mpr e')
        omega
  · intro i p z y hb h1 h2 hh
    rcases hb with ⟨_, hb⟩ | ⟨_, hb⟩
    · exact h.hfree i p z y hb h1 h2 hh.1
    · rcases (m.mem (p, z)).mp hb with e | ⟨e, _⟩
      · simp only [Prod.mk.injEq] at e
        exact hh.2 (K3 y (by omega) (by omega) hh.1)
      · exact h.hfree 0 p z y ((hF p z).mpr e) h1 h2 hh.1
  · intro y hh; exact h.hbnd y hh.1
  · intro y h1 h2
    have hnew : p0 ≤ y → y < p0 + 16 + sz0 →
        ∃ i p z, ((i ≠ 0 ∧ B i p z) ∨ (i = 0 ∧ (p, z) ∈ F')) ∧ p ≤ y ∧ y < p + 16 + z :=
      fun c1 c2 => ⟨0, p0, sz0, Or.inr ⟨rfl, (m.mem _).mpr (Or.inl rfl)⟩, c1, c2⟩
    rcases h.cover y h1 h2 with hh | ⟨i, p, z, hb, hy⟩
    · by_cases e : a ≤ y ∧ y < a + 16 + s
      · exact Or.inr (hnew (by omega) (by omega))
      · exact Or.inl ⟨hh, e⟩
    · by_cases hi : i = 0
      · subst hi
        have hx := (hF p z).mp hb
        rcases m.inside _ hx with ho | hi'
        · exact Or.inr ⟨0, p, z, Or.inr ⟨rfl, (m.mem _).mpr (Or.inr ⟨hx, ho⟩)⟩, hy⟩
        · simp only at hi'
          exact Or.inr (hnew (by omega) (by omega))
      · exact Or.inr ⟨i, p, z, Or.inl ⟨hi, hb⟩, hy⟩

/-! ### data -/

theorem DatG.frame {B : BlkP} {d d' : Bytes} {V : Nat → Bytes} (h : DatG B d V)
    (hf : ∀ y, (y < 24 ∨ ∃ i p z, B i p z ∧ p ≤ y ∧ y < p + 16 + z) → d'[y]? = d[y]?) :
    DatG B d' V := by
  refine ⟨?_, ?_, ?_⟩
  · intro i p z hb
    rw [← h.hdr i p z hb]
    apply readAt_congr
    intro y h1 h2
    exact hf y (Or.inr ⟨i, p, z, hb, h1, by omega⟩)
  · rw [← h.ver]
    apply readAt_congr
    intro y h1 h2
    exact hf y (Or.inl (by omega))
  · intro i p z hb hi
    rw [← h.val i p z hb hi]
    apply readAt_congr
    intro y h1 h2
    exact hf y (Or.inr ⟨i, p, z, hb, by omega, by omega⟩)

theorem DatG.sub {B B' : BlkP} {d : Bytes} {V : Nat → Bytes} (h : DatG B d V)
    (hs : ∀ i p z, B' i p z → B i p z) : DatG B' d V :=
  ⟨fun i p z hb => h.hdr i p z (hs _ _ _ hb), h.ver, fun i p z hb => h.val i p z (hs _ _ _ hb)⟩

theorem DatG.congrV {B : BlkP} {d : Bytes} {V V' : Nat → Bytes} (h : DatG B d V)
    (hv : ∀ i p z, B i p z → i ≠ 0 → V' i = V i) : DatG B d V' :=
  ⟨h.hdr, h.ver, fun i p z hb hi => by rw [hv i p z hb hi]; exact h.val i p z hb hi⟩

theorem DatG.add {B : BlkP} {d : Bytes} {V : Nat → Bytes} (h : DatG B d V) {i0 p0 z0 : Nat}
    (hh : readAt d p0 16 = le8 i0 ++ le8 z0) (hv : i0 ≠ 0 → readAt d (p0 + 16) z0 = V i0) :
    DatG (fun i p z => B i p z ∨ (i = i0 ∧ p = p0 ∧ z = z0)) d V := by
  refine ⟨?_, h.ver, ?_⟩
  · intro i p z hb
    rcases hb with hb | ⟨e1, e2, e3⟩
    · exact h.hdr i p z hb
    · subst e1 e2 e3; exact hh
  · intro i p z hb hi
    rcases hb with hb | ⟨e1, e2, e3⟩
    · exact h.val i p z hb hi
    · subst e1 e2 e3; exact hv hi

/-- A write that touches only hole bytes (and possibly extends the file) is invisible. -/
theorem write_frame {B : BlkP} {d : Bytes} {H : Nat → Prop} (h : LayG B d.length H)
    (pos : Nat) (bs : Bytes) (hp : pos ≤ d.length)
    (hin : ∀ y, pos ≤ y → y < pos + bs.length → y < d.length → H y) (y : Nat)
    (hy : y < 24 ∨ ∃ i p z, B i p z ∧ p ≤ y ∧ y < p + 16 + z) :
    (writeAt d pos bs)[y]? = d[y]? := by
  rw [getElem?_writeAt d bs pos y hp]
  by_cases h1 : y < pos
  · rw [if_pos h1]
  · rw [if_neg h1]
    by_cases h2 : y < pos + bs.length
    · exfalso
      rcases hy with hy | ⟨i, p, z, hb, c1, c2⟩
      · by_cases h3 : y < d.length
        · have := h.hbnd y (hin y (by omega) h2 h3); omega
        · have := h.len24; omega
      · have := h.bnd i p z hb
        exact h.hfree i p z y hb c1 c2 (hin y (by omega) h2 (by omega))
    · rw [if_neg h2]

end AgdbStorage
