import AgdbStorage.Model.Bytes
import AgdbStorage.Model.Wal
