import AgdbStorage.Model.Bytes
import AgdbStorage.Model.Wal
import AgdbStorage.Model.Driver
