-- This module serves as the root of the `AgdbStorage` library.
-- Import modules here that should be built as part of the library.
import AgdbStorage.Basic
