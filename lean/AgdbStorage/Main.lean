import AgdbStorage.Model.Driver
open AgdbStorage

structure DrvState where
  wal : WalDrv := {}
  st : StDrv := {}
  rd : RdDrv := {}

def step (st : DrvState) (line : String) : DrvState × String :=
  match line.trimAscii.toString.splitOn " " with
  | ["case", n] => ({}, s!"case {n}")
  | "wal" :: rest =>
    let (w, o) := walStep st.wal rest
    ({ st with wal := w }, o)
  | "st" :: rest =>
    let (w, o) := stStep st.st rest
    ({ st with st := w }, o)
  | "rd" :: rest =>
    let (w, o) := rdStep st.rd rest
    ({ st with rd := w }, o)
  | _ => (st, "bad-op")

partial def loop (h : IO.FS.Stream) (out : IO.FS.Stream) (st : DrvState) : IO Unit := do
  let line ← h.getLine
  if line.isEmpty then return ()
  let (st', o) := step st line
  out.putStrLn o
  loop h out st'

def main : IO Unit := do
  let stdin ← IO.getStdin
  let stdout ← IO.getStdout
  loop stdin stdout {}
