import AgdbColl.Model.Outcome
import AgdbColl.Model.Hash
import AgdbColl.Model.MultiMap
import AgdbColl.Model.Db
/-!
Line-protocol driver `collmodel` (see /verif/tools/INTERFACE.md).
Streams: `mm …` (concrete multimap over `u64` keys/values, hash = identity, + the hash functions),
`db …` (aliases / nodes / edges / indexed values at query level).
-/
open AgdbColl

structure DState where
  mm : MM Nat Nat
  db : Db
  /-- the case ran out of fuel (the real call would not have returned): the harness answers `dead`
  for the rest of the case, so does the driver -/
  dead : Bool

def DState.init : DState := ⟨MM.new, Db.init, false⟩

def hid (k : Nat) : Nat := k

/-- generous fuel: every loop of one operation on a table of capacity `c` (possibly doubled) needs fewer steps -/
def fuelFor (m : MM Nat Nat) : Nat := 8 * m.cap + 400

def parseNat? (s : String) : Option Nat :=
  if s.isEmpty then none
  else if s.all Char.isDigit then s.toNat? else none

def parseInt? (s : String) : Option Int :=
  if s.startsWith "-" then (parseNat? (s.drop 1).toString).map fun n => -(Int.ofNat n)
  else (parseNat? s).map Int.ofNat

def hexVal (c : Char) : Option Nat :=
  if '0' ≤ c ∧ c ≤ '9' then some (c.toNat - '0'.toNat)
  else if 'a' ≤ c ∧ c ≤ 'f' then some (c.toNat - 'a'.toNat + 10)
  else none

def hexBytes : List Char → Option (List UInt8)
  | [] => some []
  | [_] => none
  | a :: b :: rest =>
    match hexVal a, hexVal b, hexBytes rest with
    | some x, some y, some r => some (UInt8.ofNat (x * 16 + y) :: r)
    | _, _, _ => none

def parseHex? (s : String) : Option (List UInt8) :=
  if s = "-" then some [] else if s.isEmpty then none else hexBytes s.toList

def outUnit (o : Outcome (MM Nat Nat)) (st : DState) : DState × String :=
  match o with
  | .ok m => ({ st with mm := m }, "ok")
  | .err k => (st, "err:" ++ k)
  | .panic s => (st, "panic:" ++ s)
  | .hugeAlloc s => (st, "hugealloc:" ++ s)
  | .outOfFuel => (st, "timeout")

def outVal {α : Type} (o : Outcome α) (f : α → String) : String :=
  match o with
  | .ok a => f a
  | .err k => "err:" ++ k
  | .panic s => "panic:" ++ s
  | .hugeAlloc s => "hugealloc:" ++ s
  | .outOfFuel => "timeout"

def flushRun (run : Option (String × Nat)) (acc : List String) : List String :=
  match run with
  | some (c, n) => s!"{c}*{n}" :: acc
  | none => acc

/-- slot dump with run-length compression of default-valued Empty / Deleted slots (accumulator reversed) -/
def dumpGo : List (Slot Nat Nat) → Option (String × Nat) → List String → List String
  | [], run, acc => (flushRun run acc).reverse
  | sl :: rest, run, acc =>
    match sl.st with
    | .valid => dumpGo rest none (s!"V{sl.key}:{sl.val}" :: flushRun run acc)
    | st =>
      let c := if st = .empty then "E" else "D"
      if sl.key = 0 ∧ sl.val = 0 then
        match run with
        | some (c', n) =>
          if c' = c then dumpGo rest (some (c, n + 1)) acc
          else dumpGo rest (some (c, 1)) (flushRun run acc)
        | none => dumpGo rest (some (c, 1)) acc
      else dumpGo rest none (s!"{c}!{sl.key}:{sl.val}" :: flushRun run acc)

def dumpSlots (l : List (Slot Nat Nat)) : List String := dumpGo l none []

def stepMM (st : DState) (t : List String) : DState × String :=
  let m := st.mm
  let F := fuelFor m
  match t with
  | ["ins", k, v] =>
    match parseNat? k, parseNat? v with
    | some k, some v => outUnit (insert hid F m k v) st
    | _, _ => (st, "bad-op")
  | ["ior", k, v, p] =>
    match parseNat? k, parseNat? v with
    | some k, some v =>
      let pred? : Option (Nat → Bool) :=
        if p = "any" then some (fun _ => true)
        else if p.startsWith "eq" then (parseNat? (p.drop 2).toString).map fun o => fun x => x == o
        else none
      match pred? with
      | some pred =>
        match insertOrReplace hid F m k pred v with
        | .ok (m', r) => ({ st with mm := m' }, match r with | none => "ok none" | some o => s!"ok {o}")
        | o => (st, outVal o fun _ => "")
      | none => (st, "bad-op")
    | _, _ => (st, "bad-op")
  | ["rk", k] =>
    match parseNat? k with
    | some k => outUnit (removeKey hid F m k) st
    | none => (st, "bad-op")
  | ["rv", k, v] =>
    match parseNat? k, parseNat? v with
    | some k, some v => outUnit (removeValue hid F m k v) st
    | _, _ => (st, "bad-op")
  | ["res", c] =>
    match parseNat? c with
    | some c => if c > 4096 then (st, "bad-op") else outUnit (reserve hid (8 * c + F) m c) st
    | none => (st, "bad-op")
  | ["val", k] =>
    match parseNat? k with
    | some k => (st, outVal (value hid F m k) fun r => match r with | none => "ok none" | some v => s!"ok {v}")
    | none => (st, "bad-op")
  | ["has", k] =>
    match parseNat? k with
    | some k => (st, outVal (value hid F m k) fun r => match r with | none => "ok false" | some _ => "ok true")
    | none => (st, "bad-op")
  | ["vals", k] =>
    match parseNat? k with
    | some k => (st, outVal (values hid F m k) fun vs => String.intercalate " " ("ok" :: vs.map toString))
    | none => (st, "bad-op")
  | ["cnt", k] =>
    match parseNat? k with
    | some k => (st, outVal (values hid F m k) fun vs => s!"ok {vs.length}")
    | none => (st, "bad-op")
  | ["hasv", k, v] =>
    match parseNat? k, parseNat? v with
    | some k, some v => (st, outVal (containsValue hid F m k v) fun b => s!"ok {b}")
    | _, _ => (st, "bad-op")
  | ["iter"] =>
    (st, String.intercalate " " ("ok" :: (iterAll m).map fun (k, v) => s!"{k}:{v}"))
  | ["dump"] =>
    (st, String.intercalate " " (s!"ok len={m.len} cap={m.cap}" :: dumpSlots m.slots))
  | ["hs", x] =>
    match parseHex? x with
    | some bs => (st, s!"ok {(stableHashBytes bs).toNat}")
    | none => (st, "bad-op")
  | ["hi", x] =>
    match parseInt? x with
    | some v => if v < -(2:Int)^63 ∨ v ≥ (2:Int)^63 then (st, "bad-op") else (st, s!"ok {(stableHashI64 v).toNat}")
    | none => (st, "bad-op")
  | _ => (st, "bad-op")

def stepLine (st : DState) (line : String) : DState × String :=
  let toks := line.trimAscii.toString.splitOn " "
  match toks with
  | ["case", _] => (DState.init, line.trimAscii.toString)
  | "mm" :: rest =>
    if st.dead then (st, "dead")
    else
      let (st', o) := stepMM st rest
      if o = "timeout" then ({ st' with dead := true }, o) else (st', o)
  | "db" :: rest =>
    if st.dead then (st, "dead") else
    match Db.step st.db rest with
    | some (db', out) => ({ st with db := db' }, out)
    | none => (st, "bad-op")
  | _ => (st, "bad-op")

partial def loop (h : IO.FS.Stream) (out : IO.FS.Stream) (st : DState) : IO Unit := do
  let line ← h.getLine
  if line.isEmpty then
    return ()
  let (st', o) := stepLine st line
  out.putStrLn o
  loop h out st'

def main : IO Unit := do
  let stdin ← IO.getStdin
  let stdout ← IO.getStdout
  loop stdin stdout DState.init
  stdout.flush
