import AgdbColl.Lemmas.DbInv
/-!
# C10 — aliases form a one-to-one mapping onto existing nodes

Model: `Model/Db.lean` (`IndexedMapImpl` as two maps with the exact `insert` / `remove_key` logic,
`DbImpl::insert_alias / insert_new_alias / remove_alias / remove_node / db_id`, the alias-related
queries incl. rollback of the alias commands, the id allocator with LIFO reuse), mirroring the code
WITH the proposed fix `C10-alias-validation`. `Db.execLegacy` is the pinned code.

`AliasInv db` (Lemmas/DbInv.lean): the alias maps are mutually inverse (a bijection), every alias is
listed once, every aliased id is positive and a live node, no alias is empty.
-/
namespace AgdbColl
open Graph

/-- the alias → node mapping of a database state -/
def Db.resolve (db : Db) (a : Alias) : Option Int := db.al.value a

/-- the node → alias mapping -/
def Db.aliasOf (db : Db) (i : Int) : Option Alias := db.al.key i

/-- **Invariant step** (full): every query preserves `AliasInv`. -/
theorem C10_inv_step (db : Db) (op : DbOp) (h : AliasInv db) : AliasInv (db.exec op).1 :=
  exec_inv db op h

/-- **Invariant over histories** (full): after ANY sequence of queries from the empty database -/
theorem C10_inv_history (ops : List DbOp) : AliasInv (Db.run Db.init ops) := by
  suffices H : ∀ db, AliasInv db → AliasInv (Db.run db ops) from H _ AliasInv_init
  induction ops with
  | nil => intro db h; exact h
  | cons op rest ih => intro db h; exact ih _ (exec_inv db op h)

/-- **One-to-one onto existing nodes** (full): in every reachable state each alias names exactly
one element, which is a live node with positive id; each node has at most one alias; alias → node
and node → alias are inverse; no alias is empty. -/
theorem C10_one_to_one (ops : List DbOp) :
    let db := Db.run Db.init ops
    (∀ a i, db.resolve a = some i ↔ db.aliasOf i = some a) ∧
    (∀ a b i, db.resolve a = some i → db.resolve b = some i → a = b) ∧
    (∀ a i, db.resolve a = some i → 0 < i ∧ db.liveId i = true ∧ a ≠ "-") := by
  have h := C10_inv_history ops
  refine ⟨h.2.inv, ?_, ?_⟩
  · intro a b i ha hb
    have h1 := (h.2.inv a i).mp ha
    have h2 := (h.2.inv b i).mp hb
    rw [h1] at h2; cases h2; rfl
  · intro a i ha
    obtain ⟨x, y, z⟩ := h.2.live a i ha
    refine ⟨x, ?_, z⟩
    simp only [Db.liveId]
    have h1 : ¬ i < 0 := by omega
    have h2 : ¬ i = 0 := by omega
    simp only [h1, h2, if_false]; exact y

/-- what the statement says an alias insertion does to the mapping: the node's previous alias is
dropped, the alias is taken from whoever held it -/
def insertSpec (f : Alias → Option Int) (a : Alias) (i : Int) : Alias → Option Int :=
  fun b => if b = a then some i else if f b = some i then none else f b

/-- **Effect of inserting an alias** (full): a successful `insert().aliases(a).ids(q)` on a
consistent database resolves `q` to a node `i` and changes the mapping exactly by `insertSpec`
(the node's previous alias is replaced, the alias is taken from any node that held it). -/
theorem C10_insert_alias_effect (db : Db) (h : AliasInv db) (q : QId) (a : Alias) (db' : Db) (n : Int)
    (he : db.exec (.ia [q] [a]) = (db', .num n)) :
    ∃ i, db.dbId q = some i ∧ 0 < i ∧ a ≠ "-" ∧ db'.resolve = insertSpec db.resolve a i ∧
      db'.g = db.g := by
  rw [exec_ia_single] at he
  by_cases hc : (a.isEmpty || q.isNegLit) = true
  · rw [if_pos hc] at he; simp [Db.errNotAllowed] at he
  · rw [if_neg hc] at he
    have hae : a.isEmpty = false := by
      cases hx : a.isEmpty
      · rfl
      · exact absurd (by simp [hx]) hc
    have ha : a ≠ "-" := (isEmpty_false_iff a).mp hae
    cases hq : db.dbId q with
    | none => rw [hq] at he; simp [Db.errNotFound] at he
    | some i =>
      rw [hq] at he
      simp only at he
      by_cases hneg : i < 0
      · simp [hneg, Db.errNotAllowed] at he
      · simp only [hneg, if_false] at he
        obtain ⟨hpos, hnode⟩ := dbId_node db h q i hq hneg
        have hdb : db' = { db with al := (Db.insertAlias db.al i a).1 } := (Prod.mk.inj he).1.symm
        subst hdb
        refine ⟨i, rfl, hpos, ha, ?_, rfl⟩
        funext b
        simp only [Db.resolve, IMap.value, insertSpec]
        exact insertAlias_resolve db.al h.2.inv i a b

/-- **Effect of removing an alias** (full): afterwards it does not resolve; every other alias is
unchanged. -/
theorem C10_remove_alias_effect (db : Db) (a : Alias) :
    let db' := (db.exec (.ra [a])).1
    db'.resolve a = none ∧ (∀ b, b ≠ a → db'.resolve b = db.resolve b) ∧ db'.g = db.g := by
  simp only [Db.exec, Db.execWith, Db.raLoop]
  cases hv : db.al.value a with
  | none =>
    refine ⟨?_, ?_, ?_⟩
    · simpa [Db.resolve] using hv
    · intro b _; rfl
    · trivial
  | some i =>
    refine ⟨?_, ?_, ?_⟩
    · simp [Db.resolve, IMap.value, IMap.removeKey_twice, IMap.removeKey_k2v]
    · intro b hb
      simp [Db.resolve, IMap.value, IMap.removeKey_twice, IMap.removeKey_k2v, hb]
    · trivial

/-- **Effect of removing a node** (full): the alias of the removed node stops resolving, every
other alias is unchanged. -/
theorem C10_remove_node_effect (db : Db) (h : AliasInv db) (i : Int) (hpos : 0 < i)
    (hl : db.liveId i = true) :
    let db' := (db.exec (.rm [.id i])).1
    (∀ b, db'.resolve b = if db.resolve b = some i then none else db.resolve b) ∧
      db'.liveId i = false := by
  have hinv := h.2.inv
  have hpos' : i > 0 := hpos
  simp only [Db.exec, Db.execWith, Db.rmLoop, Db.remove, hl, if_true, hpos']
  have hn : db.g.isNode i.toNat = true := by
    simp only [Db.liveId] at hl
    have h1 : ¬ i < 0 := by omega
    have h2 : ¬ i = 0 := by omega
    simpa only [h1, h2, if_false] using hl
  obtain ⟨g1, g2⟩ := removeNode_spec db.g h.1 i.toNat hn
  constructor
  · intro b
    simp only [Db.resolve, Db.removeNode, IMap.value]
    cases hk : db.al.key i with
    | none =>
      simp only
      by_cases hb : AMap.get db.al.k2v b = some i
      · have := (hinv b i).mp hb
        simp only [IMap.key] at hk
        rw [hk] at this; cases this
      · simp [hb]
    | some a0 =>
      simp only [IMap.removeKey_twice, IMap.removeKey_k2v]
      simp only [IMap.key] at hk
      have hk2 := (hinv a0 i).mpr hk
      by_cases e : b = a0
      · subst e; simp [hk2]
      · simp only [e, if_false]
        by_cases hb : AMap.get db.al.k2v b = some i
        · have := (hinv b i).mp hb
          rw [hk] at this; cases this; exact absurd rfl e
        · simp [hb]
  · -- the node is gone
    simp only [Db.liveId, Db.removeNode]
    have h1 : ¬ i < 0 := by omega
    have h2 : ¬ i = 0 := by omega
    simp only [h1, h2, if_false]
    -- the released slot is free
    have : (db.g.removeNode i.toNat).slot i.toNat = .free := by
      unfold Graph.removeNode Graph.release Graph.slot
      have hlt : i.toNat < ((db.g.nodeEdges i.toNat).foldl Graph.removeEdge db.g).slots.length := by
        have hk := (foldl_removeEdge_spec (db.g.nodeEdges i.toNat) db.g h.1).2 _ hn
        rw [isNode_iff] at hk
        obtain ⟨_, o, ii, hs⟩ := hk
        apply Classical.byContradiction
        intro c
        rw [slot_ge _ _ (by omega)] at hs
        cases hs
      simp [List.getD_eq_getElem?_getD, hlt]
    cases hk : db.al.key i <;> simp [Graph.isNode, this]

/-- **Empty aliases and aliases for edges are rejected without effect** (full), for every query
that can create an alias. `ia` is `InsertAliasesQuery` (any number of pairs, the offending pair
anywhere), `nn` / `na` `InsertNodesQuery`, `sv` `InsertValuesQuery`. -/
theorem C10_rejected_without_effect (db : Db) :
    (∀ ids aliases, ids.length = aliases.length →
        (aliases.any Alias.isEmpty = true ∨ ids.any QId.isNegLit = true) →
        db.exec (.ia ids aliases) = (db, .err "Query" "NotAllowed")) ∧
    (∀ count aliases, aliases.any Alias.isEmpty = true →
        db.exec (.nn count aliases) = (db, .err "Query" "NotAllowed")) ∧
    (∀ q, db.exec (.na q "-") = (db, .err "Query" "NotAllowed")) ∧
    (∀ q a i, db.dbId q = some i → i < 0 → db.exec (.na q a) = (db, .err "Query" "NotAllowed")) ∧
    (∀ k v, db.exec (.sv (.alias "-") k v) = (db, .err "Query" "NotAllowed")) := by
  refine ⟨?_, ?_, ?_, ?_, ?_⟩
  · intro ids aliases hl hbad
    simp only [Db.exec, Db.execWith, hl, ne_eq, not_true_eq_false, if_false, Bool.true_and]
    have : (aliases.any Alias.isEmpty || ids.any QId.isNegLit) = true := by
      rcases hbad with h | h <;> simp [h]
    rw [if_pos this]; rfl
  · intro count aliases h
    simp only [Db.exec, Db.execWith, h, Bool.and_self, if_true]; rfl
  · intro q
    simp [Db.exec, Db.execWith, Alias.isEmpty, Db.errNotAllowed]
  · intro q a i hq hneg
    simp only [Db.exec, Db.execWith, Bool.true_and]
    split
    · rfl
    · simp only [hq, hneg, if_true]; rfl
  · intro k v
    simp [Db.exec, Db.execWith, Alias.isEmpty, Db.errNotAllowed]

/-- on a consistent database an alias never resolves to an edge, so an edge id can reach
`InsertAliasesQuery` only literally — which `C10_rejected_without_effect` covers -/
theorem C10_alias_never_resolves_to_edge (db : Db) (h : AliasInv db) (a : Alias) (i : Int)
    (hr : db.dbId (.alias a) = some i) : 0 < i :=
  (h.2.live a i hr).1

/-- **Resolving and selecting agree with the mapping** (full): `select ids` of an alias returns
exactly its node or fails; `select aliases` of an id returns exactly its alias or fails;
`select all aliases` lists exactly the pairs of the mapping (each once, sorted by alias). -/
theorem C10_select_agrees (db : Db) (h : AliasInv db) :
    (∀ a, db.exec (.rs [.alias a]) =
        (db, match db.resolve a with | some i => .ids [i] | none => .err "Db" "NotFound")) ∧
    (∀ i, db.exec (.sa [.id i]) =
        (db, match db.aliasOf i with | some a => .idAlias [(i, a)] | none => .err "Db" "NotFound")) ∧
    (∃ l, db.exec .saa = (db, .aliasId l) ∧ (∀ a i, (a, i) ∈ l ↔ db.resolve a = some i) ∧
        (l.map Prod.fst).Nodup) := by
  refine ⟨?_, ?_, ?_⟩
  · intro a
    simp only [Db.exec, Db.execWith, Db.resolveAll, Db.dbId, Db.resolve]
    cases db.al.value a <;> rfl
  · intro i
    simp only [Db.exec, Db.execWith, Db.saLoop, Db.aliasOf]
    cases db.al.key i <;> rfl
  · refine ⟨Db.sortAliases db.al.k2v, rfl, ?_, ?_⟩
    · intro a i
      simp only [Db.sortAliases, List.mem_mergeSort, Db.resolve, IMap.value]
      exact AMap.mem_iff_get _ h.2.nodup a i
    · have hp : (Db.sortAliases db.al.k2v).Perm db.al.k2v := List.mergeSort_perm _ _
      exact (hp.map Prod.fst).nodup_iff.mpr h.2.nodup

/-! ## The pinned code -/

/-- **Counterexample (pinned code).** `insert().aliases("e").ids(-3)` succeeds on an edge id and the
alias keeps resolving to the removed edge: nodes 1, 2, edge 1→2 (= -3), alias `e` (hex `65`) on -3,
remove -3. -/
theorem C10_edge_alias_counterexample :
    let db := [DbOp.nn 2 [], .ne (.id 1) (.id 2), .ia [.id (-3)] ["65"], .rm [.id (-3)]].foldl
      (fun d o => (d.execLegacy o).1) Db.init
    db.resolve "65" = some (-3) ∧ db.liveId (-3) = false := by
  decide

/-- **Counterexample (pinned code).** Empty aliases are accepted by `InsertNodesQuery`. -/
theorem C10_empty_alias_counterexample :
    ((Db.init.execLegacy (.nn 1 ["-"])).1).resolve "-" = some 1 := by
  decide

/-- non-vacuity: the same history on the fixed code rejects the alias, and a real re-alias + steal
history satisfies the hypotheses of the effect theorems -/
example : (([DbOp.nn 2 [], .ne (.id 1) (.id 2)].foldl (fun d o => (d.exec o).1) Db.init).exec
    (.ia [.id (-3)] ["65"])).2 = .err "Query" "NotAllowed" := by decide

example :
    let db := Db.run Db.init [.nn 2 ["61", "62"], .ia [.id 2] ["61"]]
    db.resolve "61" = some 2 ∧ db.resolve "62" = none ∧ db.aliasOf 1 = none := by decide

end AgdbColl
