import AgdbColl.Model.MultiMapOps
import AgdbColl.Lemmas.Inv
import AgdbColl.Lemmas.Values
import AgdbColl.Lemmas.IndexInv
import AgdbColl.Lemmas.Refine2
import AgdbColl.Lemmas.RemoveComplete
import AgdbColl.Lemmas.ValuesRefine
/-!
# C19 — every query terminates after any history (hashed collections)

Model: `Model/MultiMap.lean` (slot array, exact probing, load factors, rehash grow / shrink /
same-capacity no-op, fuel on every loop), mirroring `multi_map.rs` WITH the proposed fix
`C19-insert-or-replace-wrap`.

`Reachable h m`: `m` is the table after SOME finite history of operations
(`insert`, `insert_or_replace` with any predicate, `remove_key`, `remove_value`, `reserve`) started
from the empty map, for an arbitrary hash function `h`. `C19_every_history_runs` shows that every
history runs to completion, so the closure is over all histories.

Termination statements have the shape `∀ F ≥ bound m, op F m = ok _`: the operation returns
(it does not run out of fuel) and moreover does not panic (`len - 1` underflow, `% 0`).
-/
namespace AgdbColl
set_option linter.unusedSectionVars false

section
variable {K T : Type} [DecidableEq K] [DecidableEq T] [Inhabited K] [Inhabited T]

/-- states after any history; `legacy = true`: with the pinned `insert_or_replace` -/
inductive ReachableW (legacy : Bool) (h : K → Nat) : MM K T → Prop where
  | init : ReachableW legacy h MM.new
  | step {m m' : MM K T} (F : Nat) (op : MOp K T) :
      ReachableW legacy h m → opFuel m op ≤ F → applyOpW legacy h F m op = .ok m' →
      ReachableW legacy h m'

abbrev Reachable (h : K → Nat) (m : MM K T) : Prop := ReachableW false h m
abbrev ReachableLegacy (h : K → Nat) (m : MM K T) : Prop := ReachableW true h m

/-- with enough fuel every mutating operation returns `ok` and keeps the load invariant -/
theorem applyOp_ok (h : K → Nat) (m : MM K T) (op : MOp K T) (hi : Inv m) (F : Nat)
    (hF : opFuel m op ≤ F) : ∃ m', applyOpW false h F m op = .ok m' ∧ Inv m' := by
  cases op with
  | insert k v => exact insert_ok h F m k v hi (by simpa [opFuel, fuelBound] using hF)
  | insertOrReplace k p v =>
    obtain ⟨r, hr, hinv⟩ := insertOrReplace_ok h F m k p v hi (by simpa [opFuel, fuelBound] using hF)
    exact ⟨r.1, by simp [applyOpW, hr], hinv⟩
  | removeKey k => exact removeKey_ok h F m k hi (by simpa [opFuel, fuelBound] using hF)
  | removeValue k v => exact removeValue_ok h F m k v hi (by simpa [opFuel, fuelBound] using hF)
  | reserve c =>
    exact reserve_ok h F m c hi (by simp only [opFuel] at hF; simp only [reserveBound]; omega)

/-- the load invariant holds after every history -/
theorem C19_inv_reachable (h : K → Nat) (m : MM K T) (hr : Reachable h m) : Inv m := by
  induction hr with
  | init => exact Inv_new
  | step F op _ hF hok ih =>
    obtain ⟨m'', h1, h2⟩ := applyOp_ok h _ op ih F hF
    rw [hok] at h1
    cases h1
    exact h2

/-- **Termination of every mutating operation after any history** (full): on a reachable table
each of `insert`, `insert_or_replace`, `remove_key`, `remove_value`, `reserve` (including the
`rehash` grow / shrink loops they run) returns `ok` for every fuel `≥ opFuel m op`, and the result
is again reachable. -/
theorem C19_mutators_terminate (h : K → Nat) (m : MM K T) (hr : Reachable h m) (op : MOp K T) :
    ∃ n, n ≤ opFuel m op ∧ ∀ F, n ≤ F →
      ∃ m', applyOpW false h F m op = .ok m' ∧ Reachable h m' := by
  refine ⟨opFuel m op, Nat.le_refl _, ?_⟩
  intro F hF
  obtain ⟨m', h1, _⟩ := applyOp_ok h m op (C19_inv_reachable h m hr) F hF
  exact ⟨m', h1, ReachableW.step F op hr hF h1⟩

theorem C19_insert_terminates (h : K → Nat) (m : MM K T) (hr : Reachable h m) (k : K) (v : T) :
    ∀ F, 6 * m.cap + 200 ≤ F → ∃ m', insert h F m k v = .ok m' :=
  fun F hF => (insert_ok h F m k v (C19_inv_reachable h m hr) hF).imp fun _ x => x.1

/-- the loop that hangs in the pinned code: with the fix it terminates after any history -/
theorem C19_insert_or_replace_terminates (h : K → Nat) (m : MM K T) (hr : Reachable h m) (k : K)
    (pred : T → Bool) (v : T) :
    ∀ F, 6 * m.cap + 200 ≤ F → ∃ r, insertOrReplace h F m k pred v = .ok r :=
  fun F hF => (insertOrReplace_ok h F m k pred v (C19_inv_reachable h m hr) hF).imp fun _ x => x.1

theorem C19_remove_key_terminates (h : K → Nat) (m : MM K T) (hr : Reachable h m) (k : K) :
    ∀ F, 6 * m.cap + 200 ≤ F → ∃ m', removeKey h F m k = .ok m' :=
  fun F hF => (removeKey_ok h F m k (C19_inv_reachable h m hr) hF).imp fun _ x => x.1

theorem C19_remove_value_terminates (h : K → Nat) (m : MM K T) (hr : Reachable h m) (k : K) (v : T) :
    ∀ F, 6 * m.cap + 200 ≤ F → ∃ m', removeValue h F m k v = .ok m' :=
  fun F hF => (removeValue_ok h F m k v (C19_inv_reachable h m hr) hF).imp fun _ x => x.1

/-- `reserve` = `rehash` to a larger capacity (the grow loop) -/
theorem C19_reserve_terminates (h : K → Nat) (m : MM K T) (hr : Reachable h m) (c : Nat) :
    ∀ F, m.cap + 2 * c + 200 ≤ F → ∃ m', reserve h F m c = .ok m' :=
  fun F hF => (reserve_ok h F m c (C19_inv_reachable h m hr) hF).imp fun _ x => x.1

/-- `value` / `contains` (`iter_key(key).next()`): one call of `MultiMapIterator::next` needs at
most `capacity` steps, on ANY table (no invariant needed) -/
theorem C19_value_terminates (h : K → Nat) (m : MM K T) (k : K) :
    ∀ F, m.cap ≤ F → ∃ r, value h F m k = .ok r :=
  fun F hF => value_ok h F m k hF

/-- histories of a map used as the index multimap (`DbIndex::ids`): `insert`, `remove_value`,
`remove_key`, `reserve` — never `insert_or_replace` -/
inductive ReachableIndex (h : K → Nat) : MM K T → Prop where
  | init : ReachableIndex h MM.new
  | step {m m' : MM K T} (F : Nat) (op : MOp K T) :
      ReachableIndex h m → (∀ k p v, op ≠ .insertOrReplace k p v) → opFuel m op ≤ F →
      applyOpW false h F m op = .ok m' → ReachableIndex h m'

/-- full statement for draining `iter_key(key)` (`values`, `values_count`, `contains_value`; in the
database only the index multimap does this): terminates after any history of the operations the
index multimap uses. (Over histories that ALSO use `insert_or_replace` the statement is false, in the
pinned and in the fixed code: see `values_wrap_example` below and notes/coll.md.) -/
def C19_values_terminates_statement (h : K → Nat) : Prop :=
  ∀ m : MM K T, ReachableIndex h m → ∀ key v F, m.cap + 1 ≤ F →
    (∃ r, values h F m key = .ok r) ∧ (∃ r, containsValue h F m key v = .ok r)

/-- the whole iteration terminates on ANY table in which the slot cyclically before the key's home
position does not hold the key (`NoWrapAt`); `C19_values_terminates` discharges that hypothesis for
every index-multimap state (`C19_index_nowrap`: `free_index` and the rehash probe place a pair at the
FIRST non-`Valid` / unoccupied slot from its home, so a pair `capacity - 1` slots from home would need
`capacity - 1` other `Valid` slots, impossible under the 15/16 load limit). -/
theorem C19_values_terminates_partial (h : K → Nat) (m : MM K T) (key : K) (v : T)
    (hnw : NoWrapAt m.slots key (homePos h m key)) :
    ∀ F, m.cap + 1 ≤ F →
      (∃ r, values h F m key = .ok r) ∧ (∃ r, containsValue h F m key v = .ok r) := by
  intro F hF
  unfold values containsValue
  by_cases h0 : m.cap = 0
  · simp only [h0, if_true]; exact ⟨⟨_, rfl⟩, ⟨_, rfl⟩⟩
  · simp only [h0, if_false]
    have hcapdef : m.cap = m.slots.length := rfl
    have hhome : homePos h m key < m.slots.length := by
      simp only [homePos, h0, if_false]
      rw [← hcapdef]; exact Nat.mod_lt _ (by omega)
    have hd0 : distFrom m.slots.length (homePos h m key) (homePos h m key) = 0 := by simp [distFrom]
    exact ⟨collectLoop_ok key _ m.slots hhome F (by omega) hnw F _ [] hhome (by omega),
      containsValueLoop_ok key v _ m.slots hhome F (by omega) hnw F _ hhome (by omega)⟩

theorem reachableIndex_reachable (h : K → Nat) (m : MM K T) (hr : ReachableIndex h m) :
    Reachable h m := by
  induction hr with
  | init => exact ReachableW.init
  | step F op _ _ hF hok ih => exact ReachableW.step F op ih hF hok

/-- on every state of an index multimap no pair sits in the slot before its home (`NoWrap`) -/
theorem C19_index_nowrap (h : K → Nat) (m : MM K T) (hr : ReachableIndex h m) : NoWrap h m.slots := by
  induction hr with
  | init => intro p hp; simp [MM.new] at hp
  | @step m0 m1 F op hr0 hnior hF hok ih =>
    have hi := C19_inv_reachable h m0 (reachableIndex_reachable h m0 hr0)
    cases op with
    | insert k v =>
      exact insert_nowrap h F m0 m1 k v hi ih (by simpa [opFuel, fuelBound] using hF) hok
    | insertOrReplace k p v => exact absurd rfl (hnior k p v)
    | removeKey k =>
      exact removeKey_nowrap h F m0 m1 k hi ih (by simpa [opFuel, fuelBound] using hF) hok
    | removeValue k v =>
      exact removeValue_nowrap h F m0 m1 k v hi ih (by simpa [opFuel, fuelBound] using hF) hok
    | reserve c => exact reserve_nowrap h F m0 m1 c hi ih hok

/-- **Termination of draining `iter_key`** (full, for the histories of the index multimap): after
any history of `insert` / `remove_key` / `remove_value` / `reserve` (incl. every rehash, grow and
shrink), `values` / `values_count` and `contains_value` return for every fuel `> capacity`. -/
theorem C19_values_terminates (h : K → Nat) : C19_values_terminates_statement (K := K) (T := T) h := by
  intro m hr key v F hF
  have hn := C19_index_nowrap h m hr
  apply C19_values_terminates_partial h m key v _ F hF
  by_cases h0 : m.cap = 0
  · intro p hp; simp only [MM.cap] at h0; omega
  · simp only [homePos, h0, if_false]
    exact hn.at key

/-! ## Functional refinement: the slot table is a multiset of pairs

The abstract state is the family of counts `cnt P slots` for predicates `P` that hold only of
`Valid` slots (`VP P`); `cnt (pairP k v)` is the multiplicity of the pair `(k, v)`, `cnt (keyP k)`
the number of pairs of key `k`, `countValid` the total. -/

/-- the probe-chain invariant holds on every state of an index multimap -/
theorem C19_index_chain (h : K → Nat) (m : MM K T) (hr : ReachableIndex h m) : Chain h m.slots := by
  induction hr with
  | init => intro p hp; simp [MM.new] at hp
  | @step m0 m1 F op hr0 hnior hF hok ih =>
    have hi := C19_inv_reachable h m0 (reachableIndex_reachable h m0 hr0)
    cases op with
    | insert k v =>
      exact (insert_refine h F m0 m1 k v hi ih (by simpa [opFuel, fuelBound] using hF) hok).1
    | insertOrReplace k p v => exact absurd rfl (hnior k p v)
    | removeKey k =>
      exact (removeKey_refine h F m0 m1 k hi ih (by simpa [opFuel, fuelBound] using hF) hok).1
    | removeValue k v => exact (removeValue_refine h F m0 m1 k v hi ih hok).1
    | reserve c => exact (reserve_refine h F m0 m1 c hi ih hok).1

/-- what an operation does to the multiset of pairs (count of the pairs satisfying `P`) -/
def opEffect (op : MOp K T) (P : Slot K T → Bool) (before after : Nat) : Prop :=
  match op with
  | .insert k v => after = before + (if P ⟨.valid, k, v⟩ = true then 1 else 0)
  | .removeValue k v => after = before ∨ after + (if P ⟨.valid, k, v⟩ = true then 1 else 0) = before
  | .removeKey k => (∀ sl, P sl = true → sl.key ≠ k) → after = before
  | .reserve _ => after = before
  | .insertOrReplace _ _ _ => True

/-- what is still missing for a refinement of the WHOLE interface: `values` returns exactly the
values of the key with multiplicity, and `insert_or_replace` replaces a matching pair or adds one
(alias maps) -/
def MultiMap_refines_statement (h : K → Nat) : Prop :=
  ∀ m : MM K T, Reachable h m →
    (∀ k F vs, values h F m k = .ok vs → ∀ v, vs.count v = cnt (pairP k v) m.slots) ∧
    (∀ k pred nv F m' r, insertOrReplace h F m k pred nv = .ok (m', r) →
      ∀ P : Slot K T → Bool, VP P →
        match r with
        | some old => pred old = true ∧
            cnt P m'.slots + (if P ⟨.valid, k, old⟩ = true then 1 else 0) =
              cnt P m.slots + (if P ⟨.valid, k, nv⟩ = true then 1 else 0)
        | none => cnt P m'.slots = cnt P m.slots + (if P ⟨.valid, k, nv⟩ = true then 1 else 0))

/-- **MultiMap_refines** (full for the index multimap's operations): for every state of an index
multimap (any history of `insert` / `remove_key` / `remove_value` / `reserve`, arbitrary hash
function) and the next operation:
* `len` is the number of `Valid` slots;
* `insert k v` adds exactly the pair `(k, v)` (every count `cnt P` grows by `[P (k,v)]`);
* `remove_value k v` removes exactly one pair `(k, v)` if one is stored, otherwise nothing;
* `remove_key k` leaves no pair of key `k` and changes no pair of another key;
* `reserve` — and every `rehash`, grow or shrink, inside the other operations — changes no count;
* `value` / `contains` answer `some v` only for a stored pair `(key, v)` and `none` only if no pair
  of the key is stored.
`values`: `MultiMap_refines_values`. Not covered (see `MultiMap_refines_statement`):
multiplicities of `values`, `insert_or_replace`. -/
theorem MultiMap_refines (h : K → Nat) (m : MM K T) (hr : ReachableIndex h m) :
    m.len = countValid m.slots ∧
    (∀ k v F m', opFuel m (.insert k v) ≤ F → insert h F m k v = .ok m' →
      ∀ P : Slot K T → Bool, VP P →
        cnt P m'.slots = cnt P m.slots + (if P ⟨.valid, k, v⟩ = true then 1 else 0)) ∧
    (∀ k v F m', removeValue h F m k v = .ok m' → ∀ P : Slot K T → Bool, VP P →
      if 0 < cnt (pairP k v) m.slots then
        cnt P m'.slots + (if P ⟨.valid, k, v⟩ = true then 1 else 0) = cnt P m.slots
      else cnt P m'.slots = cnt P m.slots) ∧
    (∀ k F m', opFuel m (.removeKey k) ≤ F → removeKey h F m k = .ok m' →
      cnt (keyP k) m'.slots = 0 ∧
      ∀ P : Slot K T → Bool, VP P → (∀ sl, P sl = true → sl.key ≠ k) → cnt P m'.slots = cnt P m.slots) ∧
    (∀ c F m', reserve h F m c = .ok m' → ∀ P : Slot K T → Bool, VP P → cnt P m'.slots = cnt P m.slots) ∧
    (∀ key F r, value h F m key = .ok r →
      (∀ v, r = some v → 0 < cnt (pairP key v) m.slots) ∧ (r = none → cnt (keyP key) m.slots = 0)) := by
  have hi := C19_inv_reachable h m (reachableIndex_reachable h m hr)
  have hc := C19_index_chain h m hr
  refine ⟨hi.1, ?_, ?_, ?_, ?_, ?_⟩
  · intro k v F m' hF hok
    exact (insert_refine h F m m' k v hi hc (by simpa [opFuel, fuelBound] using hF) hok).2
  · intro k v F m' hok P hP
    by_cases hpos : 0 < cnt (pairP k v) m.slots
    · rw [if_pos hpos]
      exact removeValue_complete h F m m' k v hi hc hok hpos P hP
    · rw [if_neg hpos]
      rcases (removeValue_refine h F m m' k v hi hc hok).2 with a | a
      · exact a P hP
      · exfalso
        have := a (pairP k v) (VP_pairP k v)
        have e1 : pairP k v (⟨.valid, k, v⟩ : Slot K T) = true := by simp [pairP]
        rw [if_pos e1] at this
        omega
  · intro k F m' hF hok
    exact ⟨removeKey_complete h F m m' k hi hc (by simpa [opFuel, fuelBound] using hF) hok,
      (removeKey_refine h F m m' k hi hc (by simpa [opFuel, fuelBound] using hF) hok).2⟩
  · intro c F m' hok
    exact (reserve_refine h F m m' c hi hc hok).2
  · intro key F r hv
    exact value_refine h F m key hc r hv

/-- **MultiMap_refines (partial)**: for every state of an index multimap (any history of
`insert` / `remove_key` / `remove_value` / `reserve`, arbitrary hash function):
`len` is the number of `Valid` slots; `insert` adds exactly the pair; `remove_value` removes
nothing or exactly one pair `(key, value)`; `remove_key` changes no pair of another key; `reserve`
(and every `rehash`, grow or shrink, inside the other operations) changes no count at all;
`value` / `contains` answer `some v` only for a stored pair `(key, v)` and `none` only if no pair of
the key is stored. Missing for the full statement (`MultiMap_refines_statement`): completeness of
the two removal loops, multiplicities of `values`, and `insert_or_replace`. -/
theorem MultiMap_refines_partial (h : K → Nat) (m : MM K T) (hr : ReachableIndex h m) :
    m.len = countValid m.slots ∧
    (∀ (op : MOp K T) (F : Nat) (m' : MM K T), opFuel m op ≤ F → applyOpW false h F m op = .ok m' →
      ∀ P : Slot K T → Bool, VP P → opEffect op P (cnt P m.slots) (cnt P m'.slots)) ∧
    (∀ key F r, value h F m key = .ok r →
      (∀ v, r = some v → 0 < cnt (pairP key v) m.slots) ∧ (r = none → cnt (keyP key) m.slots = 0)) := by
  have hi := C19_inv_reachable h m (reachableIndex_reachable h m hr)
  have hc := C19_index_chain h m hr
  refine ⟨hi.1, ?_, ?_⟩
  · intro op F m' hF hok P hP
    cases op with
    | insert k v =>
      exact (insert_refine h F m m' k v hi hc (by simpa [opFuel, fuelBound] using hF) hok).2 P hP
    | insertOrReplace k p v => trivial
    | removeKey k =>
      exact (removeKey_refine h F m m' k hi hc (by simpa [opFuel, fuelBound] using hF) hok).2 P hP
    | removeValue k v =>
      rcases (removeValue_refine h F m m' k v hi hc hok).2 with a | a
      · exact Or.inl (a P hP)
      · exact Or.inr (a P hP)
    | reserve c => exact (reserve_refine h F m m' c hi hc hok).2 P hP
  · intro key F r hv
    exact value_refine h F m key hc r hv

/-- **`values` agrees with the multiset** (full, as a set): on every state of an index multimap
`values key` (what `search().index(..).value(..)` reads) returns a value iff the pair
`(key, value)` is stored. (Multiplicities are not proved: `MultiMap_refines_statement`.) -/
theorem MultiMap_refines_values (h : K → Nat) (m : MM K T) (hr : ReachableIndex h m) (key : K)
    (F : Nat) (vs : List T) (hv : values h F m key = .ok vs) :
    ∀ v, v ∈ vs ↔ 0 < cnt (pairP key v) m.slots :=
  values_refine h F m key (C19_index_chain h m hr) (C19_index_nowrap h m hr) vs hv

/-- every history runs to completion (so `Reachable` is the closure over ALL histories) -/
theorem C19_every_history_runs (h : K → Nat) (ops : List (MOp K T)) :
    ∀ m, Reachable h m → ∃ m', runOpsW false h ops m = .ok m' ∧ Reachable h m' := by
  induction ops with
  | nil => intro m hr; exact ⟨m, rfl, hr⟩
  | cons op rest ih =>
    intro m hr
    obtain ⟨n, hn, hall⟩ := C19_mutators_terminate h m hr op
    obtain ⟨m1, h1, hr1⟩ := hall (opFuel m op) hn
    obtain ⟨m2, h2, hr2⟩ := ih m1 hr1
    exact ⟨m2, by simp [runOpsW, h1, h2], hr2⟩

theorem runOpsW_reachable (legacy : Bool) (h : K → Nat) (ops : List (MOp K T)) :
    ∀ m m', ReachableW legacy h m → runOpsW legacy h ops m = .ok m' → ReachableW legacy h m' := by
  induction ops with
  | nil => intro m m' hr he; simp [runOpsW] at he; subst he; exact hr
  | cons op rest ih =>
    intro m m' hr he
    simp only [runOpsW] at he
    cases h1 : applyOpW legacy h (opFuel m op) m op with
    | ok m1 =>
      rw [h1] at he
      exact ih m1 m' (ReachableW.step _ op hr (Nat.le_refl _) h1) he
    | err k => rw [h1] at he; cases he
    | panic s => rw [h1] at he; cases he
    | hugeAlloc s => rw [h1] at he; cases he
    | outOfFuel => rw [h1] at he; cases he

end

/-! ## The pinned code: the 65th insertion after 64 insert/remove cycles never returns -/

/-- 64 insert/remove cycles over the distinct keys 0..63 (hash = identity, capacity 64) -/
def cycleOps : List (MOp Nat Nat) :=
  (List.range 64).flatMap fun i => [.insertOrReplace i (fun _ => true) 1, .removeKey i]

/-- what they leave behind: 64 tombstones, no `Empty` slot, `len = 0` -/
def tomb64 : MM Nat Nat := ⟨List.replicate 64 ⟨.deleted, 0, 0⟩, 0⟩

theorem tomb64_reached_legacy : runOpsW true (fun k : Nat => k) cycleOps MM.new = .ok tomb64 := by
  decide +kernel

theorem tomb64_reached : runOpsW false (fun k : Nat => k) cycleOps MM.new = .ok tomb64 := by
  decide +kernel

/-- **Counterexample (pinned code).** After a reachable history (64 insert/remove cycles) the
pinned `insert_or_replace` of a 65th key runs out of every amount of fuel: it never returns.
General divergence lemma `iorLoopLegacy_diverges` + the decided state fact `tomb64_reached_legacy`. -/
theorem C19_tombstone_counterexample :
    ∃ m : MM Nat Nat, ReachableLegacy (fun k : Nat => k) m ∧
      ∀ F, insertOrReplaceLegacy (fun k : Nat => k) F m 64 (fun _ => true) 1 = .outOfFuel := by
  refine ⟨tomb64, runOpsW_reachable true _ cycleOps _ _ ReachableW.init tomb64_reached_legacy, ?_⟩
  intro F
  have hlen : tomb64.slots.length = 64 := by simp only [tomb64, List.length_replicate]
  have hst : ∀ j, j < 64 → getSlot tomb64.slots j = (⟨.deleted, 0, 0⟩ : Slot Nat Nat) := by
    intro j hj
    show (List.replicate 64 _).getD j emptySlot = _
    rw [List.getD_eq_getElem?_getD, List.getElem?_replicate, if_pos hj]
    rfl
  have hdiv := iorLoopLegacy_diverges (64 : Nat) (fun _ : Nat => true) 1 tomb64.slots
    (by intro j hj
        rw [hlen] at hj
        simp only [stAt, hst j hj]
        intro c; cases c)
    (by intro j hj
        rw [hlen] at hj
        rw [hst j hj]
        intro c
        exact absurd c.1 (by decide))
    F 0 none (by rw [hlen]; decide)
  have hg : growIfFull (fun k : Nat => k) F tomb64 = .ok tomb64 := by
    have h1 : tomb64.cap = 64 := hlen
    have h2 : tomb64.len = 0 := rfl
    simp only [growIfFull, h1, h2, maxLen]
    rfl
  have hc : tomb64.cap = 64 := hlen
  simp only [insertOrReplaceLegacy, hg, hc]
  have e : (64 : Nat) % 64 = 0 := rfl
  simp only [e, hdiv]
  rfl

/-- non-vacuity: the same state is reachable with the fixed code, and there the 65th insertion
returns and stores the pair -/
example : Reachable (fun k : Nat => k) tomb64 :=
  runOpsW_reachable false _ cycleOps _ _ ReachableW.init tomb64_reached

example : ∃ m', insertOrReplace (fun k : Nat => k) 584 tomb64 64 (fun _ => true) 1 = .ok (m', none) ∧
    m'.len = 1 ∧ value (fun k : Nat => k) 64 m' 64 = .ok (some 1) := by
  refine ⟨⟨(List.replicate 64 (⟨.deleted, 0, 0⟩ : Slot Nat Nat)).set 0 ⟨.valid, 64, 1⟩, 1⟩, ?_, rfl, ?_⟩
  · decide +kernel
  · decide +kernel

/-- Latent defect of `MultiMapIterator` (NOT reachable through the database API, where maps that
use `insert_or_replace` are never drained with `values`): after 63 insert/remove cycles slot 63 is
the only `Empty` slot; `insert_or_replace(64)` (home 0) passes the 63 tombstones and takes it; now
`values(64)` yields the pair at slot 63, is handed back its start position and goes round again:
with fuel 70 (more than `capacity`) it still runs out (the real code hangs: corpus/C19/mm-iterator-wrap.ops). -/
def wrapTable : MM Nat Nat :=
  ⟨List.replicate 63 ⟨.deleted, 0, 0⟩ ++ [⟨.valid, 64, 7⟩], 1⟩

theorem values_wrap_example :
    runOpsW false (fun k : Nat => k)
      (((List.range 63).flatMap fun i => [MOp.insertOrReplace i (fun _ => true) 1, .removeKey i]) ++
        [.insertOrReplace 64 (fun _ => true) 7]) MM.new = .ok wrapTable ∧
    values (fun k : Nat => k) 70 wrapTable 64 = .outOfFuel := by
  constructor <;> decide +kernel

end AgdbColl
