import AgdbColl.Props.C10
open AgdbColl
#print axioms C10_inv_step
#print axioms C10_inv_history
#print axioms C10_one_to_one
#print axioms C10_insert_alias_effect
#print axioms C10_remove_alias_effect
#print axioms C10_remove_node_effect
#print axioms C10_rejected_without_effect
#print axioms C10_alias_never_resolves_to_edge
#print axioms C10_select_agrees
#print axioms C10_edge_alias_counterexample
#print axioms C10_empty_alias_counterexample
