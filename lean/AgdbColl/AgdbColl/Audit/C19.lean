import AgdbColl.Props.C19
open AgdbColl
#print axioms C19_inv_reachable
#print axioms C19_mutators_terminate
#print axioms C19_insert_terminates
#print axioms C19_insert_or_replace_terminates
#print axioms C19_remove_key_terminates
#print axioms C19_remove_value_terminates
#print axioms C19_reserve_terminates
#print axioms C19_value_terminates
#print axioms C19_values_terminates_partial
#print axioms C19_index_nowrap
#print axioms C19_values_terminates
#print axioms C19_index_chain
#print axioms MultiMap_refines_partial
#print axioms MultiMap_refines
#print axioms MultiMap_refines_values
#print axioms C19_every_history_runs
#print axioms C19_tombstone_counterexample
