def hello := "world"
