import AgdbColl.Lemmas.NoWrap
import AgdbColl.Lemmas.Count
/-!
`rehash` re-establishes `NoWrap` from scratch: every pair of the new table was placed at the first
unoccupied position from its new home, and the table keeps at least two positions free.
-/
namespace AgdbColl
set_option linter.unusedSectionVars false
set_option linter.unusedVariables false

section
variable {K T : Type} [DecidableEq K] [DecidableEq T] [Inhabited K] [Inhabited T]

theorem getSlot_swapSlots (s : List (Slot K T)) (i j k : Nat) (hi : i < s.length) (hj : j < s.length) :
    getSlot (swapSlots s i j) k =
      if k = j then getSlot s i else if k = i then getSlot s j else getSlot s k := by
  simp only [swapSlots, getSlot_set, List.length_set]
  by_cases h1 : j = k
  · subst h1; simp [hj]
  · have h1' : ¬ k = j := fun e => h1 e.symm
    simp only [h1, h1', false_and, if_false]
    by_cases h2 : i = k
    · subst h2; simp [hi]
    · have h2' : ¬ k = i := fun e => h2 e.symm
      simp [h2, h2']

theorem getSlot_setSt_ne (s : List (Slot K T)) (i j : Nat) (st : St) (h : i ≠ j) :
    getSlot (setSt s i st) j = getSlot s j := by
  simp only [setSt, getSlot_set]
  have : ¬ (i = j ∧ i < s.length) := fun c => h c.1
  simp [this]

theorem stAt_setSt (s : List (Slot K T)) (i j : Nat) (st : St) (hi : i < s.length) :
    stAt (setSt s i st) j = if i = j then st else stAt s j := by
  simp only [setSt, stAt_set]
  by_cases e : i = j
  · subst e; simp [hi]
  · simp [e]

/-- if all bits but one are set, at least `length - 1` are -/
theorem count_all_but_one_true (occ : List Bool) (p : Nat) (hp : p < occ.length)
    (hall : ∀ q, q < occ.length → q ≠ p → occ.getD q false = true) : occ.length ≤ countTrue occ + 1 := by
  have hset := List.countP_set (p := fun b : Bool => b) (l := occ) (a := true) hp
  have hfull : ∀ a ∈ occ.set p true, (fun b : Bool => b) a = true := by
    intro a ha
    obtain ⟨j, hj, rfl⟩ := List.getElem_of_mem ha
    have hj' : j < occ.length := by simpa using hj
    rw [List.getElem_set]
    split
    · rfl
    · rename_i c
      have := hall j hj' (fun x => c x.symm)
      simpa [List.getD_eq_getElem?_getD, hj'] using this
  have hc := (List.countP_eq_length (p := fun b : Bool => b)).mpr hfull
  rw [List.length_set] at hc
  rw [hc] at hset
  simp only [if_true] at hset
  simp only [countTrue]
  omega

/-- the occupancy probe returns the FIRST unoccupied position in probe order -/
theorem probeOcc_first (occ : List Bool) (new start : Nat) (hs : start < new)
    (hex : ∃ j, j < new ∧ occ.getD j false = false) :
    ∀ fuel pos p, pos < new →
      (∀ q, q < new → distFrom new start q < distFrom new start pos → occ.getD q false = true) →
      probeOcc occ new fuel pos = .ok p →
      p < new ∧ occ.getD p false = false ∧
        ∀ q, q < new → distFrom new start q < distFrom new start p → occ.getD q false = true := by
  intro fuel
  induction fuel with
  | zero => intro pos p _ _ h; simp [probeOcc] at h
  | succ n ih =>
    intro pos p hp hI h
    unfold probeOcc at h
    by_cases hf : occ.getD pos false = false
    · simp only [hf, if_true] at h
      cases h
      exact ⟨hp, hf, hI⟩
    · simp only [hf, if_false] at h
      have hft : occ.getD pos false = true := by
        cases hb : occ.getD pos false
        · exact absurd hb hf
        · rfl
      apply ih (nextPos new pos) p (nextPos_lt _ _ hp) _ h
      intro q hq hd
      by_cases hw : nextPos new pos = start
      · obtain ⟨j, hj, hjf⟩ := hex
        exfalso
        have hne : j ≠ pos := by
          intro e; subst e; rw [hjf] at hft; cases hft
        have := hI j hj (dist_lt_of_next_eq _ _ _ _ hs hp hj hne hw)
        rw [hjf] at this; cases this
      · have := distFrom_next new start pos hs hp hw
        by_cases e : distFrom new start q = distFrom new start pos
        · have := dist_inj _ _ _ _ hs hp hq e
          subst this; exact hft
        · exact hI q hq (by omega)

/-- the entry about to be placed is not counted among the occupied positions -/
theorem placed_count (new L : Nat) (s : List (Slot K T)) (i : Nat) (occ : List Bool)
    (inv : RInv new L s i occ) (hnewL : new ≤ L) (hiL : i < L) (hst : stAt s i = .valid)
    (hpl : ¬ (i < new ∧ occ.getD i false = true)) : countTrue occ + 1 ≤ countValid s := by
  by_cases hin : i < new
  · have hoi : occ.getD i false = false := by
      cases hb : occ.getD i false
      · rfl
      · exact absurd ⟨hin, hb⟩ hpl
    have hdrop := countValid_dropValue s i hst
    have h1 := countTrue_le_countValid_take occ (dropValue s i)
      (by rw [length_dropValue, inv.occLen, inv.len]; exact hnewL)
      (by
        intro j hj hb
        have hj' : j < new := by rw [← inv.occLen]; exact hj
        have hne : i ≠ j := by
          intro e; subst e; rw [hoi] at hb; cases hb
        have := inv.placed j hj' hb
        simp only [dropValue, stAt_set]
        have c : ¬ (i = j ∧ i < s.length) := fun x => hne x.1
        simp [c, this])
    have h2 := countValid_take_add_drop (dropValue s i) occ.length
    omega
  · have h1 := countTrue_le_countValid_take occ s (by rw [inv.occLen, inv.len]; exact hnewL)
      (by intro j hj hb; exact inv.placed j (by rw [← inv.occLen]; exact hj) hb)
    rw [inv.occLen] at h1
    have h2 := countValid_take_lt s new i (by omega) hst
    omega

/-- additional loop invariant: unplaced `Valid` entries below `new` live in `[i, cur)`; placed
entries are not in the slot before their (new) home -/
structure RInv2 (h : K → Nat) (new cur : Nat) (s : List (Slot K T)) (i : Nat) (occ : List Bool) : Prop where
  unplaced : ∀ j, j < new → stAt s j = .valid → occ.getD j false = false → i ≤ j ∧ j < cur
  nowrap : ∀ j, j < new → occ.getD j false = true →
    nextPos new j ≠ h (getSlot s j).key % new
  path : ∀ j, j < new → occ.getD j false = true → ∀ q, q < new →
    distFrom new (h (getSlot s j).key % new) q < distFrom new (h (getSlot s j).key % new) j →
    occ.getD q false = true

theorem occ_mono (occ : List Bool) (p q : Nat) (h : occ.getD q false = true) :
    (occ.set p true).getD q false = true := by
  rw [getD_set_occ]; split
  · rfl
  · exact h

theorem rehashLoop_nowrap (h : K → Nat) (F cur new L V : Nat) (hnew : 0 < new) (hcurL : cur ≤ L)
    (hnewL : new ≤ L) (hV : V + 2 ≤ new) (P : Slot K T → Bool) (hP : VP P) (C : Nat) :
    ∀ fuel (s : List (Slot K T)) i occ s', RInv new L s i occ → RInv2 h new cur s i occ → i ≤ cur →
      countValid s = V → cnt P s = C → rehashLoop h F cur new fuel s i occ = .ok s' →
      s'.length = L ∧
        (∀ j, j < new → stAt s' j = .valid → nextPos new j ≠ h (getSlot s' j).key % new) ∧
        (∀ j, j < new → stAt s' j = .valid → ∀ q, q < new →
          distFrom new (h (getSlot s' j).key % new) q < distFrom new (h (getSlot s' j).key % new) j →
          stAt s' q = .valid) ∧
        cnt P s' = C ∧ (∀ j, new ≤ j → j < cur → stAt s' j ≠ .valid) := by
  intro fuel
  induction fuel with
  | zero => intro s i occ s' _ _ _ _ _ hr; simp [rehashLoop] at hr
  | succ n ih =>
    intro s i occ s' inv inv2 hi hcv hcn hr
    unfold rehashLoop at hr
    by_cases hic : i = cur
    · simp only [hic, if_true] at hr
      cases hr
      subst hic
      have hocc : ∀ j, j < new → stAt s j = .valid → occ.getD j false = true := by
        intro j hj hv
        cases hb : occ.getD j false with
        | true => rfl
        | false =>
          have := inv2.unplaced j hj hv hb
          omega
      refine ⟨inv.len, ?_, ?_, hcn, inv.high⟩
      · intro j hj hv
        exact inv2.nowrap j hj (hocc j hj hv)
      · intro j hj hv q hq hd
        exact inv.placed q hq (inv2.path j hj (hocc j hj hv) q hq hd)
    · simp only [hic, if_false] at hr
      have hiL : i < L := by omega
      have hiS : i < s.length := by rw [inv.len]; exact hiL
      cases hst : stAt s i with
      | empty =>
        simp only [hst] at hr
        refine ih s (i + 1) occ s' ?_ ?_ (by omega) hcv hcn hr
        · refine ⟨inv.len, inv.occLen, inv.placed, ?_⟩
          intro j hj1 hj2
          by_cases e : j = i
          · subst e; simp [hst]
          · exact inv.high j hj1 (by omega)
        · refine ⟨?_, inv2.nowrap, inv2.path⟩
          intro j hj hv hb
          have := inv2.unplaced j hj hv hb
          have hne : j ≠ i := by
            intro e; subst e; rw [hst] at hv; cases hv
          omega
      | deleted =>
        simp only [hst] at hr
        have hnv : ∀ s2 : List (Slot K T), s2 = (if i < new then setSt s i .empty else s) →
            RInv new L s2 (i + 1) occ ∧ RInv2 h new cur s2 (i + 1) occ ∧ countValid s2 = V ∧
              cnt P s2 = C := by
          intro s2 hs2
          have hst2 : ∀ k, stAt s2 k = .valid → k ≠ i ∧ stAt s k = .valid := by
            intro k hk
            by_cases hin : i < new
            · simp only [hin, if_true] at hs2
              subst hs2
              rw [stAt_setSt s i k .empty hiS] at hk
              by_cases e : i = k
              · simp [e] at hk
              · simp only [e, if_false] at hk
                exact ⟨fun x => e x.symm, hk⟩
            · simp only [hin, if_false] at hs2
              subst hs2
              refine ⟨?_, hk⟩
              intro e; subst e; rw [hst] at hk; cases hk
          have hst2' : ∀ k, k ≠ i → stAt s2 k = stAt s k ∧ getSlot s2 k = getSlot s k := by
            intro k hk
            by_cases hin : i < new
            · simp only [hin, if_true] at hs2
              subst hs2
              refine ⟨?_, getSlot_setSt_ne s i k .empty (fun x => hk x.symm)⟩
              rw [stAt_setSt s i k .empty hiS]
              have : ¬ i = k := fun x => hk x.symm
              simp [this]
            · simp only [hin, if_false] at hs2
              subst hs2
              exact ⟨rfl, rfl⟩
          have hlen2 : s2.length = L := by
            by_cases hin : i < new
            · simp only [hin, if_true] at hs2; subst hs2; simp [length_setSt, inv.len]
            · simp only [hin, if_false] at hs2; subst hs2; exact inv.len
          have hcv2 : countValid s2 = V := by
            by_cases hin : i < new
            · simp only [hin, if_true] at hs2
              subst hs2
              have hc := countValid_set s i { getSlot s i with st := .empty } hiS
              have e1 : ¬ stAt s i = .valid := by rw [hst]; intro c; cases c
              have e2 : ¬ ({ getSlot s i with st := St.empty } : Slot K T).st = .valid := by
                intro c; cases c
              rw [if_neg e1, if_neg e2] at hc
              exact (hc : countValid (setSt s i .empty) = countValid s).trans hcv
            · simp only [hin, if_false] at hs2; subst hs2; exact hcv
          have hcn2 : cnt P s2 = C := by
            by_cases hin : i < new
            · simp only [hin, if_true] at hs2
              subst hs2
              have e1 : stAt s i ≠ .valid := by rw [hst]; intro c; cases c
              have e2 : ({ getSlot s i with st := St.empty } : Slot K T).st ≠ .valid := by
                intro c; cases c
              exact (cnt_set_nonvalid P hP s i _ hiS e1 e2).trans hcn
            · simp only [hin, if_false] at hs2; subst hs2; exact hcn
          refine ⟨⟨hlen2, inv.occLen, ?_, ?_⟩, ⟨?_, ?_, ?_⟩, hcv2, hcn2⟩
          · intro j hj hb
            have hv := inv.placed j hj hb
            have hne : j ≠ i := by
              intro e; subst e; rw [hst] at hv; cases hv
            rw [(hst2' j hne).1]; exact hv
          · intro j hj1 hj2 hv
            obtain ⟨hne, hv'⟩ := hst2 j hv
            exact inv.high j hj1 (by omega) hv'
          · intro j hj hv hb
            obtain ⟨hne, hv'⟩ := hst2 j hv
            have := inv2.unplaced j hj hv' hb
            omega
          · intro j hj hb
            have hv := inv.placed j hj hb
            have hne : j ≠ i := by
              intro e; subst e; rw [hst] at hv; cases hv
            rw [(hst2' j hne).2]
            exact inv2.nowrap j hj hb
          · intro j hj hb
            have hv := inv.placed j hj hb
            have hne : j ≠ i := by
              intro e; subst e; rw [hst] at hv; cases hv
            rw [(hst2' j hne).2]
            exact inv2.path j hj hb
        obtain ⟨a, b, c, d⟩ := hnv _ rfl
        exact ih _ (i + 1) occ s' a b (by omega) c d hr
      | valid =>
        simp only [hst] at hr
        by_cases hpl : i < new ∧ occ.getD i false = true
        · simp only [hpl, and_self, if_true] at hr
          refine ih s (i + 1) occ s' ?_ ?_ (by omega) hcv hcn hr
          · refine ⟨inv.len, inv.occLen, inv.placed, ?_⟩
            intro j hj1 hj2
            by_cases e : j = i
            · subst e; omega
            · exact inv.high j hj1 (by omega)
          · refine ⟨?_, inv2.nowrap, inv2.path⟩
            intro j hj hv hb
            have := inv2.unplaced j hj hv hb
            have hne : j ≠ i := by
              intro e; subst e; rw [hpl.2] at hb; cases hb
            omega
        · simp only [hpl, if_false] at hr
          have hcnt := placed_count new L s i occ inv hnewL hiL hst hpl
          have hhome : h (getSlot s i).key % new < new := Nat.mod_lt _ hnew
          have hex : ∃ j, j < new ∧ occ.getD j false = false := by
            have h3 : countTrue occ < occ.length := by rw [inv.occLen]; omega
            obtain ⟨j, hj, hjf⟩ := exists_false occ h3
            exact ⟨j, by rw [← inv.occLen]; exact hj, hjf⟩
          cases hpr : probeOcc occ new F (h (getSlot s i).key % new) with
          | ok p =>
            rw [hpr] at hr
            simp only at hr
            obtain ⟨hpn, hpf, hfirst⟩ := probeOcc_first occ new _ hhome hex F _ p hhome
              (by intro q _ hd; simp [distFrom] at hd) hpr
            have hpS : p < s.length := by rw [inv.len]; omega
            have hpO : p < occ.length := by rw [inv.occLen]; exact hpn
            have hne_ip : ∀ j, j < new → occ.getD j false = true → j ≠ i := by
              intro j hj hb e
              subst e
              exact hpl ⟨hj, hb⟩
            refine ih (swapSlots s i p) (if i = p then i + 1 else i) (occ.set p true) s' ?_ ?_
              (by split <;> omega) (by rw [countValid_swapSlots s i p hiS hpS]; exact hcv)
              (by rw [cnt_swapSlots P s i p hiS hpS]; exact hcn) hr
            · refine ⟨by simp [length_swapSlots, inv.len], by simp [inv.occLen], ?_, ?_⟩
              · intro k hk hb
                rw [stAt_swapSlots s i p k hiS hpS]
                rw [getD_set_occ] at hb
                by_cases e : k = p
                · simp [e, hst]
                · have e' : ¬ (p = k ∧ p < occ.length) := fun c => e c.1.symm
                  simp only [e', if_false] at hb
                  have hki := hne_ip k hk hb
                  simp only [e, hki, if_false]
                  exact inv.placed k hk hb
              · intro k hk1 hk2
                rw [stAt_swapSlots s i p k hiS hpS]
                have e1 : k ≠ p := by omega
                simp only [e1, if_false]
                by_cases hip : i = p
                · simp only [hip, if_true] at hk2
                  have e2 : k ≠ i := by omega
                  simp only [e2, if_false]
                  exact inv.high k hk1 (by omega)
                · simp only [hip, if_false] at hk2
                  have e2 : k ≠ i := by omega
                  simp only [e2, if_false]
                  exact inv.high k hk1 hk2
            · refine ⟨?_, ?_, ?_⟩
              · intro j hj hv hb
                rw [getD_set_occ] at hb
                have hjp : j ≠ p := by
                  intro e; subst e; simp [hpO] at hb
                have e' : ¬ (p = j ∧ p < occ.length) := fun c => hjp c.1.symm
                simp only [e', if_false] at hb
                rw [stAt_swapSlots s i p j hiS hpS] at hv
                simp only [hjp, if_false] at hv
                by_cases hji : j = i
                · subst hji
                  simp only [if_true] at hv
                  have := inv2.unplaced p hpn hv hpf
                  have hip : ¬ j = p := hjp
                  simp only [hip, if_false]
                  omega
                · simp only [hji, if_false] at hv
                  have := inv2.unplaced j hj hv hb
                  split <;> omega
              · intro j hj hb
                rw [getD_set_occ] at hb
                rw [getSlot_swapSlots s i p j hiS hpS]
                by_cases hjp : j = p
                · subst hjp
                  simp only [if_true]
                  intro hw
                  have hall := count_all_but_one_true occ j hpO (by
                    intro q hq hne
                    have hq' : q < new := by rw [← inv.occLen]; exact hq
                    exact hfirst q hq' (dist_lt_of_next_eq _ _ _ _ hhome hpn hq' hne hw))
                  rw [inv.occLen] at hall
                  omega
                · have e' : ¬ (p = j ∧ p < occ.length) := fun c => hjp c.1.symm
                  simp only [e', if_false] at hb
                  have hji := hne_ip j hj hb
                  simp only [hjp, hji, if_false]
                  exact inv2.nowrap j hj hb
              · intro j hj hb q hq
                rw [getD_set_occ] at hb
                rw [getSlot_swapSlots s i p j hiS hpS]
                by_cases hjp : j = p
                · subst hjp
                  simp only [if_true]
                  intro hd
                  exact occ_mono occ j q (hfirst q hq hd)
                · have e' : ¬ (p = j ∧ p < occ.length) := fun c => hjp c.1.symm
                  simp only [e', if_false] at hb
                  have hji := hne_ip j hj hb
                  simp only [hjp, hji, if_false]
                  intro hd
                  exact occ_mono occ p q (inv2.path j hj hb q hq hd)
          | err k => rw [hpr] at hr; simp [Outcome.cast] at hr
          | panic k => rw [hpr] at hr; simp [Outcome.cast] at hr
          | hugeAlloc k => rw [hpr] at hr; simp [Outcome.cast] at hr
          | outOfFuel => rw [hpr] at hr; simp [Outcome.cast] at hr

theorem stAt_append_replicate_ge (s : List (Slot K T)) (n j : Nat) (hj : s.length ≤ j) :
    stAt (s ++ List.replicate n emptySlot) j = .empty := by
  simp only [stAt, getSlot_eq, List.getElem?_append, List.getElem?_replicate]
  have : ¬ j < s.length := by omega
  simp only [this, if_false]
  split <;> simp [emptySlot]

theorem getSlot_take (s : List (Slot K T)) (n p : Nat) (hp : p < n) :
    getSlot (s.take n) p = getSlot s p := by
  simp [getSlot_eq, List.getElem?_take, hp]

/-- `rehash` yields a table without wrapped pairs (to the same capacity it changes nothing) -/
theorem rehash_nowrap (h : K → Nat) (F : Nat) (m m' : MM K T) (c new : Nat) (hnd : new = max c MIN_CAP)
    (hlen : m.len = countValid m.slots) (hV : m.len + 2 ≤ new) (hr : rehash h F m c = .ok m')
    (hnw : NoWrap h m.slots) : NoWrap h m'.slots := by
  unfold rehash at hr
  have hmin : 0 < new := by rw [hnd]; simp [MIN_CAP]; omega
  simp only [← hnd] at hr
  by_cases hlt : m.cap < new
  · simp only [hlt, if_true] at hr
    have inv0 : RInv new new (m.slots ++ List.replicate (new - m.cap) emptySlot) 0
        (List.replicate new false) := by
      refine ⟨?_, by simp, ?_, ?_⟩
      · simp only [List.length_append, List.length_replicate, MM.cap] at hlt ⊢; omega
      · intro j hj hb
        simp [List.getD_eq_getElem?_getD, List.getElem?_replicate, hj] at hb
      · intro j _ hj; omega
    have inv20 : RInv2 h new m.cap (m.slots ++ List.replicate (new - m.cap) emptySlot) 0
        (List.replicate new false) := by
      refine ⟨?_, ?_, ?_⟩
      · intro j hj hv _
        refine ⟨by omega, ?_⟩
        apply Classical.byContradiction
        intro hc
        rw [stAt_append_replicate_ge m.slots _ j (by simp only [MM.cap] at hc; omega)] at hv
        cases hv
      · intro j hj hb
        simp [List.getD_eq_getElem?_getD, List.getElem?_replicate, hj] at hb
      · intro j hj hb
        simp [List.getD_eq_getElem?_getD, List.getElem?_replicate, hj] at hb
    cases hl : rehashLoop h F m.cap new F (m.slots ++ List.replicate (new - m.cap) emptySlot) 0
        (List.replicate new false) with
    | ok s' =>
      rw [hl] at hr
      cases hr
      obtain ⟨hl', hn', _, _, _⟩ := rehashLoop_nowrap h F m.cap new new (countValid m.slots) hmin
        (by omega) (Nat.le_refl _) (by omega) (fun _ => false) (by intro sl c; cases c) 0 F _ 0 _ s'
        inv0 inv20 (by omega) (countValid_append_empties _ _) (by simp [cnt]) hl
      intro p hp hv
      simp only [hl'] at hp ⊢
      exact hn' p hp hv
    | err k => rw [hl] at hr; simp [Outcome.cast] at hr
    | panic k => rw [hl] at hr; simp [Outcome.cast] at hr
    | hugeAlloc k => rw [hl] at hr; simp [Outcome.cast] at hr
    | outOfFuel => rw [hl] at hr; simp [Outcome.cast] at hr
  · simp only [hlt, if_false] at hr
    by_cases hgt : new < m.cap
    · simp only [hgt, if_true] at hr
      have inv0 : RInv new m.cap m.slots 0 (List.replicate new false) := by
        refine ⟨rfl, by simp, ?_, ?_⟩
        · intro j hj hb
          simp [List.getD_eq_getElem?_getD, List.getElem?_replicate, hj] at hb
        · intro j _ hj; omega
      have inv20 : RInv2 h new m.cap m.slots 0 (List.replicate new false) := by
        refine ⟨?_, ?_, ?_⟩
        · intro j hj hv _
          exact ⟨by omega, by omega⟩
        · intro j hj hb
          simp [List.getD_eq_getElem?_getD, List.getElem?_replicate, hj] at hb
        · intro j hj hb
          simp [List.getD_eq_getElem?_getD, List.getElem?_replicate, hj] at hb
      cases hl : rehashLoop h F m.cap new F m.slots 0 (List.replicate new false) with
      | ok s' =>
        rw [hl] at hr
        cases hr
        obtain ⟨hl', hn', _, _, _⟩ := rehashLoop_nowrap h F m.cap new m.cap (countValid m.slots) hmin
          (Nat.le_refl _) (by omega) (by omega) (fun _ => false) (by intro sl c; cases c) 0 F _ 0 _ s'
          inv0 inv20 (by omega) rfl (by simp [cnt]) hl
        have hlt' : (s'.take new).length = new := by
          rw [List.length_take, hl']; exact Nat.min_eq_left (by omega)
        intro p hp hv
        simp only [hlt'] at hp ⊢
        have e1 : stAt (s'.take new) p = stAt s' p := by simp only [stAt, getSlot_take s' new p hp]
        rw [e1] at hv
        rw [getSlot_take s' new p hp]
        exact hn' p hp hv
      | err k => rw [hl] at hr; simp [Outcome.cast] at hr
      | panic k => rw [hl] at hr; simp [Outcome.cast] at hr
      | hugeAlloc k => rw [hl] at hr; simp [Outcome.cast] at hr
      | outOfFuel => rw [hl] at hr; simp [Outcome.cast] at hr
    · simp only [hgt, if_false] at hr
      cases hr
      exact hnw

/-- the probe-chain invariant: every slot on the probe path from a pair's home to the pair is
non-`Empty` (so a probe that stops at an `Empty` slot has seen every pair of the key) -/
def Chain (h : K → Nat) (s : List (Slot K T)) : Prop :=
  ∀ p, p < s.length → stAt s p = .valid → ∀ q, q < s.length →
    distFrom s.length (h (getSlot s p).key % s.length) q <
      distFrom s.length (h (getSlot s p).key % s.length) p → stAt s q ≠ .empty

/-- `rehash` preserves the multiset of pairs (every count) and re-establishes the probe chain -/
theorem rehash_refine (h : K → Nat) (F : Nat) (m m' : MM K T) (c new : Nat) (hnd : new = max c MIN_CAP)
    (hlen : m.len = countValid m.slots) (hV : m.len + 2 ≤ new) (hr : rehash h F m c = .ok m')
    (hch : Chain h m.slots) :
    Chain h m'.slots ∧ ∀ P : Slot K T → Bool, VP P → cnt P m'.slots = cnt P m.slots := by
  unfold rehash at hr
  have hmin : 0 < new := by rw [hnd]; simp [MIN_CAP]; omega
  simp only [← hnd] at hr
  by_cases hlt : m.cap < new
  · simp only [hlt, if_true] at hr
    have inv0 : RInv new new (m.slots ++ List.replicate (new - m.cap) emptySlot) 0
        (List.replicate new false) := by
      refine ⟨?_, by simp, ?_, ?_⟩
      · simp only [List.length_append, List.length_replicate, MM.cap] at hlt ⊢; omega
      · intro j hj hb
        simp [List.getD_eq_getElem?_getD, List.getElem?_replicate, hj] at hb
      · intro j _ hj; omega
    have inv20 : RInv2 h new m.cap (m.slots ++ List.replicate (new - m.cap) emptySlot) 0
        (List.replicate new false) := by
      refine ⟨?_, ?_, ?_⟩
      · intro j hj hv _
        refine ⟨by omega, ?_⟩
        apply Classical.byContradiction
        intro hc
        rw [stAt_append_replicate_ge m.slots _ j (by simp only [MM.cap] at hc; omega)] at hv
        cases hv
      · intro j hj hb
        simp [List.getD_eq_getElem?_getD, List.getElem?_replicate, hj] at hb
      · intro j hj hb
        simp [List.getD_eq_getElem?_getD, List.getElem?_replicate, hj] at hb
    cases hl : rehashLoop h F m.cap new F (m.slots ++ List.replicate (new - m.cap) emptySlot) 0
        (List.replicate new false) with
    | ok s' =>
      rw [hl] at hr
      cases hr
      refine ⟨?_, ?_⟩
      · obtain ⟨hl', _, hc', _, _⟩ := rehashLoop_nowrap h F m.cap new new (countValid m.slots) hmin
          (by omega) (Nat.le_refl _) (by omega) (fun _ => false) (by intro sl c; cases c) 0 F _ 0 _ s'
          inv0 inv20 (by omega) (countValid_append_empties _ _) (by simp [cnt]) hl
        intro p hp hv q hq hd
        simp only [hl'] at hp hq hd
        have := hc' p hp hv q hq hd
        rw [this]; intro c; cases c
      · intro P hP
        obtain ⟨_, _, _, hcn', _⟩ := rehashLoop_nowrap h F m.cap new new (countValid m.slots) hmin
          (by omega) (Nat.le_refl _) (by omega) P hP (cnt P m.slots) F _ 0 _ s'
          inv0 inv20 (by omega) (countValid_append_empties _ _) (cnt_append_empties P hP _ _) hl
        exact hcn'
    | err k => rw [hl] at hr; simp [Outcome.cast] at hr
    | panic k => rw [hl] at hr; simp [Outcome.cast] at hr
    | hugeAlloc k => rw [hl] at hr; simp [Outcome.cast] at hr
    | outOfFuel => rw [hl] at hr; simp [Outcome.cast] at hr
  · simp only [hlt, if_false] at hr
    by_cases hgt : new < m.cap
    · simp only [hgt, if_true] at hr
      have inv0 : RInv new m.cap m.slots 0 (List.replicate new false) := by
        refine ⟨rfl, by simp, ?_, ?_⟩
        · intro j hj hb
          simp [List.getD_eq_getElem?_getD, List.getElem?_replicate, hj] at hb
        · intro j _ hj; omega
      have inv20 : RInv2 h new m.cap m.slots 0 (List.replicate new false) := by
        refine ⟨?_, ?_, ?_⟩
        · intro j hj hv _
          exact ⟨by omega, by omega⟩
        · intro j hj hb
          simp [List.getD_eq_getElem?_getD, List.getElem?_replicate, hj] at hb
        · intro j hj hb
          simp [List.getD_eq_getElem?_getD, List.getElem?_replicate, hj] at hb
      cases hl : rehashLoop h F m.cap new F m.slots 0 (List.replicate new false) with
      | ok s' =>
        rw [hl] at hr
        cases hr
        have hbase := rehashLoop_nowrap h F m.cap new m.cap (countValid m.slots) hmin
          (Nat.le_refl _) (by omega) (by omega) (fun _ => false) (by intro sl c; cases c) 0 F _ 0 _ s'
          inv0 inv20 (by omega) rfl (by simp [cnt]) hl
        obtain ⟨hl', _, hc', _, hhigh⟩ := hbase
        have hlt' : (s'.take new).length = new := by
          rw [List.length_take, hl']; exact Nat.min_eq_left (by omega)
        refine ⟨?_, ?_⟩
        · intro p hp hv q hq hd
          simp only [hlt'] at hp hq hd
          have e1 : stAt (s'.take new) p = stAt s' p := by simp only [stAt, getSlot_take s' new p hp]
          have e2 : stAt (s'.take new) q = stAt s' q := by simp only [stAt, getSlot_take s' new q hq]
          rw [e1] at hv
          rw [getSlot_take s' new p hp] at hd
          rw [e2, hc' p hp hv q hq hd]; intro c; cases c
        · intro P hP
          obtain ⟨_, _, _, hcn', _⟩ := rehashLoop_nowrap h F m.cap new m.cap (countValid m.slots) hmin
            (Nat.le_refl _) (by omega) (by omega) P hP (cnt P m.slots) F _ 0 _ s'
            inv0 inv20 (by omega) rfl rfl hl
          show cnt P (s'.take new) = cnt P m.slots
          rw [cnt_take_eq P hP s' new (by
            intro j hj1 hj2; exact hhigh j hj1 (by rw [hl'] at hj2; exact hj2))]
          exact hcn'
      | err k => rw [hl] at hr; simp [Outcome.cast] at hr
      | panic k => rw [hl] at hr; simp [Outcome.cast] at hr
      | hugeAlloc k => rw [hl] at hr; simp [Outcome.cast] at hr
      | outOfFuel => rw [hl] at hr; simp [Outcome.cast] at hr
    · simp only [hgt, if_false] at hr
      cases hr
      exact ⟨hch, fun _ _ => rfl⟩

end
end AgdbColl
