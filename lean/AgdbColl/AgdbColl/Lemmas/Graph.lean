import AgdbColl.Model.Db
/-!
The id allocator: the free list never hands out a live element, and graph operations never turn a
node other than the removed one into something else.
-/
namespace AgdbColl
namespace Graph

/-- slot 0 is reserved; free-list entries are distinct, in range and free -/
def GraphInv (g : Graph) : Prop :=
  g.slot 0 = .free ∧ 0 < g.slots.length ∧ g.freeList.Nodup ∧
    ∀ i ∈ g.freeList, 0 < i ∧ i < g.slots.length ∧ g.slot i = .free

/-- every node of `g` is still a node in `g'` -/
def NodesKept (g g' : Graph) : Prop := ∀ j, g.isNode j = true → g'.isNode j = true

theorem NodesKept.refl (g : Graph) : NodesKept g g := fun _ h => h

theorem NodesKept.trans {a b c : Graph} (h1 : NodesKept a b) (h2 : NodesKept b c) : NodesKept a c :=
  fun j h => h2 j (h1 j h)

theorem slot_eq (g : Graph) (i : Nat) : g.slot i = g.slots[i]?.getD .free := by
  simp [slot, List.getD_eq_getElem?_getD]

theorem slot_setSlot (g : Graph) (i j : Nat) (s : GSlot) :
    (g.setSlot i s).slot j = if i = j ∧ i < g.slots.length then s else g.slot j := by
  simp only [slot_eq, setSlot, List.getElem?_set]
  by_cases h : i = j
  · subst h
    by_cases h2 : i < g.slots.length <;> simp [h2]
  · simp [h]

theorem slot_ge (g : Graph) (i : Nat) (h : g.slots.length ≤ i) : g.slot i = .free := by
  simp [slot_eq, h]

theorem length_setSlot (g : Graph) (i : Nat) (s : GSlot) : (g.setSlot i s).slots.length = g.slots.length := by
  simp [setSlot]

theorem freeList_setSlot (g : Graph) (i : Nat) (s : GSlot) : (g.setSlot i s).freeList = g.freeList := rfl

theorem isNode_iff (g : Graph) (j : Nat) :
    g.isNode j = true ↔ j ≠ 0 ∧ ∃ o i, g.slot j = .node o i := by
  unfold isNode
  cases h : g.slot j <;> simp

/-- writing a node slot keeps all nodes -/
theorem kept_setSlot_node (g : Graph) (n : Nat) (o i : List Nat) :
    NodesKept g (g.setSlot n (.node o i)) := by
  intro j hj
  rw [isNode_iff] at hj ⊢
  refine ⟨hj.1, ?_⟩
  rw [slot_setSlot]
  split
  · exact ⟨o, i, rfl⟩
  · exact hj.2

/-- writing any slot that is not a node keeps all nodes -/
theorem kept_setSlot_of_not_node (g : Graph) (n : Nat) (s : GSlot) (hn : g.isNode n = false) :
    NodesKept g (g.setSlot n s) := by
  intro j hj
  by_cases e : n = j
  · subst e; rw [hn] at hj; cases hj
  · rw [isNode_iff] at hj ⊢
    refine ⟨hj.1, ?_⟩
    rw [slot_setSlot]
    simp only [e, false_and, if_false]
    exact hj.2

theorem inv_setSlot (g : Graph) (n : Nat) (s : GSlot) (hg : GraphInv g) (h0 : n ≠ 0)
    (hnf : n ∉ g.freeList) : GraphInv (g.setSlot n s) := by
  obtain ⟨h1, h2, h3, h4⟩ := hg
  refine ⟨?_, by rw [length_setSlot]; exact h2, h3, ?_⟩
  · rw [slot_setSlot]
    have : ¬ (n = 0 ∧ n < g.slots.length) := fun c => h0 c.1
    simp only [this, if_false]; exact h1
  · intro i hi
    obtain ⟨a, b, c⟩ := h4 i hi
    refine ⟨a, by rw [length_setSlot]; exact b, ?_⟩
    rw [slot_setSlot]
    have : ¬ (n = i ∧ n < g.slots.length) := fun e => hnf (e.1 ▸ hi)
    simp only [this, if_false]; exact c

theorem not_mem_free_of_not_free (g : Graph) (hg : GraphInv g) (n : Nat) (h : g.slot n ≠ .free) :
    n ∉ g.freeList := fun hm => h (hg.2.2.2 n hm).2.2

theorem ne_zero_of_not_free (g : Graph) (hg : GraphInv g) (n : Nat) (h : g.slot n ≠ .free) : n ≠ 0 := by
  intro e; subst e; exact h hg.1

/-- the allocator: the new index is positive, in range afterwards, was not a node, and is not in
the remaining free list -/
theorem getFree_spec (g : Graph) (hg : GraphInv g) :
    let r := g.getFree
    0 < r.1 ∧ r.1 < r.2.slots.length ∧ g.isNode r.1 = false ∧ r.1 ∉ r.2.freeList ∧ GraphInv r.2 ∧
      NodesKept g r.2 ∧ r.2.slot r.1 = .free := by
  obtain ⟨h1, h2, h3, h4⟩ := hg
  unfold getFree
  cases hf : g.freeList with
  | nil =>
    simp only
    refine ⟨h2, by simp, ?_, by simp, ⟨?_, by simp, by simp, by simp⟩, ?_, ?_⟩
    · simp [isNode, slot_ge g g.slots.length (Nat.le_refl _)]
    · simp only [slot_eq] at h1 ⊢
      rw [List.getElem?_append_left h2]; exact h1
    · intro j hj
      rw [isNode_iff] at hj ⊢
      refine ⟨hj.1, ?_⟩
      obtain ⟨o, i, hs⟩ := hj.2
      have hjl : j < g.slots.length := by
        apply Classical.byContradiction
        intro c
        rw [slot_ge g j (by omega)] at hs
        cases hs
      refine ⟨o, i, ?_⟩
      simp only [slot_eq] at hs ⊢
      rw [List.getElem?_append_left hjl]; exact hs
    · simp [slot_eq]
  | cons i rest =>
    simp only
    rw [hf] at h3 h4
    obtain ⟨a, b, c⟩ := h4 i (by simp)
    have hnd := List.nodup_cons.mp h3
    refine ⟨a, b, ?_, hnd.1, ⟨h1, h2, hnd.2, ?_⟩, fun _ h => h, c⟩
    · simp [isNode, c]
    · intro k hk
      exact h4 k (by simp [hk])

theorem insertNode_spec (g : Graph) (hg : GraphInv g) :
    let r := g.insertNode
    0 < r.1 ∧ r.2.isNode r.1 = true ∧ GraphInv r.2 ∧ NodesKept g r.2 := by
  obtain ⟨a, b, c, d, e, f, _⟩ := getFree_spec g hg
  simp only [insertNode]
  refine ⟨a, ?_, ?_, ?_⟩
  · rw [isNode_iff]
    refine ⟨by omega, [], [], ?_⟩
    rw [slot_setSlot]; simp [b]
  · exact inv_setSlot _ _ _ e (by omega) d
  · exact f.trans (kept_setSlot_node _ _ _ _)

theorem kept_addOut (g : Graph) (n e : Nat) : NodesKept g (g.addOut n e) := by
  unfold addOut; split
  · exact kept_setSlot_node _ _ _ _
  · exact NodesKept.refl _

theorem kept_addIn (g : Graph) (n e : Nat) : NodesKept g (g.addIn n e) := by
  unfold addIn; split
  · exact kept_setSlot_node _ _ _ _
  · exact NodesKept.refl _

theorem kept_dropOut (g : Graph) (n e : Nat) : NodesKept g (g.dropOut n e) := by
  unfold dropOut; split
  · exact kept_setSlot_node _ _ _ _
  · exact NodesKept.refl _

theorem kept_dropIn (g : Graph) (n e : Nat) : NodesKept g (g.dropIn n e) := by
  unfold dropIn; split
  · exact kept_setSlot_node _ _ _ _
  · exact NodesKept.refl _

theorem inv_node_update (g : Graph) (hg : GraphInv g) (n : Nat) (o i o' i' : List Nat)
    (hs : g.slot n = .node o i) : GraphInv (g.setSlot n (.node o' i')) :=
  inv_setSlot g n _ hg (ne_zero_of_not_free g hg n (by rw [hs]; simp))
    (not_mem_free_of_not_free g hg n (by rw [hs]; simp))

theorem inv_addOut (g : Graph) (hg : GraphInv g) (n e : Nat) : GraphInv (g.addOut n e) := by
  unfold addOut; split
  · rename_i o i hs; exact inv_node_update g hg n o i _ _ hs
  · exact hg

theorem inv_addIn (g : Graph) (hg : GraphInv g) (n e : Nat) : GraphInv (g.addIn n e) := by
  unfold addIn; split
  · rename_i o i hs; exact inv_node_update g hg n o i _ _ hs
  · exact hg

theorem inv_dropOut (g : Graph) (hg : GraphInv g) (n e : Nat) : GraphInv (g.dropOut n e) := by
  unfold dropOut; split
  · rename_i o i hs; exact inv_node_update g hg n o i _ _ hs
  · exact hg

theorem inv_dropIn (g : Graph) (hg : GraphInv g) (n e : Nat) : GraphInv (g.dropIn n e) := by
  unfold dropIn; split
  · rename_i o i hs; exact inv_node_update g hg n o i _ _ hs
  · exact hg

theorem insertEdge_spec (g : Graph) (hg : GraphInv g) (s d : Nat) :
    let r := g.insertEdge s d
    GraphInv r.2 ∧ NodesKept g r.2 := by
  obtain ⟨a, b, c, dd, e, f, _⟩ := getFree_spec g hg
  simp only [insertEdge]
  refine ⟨?_, ?_⟩
  · apply inv_addIn; apply inv_addOut
    exact inv_setSlot _ _ _ e (by omega) dd
  · refine f.trans ?_
    refine (kept_setSlot_of_not_node _ _ _ ?_).trans ((kept_addOut _ _ _).trans (kept_addIn _ _ _))
    cases hn : g.getFree.2.isNode g.getFree.1
    · rfl
    · rw [isNode_iff] at hn
      obtain ⟨_, o, i, hs⟩ := hn
      have := (getFree_spec g hg).2.2.2.2.2.2
      rw [this] at hs; cases hs

/-- `free_index` of a slot that is not free -/
theorem release_spec (g : Graph) (hg : GraphInv g) (n : Nat) (hs : g.slot n ≠ .free) :
    GraphInv (g.release n) ∧ ∀ j, j ≠ n → g.isNode j = true → (g.release n).isNode j = true := by
  have hn0 := ne_zero_of_not_free g hg n hs
  have hnf := not_mem_free_of_not_free g hg n hs
  have hnl : n < g.slots.length := by
    apply Classical.byContradiction
    intro c; exact hs (slot_ge g n (by omega))
  obtain ⟨h1, h2, h3, h4⟩ := hg
  have hslot : ∀ j, (g.release n).slot j = if n = j then GSlot.free else g.slot j := by
    intro j
    have := slot_setSlot g n j .free
    simp only [setSlot] at this
    simp only [release, slot] at this ⊢
    rw [this]
    by_cases e : n = j
    · subst e; simp [hnl]
    · simp [e]
  refine ⟨⟨?_, by simpa [release] using h2, ?_, ?_⟩, ?_⟩
  · rw [hslot]; simp [h1]
  · simp only [release]; exact List.nodup_cons.mpr ⟨hnf, h3⟩
  · intro i hi
    simp only [release, List.mem_cons] at hi
    rcases hi with e | hi
    · subst e
      exact ⟨by omega, by simpa [release] using hnl, by rw [hslot]; simp⟩
    · obtain ⟨a, b, c⟩ := h4 i hi
      refine ⟨a, by simpa [release] using b, ?_⟩
      rw [hslot]; split
      · rfl
      · exact c
  · intro j hj hjn
    rw [isNode_iff] at hjn ⊢
    refine ⟨hjn.1, ?_⟩
    rw [hslot]
    have : ¬ n = j := fun e => hj e.symm
    simp only [this, if_false]; exact hjn.2

theorem removeEdge_spec (g : Graph) (hg : GraphInv g) (e : Nat) :
    GraphInv (g.removeEdge e) ∧ NodesKept g (g.removeEdge e) := by
  unfold removeEdge
  cases hs : g.slot e with
  | free => exact ⟨hg, NodesKept.refl _⟩
  | node o i => exact ⟨hg, NodesKept.refl _⟩
  | edge s d =>
    simp only
    have hg2 : GraphInv ((g.dropOut s e).dropIn d e) := inv_dropIn _ (inv_dropOut _ hg _ _) _ _
    have hk2 : NodesKept g ((g.dropOut s e).dropIn d e) := (kept_dropOut _ _ _).trans (kept_dropIn _ _ _)
    -- slot e is still the edge (only node slots were rewritten)
    have hse : ((g.dropOut s e).dropIn d e).slot e ≠ .free := by
      have hnode : g.isNode e = false := by simp [isNode, hs]
      intro c
      -- if it became free, it was rewritten; but rewrites only put node slots
      have aux : ∀ (g0 : Graph) (n : Nat), g0.slot e = .edge s d → (g0.dropOut n e).slot e = .edge s d := by
        intro g0 n h0
        unfold dropOut
        split
        · rename_i o i hsn
          rw [slot_setSlot]
          split
          · rename_i hc; rw [← hc.1] at h0; rw [hsn] at h0; cases h0
          · exact h0
        · exact h0
      have aux2 : ∀ (g0 : Graph) (n : Nat), g0.slot e = .edge s d → (g0.dropIn n e).slot e = .edge s d := by
        intro g0 n h0
        unfold dropIn
        split
        · rename_i o i hsn
          rw [slot_setSlot]
          split
          · rename_i hc; rw [← hc.1] at h0; rw [hsn] at h0; cases h0
          · exact h0
        · exact h0
      rw [aux2 _ d (aux g s hs)] at c
      cases c
    obtain ⟨r1, r2⟩ := release_spec _ hg2 e hse
    refine ⟨r1, ?_⟩
    intro j hj
    have hje : j ≠ e := by
      intro c; subst c
      simp [isNode, hs] at hj
    exact r2 j hje (hk2 j hj)

theorem foldl_removeEdge_spec (es : List Nat) :
    ∀ g : Graph, GraphInv g → GraphInv (es.foldl removeEdge g) ∧ NodesKept g (es.foldl removeEdge g) := by
  induction es with
  | nil => intro g hg; exact ⟨hg, NodesKept.refl _⟩
  | cons e rest ih =>
    intro g hg
    obtain ⟨a, b⟩ := removeEdge_spec g hg e
    obtain ⟨c, d⟩ := ih _ a
    exact ⟨c, b.trans d⟩

/-- removing a node keeps the invariant and every OTHER node -/
theorem removeNode_spec (g : Graph) (hg : GraphInv g) (n : Nat) (hn : g.isNode n = true) :
    GraphInv (g.removeNode n) ∧ ∀ j, j ≠ n → g.isNode j = true → (g.removeNode n).isNode j = true := by
  unfold removeNode
  obtain ⟨a, b⟩ := foldl_removeEdge_spec (g.nodeEdges n) g hg
  have hn2 := b n hn
  have hs : ((g.nodeEdges n).foldl removeEdge g).slot n ≠ .free := by
    rw [isNode_iff] at hn2
    obtain ⟨_, o, i, h⟩ := hn2
    rw [h]; simp
  obtain ⟨r1, r2⟩ := release_spec _ a n hs
  exact ⟨r1, fun j hj hjn => r2 j hj (b j hjn)⟩

theorem GraphInv_init : GraphInv Graph.init := by
  refine ⟨by simp [init, slot], by simp [init], by simp [init], by simp [init]⟩

end Graph
end AgdbColl
