import AgdbColl.Lemmas.Values
/-!
Towards the full `values` termination: no `Valid` pair sits `capacity - 1` slots from its home
(`NoWrap`). Here: the counting facts and the "first free slot" characterisation of the probe loops.
-/
namespace AgdbColl
set_option linter.unusedSectionVars false
set_option linter.unusedVariables false

section
variable {K T : Type} [DecidableEq K] [DecidableEq T] [Inhabited K] [Inhabited T]

/-- no `Valid` pair in the slot cyclically before its home position -/
def NoWrap (h : K → Nat) (s : List (Slot K T)) : Prop :=
  ∀ p, p < s.length → stAt s p = .valid → nextPos s.length p ≠ h (getSlot s p).key % s.length

theorem NoWrap.at {h : K → Nat} {s : List (Slot K T)} (hn : NoWrap h s) (key : K) :
    NoWrapAt s key (h key % s.length) := by
  intro p hp hnext hv
  have := hn p hp hv.1
  rw [hv.2] at this
  exact this hnext

/-- if all slots but one are `Valid` the table holds at least `length - 1` pairs -/
theorem count_all_but_one (s : List (Slot K T)) (p : Nat) (hp : p < s.length)
    (hall : ∀ q, q < s.length → q ≠ p → stAt s q = .valid) : s.length ≤ countValid s + 1 := by
  have hset := countValid_set s p ⟨.valid, default, default⟩ hp
  have hfull : countValid (s.set p ⟨.valid, default, default⟩) = s.length := by
    have : (s.set p ⟨.valid, default, default⟩).length = s.length := by simp
    rw [← this]
    apply (List.countP_eq_length (p := fun sl : Slot K T => decide (sl.st = .valid))).mpr
    intro a ha
    obtain ⟨j, hj, rfl⟩ := List.getElem_of_mem ha
    have hj' : j < s.length := by simpa using hj
    have hthis := stAt_set s p j ⟨.valid, default, default⟩
    have e : stAt (s.set p ⟨.valid, default, default⟩) j = (s.set p ⟨.valid, default, default⟩)[j].st := by
      simp [stAt, getSlot_of_lt _ j hj]
    rw [e] at hthis
    by_cases c : p = j
    · subst c
      rw [hthis]; simp [hp]
    · have hv := hall j hj' (fun x => c x.symm)
      rw [hthis]
      have : ¬ (p = j ∧ p < s.length) := fun x => c x.1
      simp [this, hv]
  simp only [if_true] at hset
  split at hset <;> omega

theorem dist_lt_of_next_eq (cap start p q : Nat) (hs : start < cap) (hp : p < cap) (hq : q < cap)
    (hne : q ≠ p) (hnext : nextPos cap p = start) : distFrom cap start q < distFrom cap start p := by
  unfold distFrom nextPos at *
  split at hnext <;> (repeat' split) <;> omega

theorem dist_inj (cap start p q : Nat) (hs : start < cap) (hp : p < cap) (hq : q < cap)
    (he : distFrom cap start q = distFrom cap start p) : q = p := by
  unfold distFrom at *
  (repeat' split at he) <;> omega

/-- `free_index` returns the FIRST non-`Valid` slot in probe order -/
theorem freeIndexLoop_first (s : List (Slot K T)) (start : Nat) (hs : start < s.length)
    (hex : ∃ j, j < s.length ∧ stAt s j ≠ .valid) :
    ∀ fuel pos p, pos < s.length →
      (∀ q, q < s.length → distFrom s.length start q < distFrom s.length start pos → stAt s q = .valid) →
      freeIndexLoop s fuel pos = .ok p →
      p < s.length ∧ stAt s p ≠ .valid ∧
        ∀ q, q < s.length → distFrom s.length start q < distFrom s.length start p → stAt s q = .valid := by
  intro fuel
  induction fuel with
  | zero => intro pos p _ _ h; simp [freeIndexLoop] at h
  | succ n ih =>
    intro pos p hp hI h
    unfold freeIndexLoop at h
    cases hst : stAt s pos with
    | valid =>
      simp only [hst] at h
      apply ih _ p (nextPos_lt _ _ hp) _ h
      intro q hq hd
      by_cases hw : nextPos s.length pos = start
      · obtain ⟨j, hj, hjv⟩ := hex
        exfalso
        apply hjv
        by_cases e : j = pos
        · subst e; exact hst
        · exact hI j hj (dist_lt_of_next_eq _ _ _ _ hs hp hj e hw)
      · have := distFrom_next s.length start pos hs hp hw
        by_cases e : distFrom s.length start q = distFrom s.length start pos
        · have := dist_inj _ _ _ _ hs hp hq e
          subst this; exact hst
        · exact hI q hq (by omega)
    | empty =>
      simp only [hst] at h
      cases h
      exact ⟨hp, by simp [hst], hI⟩
    | deleted =>
      simp only [hst] at h
      cases h
      exact ⟨hp, by simp [hst], hI⟩

/-- a pair placed at the first non-`Valid` slot from its home is not in the slot before home,
as long as the table keeps two slots free -/
theorem first_free_not_wrap (s : List (Slot K T)) (start p : Nat) (hs : start < s.length)
    (hp : p < s.length) (hcount : countValid s + 2 ≤ s.length)
    (hfirst : ∀ q, q < s.length → distFrom s.length start q < distFrom s.length start p → stAt s q = .valid) :
    nextPos s.length p ≠ start := by
  intro hw
  have := count_all_but_one s p hp (by
    intro q hq hne
    exact hfirst q hq (dist_lt_of_next_eq _ _ _ _ hs hp hq hne hw))
  omega

end
end AgdbColl
