import AgdbColl.Lemmas.RehashNoWrap
/-!
`NoWrap` is preserved by the operations the index multimap uses: `insert`, `remove_key`,
`remove_value`, `reserve` (with every `rehash` they run).
-/
namespace AgdbColl
set_option linter.unusedSectionVars false
set_option linter.unusedVariables false

section
variable {K T : Type} [DecidableEq K] [DecidableEq T] [Inhabited K] [Inhabited T]

/-- every `Valid` slot of `s'` is the same `Valid` slot of `s` -/
def SubValid (s s' : List (Slot K T)) : Prop :=
  s'.length = s.length ∧ ∀ p, stAt s' p = .valid → stAt s p = .valid ∧ getSlot s' p = getSlot s p

theorem SubValid.refl (s : List (Slot K T)) : SubValid s s := ⟨rfl, fun _ h => ⟨h, rfl⟩⟩

theorem SubValid.trans {a b c : List (Slot K T)} (h1 : SubValid a b) (h2 : SubValid b c) : SubValid a c := by
  refine ⟨h2.1.trans h1.1, ?_⟩
  intro p hp
  obtain ⟨x, y⟩ := h2.2 p hp
  obtain ⟨x', y'⟩ := h1.2 p x
  exact ⟨x', y.trans y'⟩

theorem SubValid.nowrap {h : K → Nat} {s s' : List (Slot K T)} (hs : SubValid s s') (hn : NoWrap h s) :
    NoWrap h s' := by
  intro p hp hv
  obtain ⟨x, y⟩ := hs.2 p hv
  rw [hs.1] at hp ⊢
  rw [y]
  exact hn p hp x

theorem SubValid_dropValue (s : List (Slot K T)) (i : Nat) : SubValid s (dropValue s i) := by
  refine ⟨length_dropValue s i, ?_⟩
  intro p hp
  simp only [dropValue, stAt_set] at hp
  by_cases c : i = p ∧ i < s.length
  · rw [if_pos c] at hp; cases hp
  · simp only [c, if_false] at hp
    refine ⟨hp, ?_⟩
    simp only [dropValue, getSlot_set, c, if_false]

theorem removeKeyLoop_sub (key : K) (start : Nat) :
    ∀ fuel (s : List (Slot K T)) pos len o, removeKeyLoop key start fuel s pos len = .ok o →
      SubValid s o.slots := by
  intro fuel
  induction fuel with
  | zero => intro s pos len o h; simp [removeKeyLoop] at h
  | succ n ih =>
    intro s pos len o h
    unfold removeKeyLoop at h
    have hstdef : (getSlot s pos).st = stAt s pos := rfl
    cases hst : stAt s pos with
    | empty =>
      simp only [hstdef, hst] at h
      cases h; exact SubValid.refl s
    | deleted =>
      simp only [hstdef, hst] at h
      split at h
      · cases h; exact SubValid.refl s
      · exact ih _ _ _ _ h
    | valid =>
      simp only [hstdef, hst] at h
      split at h
      · split at h
        · cases h
        · split at h
          · cases h; exact SubValid_dropValue s pos
          · exact (SubValid_dropValue s pos).trans (ih _ _ _ _ h)
      · split at h
        · cases h; exact SubValid.refl s
        · exact ih _ _ _ _ h

theorem maxLen_le (cap : Nat) (h : MIN_CAP ≤ cap) : maxLen cap + 4 ≤ cap := by
  simp only [maxLen, MIN_CAP] at *; omega

theorem growIfFull_nowrap (h : K → Nat) (F : Nat) (m m1 : MM K T) (hi : Inv m)
    (hn : NoWrap h m.slots) (hg : growIfFull h F m = .ok m1) : NoWrap h m1.slots := by
  unfold growIfFull at hg
  obtain ⟨hlen, hload⟩ := hi
  split at hg
  · refine rehash_nowrap h F m m1 (m.cap * 2) (max (m.cap * 2) MIN_CAP) rfl hlen ?_ hg hn
    rcases hload with h0 | ⟨h1, h2⟩
    · have : m.len = 0 := by
        have := countValid_le m.slots
        simp only [MM.cap] at h0; omega
      simp only [MIN_CAP]; omega
    · have := maxLen_le m.cap h1
      simp only [MIN_CAP] at *; omega
  · cases hg; exact hn

theorem NoWrap_putValid (h : K → Nat) (s : List (Slot K T)) (p : Nat) (k : K) (v : T)
    (hp : p < s.length) (hn : NoWrap h s) (hnew : nextPos s.length p ≠ h k % s.length) :
    NoWrap h (putValid s p k v) := by
  intro q hq hv
  rw [length_putValid] at hq ⊢
  simp only [putValid, stAt_set, getSlot_set] at hv ⊢
  by_cases c : p = q
  · subst c
    simp only [hp, and_self, if_true]
    exact hnew
  · have c' : ¬ (p = q ∧ p < s.length) := fun x => c x.1
    simp only [c', if_false] at hv ⊢
    exact hn q hq hv

theorem insert_nowrap (h : K → Nat) (F : Nat) (m m' : MM K T) (k : K) (v : T) (hi : Inv m)
    (hn : NoWrap h m.slots) (hF : fuelBound m ≤ F) (hr : insert h F m k v = .ok m') :
    NoWrap h m'.slots := by
  unfold insert at hr
  obtain ⟨m1, hg, ⟨hlen1, _⟩, hcap1, hlt1, _⟩ := growIfFull_ok h F m hi hF
  have hn1 := growIfFull_nowrap h F m m1 hi hn hg
  simp only [hg] at hr
  have hne : m1.cap ≠ 0 := by simp only [MIN_CAP] at hcap1; omega
  simp only [hne, if_false] at hr
  have hcapdef : m1.cap = m1.slots.length := rfl
  have hml := maxLen_le m1.cap hcap1
  have hcvlt : countValid m1.slots < m1.slots.length := by omega
  have hex := exists_not_valid m1.slots hcvlt
  have hhome : h k % m1.cap < m1.slots.length := by
    rw [← hcapdef]; exact Nat.mod_lt _ (by omega)
  cases hf : freeIndexLoop m1.slots F (h k % m1.cap) with
  | ok p =>
    rw [hf] at hr
    cases hr
    obtain ⟨hpl, hpv, hfirst⟩ := freeIndexLoop_first m1.slots (h k % m1.cap) hhome hex F _ p hhome
      (by intro q _ hd; simp [distFrom] at hd) hf
    apply NoWrap_putValid h m1.slots p k v hpl hn1
    rw [← hcapdef]
    exact first_free_not_wrap m1.slots (h k % m1.cap) p hhome hpl (by omega) hfirst
  | err e => rw [hf] at hr; simp [Outcome.cast] at hr
  | panic e => rw [hf] at hr; simp [Outcome.cast] at hr
  | hugeAlloc e => rw [hf] at hr; simp [Outcome.cast] at hr
  | outOfFuel => rw [hf] at hr; simp [Outcome.cast] at hr

/-- shrink step -/
theorem shrink_nowrap (h : K → Nat) (F : Nat) (m2 m3 : MM K T) (hlen : m2.len = countValid m2.slots)
    (hcap : MIN_CAP ≤ m2.cap) (hn : NoWrap h m2.slots)
    (hr : (if m2.len ≤ minLen m2.cap then rehash h F m2 (m2.cap / 2) else .ok m2) = .ok m3) :
    NoWrap h m3.slots := by
  split at hr
  · rename_i hs
    refine rehash_nowrap h F m2 m3 (m2.cap / 2) (max (m2.cap / 2) MIN_CAP) rfl hlen ?_ hr hn
    simp only [minLen, MIN_CAP] at *; omega
  · cases hr; exact hn

theorem removeKey_nowrap (h : K → Nat) (F : Nat) (m m' : MM K T) (key : K) (hi : Inv m)
    (hn : NoWrap h m.slots) (hF : fuelBound m ≤ F) (hr : removeKey h F m key = .ok m') :
    NoWrap h m'.slots := by
  unfold removeKey at hr
  by_cases h0 : m.cap = 0
  · simp only [h0, if_true] at hr; cases hr; exact hn
  · simp only [h0, if_false] at hr
    obtain ⟨hlen, hload⟩ := hi
    rcases hload with hz | ⟨hcap, hld⟩
    · exact absurd hz h0
    · have hhome : h key % m.cap < m.cap := Nat.mod_lt _ (by omega)
      have hd0 : distFrom m.cap (h key % m.cap) (h key % m.cap) = 0 := by simp [distFrom]
      simp only [fuelBound] at hF
      obtain ⟨o, ho, hol, holen, hole⟩ := removeKeyLoop_ok key (h key % m.cap) m.cap hhome F m.slots
        (h key % m.cap) m.len rfl hhome (by omega) hlen
      have hsub := removeKeyLoop_sub key _ _ _ _ _ _ ho
      have hno : NoWrap h o.slots := hsub.nowrap hn
      simp only [ho] at hr
      have hml := maxLen_le m.cap hcap
      -- first step: possibly the same-capacity rehash
      have hstep1 : ∀ m1, (if o.wrapped = true ∧ o.len = m.len then rehash h F ⟨o.slots, m.len⟩ m.cap
          else Outcome.ok ⟨o.slots, m.len⟩) = .ok m1 → NoWrap h m1.slots ∧ m1.len = m.len ∧
            countValid m1.slots = countValid o.slots ∧ m1.cap = m.cap := by
        intro m1 h1
        by_cases hw : o.wrapped = true ∧ o.len = m.len
        · simp only [hw, and_self, if_true] at h1
          have hc : (⟨o.slots, m.len⟩ : MM K T).cap = m.cap := hol
          have hmax : m.cap = max m.cap MIN_CAP := by simp only [MIN_CAP] at *; omega
          have hnw := rehash_nowrap h F ⟨o.slots, m.len⟩ m1 m.cap m.cap hmax
            (by show m.len = countValid o.slots; omega) (by show m.len + 2 ≤ m.cap; omega) h1 hno
          obtain ⟨m'', hm'', hl', hc', hcap'⟩ := rehash_ok h F ⟨o.slots, m.len⟩ m.cap m.cap hmax
            (by show m.len = countValid o.slots; omega)
            (by show m.len ≤ m.cap; omega) (by rw [hc]; omega)
          rw [h1] at hm''
          cases hm''
          exact ⟨hnw, hl', hc', hcap'⟩
        · simp only [hw, if_false] at h1
          cases h1
          exact ⟨hno, rfl, rfl, hol⟩
      cases hs1 : (if o.wrapped = true ∧ o.len = m.len then rehash h F ⟨o.slots, m.len⟩ m.cap
          else Outcome.ok ⟨o.slots, m.len⟩) with
      | ok m1 =>
        rw [hs1] at hr
        simp only at hr
        obtain ⟨hn1, hl1, hc1, hcap1⟩ := hstep1 m1 hs1
        by_cases hne : o.len ≠ m1.len
        · rw [if_pos hne] at hr
          have hcap2 : (⟨m1.slots, o.len⟩ : MM K T).cap = m.cap := hcap1
          exact shrink_nowrap h F ⟨m1.slots, o.len⟩ m' (by show o.len = countValid m1.slots; omega)
            (by rw [hcap2]; exact hcap) hn1 hr
        · rw [if_neg hne] at hr
          cases hr; exact hn1
      | err e => rw [hs1] at hr; cases hr
      | panic e => rw [hs1] at hr; cases hr
      | hugeAlloc e => rw [hs1] at hr; cases hr
      | outOfFuel => rw [hs1] at hr; cases hr

theorem removeValueLoop_pos (key : K) (v : T) (start : Nat) (s : List (Slot K T)) :
    ∀ fuel pos p b, removeValueLoop key v start s fuel pos = .ok (some p, b) → stAt s p = .valid := by
  intro fuel
  induction fuel with
  | zero => intro pos p b h; simp [removeValueLoop] at h
  | succ n ih =>
    intro pos p b h
    unfold removeValueLoop at h
    have hstdef : (getSlot s pos).st = stAt s pos := rfl
    cases hst : stAt s pos with
    | empty => simp only [hstdef, hst] at h; cases h
    | deleted =>
      simp only [hstdef, hst] at h
      split at h
      · cases h
      · exact ih _ _ _ h
    | valid =>
      simp only [hstdef, hst] at h
      split at h
      · cases h; exact hst
      · split at h
        · cases h
        · exact ih _ _ _ h

theorem removeValue_nowrap (h : K → Nat) (F : Nat) (m m' : MM K T) (key : K) (v : T) (hi : Inv m)
    (hn : NoWrap h m.slots) (hF : fuelBound m ≤ F) (hr : removeValue h F m key v = .ok m') :
    NoWrap h m'.slots := by
  unfold removeValue at hr
  by_cases h0 : m.cap = 0
  · simp only [h0, if_true] at hr; cases hr; exact hn
  · simp only [h0, if_false] at hr
    obtain ⟨hlen, hload⟩ := hi
    rcases hload with hz | ⟨hcap, hld⟩
    · exact absurd hz h0
    · have hml := maxLen_le m.cap hcap
      cases hl : removeValueLoop key v (h key % m.cap) m.slots F (h key % m.cap) with
      | ok r =>
        rw [hl] at hr
        obtain ⟨r1, r2⟩ := r
        cases r1 with
        | some p =>
          simp only at hr
          have hpv := removeValueLoop_pos key v _ m.slots F _ p r2 hl
          unfold removeIndex at hr
          have hpos := countValid_pos_of_valid m.slots p hpv
          have hne : m.len ≠ 0 := by omega
          simp only [hne, if_false] at hr
          have hdrop := countValid_dropValue m.slots p hpv
          have hcap2 : (⟨dropValue m.slots p, m.len - 1⟩ : MM K T).cap = m.cap := length_dropValue _ _
          exact shrink_nowrap h F ⟨dropValue m.slots p, m.len - 1⟩ m'
            (by show m.len - 1 = countValid (dropValue m.slots p); omega)
            (by rw [hcap2]; exact hcap) ((SubValid_dropValue m.slots p).nowrap hn) hr
        | none =>
          cases r2 with
          | true =>
            simp only at hr
            have hmax : m.cap = max m.cap MIN_CAP := by simp only [MIN_CAP] at *; omega
            exact rehash_nowrap h F m m' m.cap m.cap hmax hlen (by omega) hr hn
          | false => simp only at hr; cases hr; exact hn
      | err e => rw [hl] at hr; simp [Outcome.cast] at hr
      | panic e => rw [hl] at hr; simp [Outcome.cast] at hr
      | hugeAlloc e => rw [hl] at hr; simp [Outcome.cast] at hr
      | outOfFuel => rw [hl] at hr; simp [Outcome.cast] at hr

theorem reserve_nowrap (h : K → Nat) (F : Nat) (m m' : MM K T) (c : Nat) (hi : Inv m)
    (hn : NoWrap h m.slots) (hr : reserve h F m c = .ok m') : NoWrap h m'.slots := by
  unfold reserve at hr
  split at hr
  · rename_i hlt
    obtain ⟨hlen, hload⟩ := hi
    refine rehash_nowrap h F m m' c (max c MIN_CAP) rfl hlen ?_ hr hn
    rcases hload with h0 | ⟨h1, h2⟩
    · have : m.len = 0 := by
        have := countValid_le m.slots
        simp only [MM.cap] at h0; omega
      simp only [MIN_CAP]; omega
    · have := maxLen_le m.cap h1
      simp only [MIN_CAP] at *; omega
  · cases hr; exact hn

end
end AgdbColl
