import AgdbColl.Lemmas.IndexInv
/-!
Functional refinement of the slot table to a multiset of pairs (`cnt P slots` for every predicate
`P` on `Valid` slots), for the operations the index multimap uses.
-/
namespace AgdbColl
set_option linter.unusedSectionVars false
set_option linter.unusedVariables false

section
variable {K T : Type} [DecidableEq K] [DecidableEq T] [Inhabited K] [Inhabited T]

/-- non-`Empty` slots stay non-`Empty` -/
def NonEmptyKept (s s' : List (Slot K T)) : Prop := ∀ q, stAt s q ≠ .empty → stAt s' q ≠ .empty

theorem Chain_of_sub {h : K → Nat} {s s' : List (Slot K T)} (hs : SubValid s s')
    (hk : NonEmptyKept s s') (hc : Chain h s) : Chain h s' := by
  intro p hp hv q hq hd
  obtain ⟨x, y⟩ := hs.2 p hv
  rw [hs.1] at hp hq hd
  rw [y] at hd
  exact hk q (hc p hp x q hq hd)

theorem NonEmptyKept_dropValue (s : List (Slot K T)) (i : Nat) : NonEmptyKept s (dropValue s i) := by
  intro q hq
  simp only [dropValue, stAt_set]
  split
  · intro c; cases c
  · exact hq

theorem removeKeyLoop_kept (key : K) (start : Nat) :
    ∀ fuel (s : List (Slot K T)) pos len o, removeKeyLoop key start fuel s pos len = .ok o →
      NonEmptyKept s o.slots := by
  intro fuel
  induction fuel with
  | zero => intro s pos len o h; simp [removeKeyLoop] at h
  | succ n ih =>
    intro s pos len o h
    unfold removeKeyLoop at h
    have hstdef : (getSlot s pos).st = stAt s pos := rfl
    cases hst : stAt s pos with
    | empty => simp only [hstdef, hst] at h; cases h; exact fun _ x => x
    | deleted =>
      simp only [hstdef, hst] at h
      split at h
      · cases h; exact fun _ x => x
      · exact ih _ _ _ _ h
    | valid =>
      simp only [hstdef, hst] at h
      split at h
      · split at h
        · cases h
        · split at h
          · cases h; exact NonEmptyKept_dropValue s pos
          · exact fun q hq => ih _ _ _ _ h q (NonEmptyKept_dropValue s pos q hq)
      · split at h
        · cases h; exact fun _ x => x
        · exact ih _ _ _ _ h

/-- counts of pairs of OTHER keys are untouched by the `remove_key` loop -/
theorem removeKeyLoop_cnt (key : K) (start : Nat) (P : Slot K T → Bool) (hP : VP P)
    (hPk : ∀ sl, P sl = true → sl.key ≠ key) :
    ∀ fuel (s : List (Slot K T)) pos len o, pos < s.length →
      removeKeyLoop key start fuel s pos len = .ok o → cnt P o.slots = cnt P s := by
  intro fuel
  induction fuel with
  | zero => intro s pos len o _ h; simp [removeKeyLoop] at h
  | succ n ih =>
    intro s pos len o hp h
    unfold removeKeyLoop at h
    have hstdef : (getSlot s pos).st = stAt s pos := rfl
    have hnl := nextPos_lt _ _ hp
    have hdrop : (getSlot s pos).key = key → cnt P (dropValue s pos) = cnt P s := by
      intro hk
      have hc := cnt_set P s pos ⟨.deleted, default, default⟩ hp
      have e1 : ¬ P (getSlot s pos) = true := fun c => hPk _ c hk
      have e2 : ¬ P (⟨.deleted, default, default⟩ : Slot K T) = true := by
        intro c; have := hP _ c; cases this
      rw [if_neg e1, if_neg e2] at hc
      simp only [dropValue]; omega
    cases hst : stAt s pos with
    | empty => simp only [hstdef, hst] at h; cases h; rfl
    | deleted =>
      simp only [hstdef, hst] at h
      split at h
      · cases h; rfl
      · exact ih _ _ _ _ hnl h
    | valid =>
      simp only [hstdef, hst] at h
      split at h
      · rename_i hk
        split at h
        · cases h
        · split at h
          · cases h; exact hdrop hk
          · have := ih (dropValue s pos) _ _ _ (by rw [length_dropValue]; exact hnl) h
            rw [this]; exact hdrop hk
      · split at h
        · cases h; rfl
        · exact ih _ _ _ _ hnl h

theorem Chain_putValid (h : K → Nat) (s : List (Slot K T)) (p : Nat) (k : K) (v : T)
    (hp : p < s.length) (hc : Chain h s)
    (hfirst : ∀ q, q < s.length → distFrom s.length (h k % s.length) q <
      distFrom s.length (h k % s.length) p → stAt s q = .valid) :
    Chain h (putValid s p k v) := by
  intro p' hp' hv' q hq hd
  rw [length_putValid] at hp' hq hd
  simp only [putValid, stAt_set, getSlot_set] at hv' hd ⊢
  by_cases c : p = p'
  · subst c
    simp only [hp, and_self, if_true] at hd
    have hqp : ¬ (p = q ∧ p < s.length) := by
      intro x; rw [← x.1] at hd; omega
    simp only [hqp, if_false]
    rw [hfirst q hq hd]; intro x; cases x
  · have c' : ¬ (p = p' ∧ p < s.length) := fun x => c x.1
    simp only [c', if_false] at hv' hd
    by_cases cq : p = q
    · subst cq; simp only [hp, and_self, if_true]; intro x; cases x
    · have cq' : ¬ (p = q ∧ p < s.length) := fun x => cq x.1
      simp only [cq', if_false]
      exact hc p' hp' hv' q hq hd

theorem cnt_putValid (P : Slot K T → Bool) (hP : VP P) (s : List (Slot K T)) (p : Nat) (k : K) (v : T)
    (hp : p < s.length) (hv : stAt s p ≠ .valid) :
    cnt P (putValid s p k v) = cnt P s + (if P ⟨.valid, k, v⟩ = true then 1 else 0) := by
  have hc := cnt_set P s p ⟨.valid, k, v⟩ hp
  have e1 : ¬ P (getSlot s p) = true := fun c => hv (hP _ c)
  rw [if_neg e1] at hc
  simp only [putValid]; omega

theorem growIfFull_refine (h : K → Nat) (F : Nat) (m m1 : MM K T) (hi : Inv m)
    (hc : Chain h m.slots) (hg : growIfFull h F m = .ok m1) :
    Chain h m1.slots ∧ ∀ P : Slot K T → Bool, VP P → cnt P m1.slots = cnt P m.slots := by
  unfold growIfFull at hg
  obtain ⟨hlen, hload⟩ := hi
  split at hg
  · refine rehash_refine h F m m1 (m.cap * 2) (max (m.cap * 2) MIN_CAP) rfl hlen ?_ hg hc
    rcases hload with h0 | ⟨h1, h2⟩
    · have : m.len = 0 := by
        have := countValid_le m.slots
        simp only [MM.cap] at h0; omega
      simp only [MIN_CAP]; omega
    · have := maxLen_le m.cap h1
      simp only [MIN_CAP] at *; omega
  · cases hg; exact ⟨hc, fun _ _ => rfl⟩

/-- `insert` adds exactly one pair -/
theorem insert_refine (h : K → Nat) (F : Nat) (m m' : MM K T) (k : K) (v : T) (hi : Inv m)
    (hc : Chain h m.slots) (hF : fuelBound m ≤ F) (hr : insert h F m k v = .ok m') :
    Chain h m'.slots ∧ ∀ P : Slot K T → Bool, VP P →
      cnt P m'.slots = cnt P m.slots + (if P ⟨.valid, k, v⟩ = true then 1 else 0) := by
  unfold insert at hr
  obtain ⟨m1, hg, ⟨hlen1, _⟩, hcap1, hlt1, _⟩ := growIfFull_ok h F m hi hF
  obtain ⟨hc1, hcnt1⟩ := growIfFull_refine h F m m1 hi hc hg
  simp only [hg] at hr
  have hne : m1.cap ≠ 0 := by simp only [MIN_CAP] at hcap1; omega
  simp only [hne, if_false] at hr
  have hcapdef : m1.cap = m1.slots.length := rfl
  have hml := maxLen_le m1.cap hcap1
  have hcvlt : countValid m1.slots < m1.slots.length := by omega
  have hex := exists_not_valid m1.slots hcvlt
  have hhome : h k % m1.cap < m1.slots.length := by
    rw [← hcapdef]; exact Nat.mod_lt _ (by omega)
  cases hf : freeIndexLoop m1.slots F (h k % m1.cap) with
  | ok p =>
    rw [hf] at hr
    cases hr
    obtain ⟨hpl, hpv, hfirst⟩ := freeIndexLoop_first m1.slots (h k % m1.cap) hhome hex F _ p hhome
      (by intro q _ hd; simp [distFrom] at hd) hf
    refine ⟨Chain_putValid h m1.slots p k v hpl hc1 (by rw [← hcapdef]; exact hfirst), ?_⟩
    intro P hP
    show cnt P (putValid m1.slots p k v) = _
    rw [cnt_putValid P hP m1.slots p k v hpl hpv, hcnt1 P hP]
  | err e => rw [hf] at hr; simp [Outcome.cast] at hr
  | panic e => rw [hf] at hr; simp [Outcome.cast] at hr
  | hugeAlloc e => rw [hf] at hr; simp [Outcome.cast] at hr
  | outOfFuel => rw [hf] at hr; simp [Outcome.cast] at hr

theorem shrink_refine (h : K → Nat) (F : Nat) (m2 m3 : MM K T) (hlen : m2.len = countValid m2.slots)
    (hcap : MIN_CAP ≤ m2.cap) (hc : Chain h m2.slots)
    (hr : (if m2.len ≤ minLen m2.cap then rehash h F m2 (m2.cap / 2) else .ok m2) = .ok m3) :
    Chain h m3.slots ∧ ∀ P : Slot K T → Bool, VP P → cnt P m3.slots = cnt P m2.slots := by
  split at hr
  · rename_i hs
    refine rehash_refine h F m2 m3 (m2.cap / 2) (max (m2.cap / 2) MIN_CAP) rfl hlen ?_ hr hc
    simp only [minLen, MIN_CAP] at *; omega
  · cases hr; exact ⟨hc, fun _ _ => rfl⟩

theorem reserve_refine (h : K → Nat) (F : Nat) (m m' : MM K T) (c : Nat) (hi : Inv m)
    (hc : Chain h m.slots) (hr : reserve h F m c = .ok m') :
    Chain h m'.slots ∧ ∀ P : Slot K T → Bool, VP P → cnt P m'.slots = cnt P m.slots := by
  unfold reserve at hr
  split at hr
  · rename_i hlt
    obtain ⟨hlen, hload⟩ := hi
    refine rehash_refine h F m m' c (max c MIN_CAP) rfl hlen ?_ hr hc
    rcases hload with h0 | ⟨h1, h2⟩
    · have : m.len = 0 := by
        have := countValid_le m.slots
        simp only [MM.cap] at h0; omega
      simp only [MIN_CAP]; omega
    · have := maxLen_le m.cap h1
      simp only [MIN_CAP] at *; omega
  · cases hr; exact ⟨hc, fun _ _ => rfl⟩

theorem removeValueLoop_found (key : K) (v : T) (start : Nat) (s : List (Slot K T)) :
    ∀ fuel pos p b, removeValueLoop key v start s fuel pos = .ok (some p, b) →
      getSlot s p = ⟨.valid, key, v⟩ := by
  intro fuel
  induction fuel with
  | zero => intro pos p b h; simp [removeValueLoop] at h
  | succ n ih =>
    intro pos p b h
    unfold removeValueLoop at h
    have hstdef : (getSlot s pos).st = stAt s pos := rfl
    cases hst : stAt s pos with
    | empty => simp only [hstdef, hst] at h; cases h
    | deleted =>
      simp only [hstdef, hst] at h
      split at h
      · cases h
      · exact ih _ _ _ h
    | valid =>
      simp only [hstdef, hst] at h
      split at h
      · rename_i hm
        cases h
        have h1 : (getSlot s pos).st = .valid := hst
        cases hg : getSlot s pos with
        | mk st k' v' =>
          rw [hg] at h1 hm
          simp only at h1 hm
          rw [h1, hm.1, hm.2]
      · split at h
        · cases h
        · exact ih _ _ _ h

/-- `remove_value`: the chain survives; either nothing changes or exactly one pair `(key, v)` goes -/
theorem removeValue_refine (h : K → Nat) (F : Nat) (m m' : MM K T) (key : K) (v : T) (hi : Inv m)
    (hc : Chain h m.slots) (hr : removeValue h F m key v = .ok m') :
    Chain h m'.slots ∧
      ((∀ P : Slot K T → Bool, VP P → cnt P m'.slots = cnt P m.slots) ∨
       (∀ P : Slot K T → Bool, VP P →
          cnt P m'.slots + (if P ⟨.valid, key, v⟩ = true then 1 else 0) = cnt P m.slots)) := by
  unfold removeValue at hr
  by_cases h0 : m.cap = 0
  · simp only [h0, if_true] at hr; cases hr; exact ⟨hc, Or.inl fun _ _ => rfl⟩
  · simp only [h0, if_false] at hr
    obtain ⟨hlen, hload⟩ := hi
    rcases hload with hz | ⟨hcap, hld⟩
    · exact absurd hz h0
    · have hml := maxLen_le m.cap hcap
      cases hl : removeValueLoop key v (h key % m.cap) m.slots F (h key % m.cap) with
      | ok r =>
        rw [hl] at hr
        obtain ⟨r1, r2⟩ := r
        cases r1 with
        | some p =>
          simp only at hr
          have hpv := removeValueLoop_pos key v _ m.slots F _ p r2 hl
          have hpl : p < m.slots.length := by
            apply Classical.byContradiction
            intro c; rw [stAt_ge m.slots p (by omega)] at hpv; cases hpv
          unfold removeIndex at hr
          have hpos := countValid_pos_of_valid m.slots p hpv
          have hne : m.len ≠ 0 := by omega
          simp only [hne, if_false] at hr
          have hdrop := countValid_dropValue m.slots p hpv
          have hcap2 : (⟨dropValue m.slots p, m.len - 1⟩ : MM K T).cap = m.cap := length_dropValue _ _
          obtain ⟨hc3, hcnt3⟩ := shrink_refine h F ⟨dropValue m.slots p, m.len - 1⟩ m'
            (by show m.len - 1 = countValid (dropValue m.slots p); omega)
            (by rw [hcap2]; exact hcap)
            (Chain_of_sub (SubValid_dropValue m.slots p) (NonEmptyKept_dropValue m.slots p) hc) hr
          refine ⟨hc3, Or.inr ?_⟩
          intro P hP
          rw [hcnt3 P hP]
          show cnt P (dropValue m.slots p) + _ = _
          have hcs := cnt_set P m.slots p ⟨.deleted, default, default⟩ hpl
          have e2 : ¬ P (⟨.deleted, default, default⟩ : Slot K T) = true := by
            intro c; have := hP _ c; cases this
          rw [if_neg e2] at hcs
          -- the slot found holds exactly (key, v)
          have hslot : getSlot m.slots p = ⟨.valid, key, v⟩ := by
            have := removeValueLoop_found key v (h key % m.cap) m.slots F _ p r2 hl
            exact this
          rw [hslot] at hcs
          simp only [dropValue]; omega
        | none =>
          cases r2 with
          | true =>
            simp only at hr
            have hmax : m.cap = max m.cap MIN_CAP := by simp only [MIN_CAP] at *; omega
            obtain ⟨a, b⟩ := rehash_refine h F m m' m.cap m.cap hmax hlen (by omega) hr hc
            exact ⟨a, Or.inl b⟩
          | false => simp only at hr; cases hr; exact ⟨hc, Or.inl fun _ _ => rfl⟩
      | err e => rw [hl] at hr; simp [Outcome.cast] at hr
      | panic e => rw [hl] at hr; simp [Outcome.cast] at hr
      | hugeAlloc e => rw [hl] at hr; simp [Outcome.cast] at hr
      | outOfFuel => rw [hl] at hr; simp [Outcome.cast] at hr

end
end AgdbColl
