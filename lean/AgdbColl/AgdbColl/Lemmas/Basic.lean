import AgdbColl.Model.MultiMap
/-!
Basic facts about slot lists: `getSlot` / `stAt` after `set`, counting `Valid` slots,
cyclic probing (`nextPos`) distances.
-/
namespace AgdbColl
set_option linter.unusedSectionVars false

section
variable {K T : Type} [DecidableEq K] [DecidableEq T] [Inhabited K] [Inhabited T]

/-- number of `Valid` slots -/
def countValid (s : List (Slot K T)) : Nat := s.countP fun sl => decide (sl.st = .valid)

theorem getSlot_eq (s : List (Slot K T)) (i : Nat) : getSlot s i = s[i]?.getD emptySlot := by
  simp [getSlot, List.getD_eq_getElem?_getD]

theorem getSlot_of_lt (s : List (Slot K T)) (i : Nat) (h : i < s.length) : getSlot s i = s[i] := by
  simp [getSlot_eq, h]

theorem getSlot_set (s : List (Slot K T)) (i j : Nat) (a : Slot K T) :
    getSlot (s.set i a) j = if i = j ∧ i < s.length then a else getSlot s j := by
  simp only [getSlot_eq, List.getElem?_set]
  by_cases h : i = j
  · subst h
    by_cases h2 : i < s.length <;> simp [h2]
  · simp [h]

theorem stAt_set (s : List (Slot K T)) (i j : Nat) (a : Slot K T) :
    stAt (s.set i a) j = if i = j ∧ i < s.length then a.st else stAt s j := by
  simp only [stAt, getSlot_set]
  split <;> rfl

theorem stAt_ge (s : List (Slot K T)) (i : Nat) (h : s.length ≤ i) : stAt s i = .empty := by
  simp [stAt, getSlot_eq, h, emptySlot]

theorem countValid_set (s : List (Slot K T)) (i : Nat) (a : Slot K T) (h : i < s.length) :
    countValid (s.set i a) + (if stAt s i = .valid then 1 else 0) =
      countValid s + (if a.st = .valid then 1 else 0) := by
  have h1 := List.countP_set (p := fun sl : Slot K T => decide (sl.st = .valid)) (l := s) (a := a) h
  have h2 : stAt s i = s[i].st := by simp [stAt, getSlot_of_lt s i h]
  have h3 : (if stAt s i = .valid then 1 else 0) ≤ countValid s := by
    split
    · rename_i hv
      have : 0 < countValid s := by
        apply List.countP_pos_iff.mpr
        exact ⟨s[i], List.getElem_mem h, by simpa [h2] using hv⟩
      omega
    · omega
  simp only [countValid, h1, decide_eq_true_eq]
  rw [h2] at h3 ⊢
  simp only [countValid] at h3
  omega

theorem countValid_le (s : List (Slot K T)) : countValid s ≤ s.length := List.countP_le_length

theorem countValid_pos_of_valid (s : List (Slot K T)) (i : Nat) (hv : stAt s i = .valid) :
    0 < countValid s := by
  have hi : i < s.length := by
    apply Classical.byContradiction
    intro h
    have := stAt_ge s i (by omega)
    rw [this] at hv
    cases hv
  apply List.countP_pos_iff.mpr
  refine ⟨s[i], List.getElem_mem hi, ?_⟩
  simpa [stAt, getSlot_of_lt s i hi] using hv

/-- a table with fewer `Valid` slots than slots has a non-`Valid` slot -/
theorem exists_not_valid (s : List (Slot K T)) (h : countValid s < s.length) :
    ∃ j, j < s.length ∧ stAt s j ≠ .valid := by
  have hne : ¬ ∀ a ∈ s, decide (a.st = St.valid) = true := by
    intro hall
    have := (List.countP_eq_length (p := fun sl : Slot K T => decide (sl.st = .valid))).mpr hall
    simp only [countValid] at h
    omega
  have : ∃ a, a ∈ s ∧ a.st ≠ .valid := by
    apply Classical.byContradiction
    intro hno
    apply hne
    intro a ha
    apply Classical.byContradiction
    intro hd
    exact hno ⟨a, ha, by simpa using hd⟩
  obtain ⟨a, ha, hav⟩ := this
  obtain ⟨j, hj, rfl⟩ := List.getElem_of_mem ha
  exact ⟨j, hj, by simpa [stAt, getSlot_of_lt s j hj] using hav⟩

/-- same for a boolean list -/
theorem exists_false (occ : List Bool) (h : occ.countP (fun b => b) < occ.length) :
    ∃ j, j < occ.length ∧ occ.getD j false = false := by
  have hne : ¬ ∀ a ∈ occ, (fun b : Bool => b) a = true := by
    intro hall
    have := (List.countP_eq_length (p := fun b : Bool => b)).mpr hall
    omega
  have : ∃ a, a ∈ occ ∧ a = false := by
    apply Classical.byContradiction
    intro hno
    apply hne
    intro a ha
    cases a
    · exact absurd ⟨false, ha, rfl⟩ hno
    · rfl
  obtain ⟨a, ha, hav⟩ := this
  obtain ⟨j, hj, rfl⟩ := List.getElem_of_mem ha
  exact ⟨j, hj, by simp [List.getD_eq_getElem?_getD, hj, hav]⟩

/-! ### cyclic probing -/

theorem nextPos_lt (cap pos : Nat) (h : pos < cap) : nextPos cap pos < cap := by
  unfold nextPos; split <;> omega

/-- steps from `pos` forward to `j` -/
def distTo (cap pos j : Nat) : Nat := if pos ≤ j then j - pos else j + cap - pos

theorem distTo_next (cap pos j : Nat) (hp : pos < cap) (hj : j < cap) (hne : pos ≠ j) :
    distTo cap (nextPos cap pos) j + 1 = distTo cap pos j := by
  unfold distTo nextPos
  split <;> split <;> split <;> omega

theorem distTo_lt (cap pos j : Nat) (hp : pos < cap) (hj : j < cap) : distTo cap pos j < cap := by
  unfold distTo; split <;> omega

/-- steps already taken from `start` to `pos` -/
def distFrom (cap start pos : Nat) : Nat := if start ≤ pos then pos - start else pos + cap - start

theorem distFrom_next (cap start pos : Nat) (hs : start < cap) (hp : pos < cap)
    (hne : nextPos cap pos ≠ start) :
    distFrom cap start (nextPos cap pos) = distFrom cap start pos + 1 := by
  unfold distFrom nextPos at *
  split at hne <;> (repeat' split) <;> omega

theorem distFrom_lt (cap start pos : Nat) (hs : start < cap) (hp : pos < cap) :
    distFrom cap start pos < cap := by
  unfold distFrom; split <;> omega

end
end AgdbColl
