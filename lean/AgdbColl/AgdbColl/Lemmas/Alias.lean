import AgdbColl.Model.Db
/-!
Facts about the `MapImpl` interface (`AMap`), `IndexedMapImpl` (`IMap`) and the id allocator
(`Graph`) used by the C10 theorems.
-/
namespace AgdbColl

namespace AMap
variable {κ ν : Type} [DecidableEq κ]

theorem get_erase (m : AMap κ ν) (k k' : κ) :
    get (erase m k) k' = if k' = k then none else get m k' := by
  induction m with
  | nil => simp [erase, get]
  | cons p r ih =>
    obtain ⟨a, b⟩ := p
    simp only [erase, List.filter_cons] at ih ⊢
    by_cases h : a = k
    · subst h
      simp only [ne_eq, not_true_eq_false, decide_false, Bool.false_eq_true, if_false]
      rw [ih]
      by_cases h2 : k' = a
      · simp [h2]
      · have : ¬ a = k' := fun e => h2 e.symm
        simp [get, h2, this]
    · simp only [ne_eq, h, not_false_eq_true, decide_true, if_true, get]
      rw [ih]
      by_cases h2 : a = k'
      · subst h2; simp [h]
      · simp [h2]

theorem get_append (m n : AMap κ ν) (k : κ) : get (m ++ n) k = (get m k).or (get n k) := by
  induction m with
  | nil => simp [get]
  | cons p r ih =>
    obtain ⟨a, b⟩ := p
    simp only [List.cons_append, get]
    split
    · simp
    · exact ih

theorem get_put (m : AMap κ ν) (k : κ) (v : ν) (k' : κ) :
    get (put m k v) k' = if k' = k then some v else get m k' := by
  simp only [put, get_append, get_erase]
  by_cases h : k' = k
  · subst h; simp [get]
  · have : ¬ k = k' := fun e => h e.symm
    simp [h, get, this]

/-- keys occur once -/
def NodupKeys (m : AMap κ ν) : Prop := (m.map Prod.fst).Nodup

theorem nodup_erase (m : AMap κ ν) (k : κ) (h : NodupKeys m) : NodupKeys (erase m k) := by
  unfold NodupKeys erase at *
  induction m with
  | nil => simp
  | cons p r ih =>
    simp only [List.map_cons, List.nodup_cons] at h
    simp only [List.filter_cons]
    split
    · simp only [List.map_cons, List.nodup_cons]
      refine ⟨?_, ih h.2⟩
      intro hm
      apply h.1
      simp only [List.mem_map] at hm ⊢
      obtain ⟨x, hx, he⟩ := hm
      exact ⟨x, (List.mem_filter.mp hx).1, he⟩
    · exact ih h.2

theorem not_mem_keys_erase (m : AMap κ ν) (k : κ) : k ∉ (erase m k).map Prod.fst := by
  intro hm
  simp only [erase, List.mem_map, List.mem_filter] at hm
  obtain ⟨x, ⟨_, hx⟩, he⟩ := hm
  simp [he] at hx

theorem nodup_put (m : AMap κ ν) (k : κ) (v : ν) (h : NodupKeys m) : NodupKeys (put m k v) := by
  have h1 := nodup_erase m k h
  have h2 := not_mem_keys_erase m k
  unfold NodupKeys put at *
  simp only [List.map_append, List.map_cons, List.map_nil]
  apply List.nodup_append.mpr
  refine ⟨h1, by simp, ?_⟩
  intro a ha b hb
  simp only [List.mem_singleton] at hb
  subst hb
  intro e; subst e
  exact h2 ha

theorem mem_iff_get (m : AMap κ ν) (h : NodupKeys m) (k : κ) (v : ν) :
    (k, v) ∈ m ↔ get m k = some v := by
  induction m with
  | nil => simp [get]
  | cons p r ih =>
    obtain ⟨a, b⟩ := p
    simp only [NodupKeys, List.map_cons, List.nodup_cons] at h
    simp only [List.mem_cons, get]
    by_cases e : a = k
    · subst e
      simp only [if_true, Option.some.injEq]
      constructor
      · intro hm
        rcases hm with hm | hm
        · exact (Prod.mk.inj hm).2.symm
        · exact absurd (List.mem_map.mpr ⟨(a, v), hm, rfl⟩) h.1
      · intro hv; subst hv; exact Or.inl rfl
    · simp only [e, if_false]
      rw [← ih h.2]
      constructor
      · intro hm
        rcases hm with hm | hm
        · exact absurd (Prod.mk.inj hm).1.symm e
        · exact hm
      · intro hm; exact Or.inr hm

end AMap

/-! ## IndexedMap -/

/-- the two maps are inverse to each other -/
def Inverse (m : IMap) : Prop := ∀ a i, AMap.get m.k2v a = some i ↔ AMap.get m.v2k i = some a

theorem Inverse_empty : Inverse IMap.empty := by
  intro a i; simp [IMap.empty, AMap.get]

theorem IMap.insert_k2v (m : IMap) (hinv : Inverse m) (a : Alias) (i : Int) (b : Alias) :
    AMap.get (m.insert a i).k2v b =
      if b = a then some i else if AMap.get m.k2v b = some i then none else AMap.get m.k2v b := by
  unfold IMap.insert AMap.insert
  simp only
  cases hov : AMap.get m.k2v a <;> simp only <;>
  (split <;> rename_i hok <;> simp only [AMap.get_put, AMap.get_erase] at hok ⊢ <;> grind [Inverse])

theorem IMap.insert_v2k (m : IMap) (hinv : Inverse m) (a : Alias) (i : Int) (j : Int) :
    AMap.get (m.insert a i).v2k j =
      if j = i then some a else if AMap.get m.v2k j = some a then none else AMap.get m.v2k j := by
  have h1 : ∀ a i, AMap.get m.k2v a = some i → AMap.get m.v2k i = some a := fun a i => (hinv a i).mp
  have h2 : ∀ a i, AMap.get m.v2k i = some a → AMap.get m.k2v a = some i := fun a i => (hinv a i).mpr
  unfold IMap.insert AMap.insert
  simp only
  cases hov : AMap.get m.k2v a <;> simp only <;>
  (split <;> rename_i hok <;> simp only [AMap.get_put, AMap.get_erase] at hok ⊢ <;> grind)

theorem IMap.insert_inverse (m : IMap) (hinv : Inverse m) (a : Alias) (i : Int) :
    Inverse (m.insert a i) := by
  intro b j
  have h1 : ∀ a i, AMap.get m.k2v a = some i → AMap.get m.v2k i = some a := fun a i => (hinv a i).mp
  have h2 : ∀ a i, AMap.get m.v2k i = some a → AMap.get m.k2v a = some i := fun a i => (hinv a i).mpr
  rw [IMap.insert_k2v m hinv, IMap.insert_v2k m hinv]
  grind

theorem IMap.removeKey_k2v (m : IMap) (a b : Alias) :
    AMap.get (m.removeKey a).k2v b = if b = a then none else AMap.get m.k2v b := by
  simp [IMap.removeKey, AMap.get_erase]

theorem IMap.removeKey_v2k (m : IMap) (hinv : Inverse m) (a : Alias) (j : Int) :
    AMap.get (m.removeKey a).v2k j =
      if AMap.get m.k2v a = some j then none else AMap.get m.v2k j := by
  have h1 : ∀ a i, AMap.get m.k2v a = some i → AMap.get m.v2k i = some a := fun a i => (hinv a i).mp
  have h2 : ∀ a i, AMap.get m.v2k i = some a → AMap.get m.k2v a = some i := fun a i => (hinv a i).mpr
  unfold IMap.removeKey
  cases hov : AMap.get m.k2v a <;> simp only [AMap.get_erase] <;> grind

theorem IMap.removeKey_inverse (m : IMap) (hinv : Inverse m) (a : Alias) :
    Inverse (m.removeKey a) := by
  intro b j
  have h1 : ∀ a i, AMap.get m.k2v a = some i → AMap.get m.v2k i = some a := fun a i => (hinv a i).mp
  have h2 : ∀ a i, AMap.get m.v2k i = some a → AMap.get m.k2v a = some i := fun a i => (hinv a i).mpr
  rw [IMap.removeKey_k2v, IMap.removeKey_v2k m hinv]
  grind

theorem IMap.removeKey_twice (m : IMap) (a : Alias) : (m.removeKey a).removeKey a = m.removeKey a := by
  have h1 : AMap.get (AMap.erase m.k2v a) a = none := by simp [AMap.get_erase]
  have h2 : AMap.erase (AMap.erase m.k2v a) a = AMap.erase m.k2v a := by
    simp [AMap.erase, List.filter_filter]
  simp only [IMap.removeKey, h1, h2]

theorem IMap.insert_nodup (m : IMap) (h : AMap.NodupKeys m.k2v) (a : Alias) (i : Int) :
    AMap.NodupKeys (m.insert a i).k2v := by
  unfold IMap.insert AMap.insert
  simp only
  split <;> (try apply AMap.nodup_erase) <;> exact AMap.nodup_put _ _ _ h

theorem IMap.removeKey_nodup (m : IMap) (h : AMap.NodupKeys m.k2v) (a : Alias) :
    AMap.NodupKeys (m.removeKey a).k2v := AMap.nodup_erase _ _ h

end AgdbColl
