import AgdbColl.Lemmas.RemoveComplete
/-!
`values` (draining `iter_key`) returns exactly the values stored under the key (as a set; every
stored pair's value appears, nothing else appears), under the chain and no-wrap invariants.
-/
namespace AgdbColl
set_option linter.unusedSectionVars false
set_option linter.unusedVariables false

section
variable {K T : Type} [DecidableEq K] [DecidableEq T] [Inhabited K] [Inhabited T]

/-- slot `p` holds a pair of the key -/
def Match (s : List (Slot K T)) (key : K) (p : Nat) : Prop :=
  stAt s p = .valid ∧ (getSlot s p).key = key

/-- a `some` answer: the matching slot, the pair, the new position, and no match in between -/
theorem iterNext_some_full (key : K) (start : Nat) (s : List (Slot K T)) (hs : start < s.length) :
    ∀ fuel pos kv pos', pos < s.length → iterNext key start s fuel pos = .ok (some kv, pos') →
      ∃ p, p < s.length ∧ Match s key p ∧ kv.2 = (getSlot s p).val ∧ pos' = nextPos s.length p ∧
        distFrom s.length start pos ≤ distFrom s.length start p ∧
        ∀ q, q < s.length → distFrom s.length start pos ≤ distFrom s.length start q →
          distFrom s.length start q < distFrom s.length start p → ¬ Match s key q := by
  intro fuel
  induction fuel with
  | zero => intro pos kv pos' _ h; simp [iterNext] at h
  | succ n ih =>
    intro pos kv pos' hp h
    unfold iterNext at h
    have hstdef : (getSlot s pos).st = stAt s pos := rfl
    have cont : ¬ Match s key pos → ¬ start = nextPos s.length pos →
        iterNext key start s n (nextPos s.length pos) = .ok (some kv, pos') →
        ∃ p, p < s.length ∧ Match s key p ∧ kv.2 = (getSlot s p).val ∧ pos' = nextPos s.length p ∧
          distFrom s.length start pos ≤ distFrom s.length start p ∧
          ∀ q, q < s.length → distFrom s.length start pos ≤ distFrom s.length start q →
            distFrom s.length start q < distFrom s.length start p → ¬ Match s key q := by
      intro hnm hw h2
      obtain ⟨p, a, b, c, d, e, f⟩ := ih _ kv pos' (nextPos_lt _ _ hp) h2
      have hn := distFrom_next s.length start pos hs hp (fun x => hw x.symm)
      refine ⟨p, a, b, c, d, by omega, ?_⟩
      intro q hq h1 h2'
      by_cases e1 : distFrom s.length start q = distFrom s.length start pos
      · have := dist_inj _ _ _ _ hs hp hq e1
        subst this; exact hnm
      · exact f q hq (by omega) h2'
    cases hst : stAt s pos with
    | empty => simp only [hstdef, hst] at h; cases h
    | deleted =>
      simp only [hstdef, hst] at h
      by_cases hw : start = nextPos s.length pos
      · simp only [← hw, if_true] at h; cases h
      · simp only [hw, if_false] at h
        exact cont (by intro c; rw [Match, hst] at c; cases c.1) hw h
    | valid =>
      simp only [hstdef, hst] at h
      by_cases hk : (getSlot s pos).key = key
      · simp only [hk, if_true] at h
        cases h
        exact ⟨pos, hp, ⟨hst, hk⟩, rfl, rfl, Nat.le_refl _, by intro q _ h1 h2; omega⟩
      · simp only [hk, if_false] at h
        by_cases hw : start = nextPos s.length pos
        · simp only [← hw, if_true] at h; cases h
        · simp only [hw, if_false] at h
          exact cont (fun c => hk c.2) hw h

/-- a `none` answer from `pos`: every pair of the key lies strictly before `pos` in probe order -/
theorem iterNext_none_from (h : K → Nat) (key : K) (s : List (Slot K T)) (hc : Chain h s)
    (hs : h key % s.length < s.length) :
    ∀ fuel pos pos', pos < s.length →
      iterNext key (h key % s.length) s fuel pos = .ok (none, pos') →
      ∀ p, p < s.length → Match s key p →
        distFrom s.length (h key % s.length) p < distFrom s.length (h key % s.length) pos := by
  intro fuel
  induction fuel with
  | zero => intro pos pos' _ hr; simp [iterNext] at hr
  | succ n ih =>
    intro pos pos' hp hr p hpl hm
    unfold iterNext at hr
    have hstdef : (getSlot s pos).st = stAt s pos := rfl
    have step : ¬ Match s key pos →
        (if h key % s.length = nextPos s.length pos then (Outcome.ok (none, nextPos s.length pos) : Outcome (Option (K × T) × Nat))
          else iterNext key (h key % s.length) s n (nextPos s.length pos)) = .ok (none, pos') →
        distFrom s.length (h key % s.length) p < distFrom s.length (h key % s.length) pos := by
      intro hposnm hr2
      have hne : p ≠ pos := by intro e; subst e; exact hposnm hm
      by_cases hw : h key % s.length = nextPos s.length pos
      · exact dist_lt_of_next_eq _ _ _ _ hs hp hpl hne hw.symm
      · rw [if_neg hw] at hr2
        have h1 := ih _ pos' (nextPos_lt _ _ hp) hr2 p hpl hm
        have h2 := distFrom_next s.length (h key % s.length) pos hs hp (fun x => hw x.symm)
        have h3 : distFrom s.length (h key % s.length) p ≠ distFrom s.length (h key % s.length) pos :=
          fun e => hne (dist_inj _ _ _ _ hs hp hpl e)
        omega
    cases hst : stAt s pos with
    | empty =>
      have hpne : p ≠ pos := by
        intro e; subst e; rw [Match, hst] at hm; cases hm.1
      apply Classical.byContradiction
      intro hd
      have hlt : distFrom s.length (h key % s.length) pos < distFrom s.length (h key % s.length) p := by
        have : distFrom s.length (h key % s.length) p ≠ distFrom s.length (h key % s.length) pos :=
          fun e => hpne (dist_inj _ _ _ _ hs hp hpl e)
        omega
      have := hc p hpl hm.1 pos hp (by rw [hm.2]; exact hlt)
      exact this hst
    | deleted =>
      simp only [hstdef, hst] at hr
      exact step (by intro c; rw [Match, hst] at c; cases c.1) hr
    | valid =>
      simp only [hstdef, hst] at hr
      split at hr
      · cases hr
      · rename_i hk
        exact step (fun c => hk c.2) hr

/-- the drained values are exactly the values of the stored pairs of the key -/
theorem collectLoop_refine (h : K → Nat) (key : K) (s : List (Slot K T)) (hc : Chain h s)
    (hs : h key % s.length < s.length) (hnw : NoWrapAt s key (h key % s.length)) (F : Nat) :
    ∀ fuel pos acc vs, pos < s.length →
      (∀ v, v ∈ acc → ∃ p, p < s.length ∧ Match s key p ∧ (getSlot s p).val = v) →
      (∀ q, q < s.length → Match s key q →
        distFrom s.length (h key % s.length) q < distFrom s.length (h key % s.length) pos →
        (getSlot s q).val ∈ acc) →
      collectLoop key (h key % s.length) s F fuel pos acc = .ok vs →
      (∀ v, v ∈ vs → ∃ p, p < s.length ∧ Match s key p ∧ (getSlot s p).val = v) ∧
      (∀ q, q < s.length → Match s key q → (getSlot s q).val ∈ vs) := by
  intro fuel
  induction fuel with
  | zero => intro pos acc vs _ _ _ hr; simp [collectLoop] at hr
  | succ n ih =>
    intro pos acc vs hp hsound hcov hr
    unfold collectLoop at hr
    cases hit : iterNext key (h key % s.length) s F pos with
    | ok res =>
      rw [hit] at hr
      obtain ⟨r1, pos'⟩ := res
      cases r1 with
      | none =>
        simp only at hr
        cases hr
        refine ⟨hsound, ?_⟩
        intro q hq hm
        exact hcov q hq hm (iterNext_none_from h key s hc hs F pos pos' hp hit q hq hm)
      | some kv =>
        obtain ⟨k', v'⟩ := kv
        simp only at hr
        obtain ⟨p, hpl, hm, hv, hpos', hle, hbetween⟩ :=
          iterNext_some_full key _ s hs F pos (k', v') pos' hp hit
        have hne : nextPos s.length p ≠ h key % s.length := fun x => hnw p hpl x hm
        have hdn := distFrom_next s.length (h key % s.length) p hs hpl hne
        subst hpos'
        refine ih _ _ vs (nextPos_lt _ _ hpl) ?_ ?_ hr
        · intro v hvm
          rcases List.mem_append.mp hvm with hvm | hvm
          · exact hsound v hvm
          · simp only [List.mem_singleton] at hvm
            exact ⟨p, hpl, hm, by rw [hvm]; exact hv.symm⟩
        · intro q hq hmq hd
          by_cases e : distFrom s.length (h key % s.length) q < distFrom s.length (h key % s.length) pos
          · exact List.mem_append_left _ (hcov q hq hmq e)
          · by_cases e2 : distFrom s.length (h key % s.length) q = distFrom s.length (h key % s.length) p
            · have := dist_inj _ _ _ _ hs hpl hq e2
              subst this
              apply List.mem_append_right
              simp only [List.mem_singleton]
              exact hv.symm
            · exact absurd hmq (hbetween q hq (by omega) (by omega))
    | err e => rw [hit] at hr; simp [Outcome.cast] at hr
    | panic e => rw [hit] at hr; simp [Outcome.cast] at hr
    | hugeAlloc e => rw [hit] at hr; simp [Outcome.cast] at hr
    | outOfFuel => rw [hit] at hr; simp [Outcome.cast] at hr

/-- `values key` returns a value iff the pair `(key, value)` is stored -/
theorem values_refine (h : K → Nat) (F : Nat) (m : MM K T) (key : K) (hc : Chain h m.slots)
    (hn : NoWrap h m.slots) (vs : List T) (hr : values h F m key = .ok vs) :
    ∀ v, v ∈ vs ↔ 0 < cnt (pairP key v) m.slots := by
  unfold values at hr
  by_cases h0 : m.cap = 0
  · simp only [h0, if_true] at hr
    cases hr
    have : m.slots = [] := List.eq_nil_of_length_eq_zero h0
    intro v; simp [cnt, this]
  · simp only [h0, if_false] at hr
    have hhome : h key % m.slots.length < m.slots.length := Nat.mod_lt _ (by simp only [MM.cap] at h0; omega)
    have hhp : homePos h m key = h key % m.slots.length := by unfold homePos; rw [if_neg h0]; rfl
    rw [hhp] at hr
    obtain ⟨hsound, hcomp⟩ := collectLoop_refine h key m.slots hc hhome (hn.at key) F F _ [] vs hhome
      (by intro v hv; cases hv) (by intro q _ _ hd; simp [distFrom] at hd) hr
    intro v
    constructor
    · intro hv
      obtain ⟨p, hpl, hm, hval⟩ := hsound v hv
      apply (cnt_pos_iff _ _).mpr
      refine ⟨p, hpl, ?_⟩
      have h1 : (getSlot m.slots p).st = .valid := hm.1
      simp [pairP, h1, hm.2, hval]
    · intro hpos
      obtain ⟨p, hpl, hP⟩ := (cnt_pos_iff _ _).mp hpos
      simp only [pairP, decide_eq_true_eq] at hP
      have := hcomp p hpl ⟨hP.1, hP.2.1⟩
      rw [hP.2.2] at this
      exact this

end
end AgdbColl
