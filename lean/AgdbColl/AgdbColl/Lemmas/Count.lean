import AgdbColl.Lemmas.Rehash
/-!
Counting slots by an arbitrary predicate that only holds of `Valid` slots (the abstract multiset of
pairs is `fun k v => cnt (pairP k v) slots`).
-/
namespace AgdbColl
set_option linter.unusedSectionVars false
set_option linter.unusedVariables false

section
variable {K T : Type} [DecidableEq K] [DecidableEq T] [Inhabited K] [Inhabited T]

def cnt (P : Slot K T → Bool) (s : List (Slot K T)) : Nat := s.countP P

/-- the predicate only holds of `Valid` slots -/
def VP (P : Slot K T → Bool) : Prop := ∀ sl, P sl = true → sl.st = .valid

/-- "the slot holds the pair `(k, v)`" -/
def pairP (k : K) (v : T) : Slot K T → Bool :=
  fun sl => decide (sl.st = .valid ∧ sl.key = k ∧ sl.val = v)

/-- "the slot holds some pair of key `k`" -/
def keyP (k : K) : Slot K T → Bool := fun sl => decide (sl.st = .valid ∧ sl.key = k)

theorem VP_pairP (k : K) (v : T) : VP (pairP k v) := by
  intro sl h; simp [pairP] at h; exact h.1

theorem VP_keyP (k : K) : VP (keyP (T := T) k) := by
  intro sl h; simp [keyP] at h; exact h.1

theorem cnt_set (P : Slot K T → Bool) (s : List (Slot K T)) (i : Nat) (a : Slot K T) (h : i < s.length) :
    cnt P (s.set i a) + (if P (getSlot s i) = true then 1 else 0) =
      cnt P s + (if P a = true then 1 else 0) := by
  have h1 := List.countP_set (p := P) (l := s) (a := a) h
  have h2 : getSlot s i = s[i] := getSlot_of_lt s i h
  have h3 : (if P (getSlot s i) = true then 1 else 0) ≤ cnt P s := by
    split
    · rename_i hv
      have : 0 < cnt P s := by
        apply List.countP_pos_iff.mpr
        exact ⟨s[i], List.getElem_mem h, by rw [← h2]; exact hv⟩
      omega
    · omega
  simp only [cnt] at h3 ⊢
  rw [h1, h2] at *
  omega

theorem cnt_swapSlots (P : Slot K T → Bool) (s : List (Slot K T)) (i j : Nat) (hi : i < s.length)
    (hj : j < s.length) : cnt P (swapSlots s i j) = cnt P s := by
  have h1 := cnt_set P s i (getSlot s j) hi
  have h2 := cnt_set P (s.set i (getSlot s j)) j (getSlot s i) (by simpa using hj)
  have e : getSlot (s.set i (getSlot s j)) j = getSlot s j := by
    rw [getSlot_set]; split
    · rfl
    · rfl
  rw [e] at h2
  simp only [swapSlots]
  by_cases c1 : P (getSlot s i) = true <;> by_cases c2 : P (getSlot s j) = true <;>
    simp only [c1, c2, if_true, if_false] at h1 h2 <;> omega

theorem cnt_take_add_drop (P : Slot K T → Bool) (s : List (Slot K T)) (n : Nat) :
    cnt P (s.take n) + cnt P (s.drop n) = cnt P s := by
  have := List.countP_append (p := P) (l₁ := s.take n) (l₂ := s.drop n)
  rw [List.take_append_drop] at this
  simp only [cnt]; omega

theorem cnt_take_eq (P : Slot K T → Bool) (hP : VP P) (s : List (Slot K T)) (n : Nat)
    (h : ∀ j, n ≤ j → j < s.length → stAt s j ≠ .valid) : cnt P (s.take n) = cnt P s := by
  have h1 := cnt_take_add_drop P s n
  have h2 : cnt P (s.drop n) = 0 := by
    apply Nat.eq_zero_of_not_pos
    intro hpos
    obtain ⟨a, ha, hav⟩ := List.countP_pos_iff.mp hpos
    obtain ⟨k, hk, rfl⟩ := List.getElem_of_mem ha
    have hk' : n + k < s.length := by
      simp only [List.length_drop] at hk; omega
    apply h (n + k) (by omega) hk'
    have := stAt_drop s n k
    rw [← this]
    have hv := hP _ hav
    simpa [stAt, getSlot_of_lt (s.drop n) k hk] using hv
  omega

theorem cnt_append_empties (P : Slot K T → Bool) (hP : VP P) (s : List (Slot K T)) (n : Nat) :
    cnt P (s ++ List.replicate n emptySlot) = cnt P s := by
  have : P (emptySlot : Slot K T) = false := by
    cases hb : P (emptySlot : Slot K T)
    · rfl
    · have := hP _ hb; simp [emptySlot] at this
  simp [cnt, List.countP_append, List.countP_replicate, this]

/-- rewriting a non-`Valid` slot into a non-`Valid` slot changes no count -/
theorem cnt_set_nonvalid (P : Slot K T → Bool) (hP : VP P) (s : List (Slot K T)) (i : Nat) (a : Slot K T)
    (hi : i < s.length) (h1 : stAt s i ≠ .valid) (h2 : a.st ≠ .valid) : cnt P (s.set i a) = cnt P s := by
  have h := cnt_set P s i a hi
  have e1 : ¬ P (getSlot s i) = true := fun c => h1 (hP _ c)
  have e2 : ¬ P a = true := fun c => h2 (hP _ c)
  rw [if_neg e1, if_neg e2] at h
  omega

theorem countValid_eq_cnt (s : List (Slot K T)) :
    countValid s = cnt (fun sl => decide (sl.st = .valid)) s := rfl

end
end AgdbColl
