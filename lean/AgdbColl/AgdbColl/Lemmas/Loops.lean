import AgdbColl.Lemmas.Basic
/-!
Termination (with result facts) of the probe loops of `multi_map.rs`:
`free_index`, `insert_or_replace` (fixed), `remove_key`, `remove_value`, `MultiMapIterator::next`,
and divergence of the pinned `insert_or_replace` loop on a table without `Empty` slot.
-/
namespace AgdbColl
set_option linter.unusedSectionVars false
set_option linter.unusedVariables false

section
variable {K T : Type} [DecidableEq K] [DecidableEq T] [Inhabited K] [Inhabited T]

theorem length_dropValue (s : List (Slot K T)) (i : Nat) : (dropValue s i).length = s.length := by
  simp [dropValue]

theorem length_putValid (s : List (Slot K T)) (i : Nat) (k : K) (v : T) :
    (putValid s i k v).length = s.length := by
  simp [putValid]

theorem length_setVal (s : List (Slot K T)) (i : Nat) (v : T) : (setVal s i v).length = s.length := by
  simp [setVal]

theorem length_setSt (s : List (Slot K T)) (i : Nat) (st : St) : (setSt s i st).length = s.length := by
  simp [setSt]

theorem countValid_dropValue (s : List (Slot K T)) (i : Nat) (hv : stAt s i = .valid) :
    countValid (dropValue s i) + 1 = countValid s := by
  have hi : i < s.length := by
    apply Classical.byContradiction
    intro h
    rw [stAt_ge s i (by omega)] at hv
    cases hv
  have := countValid_set s i ⟨.deleted, default, default⟩ hi
  simp only [hv, if_true] at this
  simp only [dropValue]
  simpa using this

theorem countValid_putValid (s : List (Slot K T)) (i : Nat) (k : K) (v : T) (hi : i < s.length)
    (hv : stAt s i ≠ .valid) : countValid (putValid s i k v) = countValid s + 1 := by
  have := countValid_set s i ⟨.valid, k, v⟩ hi
  simp only [hv, if_false] at this
  simp only [putValid]
  simpa using this

theorem countValid_setVal (s : List (Slot K T)) (i : Nat) (v : T) :
    countValid (setVal s i v) = countValid s := by
  by_cases hi : i < s.length
  · have h := countValid_set s i { getSlot s i with val := v } hi
    exact Nat.add_right_cancel h
  · simp [setVal, List.set_eq_of_length_le (by omega : s.length ≤ i)]

/-! ### free_index -/

theorem freeIndexLoop_ok (s : List (Slot K T)) (j : Nat) (hj : j < s.length)
    (hjv : stAt s j ≠ .valid) :
    ∀ fuel pos, pos < s.length → distTo s.length pos j < fuel →
      ∃ p, freeIndexLoop s fuel pos = .ok p ∧ p < s.length ∧ stAt s p ≠ .valid := by
  intro fuel
  induction fuel with
  | zero => intro pos _ h; omega
  | succ n ih =>
    intro pos hp hd
    unfold freeIndexLoop
    cases hst : stAt s pos with
    | valid =>
      simp only
      have hne : pos ≠ j := by
        intro e; subst e; exact hjv hst
      have := distTo_next s.length pos j hp hj hne
      exact ih (nextPos s.length pos) (nextPos_lt _ _ hp) (by omega)
    | empty => exact ⟨pos, rfl, hp, by simp [hst]⟩
    | deleted => exact ⟨pos, rfl, hp, by simp [hst]⟩

/-! ### insert_or_replace (fixed) -/

/-- what the loop hands to `do_insert` -/
def FreeOk (s : List (Slot K T)) (free : Option Nat) : Prop :=
  free = none ∨ ∃ p, free = some p ∧ p < s.length ∧ stAt s p ≠ .valid

theorem iorLoop_ok (key : K) (pred : T → Bool) (nv : T) (start : Nat) (s : List (Slot K T))
    (hs : start < s.length) :
    ∀ fuel pos free, pos < s.length → s.length - distFrom s.length start pos ≤ fuel →
      FreeOk s free →
      ∃ o, iorLoop key pred nv start s fuel pos free = .ok o ∧
        ((o.slots = s ∧ FreeOk s o.free) ∨
         (∃ q, q < s.length ∧ stAt s q = .valid ∧ o.slots = setVal s q nv ∧ o.free = none)) := by
  intro fuel
  induction fuel with
  | zero =>
    intro pos free hp hf _
    have := distFrom_lt s.length start pos hs hp
    omega
  | succ n ih =>
    intro pos free hp hf hfree
    unfold iorLoop
    have hstdef : (getSlot s pos).st = stAt s pos := rfl
    cases hst : stAt s pos with
    | empty =>
      simp only [hstdef, hst]
      exact ⟨_, rfl, Or.inl ⟨rfl, Or.inr ⟨pos, rfl, hp, by simp [hst]⟩⟩⟩
    | deleted =>
      simp only [hstdef, hst]
      have hfree' : FreeOk s (if free.isNone then some pos else free) := by
        split
        · exact Or.inr ⟨pos, rfl, hp, by simp [hst]⟩
        · exact hfree
      by_cases hw : nextPos s.length pos = start
      · simp only [hw, if_true]
        exact ⟨_, rfl, Or.inl ⟨rfl, hfree'⟩⟩
      · simp only [hw, if_false]
        have := distFrom_next s.length start pos hs hp hw
        exact ih _ _ (nextPos_lt _ _ hp) (by omega) hfree'
    | valid =>
      simp only [hstdef, hst]
      by_cases hm : (getSlot s pos).key = key ∧ pred (getSlot s pos).val = true
      · simp only [hm, and_self, if_true]
        exact ⟨_, rfl, Or.inr ⟨pos, hp, hst, rfl, rfl⟩⟩
      · simp only [hm, if_false]
        by_cases hw : nextPos s.length pos = start
        · simp only [hw, if_true]
          exact ⟨_, rfl, Or.inl ⟨rfl, hfree⟩⟩
        · simp only [hw, if_false]
          have := distFrom_next s.length start pos hs hp hw
          exact ih _ _ (nextPos_lt _ _ hp) (by omega) hfree

/-! ### the pinned insert_or_replace loop diverges on a table without `Empty` slot -/

theorem iorLoopLegacy_diverges (key : K) (pred : T → Bool) (nv : T) (s : List (Slot K T))
    (hne : ∀ j, j < s.length → stAt s j ≠ .empty)
    (hnk : ∀ j, j < s.length → ¬ ((getSlot s j).key = key ∧ pred (getSlot s j).val = true)) :
    ∀ fuel pos free, pos < s.length → iorLoopLegacy key pred nv s fuel pos free = .outOfFuel := by
  intro fuel
  induction fuel with
  | zero => intro pos free _; rfl
  | succ n ih =>
    intro pos free hp
    unfold iorLoopLegacy
    have hstdef : (getSlot s pos).st = stAt s pos := rfl
    cases hst : stAt s pos with
    | empty => exact absurd hst (hne pos hp)
    | deleted =>
      simp only [hstdef, hst]
      exact ih _ _ (nextPos_lt _ _ hp)
    | valid =>
      simp only [hstdef, hst]
      have := hnk pos hp
      simp only [this, if_false]
      exact ih _ _ (nextPos_lt _ _ hp)

/-! ### remove_key -/

theorem removeKeyLoop_ok (key : K) (start cap : Nat) (hs : start < cap) :
    ∀ fuel (s : List (Slot K T)) pos len, s.length = cap → pos < cap →
      cap - distFrom cap start pos ≤ fuel → len = countValid s →
      ∃ o, removeKeyLoop key start fuel s pos len = .ok o ∧ o.slots.length = cap ∧
        o.len = countValid o.slots ∧ o.len ≤ len := by
  intro fuel
  induction fuel with
  | zero =>
    intro s pos len _ hp hf _
    have := distFrom_lt cap start pos hs hp
    omega
  | succ n ih =>
    intro s pos len hl hp hf hlen
    unfold removeKeyLoop
    have hstdef : (getSlot s pos).st = stAt s pos := rfl
    cases hst : stAt s pos with
    | empty =>
      simp only [hstdef, hst]
      exact ⟨_, rfl, hl, hlen, Nat.le_refl _⟩
    | deleted =>
      simp only [hstdef, hst, hl]
      by_cases hw : nextPos cap pos = start
      · simp only [hw, if_true]
        exact ⟨_, rfl, hl, hlen, Nat.le_refl _⟩
      · simp only [hw, if_false]
        have := distFrom_next cap start pos hs hp hw
        exact ih s _ len hl (nextPos_lt _ _ hp) (by omega) hlen
    | valid =>
      simp only [hstdef, hst, hl]
      by_cases hk : (getSlot s pos).key = key
      · simp only [hk, if_true]
        have hpos := countValid_pos_of_valid s pos hst
        have hdrop := countValid_dropValue s pos hst
        have hne : len ≠ 0 := by omega
        simp only [hne, if_false]
        by_cases hw : nextPos cap pos = start
        · simp only [hw, if_true]
          refine ⟨_, rfl, ?_, ?_, ?_⟩
          · simp [length_dropValue, hl]
          · show len - 1 = countValid (dropValue s pos); omega
          · show len - 1 ≤ len; omega
        · simp only [hw, if_false]
          have := distFrom_next cap start pos hs hp hw
          obtain ⟨o, ho, h1, h2, h3⟩ := ih (dropValue s pos) (nextPos cap pos) (len - 1)
            (by simp [length_dropValue, hl]) (nextPos_lt _ _ hp) (by omega) (by omega)
          exact ⟨o, ho, h1, h2, by omega⟩
      · simp only [hk, if_false]
        by_cases hw : nextPos cap pos = start
        · simp only [hw, if_true]
          exact ⟨_, rfl, hl, hlen, Nat.le_refl _⟩
        · simp only [hw, if_false]
          have := distFrom_next cap start pos hs hp hw
          exact ih s _ len hl (nextPos_lt _ _ hp) (by omega) hlen

/-! ### remove_value -/

theorem removeValueLoop_ok (key : K) (v : T) (start : Nat) (s : List (Slot K T))
    (hs : start < s.length) :
    ∀ fuel pos, pos < s.length → s.length - distFrom s.length start pos ≤ fuel →
      ∃ r, removeValueLoop key v start s fuel pos = .ok r ∧
        ∀ p, r.1 = some p → p < s.length ∧ stAt s p = .valid := by
  intro fuel
  induction fuel with
  | zero =>
    intro pos hp hf
    have := distFrom_lt s.length start pos hs hp
    omega
  | succ n ih =>
    intro pos hp hf
    unfold removeValueLoop
    have hstdef : (getSlot s pos).st = stAt s pos := rfl
    cases hst : stAt s pos with
    | empty =>
      simp only [hstdef, hst]
      exact ⟨_, rfl, by intro p h; cases h⟩
    | deleted =>
      simp only [hstdef, hst]
      by_cases hw : nextPos s.length pos = start
      · simp only [hw, if_true]
        exact ⟨_, rfl, by intro p h; cases h⟩
      · simp only [hw, if_false]
        have := distFrom_next s.length start pos hs hp hw
        exact ih _ (nextPos_lt _ _ hp) (by omega)
    | valid =>
      simp only [hstdef, hst]
      by_cases hm : (getSlot s pos).key = key ∧ (getSlot s pos).val = v
      · simp only [hm, and_self, if_true]
        exact ⟨_, rfl, by intro p h; cases h; exact ⟨hp, hst⟩⟩
      · simp only [hm, if_false]
        by_cases hw : nextPos s.length pos = start
        · simp only [hw, if_true]
          exact ⟨_, rfl, by intro p h; cases h⟩
        · simp only [hw, if_false]
          have := distFrom_next s.length start pos hs hp hw
          exact ih _ (nextPos_lt _ _ hp) (by omega)

/-! ### MultiMapIterator::next -/

theorem iterNext_ok (key : K) (start : Nat) (s : List (Slot K T)) (hs : start < s.length) :
    ∀ fuel pos, pos < s.length → s.length - distFrom s.length start pos ≤ fuel →
      ∃ r, iterNext key start s fuel pos = .ok r ∧ r.2 < s.length := by
  intro fuel
  induction fuel with
  | zero =>
    intro pos hp hf
    have := distFrom_lt s.length start pos hs hp
    omega
  | succ n ih =>
    intro pos hp hf
    unfold iterNext
    have hstdef : (getSlot s pos).st = stAt s pos := rfl
    have hnl := nextPos_lt _ _ hp
    cases hst : stAt s pos with
    | empty =>
      simp only [hstdef, hst]
      exact ⟨_, rfl, hnl⟩
    | deleted =>
      simp only [hstdef, hst]
      by_cases hw : start = nextPos s.length pos
      · simp only [← hw, if_true]
        exact ⟨_, rfl, hs⟩
      · simp only [hw, if_false]
        have := distFrom_next s.length start pos hs hp (fun e => hw e.symm)
        exact ih _ hnl (by omega)
    | valid =>
      simp only [hstdef, hst]
      by_cases hk : (getSlot s pos).key = key
      · simp only [hk, if_true]
        exact ⟨_, rfl, hnl⟩
      · simp only [hk, if_false]
        by_cases hw : start = nextPos s.length pos
        · simp only [← hw, if_true]
          exact ⟨_, rfl, hs⟩
        · simp only [hw, if_false]
          have := distFrom_next s.length start pos hs hp (fun e => hw e.symm)
          exact ih _ hnl (by omega)

end
end AgdbColl
