import AgdbColl.Lemmas.Refine
/-!
`remove_key` on the multiset level, and agreement of `value` / `contains` with the multiset
(completeness of the probe needs the chain invariant).
-/
namespace AgdbColl
set_option linter.unusedSectionVars false
set_option linter.unusedVariables false

section
variable {K T : Type} [DecidableEq K] [DecidableEq T] [Inhabited K] [Inhabited T]

theorem cnt_pos_iff (P : Slot K T → Bool) (s : List (Slot K T)) :
    0 < cnt P s ↔ ∃ p, p < s.length ∧ P (getSlot s p) = true := by
  simp only [cnt, List.countP_pos_iff]
  constructor
  · rintro ⟨a, ha, hp⟩
    obtain ⟨j, hj, rfl⟩ := List.getElem_of_mem ha
    exact ⟨j, hj, by rw [getSlot_of_lt s j hj]; exact hp⟩
  · rintro ⟨p, hp, hP⟩
    exact ⟨s[p], List.getElem_mem hp, by rw [← getSlot_of_lt s p hp]; exact hP⟩

/-- `remove_key`: the chain survives and the counts of all pairs of OTHER keys are unchanged -/
theorem removeKey_refine (h : K → Nat) (F : Nat) (m m' : MM K T) (key : K) (hi : Inv m)
    (hc : Chain h m.slots) (hF : fuelBound m ≤ F) (hr : removeKey h F m key = .ok m') :
    Chain h m'.slots ∧ ∀ P : Slot K T → Bool, VP P → (∀ sl, P sl = true → sl.key ≠ key) →
      cnt P m'.slots = cnt P m.slots := by
  unfold removeKey at hr
  by_cases h0 : m.cap = 0
  · simp only [h0, if_true] at hr; cases hr; exact ⟨hc, fun _ _ _ => rfl⟩
  · simp only [h0, if_false] at hr
    obtain ⟨hlen, hload⟩ := hi
    rcases hload with hz | ⟨hcap, hld⟩
    · exact absurd hz h0
    · have hhome : h key % m.cap < m.cap := Nat.mod_lt _ (by omega)
      have hd0 : distFrom m.cap (h key % m.cap) (h key % m.cap) = 0 := by simp [distFrom]
      simp only [fuelBound] at hF
      obtain ⟨o, ho, hol, holen, hole⟩ := removeKeyLoop_ok key (h key % m.cap) m.cap hhome F m.slots
        (h key % m.cap) m.len rfl hhome (by omega) hlen
      have hco : Chain h o.slots :=
        Chain_of_sub (removeKeyLoop_sub key _ _ _ _ _ _ ho) (removeKeyLoop_kept key _ _ _ _ _ _ ho) hc
      have hcnto : ∀ P : Slot K T → Bool, VP P → (∀ sl, P sl = true → sl.key ≠ key) →
          cnt P o.slots = cnt P m.slots :=
        fun P hP hPk => removeKeyLoop_cnt key _ P hP hPk F m.slots _ _ o hhome ho
      simp only [ho] at hr
      have hml := maxLen_le m.cap hcap
      cases hs1 : (if o.wrapped = true ∧ o.len = m.len then rehash h F ⟨o.slots, m.len⟩ m.cap
          else Outcome.ok ⟨o.slots, m.len⟩) with
      | ok m1 =>
        rw [hs1] at hr
        simp only at hr
        have hstep : Chain h m1.slots ∧ (∀ P : Slot K T → Bool, VP P → cnt P m1.slots = cnt P o.slots) ∧
            m1.len = m.len ∧ countValid m1.slots = countValid o.slots ∧ m1.cap = m.cap := by
          by_cases hw : o.wrapped = true ∧ o.len = m.len
          · simp only [hw, and_self, if_true] at hs1
            have hc' : (⟨o.slots, m.len⟩ : MM K T).cap = m.cap := hol
            have hmax : m.cap = max m.cap MIN_CAP := by simp only [MIN_CAP] at *; omega
            obtain ⟨a, b⟩ := rehash_refine h F ⟨o.slots, m.len⟩ m1 m.cap m.cap hmax
              (by show m.len = countValid o.slots; omega) (by show m.len + 2 ≤ m.cap; omega) hs1 hco
            obtain ⟨m'', hm'', hl', hcv', hcap'⟩ := rehash_ok h F ⟨o.slots, m.len⟩ m.cap m.cap hmax
              (by show m.len = countValid o.slots; omega)
              (by show m.len ≤ m.cap; omega) (by rw [hc']; omega)
            rw [hs1] at hm''
            cases hm''
            exact ⟨a, b, hl', hcv', hcap'⟩
          · simp only [hw, if_false] at hs1
            cases hs1
            exact ⟨hco, fun _ _ => rfl, rfl, rfl, hol⟩
        obtain ⟨hc1, hcnt1, hl1, hcv1, hcap1⟩ := hstep
        by_cases hne : o.len ≠ m1.len
        · rw [if_pos hne] at hr
          have hcap2 : (⟨m1.slots, o.len⟩ : MM K T).cap = m.cap := hcap1
          obtain ⟨a, b⟩ := shrink_refine h F ⟨m1.slots, o.len⟩ m'
            (by show o.len = countValid m1.slots; omega) (by rw [hcap2]; exact hcap) hc1 hr
          refine ⟨a, fun P hP hPk => ?_⟩
          rw [b P hP]
          show cnt P m1.slots = _
          rw [hcnt1 P hP, hcnto P hP hPk]
        · rw [if_neg hne] at hr
          cases hr
          exact ⟨hc1, fun P hP hPk => by rw [hcnt1 P hP, hcnto P hP hPk]⟩
      | err e => rw [hs1] at hr; cases hr
      | panic e => rw [hs1] at hr; cases hr
      | hugeAlloc e => rw [hs1] at hr; cases hr
      | outOfFuel => rw [hs1] at hr; cases hr

/-! ### lookups -/

/-- a `some` answer of `next` is a pair stored in a `Valid` slot -/
theorem iterNext_some_pair (key : K) (start : Nat) (s : List (Slot K T)) :
    ∀ fuel pos kv pos', iterNext key start s fuel pos = .ok (some kv, pos') →
      ∃ p, stAt s p = .valid ∧ (getSlot s p).key = key ∧ kv = ((getSlot s p).key, (getSlot s p).val) := by
  intro fuel
  induction fuel with
  | zero => intro pos kv pos' h; simp [iterNext] at h
  | succ n ih =>
    intro pos kv pos' h
    unfold iterNext at h
    have hstdef : (getSlot s pos).st = stAt s pos := rfl
    cases hst : stAt s pos with
    | empty => simp only [hstdef, hst] at h; cases h
    | deleted =>
      simp only [hstdef, hst] at h
      split at h
      · cases h
      · exact ih _ _ _ h
    | valid =>
      simp only [hstdef, hst] at h
      split at h
      · rename_i hk
        cases h
        exact ⟨pos, hst, hk, rfl⟩
      · split at h
        · cases h
        · exact ih _ _ _ h

/-- a `none` answer of the first `next` call means no pair of the key exists (chain invariant) -/
theorem iterNext_none (h : K → Nat) (key : K) (s : List (Slot K T)) (hc : Chain h s)
    (hs : h key % s.length < s.length) :
    ∀ fuel pos pos', pos < s.length →
      (∀ q, q < s.length → distFrom s.length (h key % s.length) q < distFrom s.length (h key % s.length) pos →
        ¬ (stAt s q = .valid ∧ (getSlot s q).key = key)) →
      iterNext key (h key % s.length) s fuel pos = .ok (none, pos') →
      ∀ p, p < s.length → ¬ (stAt s p = .valid ∧ (getSlot s p).key = key) := by
  intro fuel
  induction fuel with
  | zero => intro pos pos' _ _ hr; simp [iterNext] at hr
  | succ n ih =>
    intro pos pos' hp hI hr p hpl hm
    unfold iterNext at hr
    have hstdef : (getSlot s pos).st = stAt s pos := rfl
    have step : (stAt s pos = .deleted ∨ (stAt s pos = .valid ∧ (getSlot s pos).key ≠ key)) →
        (if h key % s.length = nextPos s.length pos then (Outcome.ok (none, nextPos s.length pos) : Outcome (Option (K × T) × Nat))
          else iterNext key (h key % s.length) s n (nextPos s.length pos)) = .ok (none, pos') → False := by
      intro hnm hr2
      have hposnm : ¬ (stAt s pos = .valid ∧ (getSlot s pos).key = key) := by
        rcases hnm with hd | ⟨_, hk⟩
        · intro c; rw [hd] at c; cases c.1
        · intro c; exact hk c.2
      by_cases hw : h key % s.length = nextPos s.length pos
      · by_cases e : p = pos
        · subst e; exact hposnm hm
        · exact hI p hpl (dist_lt_of_next_eq _ _ _ _ hs hp hpl e hw.symm) hm
      · rw [if_neg hw] at hr2
        refine ih _ pos' (nextPos_lt _ _ hp) ?_ hr2 p hpl hm
        intro q hq hd
        have := distFrom_next s.length (h key % s.length) pos hs hp (fun x => hw x.symm)
        by_cases e : distFrom s.length (h key % s.length) q = distFrom s.length (h key % s.length) pos
        · have := dist_inj _ _ _ _ hs hp hq e
          subst this; exact hposnm
        · exact hI q hq (by omega)
    cases hst : stAt s pos with
    | empty =>
      -- the probe stopped at an Empty slot: by the chain every pair of the key lies before it
      have hpne : p ≠ pos := by
        intro e; subst e; rw [hst] at hm; cases hm.1
      by_cases hd : distFrom s.length (h key % s.length) p < distFrom s.length (h key % s.length) pos
      · exact hI p hpl hd hm
      · have hlt : distFrom s.length (h key % s.length) pos < distFrom s.length (h key % s.length) p := by
          have : distFrom s.length (h key % s.length) p ≠ distFrom s.length (h key % s.length) pos :=
            fun e => hpne (dist_inj _ _ _ _ hs hp hpl e)
          omega
        have := hc p hpl hm.1 pos hp (by rw [hm.2]; exact hlt)
        exact this hst
    | deleted =>
      simp only [hstdef, hst] at hr
      exact step (Or.inl hst) hr
    | valid =>
      simp only [hstdef, hst] at hr
      split at hr
      · cases hr
      · rename_i hk
        exact step (Or.inr ⟨hst, hk⟩) hr

/-- `value` / `contains` agree with the multiset: `some v` only if the pair `(key, v)` is stored,
`none` only if no pair of the key is stored -/
theorem value_refine (h : K → Nat) (F : Nat) (m : MM K T) (key : K) (hc : Chain h m.slots)
    (r : Option T) (hr : value h F m key = .ok r) :
    (∀ v, r = some v → 0 < cnt (pairP key v) m.slots) ∧ (r = none → cnt (keyP key) m.slots = 0) := by
  unfold value at hr
  by_cases h0 : m.cap = 0
  · simp only [h0, if_true] at hr
    cases hr
    refine ⟨fun v hv => (by cases hv), fun _ => ?_⟩
    have : m.slots = [] := List.eq_nil_of_length_eq_zero h0
    simp [cnt, this]
  · simp only [h0, if_false] at hr
    have hcapdef : m.cap = m.slots.length := rfl
    have hhome : h key % m.slots.length < m.slots.length := Nat.mod_lt _ (by omega)
    have hhp : homePos h m key = h key % m.slots.length := by unfold homePos; rw [if_neg h0]; rfl
    rw [hhp] at hr
    cases hit : iterNext key (h key % m.slots.length) m.slots F (h key % m.slots.length) with
    | ok res =>
      rw [hit] at hr
      obtain ⟨r1, pos'⟩ := res
      cases r1 with
      | some kv =>
        obtain ⟨k', v'⟩ := kv
        simp only at hr
        cases hr
        obtain ⟨p, hv, hk, he⟩ := iterNext_some_pair key _ m.slots F _ (k', v') pos' hit
        refine ⟨fun v hvv => ?_, fun hn => (by cases hn)⟩
        cases hvv
        have hpl : p < m.slots.length := by
          apply Classical.byContradiction
          intro c; rw [stAt_ge m.slots p (by omega)] at hv; cases hv
        apply (cnt_pos_iff _ _).mpr
        refine ⟨p, hpl, ?_⟩
        have hv' : (getSlot m.slots p).st = .valid := hv
        have e2 : (getSlot m.slots p).val = v' := (Prod.mk.inj he).2.symm
        simp [pairP, hv', hk, e2]
      | none =>
        simp only at hr
        cases hr
        refine ⟨fun v hv => (by cases hv), fun _ => ?_⟩
        have hnone := iterNext_none h key m.slots hc hhome F _ pos' hhome
          (by intro q _ hd; simp [distFrom] at hd) hit
        apply Nat.eq_zero_of_not_pos
        intro hpos
        obtain ⟨p, hpl, hP⟩ := (cnt_pos_iff _ _).mp hpos
        simp only [keyP, decide_eq_true_eq] at hP
        exact hnone p hpl ⟨hP.1, hP.2⟩
    | err e => rw [hit] at hr; simp [Outcome.cast] at hr
    | panic e => rw [hit] at hr; simp [Outcome.cast] at hr
    | hugeAlloc e => rw [hit] at hr; simp [Outcome.cast] at hr
    | outOfFuel => rw [hit] at hr; simp [Outcome.cast] at hr

end
end AgdbColl
