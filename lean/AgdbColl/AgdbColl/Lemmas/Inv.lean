import AgdbColl.Lemmas.Rehash
/-!
The load invariant of the multimap and, per operation: with enough fuel the operation returns
`ok` (it terminates and does not panic) and re-establishes the invariant.
-/
namespace AgdbColl
set_option linter.unusedSectionVars false
set_option linter.unusedVariables false

section
variable {K T : Type} [DecidableEq K] [DecidableEq T] [Inhabited K] [Inhabited T]

/-- `len` is the number of `Valid` slots; a non-empty table has at least `MIN_CAP` slots and is
loaded at most to `max_len` -/
def Inv (m : MM K T) : Prop :=
  m.len = countValid m.slots ∧ (m.cap = 0 ∨ (MIN_CAP ≤ m.cap ∧ m.len ≤ maxLen m.cap))

/-- fuel that suffices for every operation without a capacity argument -/
def fuelBound (m : MM K T) : Nat := 6 * m.cap + 200

theorem Inv_new : Inv (MM.new : MM K T) := by
  refine ⟨by simp [MM.new, countValid], Or.inl (by simp [MM.new, MM.cap])⟩

theorem growIfFull_ok (h : K → Nat) (F : Nat) (m : MM K T) (hi : Inv m) (hF : fuelBound m ≤ F) :
    ∃ m1, growIfFull h F m = .ok m1 ∧ Inv m1 ∧ MIN_CAP ≤ m1.cap ∧ m1.len < maxLen m1.cap ∧
      m1.cap ≤ 2 * m.cap + MIN_CAP := by
  unfold growIfFull
  obtain ⟨hlen, hload⟩ := hi
  simp only [fuelBound] at hF
  by_cases hfull : m.len ≥ maxLen m.cap
  · simp only [hfull, if_true]
    have hcv := countValid_le m.slots
    have hcap : m.cap = m.slots.length := rfl
    obtain ⟨m', hm', hl', hc', hcap'⟩ := rehash_ok h F m (m.cap * 2) (max (m.cap * 2) MIN_CAP) rfl hlen
      (by simp only [MIN_CAP]; omega) (by simp only [MIN_CAP]; omega)
    refine ⟨m', hm', ⟨by omega, Or.inr ⟨?_, ?_⟩⟩, ?_, ?_, ?_⟩
    · rw [hcap']; simp only [MIN_CAP]; omega
    · rw [hcap', hl']
      rcases hload with h0 | ⟨h1, h2⟩
      · simp only [maxLen, MIN_CAP] at *; omega
      · simp only [maxLen, MIN_CAP] at *; omega
    · rw [hcap']; simp only [MIN_CAP]; omega
    · rw [hcap', hl']
      rcases hload with h0 | ⟨h1, h2⟩
      · simp only [maxLen, MIN_CAP] at *; omega
      · simp only [maxLen, MIN_CAP] at *; omega
    · rw [hcap']; simp only [MIN_CAP]; omega
  · simp only [hfull, if_false]
    have hlt : m.len < maxLen m.cap := by omega
    rcases hload with h0 | ⟨h1, h2⟩
    · simp only [h0, maxLen] at hlt; omega
    · exact ⟨m, rfl, ⟨hlen, Or.inr ⟨h1, h2⟩⟩, h1, hlt, by omega⟩

theorem insert_ok (h : K → Nat) (F : Nat) (m : MM K T) (k : K) (v : T) (hi : Inv m)
    (hF : fuelBound m ≤ F) : ∃ m', insert h F m k v = .ok m' ∧ Inv m' := by
  unfold insert
  obtain ⟨m1, hg, ⟨hlen1, _⟩, hcap1, hlt1, hle1⟩ := growIfFull_ok h F m hi hF
  simp only [hg]
  have hne : m1.cap ≠ 0 := by simp only [MIN_CAP] at hcap1; omega
  simp only [hne, if_false]
  have hcapdef : m1.cap = m1.slots.length := rfl
  have hcvlt : countValid m1.slots < m1.slots.length := by
    have : maxLen m1.cap ≤ m1.cap := by simp only [maxLen]; omega
    omega
  obtain ⟨j, hj, hjv⟩ := exists_not_valid m1.slots hcvlt
  have hhome : h k % m1.cap < m1.slots.length := by
    rw [← hcapdef]; exact Nat.mod_lt _ (by omega)
  have hd := distTo_lt m1.slots.length (h k % m1.cap) j hhome hj
  obtain ⟨p, hp, hpl, hpv⟩ := freeIndexLoop_ok m1.slots j hj hjv F (h k % m1.cap) hhome (by
    simp only [fuelBound, MIN_CAP] at *; omega)
  simp only [hp]
  refine ⟨_, rfl, ?_, Or.inr ⟨?_, ?_⟩⟩
  · show m1.len + 1 = countValid (putValid m1.slots p k v)
    rw [countValid_putValid _ _ _ _ hpl hpv]; omega
  · show MIN_CAP ≤ (putValid m1.slots p k v).length
    rw [length_putValid]; exact hcap1
  · show m1.len + 1 ≤ maxLen (putValid m1.slots p k v).length
    rw [length_putValid, ← hcapdef]; omega

theorem insertOrReplace_ok (h : K → Nat) (F : Nat) (m : MM K T) (key : K) (pred : T → Bool) (nv : T)
    (hi : Inv m) (hF : fuelBound m ≤ F) :
    ∃ r, insertOrReplace h F m key pred nv = .ok r ∧ Inv r.1 := by
  unfold insertOrReplace
  obtain ⟨m1, hg, ⟨hlen1, hload1⟩, hcap1, hlt1, hle1⟩ := growIfFull_ok h F m hi hF
  simp only [hg]
  have hne : m1.cap ≠ 0 := by simp only [MIN_CAP] at hcap1; omega
  simp only [hne, if_false]
  have hcapdef : m1.cap = m1.slots.length := rfl
  have hhome : h key % m1.cap < m1.slots.length := by
    rw [← hcapdef]; exact Nat.mod_lt _ (by omega)
  have hd0 : distFrom m1.slots.length (h key % m1.cap) (h key % m1.cap) = 0 := by
    simp [distFrom]
  obtain ⟨o, ho, hres⟩ := iorLoop_ok key pred nv (h key % m1.cap) m1.slots hhome F (h key % m1.cap)
    none hhome (by simp only [fuelBound, MIN_CAP] at *; omega) (Or.inl rfl)
  simp only [ho]
  refine ⟨_, rfl, ?_⟩
  unfold iorFinish
  rcases hres with ⟨hs, hfree⟩ | ⟨q, hq, hqv, hs, hfree⟩
  · rcases hfree with hnone | ⟨p, hp, hpl, hpv⟩
    · simp only [hnone, hs]
      exact ⟨hlen1, hload1⟩
    · simp only [hp, hs]
      refine ⟨?_, Or.inr ⟨?_, ?_⟩⟩
      · show m1.len + 1 = countValid (putValid m1.slots p key nv)
        rw [countValid_putValid _ _ _ _ hpl hpv]; omega
      · show MIN_CAP ≤ (putValid m1.slots p key nv).length
        rw [length_putValid]; exact hcap1
      · show m1.len + 1 ≤ maxLen (putValid m1.slots p key nv).length
        rw [length_putValid, ← hcapdef]; omega
  · simp only [hfree, hs]
    refine ⟨?_, Or.inr ⟨?_, ?_⟩⟩
    · show m1.len = countValid (setVal m1.slots q nv)
      rw [countValid_setVal]; exact hlen1
    · show MIN_CAP ≤ (setVal m1.slots q nv).length
      rw [length_setVal]; exact hcap1
    · show m1.len ≤ maxLen (setVal m1.slots q nv).length
      rw [length_setVal, ← hcapdef]; omega

/-- shrink step shared by `remove_key` and `remove_index` -/
theorem shrink_ok (h : K → Nat) (F : Nat) (m2 : MM K T) (cap0 : Nat) (hlen : m2.len = countValid m2.slots)
    (hcap : MIN_CAP ≤ m2.cap) (hload : m2.len ≤ maxLen m2.cap) (hF : 6 * m2.cap + 200 ≤ F) :
    ∃ m3, (if m2.len ≤ minLen m2.cap then rehash h F m2 (m2.cap / 2) else .ok m2) = .ok m3 ∧
      Inv m3 := by
  by_cases hs : m2.len ≤ minLen m2.cap
  · simp only [hs, if_true]
    obtain ⟨m', hm', hl', hc', hcap'⟩ := rehash_ok h F m2 (m2.cap / 2) (max (m2.cap / 2) MIN_CAP) rfl
      hlen (by simp only [minLen, MIN_CAP] at *; omega) (by simp only [MIN_CAP] at *; omega)
    refine ⟨m', hm', by omega, Or.inr ⟨?_, ?_⟩⟩
    · rw [hcap']; simp only [MIN_CAP]; omega
    · rw [hcap', hl']; simp only [minLen, maxLen, MIN_CAP] at *; omega
  · simp only [hs, if_false]
    exact ⟨m2, rfl, hlen, Or.inr ⟨hcap, hload⟩⟩

theorem removeKey_ok (h : K → Nat) (F : Nat) (m : MM K T) (key : K) (hi : Inv m)
    (hF : fuelBound m ≤ F) : ∃ m', removeKey h F m key = .ok m' ∧ Inv m' := by
  unfold removeKey
  by_cases h0 : m.cap = 0
  · simp only [h0, if_true]; exact ⟨m, rfl, hi⟩
  · simp only [h0, if_false]
    obtain ⟨hlen, hload⟩ := hi
    rcases hload with hz | ⟨hcap, hld⟩
    · exact absurd hz h0
    · have hhome : h key % m.cap < m.cap := Nat.mod_lt _ (by omega)
      have hd0 : distFrom m.cap (h key % m.cap) (h key % m.cap) = 0 := by simp [distFrom]
      simp only [fuelBound] at hF
      obtain ⟨o, ho, hol, holen, hole⟩ := removeKeyLoop_ok key (h key % m.cap) m.cap hhome F m.slots
        (h key % m.cap) m.len rfl hhome (by omega) hlen
      simp only [ho]
      -- the same-capacity rehash
      have hstep1 : ∃ m1, (if o.wrapped = true ∧ o.len = m.len then rehash h F ⟨o.slots, m.len⟩ m.cap
          else Outcome.ok ⟨o.slots, m.len⟩) = .ok m1 ∧ m1.len = m.len ∧
            countValid m1.slots = countValid o.slots ∧ m1.cap = m.cap := by
        by_cases hw : o.wrapped = true ∧ o.len = m.len
        · simp only [hw, and_self, if_true]
          have hc : (⟨o.slots, m.len⟩ : MM K T).cap = m.cap := hol
          obtain ⟨m', hm', hl', hc', hcap'⟩ := rehash_ok h F ⟨o.slots, m.len⟩ m.cap m.cap
            (by simp only [MIN_CAP] at *; omega) (by show m.len = countValid o.slots; omega)
            (by show m.len ≤ m.cap; simp only [maxLen] at hld; omega) (by rw [hc]; omega)
          exact ⟨m', hm', hl', hc', hcap'⟩
        · simp only [hw, if_false]
          exact ⟨_, rfl, rfl, rfl, hol⟩
      obtain ⟨m1, hm1, hl1, hc1, hcap1⟩ := hstep1
      simp only [hm1]
      by_cases hne : o.len ≠ m1.len
      · rw [if_pos hne]
        have hcap2 : (⟨m1.slots, o.len⟩ : MM K T).cap = m.cap := hcap1
        apply shrink_ok h F ⟨m1.slots, o.len⟩ m.cap
        · show o.len = countValid m1.slots; omega
        · rw [hcap2]; exact hcap
        · rw [hcap2]; show o.len ≤ maxLen m.cap; omega
        · rw [hcap2]; omega
      · rw [if_neg hne]
        refine ⟨m1, rfl, by omega, Or.inr ⟨by omega, by rw [hcap1]; omega⟩⟩

theorem removeIndex_ok (h : K → Nat) (F : Nat) (m : MM K T) (p : Nat) (hi : Inv m)
    (hp : p < m.slots.length) (hv : stAt m.slots p = .valid) (hF : fuelBound m ≤ F) :
    ∃ m', removeIndex h F m p = .ok m' ∧ Inv m' := by
  unfold removeIndex
  obtain ⟨hlen, hload⟩ := hi
  have hpos := countValid_pos_of_valid m.slots p hv
  have hne : m.len ≠ 0 := by omega
  simp only [hne, if_false]
  have hdrop := countValid_dropValue m.slots p hv
  have hcapdef : m.cap = m.slots.length := rfl
  rcases hload with hz | ⟨hcap, hld⟩
  · omega
  · have hcap2 : (⟨dropValue m.slots p, m.len - 1⟩ : MM K T).cap = m.cap := length_dropValue _ _
    simp only [fuelBound] at hF
    apply shrink_ok h F ⟨dropValue m.slots p, m.len - 1⟩ m.cap
    · show m.len - 1 = countValid (dropValue m.slots p); omega
    · rw [hcap2]; exact hcap
    · rw [hcap2]; show m.len - 1 ≤ maxLen m.cap; omega
    · rw [hcap2]; omega

theorem removeValue_ok (h : K → Nat) (F : Nat) (m : MM K T) (key : K) (v : T) (hi : Inv m)
    (hF : fuelBound m ≤ F) : ∃ m', removeValue h F m key v = .ok m' ∧ Inv m' := by
  unfold removeValue
  by_cases h0 : m.cap = 0
  · simp only [h0, if_true]; exact ⟨m, rfl, hi⟩
  · simp only [h0, if_false]
    have hi' := hi
    obtain ⟨hlen, hload⟩ := hi
    rcases hload with hz | ⟨hcap, hld⟩
    · exact absurd hz h0
    · have hcapdef : m.cap = m.slots.length := rfl
      have hhome : h key % m.cap < m.slots.length := by
        rw [← hcapdef]; exact Nat.mod_lt _ (by omega)
      have hd0 : distFrom m.slots.length (h key % m.cap) (h key % m.cap) = 0 := by simp [distFrom]
      have hF' := hF
      simp only [fuelBound] at hF
      obtain ⟨r, hr, hrp⟩ := removeValueLoop_ok key v (h key % m.cap) m.slots hhome F (h key % m.cap)
        hhome (by omega)
      simp only [hr]
      obtain ⟨r1, r2⟩ := r
      cases r1 with
      | some p =>
        obtain ⟨hpl, hpv⟩ := hrp p rfl
        exact removeIndex_ok h F m p hi' hpl hpv hF'
      | none =>
        cases r2 with
        | true =>
          simp only
          obtain ⟨m', hm', hl', hc', hcap'⟩ := rehash_ok h F m m.cap m.cap
            (by simp only [MIN_CAP] at *; omega) hlen (by simp only [maxLen] at hld; omega) (by omega)
          exact ⟨m', hm', by omega, Or.inr ⟨by omega, by rw [hcap', hl']; exact hld⟩⟩
        | false => exact ⟨m, rfl, hi'⟩

/-- fuel for `reserve(capacity)` -/
def reserveBound (m : MM K T) (c : Nat) : Nat := m.cap + 2 * c + 200

theorem reserve_ok (h : K → Nat) (F : Nat) (m : MM K T) (c : Nat) (hi : Inv m)
    (hF : reserveBound m c ≤ F) : ∃ m', reserve h F m c = .ok m' ∧ Inv m' := by
  unfold reserve
  by_cases hlt : m.cap < c
  · simp only [hlt, if_true]
    obtain ⟨hlen, hload⟩ := hi
    have hcv := countValid_le m.slots
    have hcapdef : m.cap = m.slots.length := rfl
    simp only [reserveBound] at hF
    obtain ⟨m', hm', hl', hc', hcap'⟩ := rehash_ok h F m c (max c MIN_CAP) rfl hlen
      (by simp only [MIN_CAP]; omega) (by simp only [MIN_CAP]; omega)
    refine ⟨m', hm', by omega, Or.inr ⟨by rw [hcap']; simp only [MIN_CAP]; omega, ?_⟩⟩
    rw [hcap', hl']
    rcases hload with hz | ⟨hcap, hld⟩
    · simp only [maxLen, MIN_CAP] at *; omega
    · simp only [maxLen, MIN_CAP] at *; omega
  · simp only [hlt, if_false]; exact ⟨m, rfl, hi⟩

theorem value_ok (h : K → Nat) (F : Nat) (m : MM K T) (key : K) (hF : m.cap ≤ F) :
    ∃ r, value h F m key = .ok r := by
  unfold value
  by_cases h0 : m.cap = 0
  · simp only [h0, if_true]; exact ⟨_, rfl⟩
  · simp only [h0, if_false]
    have hcapdef : m.cap = m.slots.length := rfl
    have hhome : homePos h m key < m.slots.length := by
      simp only [homePos, h0, if_false]
      rw [← hcapdef]; exact Nat.mod_lt _ (by omega)
    have hd0 : distFrom m.slots.length (homePos h m key) (homePos h m key) = 0 := by simp [distFrom]
    obtain ⟨r, hr, _⟩ := iterNext_ok key (homePos h m key) m.slots hhome F (homePos h m key) hhome
      (by omega)
    simp only [hr]
    obtain ⟨r1, r2⟩ := r
    cases r1 with
    | some kv => exact ⟨_, rfl⟩
    | none => exact ⟨_, rfl⟩

end
end AgdbColl
