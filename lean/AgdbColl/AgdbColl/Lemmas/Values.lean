import AgdbColl.Lemmas.Inv
/-!
Draining `iter_key(key)` (`values`, `values_count`, `contains_value`): termination of the whole
iteration provided the iterator cannot be handed back its start position after yielding.
-/
namespace AgdbColl
set_option linter.unusedSectionVars false
set_option linter.unusedVariables false

section
variable {K T : Type} [DecidableEq K] [DecidableEq T] [Inhabited K] [Inhabited T]

/-- the slot cyclically before `start` does not hold `key` (a `Valid` pair with displacement
`capacity - 1` is the only way `MultiMapIterator` can be restarted at its start position) -/
def NoWrapAt (s : List (Slot K T)) (key : K) (start : Nat) : Prop :=
  ∀ p, p < s.length → nextPos s.length p = start → ¬ (stAt s p = .valid ∧ (getSlot s p).key = key)

/-- a `some` answer of `next` comes from a matching `Valid` slot `p` with `pos' = nextPos p`, and
the walk from `pos` to `p` did not pass `start` -/
theorem iterNext_some (key : K) (start : Nat) (s : List (Slot K T)) (hs : start < s.length) :
    ∀ fuel pos kv pos', pos < s.length → iterNext key start s fuel pos = .ok (some kv, pos') →
      ∃ p, p < s.length ∧ stAt s p = .valid ∧ (getSlot s p).key = key ∧ pos' = nextPos s.length p ∧
        distFrom s.length start pos ≤ distFrom s.length start p := by
  intro fuel
  induction fuel with
  | zero => intro pos kv pos' _ h; simp [iterNext] at h
  | succ n ih =>
    intro pos kv pos' hp h
    unfold iterNext at h
    have hstdef : (getSlot s pos).st = stAt s pos := rfl
    cases hst : stAt s pos with
    | empty => simp only [hstdef, hst] at h; cases h
    | deleted =>
      simp only [hstdef, hst] at h
      by_cases hw : start = nextPos s.length pos
      · simp only [← hw, if_true] at h; cases h
      · simp only [hw, if_false] at h
        obtain ⟨p, a, b, c, d, e⟩ := ih _ kv pos' (nextPos_lt _ _ hp) h
        have := distFrom_next s.length start pos hs hp (fun x => hw x.symm)
        exact ⟨p, a, b, c, d, by omega⟩
    | valid =>
      simp only [hstdef, hst] at h
      by_cases hk : (getSlot s pos).key = key
      · simp only [hk, if_true] at h
        cases h
        exact ⟨pos, hp, hst, hk, rfl, Nat.le_refl _⟩
      · simp only [hk, if_false] at h
        by_cases hw : start = nextPos s.length pos
        · simp only [← hw, if_true] at h; cases h
        · simp only [hw, if_false] at h
          obtain ⟨p, a, b, c, d, e⟩ := ih _ kv pos' (nextPos_lt _ _ hp) h
          have := distFrom_next s.length start pos hs hp (fun x => hw x.symm)
          exact ⟨p, a, b, c, d, by omega⟩

theorem collectLoop_ok (key : K) (start : Nat) (s : List (Slot K T)) (hs : start < s.length) (F : Nat)
    (hF : s.length ≤ F) (hnw : NoWrapAt s key start) :
    ∀ fuel pos acc, pos < s.length → s.length - distFrom s.length start pos < fuel →
      ∃ r, collectLoop key start s F fuel pos acc = .ok r := by
  intro fuel
  induction fuel with
  | zero => intro pos acc _ h; omega
  | succ n ih =>
    intro pos acc hp hf
    unfold collectLoop
    have hd := distFrom_lt s.length start pos hs hp
    obtain ⟨r, hr, hr2⟩ := iterNext_ok key start s hs F pos hp (by omega)
    simp only [hr]
    obtain ⟨r1, pos'⟩ := r
    cases r1 with
    | none => exact ⟨_, rfl⟩
    | some kv =>
      simp only
      obtain ⟨p, a, b, c, d, e⟩ := iterNext_some key start s hs F pos kv pos' hp hr
      have hne : nextPos s.length p ≠ start := fun x => hnw p a x ⟨b, c⟩
      have := distFrom_next s.length start p hs a hne
      subst d
      exact ih _ _ (nextPos_lt _ _ a) (by omega)

theorem containsValueLoop_ok (key : K) (v : T) (start : Nat) (s : List (Slot K T))
    (hs : start < s.length) (F : Nat) (hF : s.length ≤ F) (hnw : NoWrapAt s key start) :
    ∀ fuel pos, pos < s.length → s.length - distFrom s.length start pos < fuel →
      ∃ r, containsValueLoop key v start s F fuel pos = .ok r := by
  intro fuel
  induction fuel with
  | zero => intro pos _ h; omega
  | succ n ih =>
    intro pos hp hf
    unfold containsValueLoop
    have hd := distFrom_lt s.length start pos hs hp
    obtain ⟨r, hr, hr2⟩ := iterNext_ok key start s hs F pos hp (by omega)
    simp only [hr]
    obtain ⟨r1, pos'⟩ := r
    cases r1 with
    | none => exact ⟨_, rfl⟩
    | some kv =>
      simp only
      split
      · exact ⟨_, rfl⟩
      · obtain ⟨p, a, b, c, d, e⟩ := iterNext_some key start s hs F pos kv pos' hp hr
        have hne : nextPos s.length p ≠ start := fun x => hnw p a x ⟨b, c⟩
        have := distFrom_next s.length start p hs a hne
        subst d
        exact ih _ (nextPos_lt _ _ a) (by omega)

end
end AgdbColl
