import AgdbColl.Lemmas.Alias
import AgdbColl.Lemmas.Graph
/-!
The alias invariant of the database model and its preservation by every query.
-/
namespace AgdbColl
open Graph

/-- every alias names a live node with a positive id and is not empty -/
def Live (g : Graph) (al : IMap) : Prop :=
  ∀ a i, AMap.get al.k2v a = some i → 0 < i ∧ g.isNode i.toNat = true ∧ a ≠ "-"

/-- the alias maps: mutually inverse, keys listed once, onto live nodes -/
structure AliasOk (g : Graph) (al : IMap) : Prop where
  inv : Inverse al
  nodup : AMap.NodupKeys al.k2v
  live : Live g al

/-- **AliasInv**: aliases ↔ nodes is a bijection onto existing nodes (ids positive and live,
alias non-empty); plus the allocator invariant it depends on -/
def AliasInv (db : Db) : Prop := GraphInv db.g ∧ AliasOk db.g db.al

theorem ofNat_pos' (n : Nat) (h : 0 < n) : (0 : Int) < Int.ofNat n := by
  simp only [Int.ofNat_eq_coe]; omega

theorem ofNat_toNat' (i : Int) (h : 0 < i) : Int.ofNat i.toNat = i := by
  simp only [Int.ofNat_eq_coe]; omega

theorem eq_ofNat_of_toNat (i : Int) (n : Nat) (h : 0 < i) (e : i.toNat = n) : i = Int.ofNat n := by
  simp only [Int.ofNat_eq_coe]; omega

theorem isEmpty_false_iff (a : Alias) : a.isEmpty = false ↔ a ≠ "-" := by
  simp [Alias.isEmpty]

theorem AliasOk.insert {g : Graph} {al : IMap} (h : AliasOk g al) (a : Alias) (i : Int)
    (hi : 0 < i) (hn : g.isNode i.toNat = true) (ha : a ≠ "-") : AliasOk g (al.insert a i) := by
  refine ⟨IMap.insert_inverse al h.inv a i, IMap.insert_nodup al h.nodup a i, ?_⟩
  intro b j hb
  rw [IMap.insert_k2v al h.inv] at hb
  by_cases e : b = a
  · simp only [e, if_true, Option.some.injEq] at hb
    subst hb; subst e
    exact ⟨hi, hn, ha⟩
  · simp only [e, if_false] at hb
    split at hb
    · cases hb
    · exact h.live b j hb

theorem AliasOk.removeKey {g : Graph} {al : IMap} (h : AliasOk g al) (a : Alias) :
    AliasOk g (al.removeKey a) := by
  refine ⟨IMap.removeKey_inverse al h.inv a, IMap.removeKey_nodup al h.nodup a, ?_⟩
  intro b j hb
  rw [IMap.removeKey_k2v] at hb
  split at hb
  · cases hb
  · exact h.live b j hb

theorem AliasOk.kept {g g' : Graph} {al : IMap} (h : AliasOk g al) (hk : NodesKept g g') :
    AliasOk g' al :=
  ⟨h.inv, h.nodup, fun a i hg => let ⟨x, y, z⟩ := h.live a i hg; ⟨x, hk _ y, z⟩⟩

theorem AliasOk.empty (g : Graph) : AliasOk g IMap.empty :=
  ⟨Inverse_empty, by simp [AMap.NodupKeys, IMap.empty], by intro a i h; simp [IMap.empty, AMap.get] at h⟩

/-- resolving a query id on a consistent database gives a live element; a non-negative one is a node -/
theorem dbId_node (db : Db) (h : AliasInv db) (q : QId) (i : Int) (hq : db.dbId q = some i)
    (hneg : ¬ i < 0) : 0 < i ∧ db.g.isNode i.toNat = true := by
  cases q with
  | id j =>
    simp only [Db.dbId] at hq
    split at hq
    · rename_i hl
      cases hq
      simp only [Db.liveId] at hl
      simp only [hneg, if_false] at hl
      split at hl
      · cases hl
      · rename_i h0; exact ⟨by omega, hl⟩
    · cases hq
  | alias a =>
    simp only [Db.dbId, IMap.value] at hq
    have := h.2.live a i hq
    exact ⟨this.1, this.2.1⟩

/-- `insert_alias` keeps the alias maps consistent and records only undoable commands -/
def UndoOk (g : Graph) (undo : List Cmd) : Prop :=
  ∀ c ∈ undo, match c with
    | .insertAlias id a => 0 < id ∧ g.isNode id.toNat = true ∧ a ≠ "-"
    | .removeAlias _ => True

theorem ownerUndo_ok (g : Graph) (al : IMap) (h : AliasOk g al) (a : Alias) : UndoOk g (Db.ownerUndo al a) := by
  unfold Db.ownerUndo
  cases hv : al.value a with
  | none => intro c hc; cases hc
  | some owner =>
    intro c hc
    simp only [List.mem_singleton] at hc
    subst hc
    exact h.live a owner hv

theorem UndoOk.append {g : Graph} {l1 l2 : List Cmd} (h1 : UndoOk g l1) (h2 : UndoOk g l2) :
    UndoOk g (l1 ++ l2) := by
  intro c hc
  rcases List.mem_append.mp hc with hc | hc
  · exact h1 c hc
  · exact h2 c hc

theorem insertAlias_ok (g : Graph) (al : IMap) (h : AliasOk g al) (i : Int) (a : Alias)
    (hi : 0 < i) (hn : g.isNode i.toNat = true) (ha : a ≠ "-") :
    AliasOk g (Db.insertAlias al i a).1 ∧ UndoOk g (Db.insertAlias al i a).2 := by
  have hrem : UndoOk g [Cmd.removeAlias a] := by
    intro c hc
    simp only [List.mem_singleton] at hc
    subst hc; trivial
  unfold Db.insertAlias
  cases hk : al.key i with
  | none =>
    simp only
    exact ⟨h.insert a i hi hn ha, (ownerUndo_ok g al h a).append hrem⟩
  | some old =>
    simp only
    have h1 := (h.removeKey old).removeKey old
    refine ⟨h1.insert a i hi hn ha, UndoOk.append (UndoOk.append ?_ (ownerUndo_ok g _ h1 a)) hrem⟩
    intro c hc
    simp only [List.mem_singleton] at hc
    subst hc
    have h2 : AMap.get al.k2v old = some i := (h.inv old i).mpr hk
    exact ⟨hi, hn, (h.live old i h2).2.2⟩

theorem rollback_ok (g : Graph) (undo : List Cmd) :
    ∀ al, AliasOk g al → UndoOk g undo → AliasOk g (Db.rollback al undo) := by
  unfold Db.rollback
  suffices H : ∀ (l : List Cmd) (al : IMap), AliasOk g al → (∀ c ∈ l, match c with
      | .insertAlias id a => 0 < id ∧ g.isNode id.toNat = true ∧ a ≠ "-"
      | .removeAlias _ => True) → AliasOk g (l.foldl Db.undoCmd al) by
    intro al hal hu
    apply H _ al hal
    intro c hc
    exact hu c (List.mem_reverse.mp hc)
  intro l
  induction l with
  | nil => intro al hal _; exact hal
  | cons c rest ih =>
    intro al hal hu
    simp only [List.foldl_cons]
    apply ih
    · cases c with
      | insertAlias id a =>
        have := hu (.insertAlias id a) (by simp)
        exact hal.insert a id this.1 this.2.1 this.2.2
      | removeAlias a => exact hal.removeKey a
    · intro c' hc'; exact hu c' (by simp [hc'])

theorem iaLoop_ok (db : Db) (hg : GraphInv db.g) :
    ∀ (pairs : List (QId × Alias)) (al : IMap) (undo : List Cmd) (n : Nat),
      AliasOk db.g al → UndoOk db.g undo → (∀ p ∈ pairs, p.2 ≠ "-") →
      match Db.iaLoop true db pairs al undo n with
      | .inl (al', _) => AliasOk db.g al'
      | .inr (_, undo', al') => AliasOk db.g al' ∧ UndoOk db.g undo' := by
  intro pairs
  induction pairs with
  | nil => intro al undo n hal _ _; simp only [Db.iaLoop]; exact hal
  | cons p rest ih =>
    intro al undo n hal hu hne
    obtain ⟨q, a⟩ := p
    simp only [Db.iaLoop, Bool.not_true, Bool.false_and, Bool.false_eq_true, if_false, Bool.true_and]
    cases hq : Db.dbId { db with al := al } q with
    | none => simp only; exact ⟨hal, hu⟩
    | some i =>
      simp only
      by_cases hneg : i < 0
      · simp only [hneg, decide_true, if_true]; exact ⟨hal, hu⟩
      · simp only [hneg, decide_false, Bool.false_eq_true, if_false]
        have hlive := dbId_node { db with al := al } ⟨hg, hal⟩ q i hq hneg
        have ha : a ≠ "-" := hne (q, a) (by simp)
        obtain ⟨h1, h2⟩ := insertAlias_ok db.g al hal i a hlive.1 hlive.2 ha
        apply ih _ _ _ h1
        · intro c hc
          rcases List.mem_append.mp hc with hc | hc
          · exact hu c hc
          · exact h2 c hc
        · intro p hp; exact hne p (by simp [hp])

theorem nnLoop_ok :
    ∀ (slots : List (Option Alias)) (db : Db) (acc : List Int), AliasInv db →
      (∀ a, some a ∈ slots → a ≠ "-") → AliasInv (Db.nnLoop slots db acc).1 := by
  intro slots
  induction slots with
  | nil => intro db acc h _; exact h
  | cons oa rest ih =>
    intro db acc h hne
    simp only [Db.nnLoop]
    have hrest : ∀ a, some a ∈ rest → a ≠ "-" := fun a ha => hne a (by simp [ha])
    cases hb : (oa.bind fun a => db.al.value a) with
    | some i => simp only; exact ih db _ h hrest
    | none =>
      simp only
      obtain ⟨p1, p2, p3, p4⟩ := insertNode_spec db.g h.1
      apply ih _ _ _ hrest
      refine ⟨p3, ?_⟩
      cases oa with
      | none => exact h.2.kept p4
      | some a =>
        simp only
        have hi : (0 : Int) < Int.ofNat db.g.insertNode.1 := ofNat_pos' _ p1
        exact (h.2.kept p4).insert a _ hi (by simpa using p2) (hne a (by simp))

theorem removeNode_ok (db : Db) (h : AliasInv db) (n : Nat) (hn : db.g.isNode n = true)
    (alias : Option Alias) (hal : alias = db.al.key (Int.ofNat n)) :
    AliasInv (db.removeNode n alias) := by
  obtain ⟨g1, g2⟩ := removeNode_spec db.g h.1 n hn
  refine ⟨g1, ?_⟩
  simp only [Db.removeNode]
  have hinvv := h.2.inv
  cases alias with
  | none =>
    refine ⟨h.2.inv, h.2.nodup, ?_⟩
    intro a i hai
    obtain ⟨x, y, z⟩ := h.2.live a i hai
    refine ⟨x, g2 _ ?_ y, z⟩
    intro e
    have : i = Int.ofNat n := eq_ofNat_of_toNat i n x e
    subst this
    have := (hinvv a _).mp hai
    simp only [IMap.key] at hal
    rw [this] at hal; cases hal
  | some a0 =>
    simp only
    rw [IMap.removeKey_twice]
    have hk := h.2.removeKey a0
    refine ⟨hk.inv, hk.nodup, ?_⟩
    intro a i hai
    obtain ⟨x, y, z⟩ := hk.live a i hai
    refine ⟨x, g2 _ ?_ y, z⟩
    intro e
    have hi : i = Int.ofNat n := eq_ofNat_of_toNat i n x e
    subst hi
    rw [IMap.removeKey_k2v] at hai
    split at hai
    · cases hai
    · rename_i hne
      have h1 := (hinvv a _).mp hai
      simp only [IMap.key] at hal
      rw [h1] at hal
      cases hal
      exact hne rfl

theorem remove_ok (db : Db) (h : AliasInv db) (q : QId) (db' : Db) (b : Bool)
    (hr : db.remove q = some (db', b)) : AliasInv db' := by
  cases q with
  | id i =>
    simp only [Db.remove] at hr
    split at hr
    · rename_i hl
      split at hr
      · rename_i hpos
        cases hr
        have hn : db.g.isNode i.toNat = true := by
          simp only [Db.liveId] at hl
          have : ¬ i < 0 := by omega
          simp only [this, if_false] at hl
          split at hl
          · cases hl
          · exact hl
        apply removeNode_ok db h i.toNat hn
        have : Int.ofNat i.toNat = i := ofNat_toNat' i hpos
        rw [this]
      · cases hr
        obtain ⟨a, b⟩ := removeEdge_spec db.g h.1 (-i).toNat
        exact ⟨a, h.2.kept b⟩
    · cases hr; exact h
  | alias a =>
    simp only [Db.remove] at hr
    cases hv : db.al.value a with
    | none => rw [hv] at hr; cases hr; exact h
    | some i =>
      rw [hv] at hr
      simp only at hr
      split at hr
      · rename_i hc
        cases hr
        apply removeNode_ok db h i.toNat hc.2
        have : Int.ofNat i.toNat = i := ofNat_toNat' i hc.1
        rw [this]
        simp only [IMap.value] at hv
        exact ((h.2.inv a i).mp hv).symm
      · cases hr

theorem rmLoop_ok :
    ∀ (ids : List QId) (db : Db) (n : Nat) (db' : Db) (n' : Nat), AliasInv db →
      Db.rmLoop ids db n = some (db', n') → AliasInv db' := by
  intro ids
  induction ids with
  | nil => intro db n db' n' h hr; simp only [Db.rmLoop] at hr; cases hr; exact h
  | cons q rest ih =>
    intro db n db' n' h hr
    simp only [Db.rmLoop] at hr
    cases hq : db.remove q with
    | none => rw [hq] at hr; cases hr
    | some r =>
      obtain ⟨d1, b⟩ := r
      rw [hq] at hr
      exact ih d1 _ db' n' (remove_ok db h q d1 b hq) hr

theorem raLoop_ok (g : Graph) :
    ∀ (as : List Alias) (al : IMap) (n : Nat), AliasOk g al → AliasOk g (Db.raLoop as al n).1 := by
  intro as
  induction as with
  | nil => intro al n h; exact h
  | cons a rest ih =>
    intro al n h
    simp only [Db.raLoop]
    split
    · exact ih _ _ ((h.removeKey a).removeKey a)
    · exact ih _ _ h

theorem any_isEmpty_false {l : List Alias} (h : l.any Alias.isEmpty = false) :
    ∀ a ∈ l, a ≠ "-" := by
  intro a ha
  have := List.any_eq_false.mp h a ha
  exact (isEmpty_false_iff a).mp (by simpa using this)

/-- **every query preserves the alias invariant** -/
theorem exec_inv (db : Db) (op : DbOp) (h : AliasInv db) : AliasInv (db.exec op).1 := by
  unfold Db.exec
  cases op with
  | nn count aliases =>
    simp only [Db.execWith, Bool.true_and]
    split
    · exact h
    · rename_i hne
      have hne' : aliases.any Alias.isEmpty = false := by simpa using hne
      apply nnLoop_ok _ _ _ h
      intro a ha
      simp only [List.mem_map, List.mem_range] at ha
      obtain ⟨j, _, hj⟩ := ha
      exact any_isEmpty_false hne' a (List.mem_of_getElem? hj)
  | na q alias =>
    simp only [Db.execWith, Bool.true_and]
    split
    · exact h
    · rename_i hne
      have ha : alias ≠ "-" := (isEmpty_false_iff alias).mp (by simpa using hne)
      cases hq : db.dbId q with
      | none => exact h
      | some i =>
        simp only
        split
        · exact h
        · rename_i hneg
          obtain ⟨x, y⟩ := dbId_node db h q i hq hneg
          exact ⟨h.1, h.2.insert alias i x y ha⟩
  | ne s d =>
    simp only [Db.execWith]
    cases hs : db.dbId s <;> cases hd : db.dbId d <;> simp only
    · exact h
    · exact h
    · exact h
    · split
      · obtain ⟨a, b⟩ := insertEdge_spec db.g h.1 _ _
        exact ⟨a, h.2.kept b⟩
      · exact h
  | ia ids aliases =>
    simp only [Db.execWith, Bool.true_and]
    split
    · exact h
    · split
      · exact h
      · rename_i hlen hchk
        have hne : aliases.any Alias.isEmpty = false := by
          cases hx : aliases.any Alias.isEmpty
          · rfl
          · exact absurd (by simp [hx]) hchk
        have hp : ∀ p ∈ ids.zip aliases, p.2 ≠ "-" := by
          intro p hp
          exact any_isEmpty_false hne p.2 (List.of_mem_zip hp).2
        have := iaLoop_ok db h.1 (ids.zip aliases) db.al [] 0 h.2 (by intro c hc; cases hc) hp
        split
        · rename_i al n heq
          rw [heq] at this
          exact ⟨h.1, this⟩
        · rename_i e undo al heq
          rw [heq] at this
          exact ⟨h.1, rollback_ok db.g undo al this.1 this.2⟩
  | ra aliases =>
    simp only [Db.execWith]
    exact ⟨h.1, raLoop_ok db.g aliases db.al 0 h.2⟩
  | rm ids =>
    simp only [Db.execWith]
    cases hr : Db.rmLoop ids db 0 with
    | none => exact h
    | some r => exact rmLoop_ok ids db 0 r.1 r.2 h hr
  | sa ids => simp only [Db.execWith]; split <;> exact h
  | saa => exact h
  | rs ids => simp only [Db.execWith]; split <;> exact h
  | ix k => simp only [Db.execWith]; split <;> exact h
  | rx k => simp only [Db.execWith]; split <;> exact h
  | sv q k v =>
    cases q with
    | id i =>
      simp only [Db.execWith, Bool.and_false, Bool.false_eq_true, if_false]
      cases hq : db.dbId (.id i) with
      | some j => exact h
      | none =>
        simp only
        by_cases h0 : i = 0
        · simp only [h0, if_true]
          obtain ⟨p1, p2, p3, p4⟩ := insertNode_spec db.g h.1
          exact ⟨p3, h.2.kept p4⟩
        · simp only [h0, if_false]; exact h
    | alias a =>
      simp only [Db.execWith, Bool.true_and]
      split
      · exact h
      · rename_i hne
        have ha : a ≠ "-" := (isEmpty_false_iff a).mp (by simpa using hne)
        cases hq : db.dbId (.alias a) with
        | some j => exact h
        | none =>
          simp only
          obtain ⟨p1, p2, p3, p4⟩ := insertNode_spec db.g h.1
          have hi : (0 : Int) < Int.ofNat db.g.insertNode.1 := ofNat_pos' _ p1
          exact ⟨p3, (h.2.kept p4).insert a _ hi (by simpa using p2) ha⟩
  | rv q k => simp only [Db.execWith]; split <;> exact h
  | qx k v => simp only [Db.execWith]; split <;> exact h

theorem AliasInv_init : AliasInv Db.init := ⟨GraphInv_init, AliasOk.empty _⟩

theorem insertAlias_resolve (al : IMap) (hinv : Inverse al) (i : Int) (a b : Alias) :
    AMap.get (Db.insertAlias al i a).1.k2v b =
      if b = a then some i else if AMap.get al.k2v b = some i then none else AMap.get al.k2v b := by
  have h1 : ∀ a i, AMap.get al.k2v a = some i → AMap.get al.v2k i = some a := fun a i => (hinv a i).mp
  have h2 : ∀ a i, AMap.get al.v2k i = some a → AMap.get al.k2v a = some i := fun a i => (hinv a i).mpr
  unfold Db.insertAlias
  cases hk : al.key i with
  | none => simp only; rw [IMap.insert_k2v _ hinv]
  | some old =>
    simp only
    rw [IMap.removeKey_twice, IMap.insert_k2v _ (IMap.removeKey_inverse _ hinv old), IMap.removeKey_k2v]
    simp only [IMap.key] at hk
    grind

theorem iaLoop_single (db : Db) (q : QId) (a : Alias) :
    Db.iaLoop true db [(q, a)] db.al [] 0 =
      match db.dbId q with
      | none => .inr (Db.errNotFound, [], db.al)
      | some i => if i < 0 then .inr (Db.errNotAllowed, [], db.al)
                  else .inl ((Db.insertAlias db.al i a).1, 1) := by
  simp only [Db.iaLoop, Bool.not_true, Bool.false_and, Bool.false_eq_true, if_false, Bool.true_and]
  have e : Db.dbId { db with al := db.al } q = db.dbId q := rfl
  rw [e]
  cases hq : db.dbId q with
  | none => rfl
  | some i =>
    simp only
    by_cases hneg : i < 0
    · simp only [hneg, decide_true, if_true]
    · simp only [hneg, decide_false, Bool.false_eq_true, if_false]

theorem exec_ia_single (db : Db) (q : QId) (a : Alias) :
    db.exec (.ia [q] [a]) =
      if (a.isEmpty || q.isNegLit) = true then (db, Db.errNotAllowed)
      else match db.dbId q with
        | none => (db, Db.errNotFound)
        | some i => if i < 0 then (db, Db.errNotAllowed)
                    else ({ db with al := (Db.insertAlias db.al i a).1 }, .num 1) := by
  have tail : (match Db.iaLoop true db [(q, a)] db.al [] 0 with
      | Sum.inl (al, n) => (({ db with al := al } : Db), Out.num ↑n)
      | Sum.inr (e, undo, al) => ({ db with al := Db.rollback al undo }, e)) =
      match db.dbId q with
        | none => (db, Db.errNotFound)
        | some i => if i < 0 then (db, Db.errNotAllowed)
                    else ({ db with al := (Db.insertAlias db.al i a).1 }, .num 1) := by
    rw [iaLoop_single]
    cases db.dbId q with
    | none => rfl
    | some i =>
      simp only
      by_cases hneg : i < 0
      · simp only [hneg, if_true]; rfl
      · simp only [hneg, if_false]; rfl
  simp only [Db.exec, Db.execWith, List.length_cons, List.length_nil, ne_eq, not_true_eq_false, if_false,
    Bool.true_and, List.any_cons, List.any_nil, Bool.or_false, List.zip_cons_cons, List.zip_nil_right]
  by_cases hc : (a.isEmpty || q.isNegLit) = true
  · rw [if_pos hc, if_pos hc]
  · rw [if_neg hc, if_neg hc]; exact tail


end AgdbColl
