import AgdbColl.Lemmas.Loops
/-!
`rehash_values` / `rehash`: termination, the number of `Valid` slots is preserved, and after a
shrink every `Valid` slot lies below the new capacity (so truncation loses nothing).
-/
namespace AgdbColl
set_option linter.unusedSectionVars false
set_option linter.unusedVariables false

section
variable {K T : Type} [DecidableEq K] [DecidableEq T] [Inhabited K] [Inhabited T]

def countTrue (occ : List Bool) : Nat := occ.countP fun b => b

theorem countTrue_le (occ : List Bool) : countTrue occ ≤ occ.length := List.countP_le_length

theorem countTrue_set (occ : List Bool) (p : Nat) (hp : p < occ.length)
    (hf : occ.getD p false = false) : countTrue (occ.set p true) = countTrue occ + 1 := by
  have h := List.countP_set (p := fun b : Bool => b) (l := occ) (a := true) hp
  have e : occ[p] = false := by
    simpa [List.getD_eq_getElem?_getD, hp] using hf
  simp only [countTrue, h, e]
  simp

theorem getD_set_occ (occ : List Bool) (p j : Nat) :
    (occ.set p true).getD j false = if p = j ∧ p < occ.length then true else occ.getD j false := by
  simp only [List.getD_eq_getElem?_getD, List.getElem?_set]
  by_cases h : p = j
  · subst h
    by_cases h2 : p < occ.length <;> simp [h2]
  · simp [h]

/-! ### the occupancy probe -/

theorem probeOcc_ok (occ : List Bool) (new j : Nat) (hj : j < new)
    (hjf : occ.getD j false = false) :
    ∀ fuel pos, pos < new → distTo new pos j < fuel →
      ∃ p, probeOcc occ new fuel pos = .ok p ∧ p < new ∧ occ.getD p false = false := by
  intro fuel
  induction fuel with
  | zero => intro pos _ h; omega
  | succ n ih =>
    intro pos hp hd
    unfold probeOcc
    by_cases hf : occ.getD pos false = false
    · simp only [hf, if_true]
      exact ⟨pos, rfl, hp, hf⟩
    · simp only [hf, if_false]
      have hne : pos ≠ j := by
        intro e; subst e; exact hf hjf
      have := distTo_next new pos j hp hj hne
      exact ih (nextPos new pos) (nextPos_lt _ _ hp) (by omega)

/-! ### swap -/

theorem length_swapSlots (s : List (Slot K T)) (i j : Nat) : (swapSlots s i j).length = s.length := by
  simp [swapSlots]

theorem stAt_swapSlots (s : List (Slot K T)) (i j k : Nat) (hi : i < s.length) (hj : j < s.length) :
    stAt (swapSlots s i j) k = if k = j then stAt s i else if k = i then stAt s j else stAt s k := by
  simp only [swapSlots, stAt_set, List.length_set]
  by_cases h1 : j = k
  · subst h1; simp [hj]; rfl
  · have h1' : ¬ k = j := fun e => h1 e.symm
    simp only [h1, h1', false_and, if_false]
    by_cases h2 : i = k
    · subst h2; simp [hi]; rfl
    · have h2' : ¬ k = i := fun e => h2 e.symm
      simp [h2, h2']

theorem countValid_swapSlots (s : List (Slot K T)) (i j : Nat) (hi : i < s.length) (hj : j < s.length) :
    countValid (swapSlots s i j) = countValid s := by
  have h1 := countValid_set s i (getSlot s j) hi
  have h2 := countValid_set (s.set i (getSlot s j)) j (getSlot s i) (by simpa using hj)
  have e : stAt (s.set i (getSlot s j)) j = stAt s j := by
    rw [stAt_set]
    split
    · rfl
    · rfl
  rw [e] at h2
  have a1 : (getSlot s j).st = stAt s j := rfl
  have a2 : (getSlot s i).st = stAt s i := rfl
  rw [a1] at h1
  rw [a2] at h2
  simp only [swapSlots]
  by_cases c1 : stAt s i = .valid <;> by_cases c2 : stAt s j = .valid <;>
    simp only [c1, c2, if_true, if_false] at h1 h2 <;> omega

/-! ### counting placed entries -/

theorem stAt_cons_succ (x : Slot K T) (s : List (Slot K T)) (j : Nat) :
    stAt (x :: s) (j + 1) = stAt s j := by
  simp [stAt, getSlot_eq]

theorem countTrue_le_countValid_take :
    ∀ (occ : List Bool) (s : List (Slot K T)), occ.length ≤ s.length →
      (∀ j, j < occ.length → occ.getD j false = true → stAt s j = .valid) →
      countTrue occ ≤ countValid (s.take occ.length) := by
  intro occ
  induction occ with
  | nil => intro s _ _; simp [countTrue]
  | cons b occ ih =>
    intro s hl hp
    cases s with
    | nil => simp at hl
    | cons x s =>
      have hl' : occ.length ≤ s.length := by simpa using hl
      have ih' := ih s hl' (by
        intro j hj hb
        have := hp (j + 1) (by simpa using hj) (by simpa [List.getD_eq_getElem?_getD] using hb)
        simpa [stAt_cons_succ] using this)
      simp only [List.length_cons, List.take_succ_cons, countTrue, countValid, List.countP_cons] at ih' ⊢
      have h0 : b = true → x.st = .valid := by
        intro hb
        have := hp 0 (by simp) (by simp [List.getD_eq_getElem?_getD, hb])
        simpa [stAt, getSlot_eq] using this
      cases b
      · simp only [Bool.false_eq_true, if_false]
        split <;> omega
      · simp only [h0 rfl, decide_true, if_true]
        omega

theorem countValid_take_add_drop (s : List (Slot K T)) (n : Nat) :
    countValid (s.take n) + countValid (s.drop n) = countValid s := by
  have := List.countP_append (p := fun sl : Slot K T => decide (sl.st = .valid))
    (l₁ := s.take n) (l₂ := s.drop n)
  rw [List.take_append_drop] at this
  simp only [countValid]
  omega

theorem stAt_drop (s : List (Slot K T)) (n k : Nat) : stAt (s.drop n) k = stAt s (n + k) := by
  simp [stAt, getSlot_eq, List.getElem?_drop]

theorem countValid_take_lt (s : List (Slot K T)) (n i : Nat) (hn : n ≤ i)
    (hv : stAt s i = .valid) : countValid (s.take n) + 1 ≤ countValid s := by
  have h1 := countValid_take_add_drop s n
  have h2 : 0 < countValid (s.drop n) := by
    apply countValid_pos_of_valid (s.drop n) (i - n)
    rw [stAt_drop]
    have : n + (i - n) = i := by omega
    rw [this]; exact hv
  omega

theorem countValid_take_eq (s : List (Slot K T)) (n : Nat)
    (h : ∀ j, n ≤ j → j < s.length → stAt s j ≠ .valid) : countValid (s.take n) = countValid s := by
  have h1 := countValid_take_add_drop s n
  have h2 : countValid (s.drop n) = 0 := by
    apply Nat.eq_zero_of_not_pos
    intro hpos
    obtain ⟨a, ha, hav⟩ := List.countP_pos_iff.mp hpos
    obtain ⟨k, hk, rfl⟩ := List.getElem_of_mem ha
    have hk' : n + k < s.length := by
      simp only [List.length_drop] at hk; omega
    apply h (n + k) (by omega) hk'
    have := stAt_drop s n k
    rw [← this]
    simpa [stAt, getSlot_of_lt (s.drop n) k hk] using hav
  omega

/-! ### the rehash loop -/

structure RInv (new L : Nat) (s : List (Slot K T)) (i : Nat) (occ : List Bool) : Prop where
  len : s.length = L
  occLen : occ.length = new
  placed : ∀ j, j < new → occ.getD j false = true → stAt s j = .valid
  high : ∀ j, new ≤ j → j < i → stAt s j ≠ .valid

theorem rehashLoop_ok (h : K → Nat) (F cur new L V : Nat) (hnew : 0 < new) (hcurL : cur ≤ L)
    (hnewL : new ≤ L) (hF : new ≤ F) (hV : V ≤ new) :
    ∀ fuel (s : List (Slot K T)) i occ, RInv new L s i occ → i ≤ cur → countValid s = V →
      (cur - i) + (new - countTrue occ) < fuel →
      ∃ s', rehashLoop h F cur new fuel s i occ = .ok s' ∧ s'.length = L ∧ countValid s' = V ∧
        ∀ j, new ≤ j → j < cur → stAt s' j ≠ .valid := by
  intro fuel
  induction fuel with
  | zero => intro s i occ _ _ _ hm; omega
  | succ n ih =>
    intro s i occ inv hi hcv hm
    unfold rehashLoop
    by_cases hic : i = cur
    · simp only [hic, if_true]
      subst hic
      exact ⟨s, rfl, inv.len, hcv, inv.high⟩
    · simp only [hic, if_false]
      have hiL : i < L := by omega
      have hiS : i < s.length := by rw [inv.len]; exact hiL
      cases hst : stAt s i with
      | empty =>
        simp only
        apply ih s (i + 1) occ _ (by omega) hcv (by omega)
        refine ⟨inv.len, inv.occLen, inv.placed, ?_⟩
        intro j hj1 hj2
        by_cases e : j = i
        · subst e; simp [hst]
        · exact inv.high j hj1 (by omega)
      | deleted =>
        simp only
        have hnv : ∀ s2 : List (Slot K T), s2 = (if i < new then setSt s i .empty else s) →
            RInv new L s2 (i + 1) occ ∧ countValid s2 = V := by
          intro s2 hs2
          by_cases hin : i < new
          · simp only [hin, if_true] at hs2
            subst hs2
            have hst' : ∀ k, stAt (setSt s i .empty) k = if i = k then St.empty else stAt s k := by
              intro k
              simp only [setSt, stAt_set]
              by_cases e : i = k
              · subst e; simp [hiS]
              · simp [e]
            refine ⟨⟨by simp [length_setSt, inv.len], inv.occLen, ?_, ?_⟩, ?_⟩
            · intro j hj hb
              have := inv.placed j hj hb
              rw [hst']
              by_cases e : i = j
              · subst e; rw [hst] at this; cases this
              · simp [e, this]
            · intro j hj1 hj2
              rw [hst']
              by_cases e : i = j
              · simp [e]
              · simp only [e, if_false]; exact inv.high j hj1 (by omega)
            · have hc := countValid_set s i { getSlot s i with st := .empty } hiS
              have e1 : ¬ stAt s i = .valid := by rw [hst]; intro c; cases c
              have e2 : ¬ ({ getSlot s i with st := St.empty } : Slot K T).st = .valid := by
                intro c; cases c
              rw [if_neg e1, if_neg e2] at hc
              exact (hc : countValid (setSt s i .empty) = countValid s).trans hcv
          · simp only [hin, if_false] at hs2
            subst hs2
            refine ⟨⟨inv.len, inv.occLen, inv.placed, ?_⟩, hcv⟩
            intro j hj1 hj2
            by_cases e : j = i
            · subst e; simp [hst]
            · exact inv.high j hj1 (by omega)
        obtain ⟨inv2, hcv2⟩ := hnv _ rfl
        exact ih _ (i + 1) occ inv2 (by omega) hcv2 (by omega)
      | valid =>
        simp only
        by_cases hpl : i < new ∧ occ.getD i false = true
        · simp only [hpl, and_self, if_true]
          apply ih s (i + 1) occ _ (by omega) hcv (by omega)
          refine ⟨inv.len, inv.occLen, inv.placed, ?_⟩
          intro j hj1 hj2
          by_cases e : j = i
          · subst e; omega
          · exact inv.high j hj1 (by omega)
        · simp only [hpl, if_false]
          -- a free bit exists
          have hfree : ∃ j, j < new ∧ occ.getD j false = false := by
            by_cases hin : i < new
            · refine ⟨i, hin, ?_⟩
              cases hb : occ.getD i false
              · rfl
              · exact absurd ⟨hin, hb⟩ hpl
            · have h1 := countTrue_le_countValid_take occ s (by rw [inv.occLen, inv.len]; exact hnewL)
                (by intro j hj hb; exact inv.placed j (by rw [← inv.occLen]; exact hj) hb)
              rw [inv.occLen] at h1
              have h2 := countValid_take_lt s new i (by omega) hst
              have h3 : countTrue occ < occ.length := by rw [inv.occLen]; omega
              obtain ⟨j, hj, hjf⟩ := exists_false occ h3
              exact ⟨j, by rw [← inv.occLen]; exact hj, hjf⟩
          obtain ⟨j, hj, hjf⟩ := hfree
          have hhome : h (getSlot s i).key % new < new := Nat.mod_lt _ hnew
          have hd := distTo_lt new (h (getSlot s i).key % new) j hhome hj
          obtain ⟨p, hp, hpn, hpf⟩ := probeOcc_ok occ new j hj hjf F (h (getSlot s i).key % new) hhome
            (by omega)
          simp only [hp]
          have hpS : p < s.length := by rw [inv.len]; omega
          have hpO : p < occ.length := by rw [inv.occLen]; exact hpn
          have hct := countTrue_set occ p hpO hpf
          have hctle := countTrue_le (occ.set p true)
          simp only [List.length_set, inv.occLen] at hctle
          have hne_ip : ∀ j, j < new → occ.getD j false = true → j ≠ i := by
            intro j hj hb e
            subst e
            exact hpl ⟨hj, hb⟩
          apply ih (swapSlots s i p) (if i = p then i + 1 else i) (occ.set p true) _
            (by split <;> omega) (by rw [countValid_swapSlots s i p hiS hpS]; exact hcv)
            (by split <;> omega)
          refine ⟨by simp [length_swapSlots, inv.len], by simp [inv.occLen], ?_, ?_⟩
          · intro k hk hb
            rw [stAt_swapSlots s i p k hiS hpS]
            rw [getD_set_occ] at hb
            by_cases e : k = p
            · simp [e, hst]
            · have e' : ¬ (p = k ∧ p < occ.length) := fun c => e c.1.symm
              simp only [e', if_false] at hb
              have hki := hne_ip k hk hb
              simp only [e, hki, if_false]
              exact inv.placed k hk hb
          · intro k hk1 hk2
            rw [stAt_swapSlots s i p k hiS hpS]
            have e1 : k ≠ p := by omega
            simp only [e1, if_false]
            by_cases hip : i = p
            · simp only [hip, if_true] at hk2
              have e2 : k ≠ i := by omega
              simp only [e2, if_false]
              exact inv.high k hk1 (by omega)
            · simp only [hip, if_false] at hk2
              have e2 : k ≠ i := by omega
              simp only [e2, if_false]
              exact inv.high k hk1 hk2

/-! ### rehash -/

theorem countValid_append_empties (s : List (Slot K T)) (n : Nat) :
    countValid (s ++ List.replicate n emptySlot) = countValid s := by
  simp [countValid, List.countP_append, List.countP_replicate, emptySlot]

theorem rehash_ok (h : K → Nat) (F : Nat) (m : MM K T) (c new : Nat) (hnd : new = max c MIN_CAP)
    (hlen : m.len = countValid m.slots) (hV : m.len ≤ new)
    (hF : m.cap + 2 * new < F) :
    ∃ m', rehash h F m c = .ok m' ∧ m'.len = m.len ∧ countValid m'.slots = countValid m.slots ∧
      m'.cap = new := by
  unfold rehash
  have hmin : 0 < new := by rw [hnd]; simp [MIN_CAP]; omega
  simp only [← hnd]
  by_cases hlt : m.cap < new
  · simp only [hlt, if_true]
    have inv0 : RInv new new
        (m.slots ++ List.replicate (new - m.cap) emptySlot) 0
        (List.replicate new false) := by
      refine ⟨?_, by simp, ?_, ?_⟩
      · simp only [List.length_append, List.length_replicate, MM.cap] at hlt ⊢; omega
      · intro j hj hb
        simp [List.getD_eq_getElem?_getD, List.getElem?_replicate, hj] at hb
      · intro j _ hj; omega
    obtain ⟨s', hs', hl', hc', _⟩ := rehashLoop_ok h F m.cap new new
      (countValid m.slots) hmin (by omega) (Nat.le_refl _) (by omega) (by omega) F _ 0 _ inv0
      (by omega) (countValid_append_empties _ _)
      (by simp only [countTrue, List.countP_replicate]; simp; omega)
    simp only [hs']
    exact ⟨_, rfl, rfl, hc', by simp only [MM.cap, hl']⟩
  · simp only [hlt, if_false]
    by_cases hgt : new < m.cap
    · simp only [hgt, if_true]
      have inv0 : RInv new m.cap m.slots 0 (List.replicate new false) := by
        refine ⟨rfl, by simp, ?_, ?_⟩
        · intro j hj hb
          simp [List.getD_eq_getElem?_getD, List.getElem?_replicate, hj] at hb
        · intro j _ hj; omega
      obtain ⟨s', hs', hl', hc', hhigh⟩ := rehashLoop_ok h F m.cap new m.cap
        (countValid m.slots) hmin (Nat.le_refl _) (by omega) (by omega) (by omega) F _ 0 _ inv0
        (by omega) rfl
        (by simp only [countTrue, List.countP_replicate]; simp; omega)
      simp only [hs']
      have htake := countValid_take_eq s' new (by
        intro j hj1 hj2; exact hhigh j hj1 (by rw [hl'] at hj2; exact hj2))
      refine ⟨_, rfl, rfl, by simp only; omega, ?_⟩
      show (s'.take new).length = new
      rw [List.length_take, hl']
      exact Nat.min_eq_left (by omega)
    · simp only [hgt, if_false]
      exact ⟨m, rfl, rfl, rfl, by omega⟩

end
end AgdbColl
