import AgdbColl.Lemmas.Refine2
/-!
Completeness of the two removal loops under the chain invariant: `remove_value` finds the pair
whenever it is stored; `remove_key` leaves no pair of the key.
-/
namespace AgdbColl
set_option linter.unusedSectionVars false
set_option linter.unusedVariables false

section
variable {K T : Type} [DecidableEq K] [DecidableEq T] [Inhabited K] [Inhabited T]

theorem removeValueLoop_none (h : K → Nat) (key : K) (v : T) (s : List (Slot K T)) (hc : Chain h s)
    (hs : h key % s.length < s.length) :
    ∀ fuel pos b, pos < s.length →
      (∀ q, q < s.length → distFrom s.length (h key % s.length) q < distFrom s.length (h key % s.length) pos →
        ¬ (stAt s q = .valid ∧ (getSlot s q).key = key ∧ (getSlot s q).val = v)) →
      removeValueLoop key v (h key % s.length) s fuel pos = .ok (none, b) →
      ∀ p, p < s.length → ¬ (stAt s p = .valid ∧ (getSlot s p).key = key ∧ (getSlot s p).val = v) := by
  intro fuel
  induction fuel with
  | zero => intro pos b _ _ hr; simp [removeValueLoop] at hr
  | succ n ih =>
    intro pos b hp hI hr p hpl hm
    unfold removeValueLoop at hr
    have hstdef : (getSlot s pos).st = stAt s pos := rfl
    have step : ¬ (stAt s pos = .valid ∧ (getSlot s pos).key = key ∧ (getSlot s pos).val = v) →
        (if nextPos s.length pos = h key % s.length then (Outcome.ok (none, true) : Outcome (Option Nat × Bool))
          else removeValueLoop key v (h key % s.length) s n (nextPos s.length pos)) = .ok (none, b) → False := by
      intro hposnm hr2
      by_cases hw : nextPos s.length pos = h key % s.length
      · by_cases e : p = pos
        · subst e; exact hposnm hm
        · exact hI p hpl (dist_lt_of_next_eq _ _ _ _ hs hp hpl e hw) hm
      · rw [if_neg hw] at hr2
        refine ih _ b (nextPos_lt _ _ hp) ?_ hr2 p hpl hm
        intro q hq hd
        have := distFrom_next s.length (h key % s.length) pos hs hp hw
        by_cases e : distFrom s.length (h key % s.length) q = distFrom s.length (h key % s.length) pos
        · have := dist_inj _ _ _ _ hs hp hq e
          subst this; exact hposnm
        · exact hI q hq (by omega)
    cases hst : stAt s pos with
    | empty =>
      have hpne : p ≠ pos := by
        intro e; subst e; rw [hst] at hm; cases hm.1
      by_cases hd : distFrom s.length (h key % s.length) p < distFrom s.length (h key % s.length) pos
      · exact hI p hpl hd hm
      · have hlt : distFrom s.length (h key % s.length) pos < distFrom s.length (h key % s.length) p := by
          have : distFrom s.length (h key % s.length) p ≠ distFrom s.length (h key % s.length) pos :=
            fun e => hpne (dist_inj _ _ _ _ hs hp hpl e)
          omega
        have := hc p hpl hm.1 pos hp (by rw [hm.2.1]; exact hlt)
        exact this hst
    | deleted =>
      simp only [hstdef, hst] at hr
      exact step (by intro c; rw [hst] at c; cases c.1) hr
    | valid =>
      simp only [hstdef, hst] at hr
      split at hr
      · cases hr
      · rename_i hk
        exact step (fun c => hk ⟨c.2.1, c.2.2⟩) hr

/-- `remove_value` returns with the pair removed whenever it was stored -/
theorem removeValue_complete (h : K → Nat) (F : Nat) (m m' : MM K T) (key : K) (v : T) (hi : Inv m)
    (hc : Chain h m.slots) (hr : removeValue h F m key v = .ok m')
    (hpos : 0 < cnt (pairP key v) m.slots) :
    ∀ P : Slot K T → Bool, VP P →
      cnt P m'.slots + (if P ⟨.valid, key, v⟩ = true then 1 else 0) = cnt P m.slots := by
  have href := (removeValue_refine h F m m' key v hi hc hr).2
  -- the loop must have found the pair
  have hfound : ∃ p b, removeValueLoop key v (h key % m.cap) m.slots F (h key % m.cap) = .ok (some p, b) := by
    unfold removeValue at hr
    by_cases h0 : m.cap = 0
    · have : m.slots = [] := List.eq_nil_of_length_eq_zero h0
      simp [cnt, this] at hpos
    · simp only [h0, if_false] at hr
      have hcapdef : m.cap = m.slots.length := rfl
      have hhome : h key % m.slots.length < m.slots.length := Nat.mod_lt _ (by omega)
      cases hl : removeValueLoop key v (h key % m.cap) m.slots F (h key % m.cap) with
      | ok r =>
        obtain ⟨r1, r2⟩ := r
        cases r1 with
        | some p => exact ⟨p, r2, rfl⟩
        | none =>
          exfalso
          obtain ⟨p, hpl, hP⟩ := (cnt_pos_iff _ _).mp hpos
          simp only [pairP, decide_eq_true_eq] at hP
          exact removeValueLoop_none h key v m.slots hc hhome F _ r2 hhome
            (by intro q _ hd; simp [distFrom] at hd) hl p hpl ⟨hP.1, hP.2.1, hP.2.2⟩
      | err e => rw [hl] at hr; simp [Outcome.cast] at hr
      | panic e => rw [hl] at hr; simp [Outcome.cast] at hr
      | hugeAlloc e => rw [hl] at hr; simp [Outcome.cast] at hr
      | outOfFuel => rw [hl] at hr; simp [Outcome.cast] at hr
  obtain ⟨p, b, hl⟩ := hfound
  -- with the pair found, one pair of (key, v) goes: use the count of `pairP key v` to pick the branch
  rcases href with hsame | hminus
  · -- "unchanged" is impossible: redo the found branch of `remove_value`
    exfalso
    have hpv := removeValueLoop_pos key v _ m.slots F _ p b hl
    have hslot := removeValueLoop_found key v _ m.slots F _ p b hl
    unfold removeValue at hr
    have h0 : m.cap ≠ 0 := by
      intro h0
      have : m.slots = [] := List.eq_nil_of_length_eq_zero h0
      simp [cnt, this] at hpos
    simp only [h0, if_false, hl] at hr
    obtain ⟨hlen, hload⟩ := hi
    rcases hload with hz | ⟨hcap, hld⟩
    · exact h0 hz
    · have hpl : p < m.slots.length := by
        apply Classical.byContradiction
        intro c; rw [stAt_ge m.slots p (by omega)] at hpv; cases hpv
      unfold removeIndex at hr
      have hposv := countValid_pos_of_valid m.slots p hpv
      have hne : m.len ≠ 0 := by omega
      simp only [hne, if_false] at hr
      have hdrop := countValid_dropValue m.slots p hpv
      have hcap2 : (⟨dropValue m.slots p, m.len - 1⟩ : MM K T).cap = m.cap := length_dropValue _ _
      obtain ⟨_, hcnt3⟩ := shrink_refine h F ⟨dropValue m.slots p, m.len - 1⟩ m'
        (by show m.len - 1 = countValid (dropValue m.slots p); omega)
        (by rw [hcap2]; exact hcap)
        (Chain_of_sub (SubValid_dropValue m.slots p) (NonEmptyKept_dropValue m.slots p) hc) hr
      have h1 := hcnt3 (pairP key v) (VP_pairP key v)
      have h2 := hsame (pairP key v) (VP_pairP key v)
      have hcs := cnt_set (pairP key v) m.slots p ⟨.deleted, default, default⟩ hpl
      rw [hslot] at hcs
      have e1 : pairP key v (⟨.valid, key, v⟩ : Slot K T) = true := by simp [pairP]
      have e2 : ¬ pairP key v (⟨.deleted, default, default⟩ : Slot K T) = true := by simp [pairP]
      rw [if_pos e1, if_neg e2] at hcs
      have h3 : cnt (pairP key v) (dropValue m.slots p) = cnt (pairP key v) (m.slots.set p ⟨.deleted, default, default⟩) := rfl
      have h4 : cnt (pairP key v) (⟨dropValue m.slots p, m.len - 1⟩ : MM K T).slots =
          cnt (pairP key v) (dropValue m.slots p) := rfl
      omega
  · exact hminus

/-- the `remove_key` loop leaves no `Valid` slot holding the key -/
theorem removeKeyLoop_complete (h : K → Nat) (key : K) (cap : Nat) (hs : h key % cap < cap) :
    ∀ fuel (s : List (Slot K T)) pos len o, s.length = cap → Chain h s → pos < cap →
      (∀ q, q < cap → distFrom cap (h key % cap) q < distFrom cap (h key % cap) pos →
        ¬ (stAt s q = .valid ∧ (getSlot s q).key = key)) →
      removeKeyLoop key (h key % cap) fuel s pos len = .ok o →
      ∀ p, p < cap → ¬ (stAt o.slots p = .valid ∧ (getSlot o.slots p).key = key) := by
  intro fuel
  induction fuel with
  | zero => intro s pos len o _ _ _ _ hr; simp [removeKeyLoop] at hr
  | succ n ih =>
    intro s pos len o hl hc hp hI hr
    unfold removeKeyLoop at hr
    have hstdef : (getSlot s pos).st = stAt s pos := rfl
    -- facts about the table after dropping slot `pos`
    have hdropI : ∀ q, q < cap → distFrom cap (h key % cap) q ≤ distFrom cap (h key % cap) pos →
        ¬ (stAt (dropValue s pos) q = .valid ∧ (getSlot (dropValue s pos) q).key = key) := by
      intro q hq hd hm
      obtain ⟨x, y⟩ := (SubValid_dropValue s pos).2 q hm.1
      by_cases e : q = pos
      · subst e
        have : stAt (dropValue s q) q = .deleted := by
          simp [dropValue, stAt_set, hl, hq]
        rw [this] at hm; cases hm.1
      · have hne : distFrom cap (h key % cap) q ≠ distFrom cap (h key % cap) pos :=
          fun c => e (dist_inj _ _ _ _ hs hp hq c)
        exact hI q hq (by omega) ⟨x, by rw [← y]; exact hm.2⟩
    have all_of_wrap : ∀ s2 : List (Slot K T),
        (∀ q, q < cap → distFrom cap (h key % cap) q ≤ distFrom cap (h key % cap) pos →
          ¬ (stAt s2 q = .valid ∧ (getSlot s2 q).key = key)) →
        nextPos cap pos = h key % cap →
        ∀ p, p < cap → ¬ (stAt s2 p = .valid ∧ (getSlot s2 p).key = key) := by
      intro s2 hI2 hw p hpl
      by_cases e : p = pos
      · subst e; exact hI2 p hpl (Nat.le_refl _)
      · exact hI2 p hpl (Nat.le_of_lt (dist_lt_of_next_eq _ _ _ _ hs hp hpl e hw))
    have nextI : ∀ s2 : List (Slot K T),
        (∀ q, q < cap → distFrom cap (h key % cap) q ≤ distFrom cap (h key % cap) pos →
          ¬ (stAt s2 q = .valid ∧ (getSlot s2 q).key = key)) →
        ¬ nextPos cap pos = h key % cap →
        ∀ q, q < cap → distFrom cap (h key % cap) q < distFrom cap (h key % cap) (nextPos cap pos) →
          ¬ (stAt s2 q = .valid ∧ (getSlot s2 q).key = key) := by
      intro s2 hI2 hw q hq hd
      have := distFrom_next cap (h key % cap) pos hs hp hw
      exact hI2 q hq (by omega)
    have sameI : ¬ (stAt s pos = .valid ∧ (getSlot s pos).key = key) →
        ∀ q, q < cap → distFrom cap (h key % cap) q ≤ distFrom cap (h key % cap) pos →
          ¬ (stAt s q = .valid ∧ (getSlot s q).key = key) := by
      intro hnm q hq hd
      by_cases e : distFrom cap (h key % cap) q = distFrom cap (h key % cap) pos
      · have := dist_inj _ _ _ _ hs hp hq e
        subst this; exact hnm
      · exact hI q hq (by omega)
    cases hst : stAt s pos with
    | empty =>
      simp only [hstdef, hst] at hr
      cases hr
      intro p hpl hm
      have hpne : p ≠ pos := by
        intro e; subst e; rw [hst] at hm; cases hm.1
      by_cases hd : distFrom cap (h key % cap) p < distFrom cap (h key % cap) pos
      · exact hI p hpl hd hm
      · have hlt : distFrom cap (h key % cap) pos < distFrom cap (h key % cap) p := by
          have : distFrom cap (h key % cap) p ≠ distFrom cap (h key % cap) pos :=
            fun e => hpne (dist_inj _ _ _ _ hs hp hpl e)
          omega
        have := hc p (by rw [hl]; exact hpl) hm.1 pos (by rw [hl]; exact hp)
          (by rw [hl, hm.2]; exact hlt)
        exact this hst
    | deleted =>
      simp only [hstdef, hst, hl] at hr
      have hnm : ¬ (stAt s pos = .valid ∧ (getSlot s pos).key = key) := by
        intro c; rw [hst] at c; cases c.1
      split at hr
      · rename_i hw
        cases hr
        exact all_of_wrap s (sameI hnm) hw
      · rename_i hw
        exact ih s _ _ o hl hc (nextPos_lt _ _ hp) (nextI s (sameI hnm) hw) hr
    | valid =>
      simp only [hstdef, hst, hl] at hr
      split at hr
      · split at hr
        · cases hr
        · split at hr
          · rename_i hw
            cases hr
            exact all_of_wrap _ hdropI hw
          · rename_i hw
            exact ih (dropValue s pos) _ _ o (by rw [length_dropValue]; exact hl)
              (Chain_of_sub (SubValid_dropValue s pos) (NonEmptyKept_dropValue s pos) hc)
              (nextPos_lt _ _ hp) (nextI _ hdropI hw) hr
      · rename_i hk
        have hnm : ¬ (stAt s pos = .valid ∧ (getSlot s pos).key = key) := fun c => hk c.2
        split at hr
        · rename_i hw
          cases hr
          exact all_of_wrap s (sameI hnm) hw
        · rename_i hw
          exact ih s _ _ o hl hc (nextPos_lt _ _ hp) (nextI s (sameI hnm) hw) hr

/-- `remove_key` leaves no pair of the key -/
theorem removeKey_complete (h : K → Nat) (F : Nat) (m m' : MM K T) (key : K) (hi : Inv m)
    (hc : Chain h m.slots) (hF : fuelBound m ≤ F) (hr : removeKey h F m key = .ok m') :
    cnt (keyP key) m'.slots = 0 := by
  unfold removeKey at hr
  by_cases h0 : m.cap = 0
  · simp only [h0, if_true] at hr; cases hr
    have : m.slots = [] := List.eq_nil_of_length_eq_zero h0
    simp [cnt, this]
  · simp only [h0, if_false] at hr
    obtain ⟨hlen, hload⟩ := hi
    rcases hload with hz | ⟨hcap, hld⟩
    · exact absurd hz h0
    · have hhome : h key % m.cap < m.cap := Nat.mod_lt _ (by omega)
      have hd0 : distFrom m.cap (h key % m.cap) (h key % m.cap) = 0 := by simp [distFrom]
      simp only [fuelBound] at hF
      obtain ⟨o, ho, hol, holen, hole⟩ := removeKeyLoop_ok key (h key % m.cap) m.cap hhome F m.slots
        (h key % m.cap) m.len rfl hhome (by omega) hlen
      have hco : Chain h o.slots :=
        Chain_of_sub (removeKeyLoop_sub key _ _ _ _ _ _ ho) (removeKeyLoop_kept key _ _ _ _ _ _ ho) hc
      have hnone := removeKeyLoop_complete h key m.cap hhome F m.slots _ _ o rfl hc hhome
        (by intro q _ hd; rw [hd0] at hd; omega) ho
      have hzero : cnt (keyP key) o.slots = 0 := by
        apply Nat.eq_zero_of_not_pos
        intro hpos
        obtain ⟨p, hpl, hP⟩ := (cnt_pos_iff _ _).mp hpos
        simp only [keyP, decide_eq_true_eq] at hP
        exact hnone p (by rw [← hol]; exact hpl) ⟨hP.1, hP.2⟩
      simp only [ho] at hr
      have hml := maxLen_le m.cap hcap
      cases hs1 : (if o.wrapped = true ∧ o.len = m.len then rehash h F ⟨o.slots, m.len⟩ m.cap
          else Outcome.ok ⟨o.slots, m.len⟩) with
      | ok m1 =>
        rw [hs1] at hr
        simp only at hr
        have hstep : Chain h m1.slots ∧ (∀ P : Slot K T → Bool, VP P → cnt P m1.slots = cnt P o.slots) ∧
            m1.len = m.len ∧ countValid m1.slots = countValid o.slots ∧ m1.cap = m.cap := by
          by_cases hw : o.wrapped = true ∧ o.len = m.len
          · simp only [hw, and_self, if_true] at hs1
            have hc' : (⟨o.slots, m.len⟩ : MM K T).cap = m.cap := hol
            have hmax : m.cap = max m.cap MIN_CAP := by simp only [MIN_CAP] at *; omega
            obtain ⟨a, b⟩ := rehash_refine h F ⟨o.slots, m.len⟩ m1 m.cap m.cap hmax
              (by show m.len = countValid o.slots; omega) (by show m.len + 2 ≤ m.cap; omega) hs1 hco
            obtain ⟨m'', hm'', hl', hcv', hcap'⟩ := rehash_ok h F ⟨o.slots, m.len⟩ m.cap m.cap hmax
              (by show m.len = countValid o.slots; omega)
              (by show m.len ≤ m.cap; omega) (by rw [hc']; omega)
            rw [hs1] at hm''
            cases hm''
            exact ⟨a, b, hl', hcv', hcap'⟩
          · simp only [hw, if_false] at hs1
            cases hs1
            exact ⟨hco, fun _ _ => rfl, rfl, rfl, hol⟩
        obtain ⟨hc1, hcnt1, hl1, hcv1, hcap1⟩ := hstep
        by_cases hne : o.len ≠ m1.len
        · rw [if_pos hne] at hr
          have hcap2 : (⟨m1.slots, o.len⟩ : MM K T).cap = m.cap := hcap1
          obtain ⟨a, b⟩ := shrink_refine h F ⟨m1.slots, o.len⟩ m'
            (by show o.len = countValid m1.slots; omega) (by rw [hcap2]; exact hcap) hc1 hr
          rw [b _ (VP_keyP key)]
          show cnt (keyP key) m1.slots = 0
          rw [hcnt1 _ (VP_keyP key)]; exact hzero
        · rw [if_neg hne] at hr
          cases hr
          rw [hcnt1 _ (VP_keyP key)]; exact hzero
      | err e => rw [hs1] at hr; cases hr
      | panic e => rw [hs1] at hr; cases hr
      | hugeAlloc e => rw [hs1] at hr; cases hr
      | outOfFuel => rw [hs1] at hr; cases hr

end
end AgdbColl
