/-!
# Outcome type

Code that can loop on a data-dependent condition, panic (debug-build arithmetic) or fail is
modelled over `Outcome`, so that "terminates" / "never panics" are real statements.
-/
namespace AgdbColl

inductive Outcome (α : Type) where
  | ok (a : α)
  | err (k : String)
  | panic (site : String)
  | hugeAlloc (site : String)
  | outOfFuel
deriving Repr, DecidableEq

namespace Outcome

def isOk {α : Type} : Outcome α → Bool
  | ok _ => true
  | _ => false

/-- re-tag a non-`ok` outcome at another result type -/
def cast {α β : Type} : Outcome α → Outcome β
  | ok _ => panic "cast-of-ok"
  | err k => err k
  | panic s => panic s
  | hugeAlloc s => hugeAlloc s
  | outOfFuel => outOfFuel

end Outcome
end AgdbColl
