/-!
# Aliases at query level: `indexed_map.rs`, `db.rs` (alias operations), alias-related queries

* `AMap` — the interface of `MapImpl` (`insert` returning the previous value, `remove`, `value`,
  iteration) as an association list with unique keys. (The concrete open-addressing table is
  `Model/MultiMap.lean`; `MultiMap_refines` is what justifies this abstraction.)
* `IMap` — `IndexedMapImpl`: two maps with the exact `insert` / `remove_key` logic.
* `Graph` — the element-id allocator of `graph.rs` as far as aliases can observe it: which ids are
  live nodes / edges and which id the next insertion gets (LIFO free list, edges of a removed node
  are freed first: outgoing, then incoming, most recently inserted first).
* `Db` — `DbImpl` restricted to graph, aliases, integer key/values and indexes, with the undo
  stack for the alias commands (`Command::InsertAlias` / `Command::RemoveAlias`).
* `exec` — the queries (`InsertNodesQuery`, `InsertEdgesQuery`, `InsertAliasesQuery`,
  `RemoveAliasesQuery`, `RemoveQuery`, `SelectAliasesQuery`, `SelectAllAliasesQuery`,
  `SelectValuesQuery` (ids only), `InsertValuesQuery`, `RemoveValuesQuery`, index queries) as run by
  `exec` / `exec_mut` (one transaction per query, rollback on error).

The model mirrors the code WITH the proposed fix `C10-alias-validation`
(`fixed = true`); `fixed = false` is the code as pinned (`execLegacy`).

An alias is represented by its wire token: lowercase hex of its UTF-8 bytes, `"-"` for the empty
alias (hex preserves the byte order used by `select aliases` sorting).
-/
namespace AgdbColl

/-! ## MapImpl interface -/

abbrev AMap (κ ν : Type) := List (κ × ν)

namespace AMap
variable {κ ν : Type} [DecidableEq κ]

def get : AMap κ ν → κ → Option ν
  | [], _ => none
  | (k', v) :: r, k => if k' = k then some v else get r k

def erase (m : AMap κ ν) (k : κ) : AMap κ ν := m.filter fun p => p.1 ≠ k

def put (m : AMap κ ν) (k : κ) (v : ν) : AMap κ ν := erase m k ++ [(k, v)]

/-- `MapImpl::insert` = `insert_or_replace(key, |_| true, value)`: new map and the replaced value -/
def insert (m : AMap κ ν) (k : κ) (v : ν) : AMap κ ν × Option ν := (put m k v, get m k)

end AMap

abbrev Alias := String

def Alias.isEmpty (a : Alias) : Bool := a == "-"

/-! ## IndexedMapImpl<String, DbId> -/

structure IMap where
  k2v : AMap Alias Int
  v2k : AMap Int Alias
deriving Repr, DecidableEq

namespace IMap

def empty : IMap := ⟨[], []⟩

/-- `IndexedMapImpl::insert` -/
def insert (m : IMap) (key : Alias) (value : Int) : IMap :=
  let (k2v1, oldV) := AMap.insert m.k2v key value
  let v2k1 := match oldV with
    | some v => AMap.erase m.v2k v
    | none => m.v2k
  let (v2k2, oldK) := AMap.insert v2k1 value key
  let k2v2 := match oldK with
    | some k => AMap.erase k2v1 k
    | none => k2v1
  ⟨k2v2, v2k2⟩

/-- `IndexedMapImpl::remove_key` -/
def removeKey (m : IMap) (key : Alias) : IMap :=
  let v2k1 := match AMap.get m.k2v key with
    | some v => AMap.erase m.v2k v
    | none => m.v2k
  ⟨AMap.erase m.k2v key, v2k1⟩

/-- `IndexedMapImpl::value` -/
def value (m : IMap) (key : Alias) : Option Int := AMap.get m.k2v key

/-- `IndexedMapImpl::key` -/
def key (m : IMap) (value : Int) : Option Alias := AMap.get m.v2k value

end IMap

/-! ## Graph (id allocation and liveness) -/

inductive GSlot where
  | free
  | node (outs ins : List Nat)
  | edge (src dst : Nat)
deriving Repr, DecidableEq

structure Graph where
  /-- slot 0 is the reserved meta slot -/
  slots : List GSlot
  /-- head = next index handed out (`from_meta[0]` chain) -/
  freeList : List Nat
deriving Repr, DecidableEq

namespace Graph

def init : Graph := ⟨[.free], []⟩

def slot (g : Graph) (i : Nat) : GSlot := g.slots.getD i .free

def isNode (g : Graph) (i : Nat) : Bool :=
  match g.slot i with
  | .node _ _ => i != 0
  | _ => false

def isEdge (g : Graph) (i : Nat) : Bool :=
  match g.slot i with
  | .edge _ _ => i != 0
  | _ => false

/-- `get_free_index` -/
def getFree (g : Graph) : Nat × Graph :=
  match g.freeList with
  | i :: rest => (i, { g with freeList := rest })
  | [] => (g.slots.length, { g with slots := g.slots ++ [.free] })

def setSlot (g : Graph) (i : Nat) (s : GSlot) : Graph := { g with slots := g.slots.set i s }

/-- `insert_node` -/
def insertNode (g : Graph) : Nat × Graph :=
  let (i, g1) := g.getFree
  (i, g1.setSlot i (.node [] []))

def addOut (g : Graph) (n e : Nat) : Graph :=
  match g.slot n with
  | .node outs ins => g.setSlot n (.node (e :: outs) ins)
  | _ => g

def addIn (g : Graph) (n e : Nat) : Graph :=
  match g.slot n with
  | .node outs ins => g.setSlot n (.node outs (e :: ins))
  | _ => g

/-- `insert_edge` (both ends validated by the caller) -/
def insertEdge (g : Graph) (src dst : Nat) : Nat × Graph :=
  let (i, g1) := g.getFree
  let g2 := g1.setSlot i (.edge src dst)
  (i, (g2.addOut src i).addIn dst i)

def dropOut (g : Graph) (n e : Nat) : Graph :=
  match g.slot n with
  | .node outs ins => g.setSlot n (.node (outs.filter (· ≠ e)) ins)
  | _ => g

def dropIn (g : Graph) (n e : Nat) : Graph :=
  match g.slot n with
  | .node outs ins => g.setSlot n (.node outs (ins.filter (· ≠ e)))
  | _ => g

/-- `free_index` -/
def release (g : Graph) (i : Nat) : Graph :=
  { slots := g.slots.set i .free, freeList := i :: g.freeList }

/-- `remove_edge` -/
def removeEdge (g : Graph) (e : Nat) : Graph :=
  match g.slot e with
  | .edge s d => ((g.dropOut s e).dropIn d e).release e
  | _ => g

/-- the edges `DbImpl::node_edges` lists for a node: outgoing, then incoming that are not self-loops -/
def nodeEdges (g : Graph) (n : Nat) : List Nat :=
  match g.slot n with
  | .node outs ins =>
    outs ++ ins.filter fun e =>
      match g.slot e with
      | .edge s _ => s != n
      | _ => true
  | _ => []

/-- `DbImpl::remove_node` on the graph: the node's edges one by one, then the node -/
def removeNode (g : Graph) (n : Nat) : Graph :=
  ((g.nodeEdges n).foldl removeEdge g).release n

end Graph

/-! ## DbImpl (aliases, integer values, indexes) -/

inductive QId where
  | id (i : Int)
  | alias (a : Alias)
deriving Repr, DecidableEq

/-- a literal edge id (`QueryId::Id(id)` with `id < 0`) -/
def QId.isNegLit : QId → Bool
  | .id i => decide (i < 0)
  | .alias _ => false

/-- alias part of `Command` (the undo stack) -/
inductive Cmd where
  | insertAlias (id : Int) (alias : Alias)
  | removeAlias (alias : Alias)
deriving Repr, DecidableEq

structure Db where
  g : Graph
  al : IMap
  /-- `(element id, key, value)`, at most one entry per `(id, key)` -/
  vals : List (Int × Int × Int)
  /-- indexed keys -/
  idx : List Int
deriving Repr, DecidableEq

inductive Out where
  | ids (l : List Int)
  | num (n : Int)
  | numIds (n : Int) (l : List Int)
  | idAlias (l : List (Int × Alias))
  | aliasId (l : List (Alias × Int))
  | err (cat ty : String)
deriving Repr, DecidableEq

inductive DbOp where
  | nn (count : Nat) (aliases : List Alias)
  | na (id : QId) (alias : Alias)
  | ne (src dst : QId)
  | ia (ids : List QId) (aliases : List Alias)
  | ra (aliases : List Alias)
  | rm (ids : List QId)
  | sa (ids : List QId)
  | saa
  | rs (ids : List QId)
  | ix (k : Int)
  | rx (k : Int)
  | sv (id : QId) (k v : Int)
  | rv (id : QId) (k : Int)
  | qx (k v : Int)
deriving Repr, DecidableEq

namespace Db

def init : Db := ⟨Graph.init, IMap.empty, [], []⟩

/-- `graph_index(id).is_ok()` -/
def liveId (db : Db) (i : Int) : Bool :=
  if i < 0 then db.g.isEdge (-i).toNat
  else if i = 0 then false
  else db.g.isNode i.toNat

/-- `DbImpl::db_id` -/
def dbId (db : Db) : QId → Option Int
  | .id i => if db.liveId i then some i else none
  | .alias a => db.al.value a

/-- undo command for the current owner of an alias that is about to be re-assigned -/
def ownerUndo (al : IMap) (alias : Alias) : List Cmd :=
  match al.value alias with
  | some owner => [.insertAlias owner alias]
  | none => []

/-- `DbImpl::insert_alias`: new alias map and the undo commands pushed (in push order) -/
def insertAlias (al : IMap) (id : Int) (alias : Alias) : IMap × List Cmd :=
  match al.key id with
  | some old =>
    let al1 := (al.removeKey old).removeKey old
    (al1.insert alias id, [.insertAlias id old] ++ ownerUndo al1 alias ++ [.removeAlias alias])
  | none => (al.insert alias id, ownerUndo al alias ++ [.removeAlias alias])

/-- one undo command of `DbImpl::rollback` -/
def undoCmd (al : IMap) : Cmd → IMap
  | .insertAlias id alias => al.insert alias id
  | .removeAlias alias => al.removeKey alias

/-- `DbImpl::rollback` (alias commands), `undo` in push order -/
def rollback (al : IMap) (undo : List Cmd) : IMap := undo.reverse.foldl undoCmd al

/-- remove all values of an element (`remove_all_values`) -/
def dropVals (vals : List (Int × Int × Int)) (id : Int) : List (Int × Int × Int) :=
  vals.filter fun t => t.1 ≠ id

/-- `DbImpl::remove_node` + `remove_all_values` for the node and its edges -/
def removeNode (db : Db) (n : Nat) (alias : Option Alias) : Db :=
  let al := match alias with
    | some a => (db.al.removeKey a).removeKey a
    | none => db.al
  let es := db.g.nodeEdges n
  let vals := es.foldl (fun vs e => dropVals vs (-(Int.ofNat e))) db.vals
  { db with g := db.g.removeNode n, al := al, vals := dropVals vals (Int.ofNat n) }

/-- `DbImpl::remove(query_id)`; `none` = error (alias naming something that is not a node) -/
def remove (db : Db) : QId → Option (Db × Bool)
  | .id i =>
    if db.liveId i then
      if i > 0 then some (db.removeNode i.toNat (db.al.key i), true)
      else some ({ db with g := db.g.removeEdge (-i).toNat, vals := dropVals db.vals i }, true)
    else some (db, false)
  | .alias a =>
    match db.al.value a with
    | some i => if i > 0 ∧ db.g.isNode i.toNat then some (db.removeNode i.toNat (some a), true) else none
    | none => some (db, false)

def errNotFound : Out := .err "Db" "NotFound"
def errNotAllowed : Out := .err "Query" "NotAllowed"

/-- the per-pair loop of `InsertAliasesQuery`; `none` = error kind to report after rollback -/
def iaLoop (fixed : Bool) (db : Db) : List (QId × Alias) → IMap → List Cmd → Nat → (IMap × Nat) ⊕ (Out × List Cmd × IMap)
  | [], al, _, n => .inl (al, n)
  | (q, a) :: rest, al, undo, n =>
    if !fixed && a.isEmpty then .inr (errNotAllowed, undo, al)
    else
      match ({ db with al := al } : Db).dbId q with
      | none => .inr (errNotFound, undo, al)
      | some i =>
        if fixed && decide (i < 0) then .inr (errNotAllowed, undo, al)
        else
          let (al', cmds) := insertAlias al i a
          iaLoop fixed db rest al' (undo ++ cmds) (n + 1)

def setVal (vals : List (Int × Int × Int)) (id k v : Int) : List (Int × Int × Int) :=
  if vals.any fun t => t.1 = id ∧ t.2.1 = k then
    vals.map fun t => if t.1 = id ∧ t.2.1 = k then (id, k, v) else t
  else vals ++ [(id, k, v)]

def sortAliases (l : List (Alias × Int)) : List (Alias × Int) :=
  l.mergeSort fun x y => decide (x.1 ≤ y.1)

def sortInts (l : List Int) : List Int := l.mergeSort fun x y => decide (x ≤ y)

/-- new nodes of `InsertNodesQuery` (no ids): an alias that resolves selects the existing node -/
def nnLoop : List (Option Alias) → Db → List Int → Db × List Int
  | [], db, acc => (db, acc)
  | oa :: rest, db, acc =>
    match oa.bind fun a => db.al.value a with
    | some i => nnLoop rest db (acc ++ [i])
    | none =>
      let (i, g') := db.g.insertNode
      let al' := match oa with
        | some a => db.al.insert a (Int.ofNat i)
        | none => db.al
      nnLoop rest { db with g := g', al := al' } (acc ++ [Int.ofNat i])

def resolveAll (db : Db) : List QId → Option (List Int)
  | [] => some []
  | q :: rest =>
    match db.dbId q, resolveAll db rest with
    | some i, some r => some (i :: r)
    | _, _ => none

def rmLoop : List QId → Db → Nat → Option (Db × Nat)
  | [], db, n => some (db, n)
  | q :: rest, db, n =>
    match db.remove q with
    | some (db', b) => rmLoop rest db' (if b then n + 1 else n)
    | none => none

def raLoop : List Alias → IMap → Nat → IMap × Nat
  | [], al, n => (al, n)
  | a :: rest, al, n =>
    match al.value a with
    | some _ => raLoop rest ((al.removeKey a).removeKey a) (n + 1)
    | none => raLoop rest al n

def saLoop (db : Db) : List QId → Option (List (Int × Alias))
  | [] => some []
  | q :: rest =>
    let here : Option (Int × Alias) := match q with
      | .id i => (db.al.key i).map fun a => (i, a)
      | .alias a => (db.al.value a).map fun i => (i, a)
    match here, saLoop db rest with
    | some p, some r => some (p :: r)
    | _, _ => none

/-- one query as run by `exec` / `exec_mut`. `fixed = false` is the pinned code. -/
def execWith (fixed : Bool) (db : Db) : DbOp → Db × Out
  | .nn count aliases =>
    if fixed && aliases.any Alias.isEmpty then (db, errNotAllowed)
    else
      let n := max count aliases.length
      let slots := (List.range n).map fun j => aliases[j]?
      let (db', ids) := nnLoop slots db []
      (db', .ids ids)
  | .na q alias =>
    if fixed && alias.isEmpty then (db, errNotAllowed)
    else
      match db.dbId q with
      | none => (db, errNotFound)
      | some i =>
        if i < 0 then (db, errNotAllowed)
        else ({ db with al := db.al.insert alias i }, .ids [i])
  | .ne s d =>
    match db.dbId s, db.dbId d with
    | some a, some b =>
      if a > 0 ∧ b > 0 then
        let (e, g') := db.g.insertEdge a.toNat b.toNat
        ({ db with g := g' }, .ids [-(Int.ofNat e)])
      else (db, .err "Graph" "InvalidIndex")
    | _, _ => (db, errNotFound)
  | .ia ids aliases =>
    if ids.length ≠ aliases.length then (db, .err "Query" "NotEnoughData")
    else if fixed && (aliases.any Alias.isEmpty || ids.any QId.isNegLit) then
      (db, errNotAllowed)
    else
      match iaLoop fixed db (ids.zip aliases) db.al [] 0 with
      | .inl (al, n) => ({ db with al := al }, .num n)
      | .inr (e, undo, al) => ({ db with al := rollback al undo }, e)
  | .ra aliases =>
    let (al, n) := raLoop aliases db.al 0
    ({ db with al := al }, .num n)
  | .rm ids =>
    match rmLoop ids db 0 with
    | some (db', n) => (db', .num n)
    | none => (db, errNotFound)
  | .sa ids =>
    match saLoop db ids with
    | some l => (db, .idAlias l)
    | none => (db, errNotFound)
  | .saa => (db, .aliasId (sortAliases db.al.k2v))
  | .rs ids =>
    match resolveAll db ids with
    | some l => (db, .ids l)
    | none => (db, errNotFound)
  | .ix k =>
    if db.idx.contains k then (db, .err "Db" "NotAllowed")
    else ({ db with idx := db.idx ++ [k] }, .num ((db.vals.filter fun t => t.2.1 = k).length))
  | .rx k =>
    if db.idx.contains k then
      ({ db with idx := db.idx.filter (· ≠ k) }, .num ((db.vals.filter fun t => t.2.1 = k).length))
    else (db, .num 0)
  | .sv q k v =>
    if fixed && (match q with | .alias a => a.isEmpty | _ => false) then (db, errNotAllowed)
    else
      match db.dbId q with
      | some i => ({ db with vals := setVal db.vals i k v }, .numIds 1 [])
      | none =>
        let creates : Option (Option Alias) := match q with
          | .id i => if i = 0 then some none else none
          | .alias a => some (some a)
        match creates with
        | none => (db, errNotFound)
        | some oa =>
          let (i, g') := db.g.insertNode
          let al' := match oa with
            | some a => db.al.insert a (Int.ofNat i)
            | none => db.al
          ({ db with g := g', al := al', vals := db.vals ++ [(Int.ofNat i, k, v)] }, .numIds 1 [Int.ofNat i])
  | .rv q k =>
    match db.dbId q with
    | none => (db, errNotFound)
    | some i =>
      let n := (db.vals.filter fun t => t.1 = i ∧ t.2.1 = k).length
      ({ db with vals := db.vals.filter fun t => ¬ (t.1 = i ∧ t.2.1 = k) }, .num n)
  | .qx k v =>
    if db.idx.contains k then
      (db, .ids (sortInts ((db.vals.filter fun t => t.2.1 = k ∧ t.2.2 = v).map fun t => t.1)))
    else (db, errNotFound)

/-- the code with the proposed fix -/
def exec (db : Db) (op : DbOp) : Db × Out := execWith true db op

/-- the code as pinned -/
def execLegacy (db : Db) (op : DbOp) : Db × Out := execWith false db op

def run (db : Db) (ops : List DbOp) : Db := ops.foldl (fun d o => (exec d o).1) db

/-! ## line protocol -/

def parseNat? (s : String) : Option Nat :=
  if s.isEmpty then none else if s.all Char.isDigit then s.toNat? else none

def parseInt? (s : String) : Option Int :=
  if s.startsWith "-" then (parseNat? (s.drop 1).toString).map fun n => -(Int.ofNat n)
  else (parseNat? s).map Int.ofNat

def validAlias (s : String) : Bool :=
  s == "-" || (!s.isEmpty && s.length % 2 == 0 &&
    s.all fun c => ('0' ≤ c && c ≤ '9') || ('a' ≤ c && c ≤ 'f'))

def parseAlias? (s : String) : Option Alias := if validAlias s then some s else none

def parseQId? (s : String) : Option QId :=
  if s.startsWith "i" then (parseInt? (s.drop 1).toString).map QId.id
  else if s.startsWith "a" then (parseAlias? (s.drop 1).toString).map QId.alias
  else none

def parseOp? : List String → Option DbOp
  | "nn" :: c :: as => do
    let c ← parseNat? c
    guard (c ≤ 64)
    let as ← as.mapM parseAlias?
    pure (.nn c as)
  | ["na", q, a] => do pure (.na (← parseQId? q) (← parseAlias? a))
  | ["ne", s, d] => do pure (.ne (← parseQId? s) (← parseQId? d))
  | "ia" :: n :: rest => do
    let n ← parseNat? n
    guard (n ≤ rest.length)
    let ids ← (rest.take n).mapM parseQId?
    let as ← (rest.drop n).mapM parseAlias?
    pure (.ia ids as)
  | "ra" :: as => do pure (.ra (← as.mapM parseAlias?))
  | "rm" :: ids => do pure (.rm (← ids.mapM parseQId?))
  | "sa" :: ids => do pure (.sa (← ids.mapM parseQId?))
  | ["saa"] => some .saa
  | "rs" :: ids => do pure (.rs (← ids.mapM parseQId?))
  | ["ix", k] => do pure (.ix (← parseInt? k))
  | ["rx", k] => do pure (.rx (← parseInt? k))
  | ["sv", q, k, v] => do pure (.sv (← parseQId? q) (← parseInt? k) (← parseInt? v))
  | ["rv", q, k] => do pure (.rv (← parseQId? q) (← parseInt? k))
  | ["qx", k, v] => do pure (.qx (← parseInt? k) (← parseInt? v))
  | _ => none

def render : Out → String
  | .ids l => String.intercalate " " ("ok" :: l.map toString)
  | .num n => s!"ok {n}"
  | .numIds n l => String.intercalate " " (s!"ok {n}" :: l.map toString)
  | .idAlias l => String.intercalate " " ("ok" :: l.map fun (i, a) => s!"{i}={a}")
  | .aliasId l => String.intercalate " " ("ok" :: l.map fun (a, i) => s!"{a}={i}")
  | .err c t => s!"err:{c}:{t}"

def step (db : Db) (toks : List String) : Option (Db × String) :=
  match parseOp? toks with
  | some op => let (db', o) := exec db op; some (db', render o)
  | none => none

end Db
end AgdbColl
