import AgdbColl.Model.MultiMap
/-!
Operation histories of the multimap: the mutating operations as data, how one is applied, and how
a whole history is run. `legacy = true` uses the pinned `insert_or_replace`.
-/
namespace AgdbColl

section
variable {K T : Type} [DecidableEq K] [DecidableEq T] [Inhabited K] [Inhabited T]

inductive MOp (K T : Type) where
  | insert (k : K) (v : T)
  | insertOrReplace (k : K) (pred : T → Bool) (v : T)
  | removeKey (k : K)
  | removeValue (k : K) (v : T)
  | reserve (c : Nat)

def applyOpW (legacy : Bool) (h : K → Nat) (F : Nat) (m : MM K T) : MOp K T → Outcome (MM K T)
  | .insert k v => insert h F m k v
  | .insertOrReplace k p v =>
    match (if legacy then insertOrReplaceLegacy h F m k p v else insertOrReplace h F m k p v) with
    | .ok r => .ok r.1
    | o => o.cast
  | .removeKey k => removeKey h F m k
  | .removeValue k v => removeValue h F m k v
  | .reserve c => reserve h F m c

/-- fuel handed to every loop of one operation; it always suffices on reachable states
(`C19_mutators_terminate`) -/
def opFuel (m : MM K T) : MOp K T → Nat
  | .reserve c => 7 * m.cap + 2 * c + 400
  | _ => 6 * m.cap + 200

/-- run a history, each operation with `opFuel` -/
def runOpsW (legacy : Bool) (h : K → Nat) : List (MOp K T) → MM K T → Outcome (MM K T)
  | [], m => .ok m
  | op :: rest, m =>
    match applyOpW legacy h (opFuel m op) m op with
    | .ok m' => runOpsW legacy h rest m'
    | o => o

end
end AgdbColl
