/-!
# `utilities/stable_hash.rs`

`u64`/`i64` hash to themselves (two's complement); byte strings are hashed in 8-byte little-endian
chunks with `rotate_left(5) ^ v` then wrapping multiplication by `HASH_CONSTANT`, the zero-padded
remainder chunk (if any) and finally the length.
-/
namespace AgdbColl

def HASH_CONSTANT : UInt64 := 0x517cc1b727220a95

def rotl5 (x : UInt64) : UInt64 := (x <<< 5) ||| (x >>> 59)

def addToHash (hash value : UInt64) : UInt64 := (rotl5 hash ^^^ value) * HASH_CONSTANT

/-- little-endian value of at most 8 bytes (missing bytes are zero) -/
def leChunk : List UInt8 → UInt64
  | [] => 0
  | b :: bs => b.toUInt64 ||| (leChunk bs <<< 8)

def hashChunks : Nat → List UInt8 → UInt64 → UInt64
  | 0, _, h => h
  | _, [], h => h
  | fuel + 1, bs, h =>
    if bs.length ≥ 8 then hashChunks fuel (bs.drop 8) (addToHash h (leChunk (bs.take 8)))
    else addToHash h (leChunk bs)

def stableHashBytes (bs : List UInt8) : UInt64 :=
  addToHash (hashChunks (bs.length + 1) bs 0) bs.length.toUInt64

def stableHashI64 (v : Int) : UInt64 := UInt64.ofInt v

end AgdbColl
