import AgdbColl.Model.Outcome
/-!
# `collections/multi_map.rs` + `collections/map.rs`

Concrete model of `MultiMapImpl`: the table is a list of slots `(state, key, value)` (the three
parallel `DbVec`s of `DbMapData`), `len` is the stored element count (`MapDataIndex::len`).
Every data-dependent loop takes explicit fuel and returns `Outcome.outOfFuel` when it runs out,
so termination is a real statement. `u64` subtraction that would underflow is a `panic`
(debug build), `hash % capacity` with capacity 0 is a `panic`.

The model mirrors the code WITH the proposed fix `C19-insert-or-replace-wrap` applied
(`insert_or_replace` stops when the probe is back at its start position). The code as pinned is
kept as `iorLoopLegacy` / `insertOrReplaceLegacy`.

One `fuel` argument `F` is handed to every loop of an operation.
-/
namespace AgdbColl

inductive St where
  | empty
  | deleted
  | valid
deriving DecidableEq, Repr, Inhabited

structure Slot (K T : Type) where
  st : St
  key : K
  val : T
deriving Repr, DecidableEq

structure MM (K T : Type) where
  slots : List (Slot K T)
  len : Nat
deriving Repr, DecidableEq

section
variable {K T : Type} [DecidableEq K] [DecidableEq T] [Inhabited K] [Inhabited T]

def emptySlot : Slot K T := ⟨.empty, default, default⟩

def MM.new : MM K T := ⟨[], 0⟩

def MM.cap (m : MM K T) : Nat := m.slots.length

def getSlot (s : List (Slot K T)) (i : Nat) : Slot K T := s.getD i emptySlot

def stAt (s : List (Slot K T)) (i : Nat) : St := (getSlot s i).st

/-- `next_pos` -/
def nextPos (cap pos : Nat) : Nat := if pos + 1 = cap then 0 else pos + 1

/-- `max_len` : `capacity * 15 / 16` -/
def maxLen (cap : Nat) : Nat := cap * 15 / 16

/-- `min_len` : `capacity * 7 / 16` -/
def minLen (cap : Nat) : Nat := cap * 7 / 16

/-- minimum capacity used by `rehash` -/
def MIN_CAP : Nat := 64

def setSt (s : List (Slot K T)) (i : Nat) (st : St) : List (Slot K T) :=
  s.set i { getSlot s i with st := st }

/-- `drop_value`: state `Deleted`, key and value reset to default -/
def dropValue (s : List (Slot K T)) (i : Nat) : List (Slot K T) :=
  s.set i ⟨.deleted, default, default⟩

/-- the slot writes of `do_insert` -/
def putValid (s : List (Slot K T)) (i : Nat) (k : K) (v : T) : List (Slot K T) :=
  s.set i ⟨.valid, k, v⟩

def setVal (s : List (Slot K T)) (i : Nat) (v : T) : List (Slot K T) :=
  s.set i { getSlot s i with val := v }

/-- `MapData::swap` (all three vectors) -/
def swapSlots (s : List (Slot K T)) (i j : Nat) : List (Slot K T) :=
  (s.set i (getSlot s j)).set j (getSlot s i)

/-! ## rehash -/

/-- the occupancy probe of `rehash_valid` -/
def probeOcc (occ : List Bool) (newCap : Nat) : Nat → Nat → Outcome Nat
  | 0, _ => .outOfFuel
  | fuel + 1, pos =>
    if occ.getD pos false = false then .ok pos
    else probeOcc occ newCap fuel (if pos + 1 = newCap then 0 else pos + 1)

/-- `rehash_values`: the `while i != current_capacity` loop with `rehash_value` inlined -/
def rehashLoop (h : K → Nat) (F cur new : Nat) :
    Nat → List (Slot K T) → Nat → List Bool → Outcome (List (Slot K T))
  | 0, _, _, _ => .outOfFuel
  | fuel + 1, s, i, occ =>
    if i = cur then .ok s
    else
      match stAt s i with
      | .empty => rehashLoop h F cur new fuel s (i + 1) occ
      | .deleted => rehashLoop h F cur new fuel (if i < new then setSt s i .empty else s) (i + 1) occ
      | .valid =>
        if i < new ∧ occ.getD i false = true then rehashLoop h F cur new fuel s (i + 1) occ
        else
          match probeOcc occ new F (h (getSlot s i).key % new) with
          | .ok pos =>
            rehashLoop h F cur new fuel (swapSlots s i pos) (if i = pos then i + 1 else i)
              (occ.set pos true)
          | o => o.cast

/-- `rehash` (with `grow` / `shrink`); same capacity is a no-op -/
def rehash (h : K → Nat) (F : Nat) (m : MM K T) (capacity : Nat) : Outcome (MM K T) :=
  let cur := m.cap
  let new := max capacity MIN_CAP
  if cur < new then
    match rehashLoop h F cur new F (m.slots ++ List.replicate (new - cur) emptySlot) 0
        (List.replicate new false) with
    | .ok s => .ok ⟨s, m.len⟩
    | o => o.cast
  else if new < cur then
    match rehashLoop h F cur new F m.slots 0 (List.replicate new false) with
    | .ok s => .ok ⟨s.take new, m.len⟩
    | o => o.cast
  else .ok m

/-- `if self.len() >= self.max_len() { self.rehash(capacity * 2) }` -/
def growIfFull (h : K → Nat) (F : Nat) (m : MM K T) : Outcome (MM K T) :=
  if m.len ≥ maxLen m.cap then rehash h F m (m.cap * 2) else .ok m

/-- `reserve` -/
def reserve (h : K → Nat) (F : Nat) (m : MM K T) (capacity : Nat) : Outcome (MM K T) :=
  if m.cap < capacity then rehash h F m capacity else .ok m

/-! ## insert -/

/-- the loop of `free_index` -/
def freeIndexLoop (s : List (Slot K T)) : Nat → Nat → Outcome Nat
  | 0, _ => .outOfFuel
  | fuel + 1, pos =>
    match stAt s pos with
    | .valid => freeIndexLoop s fuel (nextPos s.length pos)
    | _ => .ok pos

/-- `insert` (multi-map insert: `free_index` + `do_insert`) -/
def insert (h : K → Nat) (F : Nat) (m : MM K T) (k : K) (v : T) : Outcome (MM K T) :=
  match growIfFull h F m with
  | .ok m1 =>
    if m1.cap = 0 then .panic "multi_map.rs:free_index:rem-by-zero"
    else
      match freeIndexLoop m1.slots F (h k % m1.cap) with
      | .ok pos => .ok ⟨putValid m1.slots pos k v, m1.len + 1⟩
      | o => o.cast
  | o => o.cast

/-! ## insert_or_replace -/

structure IorOut (K T : Type) where
  slots : List (Slot K T)
  free : Option Nat
  ret : Option T

/-- the probe loop of `insert_or_replace` (fixed code: stops when back at `start`) -/
def iorLoop (key : K) (pred : T → Bool) (nv : T) (start : Nat) (s : List (Slot K T)) :
    Nat → Nat → Option Nat → Outcome (IorOut K T)
  | 0, _, _ => .outOfFuel
  | fuel + 1, pos, free =>
    let sl := getSlot s pos
    match sl.st with
    | .empty => .ok ⟨s, some pos, none⟩
    | .deleted =>
      let free' := if free.isNone then some pos else free
      if nextPos s.length pos = start then .ok ⟨s, free', none⟩
      else iorLoop key pred nv start s fuel (nextPos s.length pos) free'
    | .valid =>
      if sl.key = key ∧ pred sl.val = true then .ok ⟨setVal s pos nv, none, some sl.val⟩
      else if nextPos s.length pos = start then .ok ⟨s, free, none⟩
      else iorLoop key pred nv start s fuel (nextPos s.length pos) free

/-- the probe loop of `insert_or_replace` as pinned (stops only at an `Empty` slot or a replaced value) -/
def iorLoopLegacy (key : K) (pred : T → Bool) (nv : T) (s : List (Slot K T)) :
    Nat → Nat → Option Nat → Outcome (IorOut K T)
  | 0, _, _ => .outOfFuel
  | fuel + 1, pos, free =>
    let sl := getSlot s pos
    match sl.st with
    | .empty => .ok ⟨s, some pos, none⟩
    | .deleted =>
      iorLoopLegacy key pred nv s fuel (nextPos s.length pos) (if free.isNone then some pos else free)
    | .valid =>
      if sl.key = key ∧ pred sl.val = true then .ok ⟨setVal s pos nv, none, some sl.val⟩
      else iorLoopLegacy key pred nv s fuel (nextPos s.length pos) free

def iorFinish (m1 : MM K T) (key : K) (nv : T) (o : IorOut K T) : MM K T × Option T :=
  match o.free with
  | some p => (⟨putValid o.slots p key nv, m1.len + 1⟩, o.ret)
  | none => (⟨o.slots, m1.len⟩, o.ret)

/-- `insert_or_replace` (fixed) -/
def insertOrReplace (h : K → Nat) (F : Nat) (m : MM K T) (key : K) (pred : T → Bool) (nv : T) :
    Outcome (MM K T × Option T) :=
  match growIfFull h F m with
  | .ok m1 =>
    if m1.cap = 0 then .panic "multi_map.rs:insert_or_replace:rem-by-zero"
    else
      match iorLoop key pred nv (h key % m1.cap) m1.slots F (h key % m1.cap) none with
      | .ok o => .ok (iorFinish m1 key nv o)
      | o => o.cast
  | o => o.cast

/-- `insert_or_replace` as pinned -/
def insertOrReplaceLegacy (h : K → Nat) (F : Nat) (m : MM K T) (key : K) (pred : T → Bool) (nv : T) :
    Outcome (MM K T × Option T) :=
  match growIfFull h F m with
  | .ok m1 =>
    if m1.cap = 0 then .panic "multi_map.rs:insert_or_replace:rem-by-zero"
    else
      match iorLoopLegacy key pred nv m1.slots F (h key % m1.cap) none with
      | .ok o => .ok (iorFinish m1 key nv o)
      | o => o.cast
  | o => o.cast

/-! ## remove_key -/

structure RkOut (K T : Type) where
  slots : List (Slot K T)
  len : Nat
  wrapped : Bool

/-- the loop of `remove_key`; `len` is the local counter, decremented per dropped value -/
def removeKeyLoop (key : K) (start : Nat) :
    Nat → List (Slot K T) → Nat → Nat → Outcome (RkOut K T)
  | 0, _, _, _ => .outOfFuel
  | fuel + 1, s, pos, len =>
    let sl := getSlot s pos
    match sl.st with
    | .empty => .ok ⟨s, len, false⟩
    | .valid =>
      if sl.key = key then
        if len = 0 then .panic "multi_map.rs:remove_key:sub-overflow"
        else if nextPos s.length pos = start then .ok ⟨dropValue s pos, len - 1, true⟩
        else removeKeyLoop key start fuel (dropValue s pos) (nextPos s.length pos) (len - 1)
      else if nextPos s.length pos = start then .ok ⟨s, len, true⟩
      else removeKeyLoop key start fuel s (nextPos s.length pos) len
    | .deleted =>
      if nextPos s.length pos = start then .ok ⟨s, len, true⟩
      else removeKeyLoop key start fuel s (nextPos s.length pos) len

/-- `remove_key` -/
def removeKey (h : K → Nat) (F : Nat) (m : MM K T) (key : K) : Outcome (MM K T) :=
  if m.cap = 0 then .ok m
  else
    match removeKeyLoop key (h key % m.cap) F m.slots (h key % m.cap) m.len with
    | .ok o =>
      -- `if pos == start_pos { if len == self.len() { self.rehash(capacity) } break }`
      match (if o.wrapped ∧ o.len = m.len then rehash h F ⟨o.slots, m.len⟩ m.cap
             else .ok ⟨o.slots, m.len⟩) with
      | .ok m1 =>
        if o.len ≠ m1.len then
          let m2 : MM K T := ⟨m1.slots, o.len⟩
          if m2.len ≤ minLen m2.cap then rehash h F m2 (m2.cap / 2) else .ok m2
        else .ok m1
      | e => e
    | e => e.cast

/-! ## remove_value -/

/-- the loop of `remove_value`: `(some pos, _)` = pair found at `pos`; `(none, wrapped)` -/
def removeValueLoop (key : K) (v : T) (start : Nat) (s : List (Slot K T)) :
    Nat → Nat → Outcome (Option Nat × Bool)
  | 0, _ => .outOfFuel
  | fuel + 1, pos =>
    let sl := getSlot s pos
    match sl.st with
    | .empty => .ok (none, false)
    | .valid =>
      if sl.key = key ∧ sl.val = v then .ok (some pos, false)
      else if nextPos s.length pos = start then .ok (none, true)
      else removeValueLoop key v start s fuel (nextPos s.length pos)
    | .deleted =>
      if nextPos s.length pos = start then .ok (none, true)
      else removeValueLoop key v start s fuel (nextPos s.length pos)

/-- `remove_index` -/
def removeIndex (h : K → Nat) (F : Nat) (m : MM K T) (index : Nat) : Outcome (MM K T) :=
  if m.len = 0 then .panic "multi_map.rs:remove_index:sub-overflow"
  else
    let m1 : MM K T := ⟨dropValue m.slots index, m.len - 1⟩
    if m1.len ≤ minLen m1.cap then rehash h F m1 (m1.cap / 2) else .ok m1

/-- `remove_value` -/
def removeValue (h : K → Nat) (F : Nat) (m : MM K T) (key : K) (v : T) : Outcome (MM K T) :=
  if m.cap = 0 then .ok m
  else
    match removeValueLoop key v (h key % m.cap) m.slots F (h key % m.cap) with
    | .ok (some pos, _) => removeIndex h F m pos
    | .ok (none, true) => rehash h F m m.cap
    | .ok (none, false) => .ok m
    | e => e.cast

/-! ## iteration -/

/-- `MultiMapIterator::next`: result and the iterator's new `pos` -/
def iterNext (key : K) (start : Nat) (s : List (Slot K T)) :
    Nat → Nat → Outcome (Option (K × T) × Nat)
  | 0, _ => .outOfFuel
  | fuel + 1, pos =>
    let sl := getSlot s pos
    let pos' := nextPos s.length pos
    match sl.st with
    | .empty => .ok (none, pos')
    | .deleted => if start = pos' then .ok (none, pos') else iterNext key start s fuel pos'
    | .valid =>
      if sl.key = key then .ok (some (sl.key, sl.val), pos')
      else if start = pos' then .ok (none, pos') else iterNext key start s fuel pos'

def homePos (h : K → Nat) (m : MM K T) (key : K) : Nat :=
  if m.cap = 0 then 0 else h key % m.cap

/-- `value` (= `iter_key(key).next()`), also `contains` -/
def value (h : K → Nat) (F : Nat) (m : MM K T) (key : K) : Outcome (Option T) :=
  if m.cap = 0 then .ok none
  else
    match iterNext key (homePos h m key) m.slots F (homePos h m key) with
    | .ok (some (_, v), _) => .ok (some v)
    | .ok (none, _) => .ok none
    | e => e.cast

/-- draining `iter_key(key)` (`values`, `values_count`): one unit of outer fuel per `next` call -/
def collectLoop (key : K) (start : Nat) (s : List (Slot K T)) (F : Nat) :
    Nat → Nat → List T → Outcome (List T)
  | 0, _, _ => .outOfFuel
  | fuel + 1, pos, acc =>
    match iterNext key start s F pos with
    | .ok (some (_, v), pos') => collectLoop key start s F fuel pos' (acc ++ [v])
    | .ok (none, _) => .ok acc
    | e => e.cast

/-- `values` -/
def values (h : K → Nat) (F : Nat) (m : MM K T) (key : K) : Outcome (List T) :=
  if m.cap = 0 then .ok []
  else collectLoop key (homePos h m key) m.slots F F (homePos h m key) []

/-- the `for` loop of `contains_value` over `iter_key(key)` -/
def containsValueLoop (key : K) (v : T) (start : Nat) (s : List (Slot K T)) (F : Nat) :
    Nat → Nat → Outcome Bool
  | 0, _ => .outOfFuel
  | fuel + 1, pos =>
    match iterNext key start s F pos with
    | .ok (some (_, v'), pos') =>
      if v' = v then .ok true else containsValueLoop key v start s F fuel pos'
    | .ok (none, _) => .ok false
    | e => e.cast

/-- `contains_value` -/
def containsValue (h : K → Nat) (F : Nat) (m : MM K T) (key : K) (v : T) : Outcome Bool :=
  if m.cap = 0 then .ok false
  else containsValueLoop key v (homePos h m key) m.slots F F (homePos h m key)

/-- `iter` (`MapIterator`): a bounded scan `0..capacity`, all `Valid` pairs in slot order -/
def iterAll (m : MM K T) : List (K × T) :=
  m.slots.filterMap fun sl => if sl.st = .valid then some (sl.key, sl.val) else none

end
end AgdbColl
