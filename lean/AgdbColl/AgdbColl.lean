import AgdbColl.Model.Outcome
import AgdbColl.Model.Hash
import AgdbColl.Model.MultiMap
import AgdbColl.Model.Db
