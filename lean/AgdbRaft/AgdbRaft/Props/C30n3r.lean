/-
  C30, three nodes, part 2 (replication) and the composed statement: from both post-election states
  every fault-free execution appends the client's payload at the leader and gets it present and
  committed on all three nodes within 12 steps; together with part 1: `C30_n3`.
-/
import AgdbRaft.Props.C30n3

namespace Raft

theorem C30_n3_replication : ∀ s ∈ [n3PostA, n3PostB], ReachesWithin 1 s 12 :=
  exploreSet_sound 1 12 [n3PostA, n3PostB] (by decide +kernel)

/-- **C30 for 3 nodes.** Every fault-free execution of a fresh 3-node cluster elects exactly one
leader and gets the entry appended at the leader present and committed on every node, within 25 steps. -/
theorem C30_n3 : ReachesWithin 1 n3Init 25 :=
  reachesWithinP_seq n3Post FState.goal 1 12
    (fun t ht => by
      rcases n3Post_iff ht with rfl | rfl
      · exact C30_n3_replication _ (by simp)
      · exact C30_n3_replication _ (by simp))
    n3Init 13 C30_n3_election

end Raft
