/-
  C30, three nodes: every fault-free execution of a fresh 3-node cluster elects exactly one leader
  (all others following it, nothing in flight) within 16 steps. Kernel evaluation of the verified
  breadth-first explorer over all delivery orders (447 distinct states); this module takes a few
  minutes to check, which is why it is separate from Props/C30.lean.
-/
import AgdbRaft.Props.C30

namespace Raft

theorem C30_n3_election : ReachesWithin 1 (FState.init 3 2 2 6 Variant.fixed []) 16 :=
  exploreSet_sound 1 16 [FState.init 3 2 2 6 Variant.fixed []] (by decide +kernel) _ (List.mem_singleton.mpr rfl)

end Raft
