/-
  C30, three nodes, part 1 (election): every fault-free execution of a fresh 3-node cluster (client
  payload 5 waiting) reaches, within 13 steps, one of the two quiescent post-election states
  `n3PostA` / `n3PostB` (node 0 leader of term 1, nodes 1 and 2 its followers, nothing in flight; the
  two differ only in bookkeeping left by the order of the last answers). Kernel evaluation of the
  verified breadth-first explorer over all delivery orders (≈450 distinct states); this module takes
  about 3 minutes to check, which is why it is separate. Part 2: Props/C30n3r.lean.
-/
import AgdbRaft.Props.C30

namespace Raft

def n3Init : FState := FState.init 3 2 2 6 Variant.fixed [5]
def n3PostA : FState := n3Init.follow 1 [0, 1, 1, 1, 2, 2, 3, 1, 0, 0, 0, 1, 0]
def n3PostB : FState := n3Init.follow 1 [0, 1, 1, 2, 2, 1, 0, 2, 1, 2, 0, 1, 0]

/-- membership in `{n3PostA, n3PostB}` (the literal numbers are `FState.key` fingerprints used only to
skip the structural comparison for states that cannot be equal) -/
def n3Post (s : FState) : Bool :=
  (s.key == 7746771797915045215992069358957432555649223717609494840041020373102144424235694437164936672335932414521384595254164848641
      && decide (s = n3PostA)) ||
  (s.key == 7746771797915045215992069358957432555649223717609494840041020373102144424235693043368361764171986068538992555831082352641
      && decide (s = n3PostB))

theorem n3Post_iff {s : FState} (h : n3Post s = true) : s = n3PostA ∨ s = n3PostB := by
  unfold n3Post at h
  simp only [Bool.or_eq_true, Bool.and_eq_true, decide_eq_true_eq] at h
  rcases h with h | h
  · exact Or.inl h.2
  · exact Or.inr h.2

theorem C30_n3_election : ReachesWithinP n3Post 1 n3Init 13 :=
  exploreSetP_sound n3Post 1 13 [n3Init] (by decide +kernel) _ (List.mem_singleton.mpr rfl)

end Raft
