/-
  C30 from a post-partition start state: the first six events of
  corpus/C28/append_without_prev_check.ops (node 0 wins term 1 with node 1's vote and appends `7`,
  which reaches nobody), then the partition lasts past `term_timeout` and nodes 1 and 2 time out into
  `Election` state; every message sent so far is lost. From there EVERY fault-free execution (timers
  100/100/300 ms, tick every 50 ms, client payload 5 waiting) ends with node 0 the only leader, both
  others its followers, and the appended payload (and the stranded `7`) present and committed on all
  three nodes, within 16 steps. Kernel evaluation (~340 distinct states, about 2 minutes).
-/
import AgdbRaft.Props.C30

namespace Raft

def ppPrefix : List Event :=
  [.tick 0, .deliver 0, .deliver 2, .deliver 3, .deliver 5, .append 0 7, .adv 301, .tick 1, .tick 2]

def ppState : FState := FState.ofGlobal (run (Global.init 3 100 100 300 Variant.fixed) ppPrefix) [5]

theorem C30_post_partition : ReachesWithin 50 ppState 16 :=
  exploreSet_sound 50 16 [ppState] (by decide +kernel) _ (List.mem_singleton.mpr rfl)

/-- the start state is what the comment says: a leader with an uncommitted entry nobody else has,
two nodes in `Election` state, not a goal state -/
example : ppState.goal = false ∧
    ppState.nodes.map (fun n => (n.index, n.state, n.storage.logs.length)) =
      [(0, .leader, 1), (1, .election, 0), (2, .election, 0)] := by
  decide +kernel

end Raft
