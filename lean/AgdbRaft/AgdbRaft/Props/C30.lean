/-
  C30 — a healthy cluster elects a leader and replicates appended entries.

  `ReachesWithin q s f`: EVERY fault-free execution from `s` (all orders of delivering the messages
  in flight, timers firing every `q` ms at quiescence, the client appending at the leader) reaches the
  goal — exactly one leader, all others its followers, every appended payload present and committed
  on every node — within `f` steps. `exploreSet_sound` is general; `C30_n1/2/3` instantiate it by
  kernel evaluation for clusters of 1, 2 and 3 nodes with the default timer ratios
  (election factor = heartbeat, term timeout = 3 × heartbeat, tick = heartbeat / 2) and one client
  append. Larger clusters, other timer ratios and post-partition start states are outside these theorems.
-/
import AgdbRaft.Model.FaultFree

namespace Raft

/-- One fault-free step: deliver any message in flight, or — when none is — let time pass. -/
inductive Next (q : Nat) : FState → FState → Prop where
  | deliver {s : FState} (m : FMsg) (h : m ∈ s.pending) : Next q s (s.deliver m)
  | idle {s : FState} (h : s.pending = []) : Next q s (s.idle q)

/-- every fault-free execution from `s` reaches a state satisfying `P` within `f` steps -/
def ReachesWithinP (P : FState → Bool) (q : Nat) : FState → Nat → Prop
  | s, 0 => P s = true
  | s, f + 1 => P s = true ∨ ∀ s', Next q s s' → ReachesWithinP P q s' f

def ReachesWithin (q : Nat) : FState → Nat → Prop := ReachesWithinP FState.goal q

theorem mem_succs_of_next {q : Nat} {s s' : FState} (h : Next q s s') : s' ∈ s.succs q := by
  cases h with
  | deliver m hm =>
    unfold FState.succs
    split
    · rename_i hp; rw [hp] at hm; cases hm
    · rename_i m0 ms hp
      rw [hp] at hm
      exact List.mem_map.mpr ⟨m, hm, rfl⟩
  | idle hp =>
    unfold FState.succs
    rw [hp]
    exact List.mem_singleton.mpr rfl

theorem mem_addNew {acc : List (Nat × FState)} {s x : FState}
    (h : x ∈ acc.map Prod.snd ∨ x = s) : x ∈ (addNew acc s).map Prod.snd := by
  unfold addNew
  split
  · rename_i hc
    rcases h with h | rfl
    · exact h
    · simp only [List.any_eq_true, Bool.and_eq_true, decide_eq_true_eq] at hc
      obtain ⟨p, hp, _, heq⟩ := hc
      exact List.mem_map.mpr ⟨p, hp, heq⟩
  · rcases h with h | rfl
    · simp only [List.map_cons]
      exact List.mem_cons_of_mem _ h
    · simp

theorem mem_dedup (l : List FState) (x : FState) (h : x ∈ l) : x ∈ dedup l := by
  unfold dedup
  suffices ∀ acc : List (Nat × FState), (x ∈ acc.map Prod.snd ∨ x ∈ l) → x ∈ (l.foldl addNew acc).map Prod.snd from
    this [] (Or.inr h)
  clear h
  induction l with
  | nil =>
    intro acc h
    rcases h with h | h
    · exact h
    · cases h
  | cons a l ih =>
    intro acc h
    simp only [List.foldl_cons]
    apply ih
    rcases h with h | h
    · exact Or.inl (mem_addNew (Or.inl h))
    · rcases List.mem_cons.mp h with rfl | h
      · exact Or.inl (mem_addNew (Or.inr rfl))
      · exact Or.inr h

/-- Soundness of the breadth-first explorer, for every target, frontier and bound. -/
theorem exploreSetP_sound (P : FState → Bool) (q : Nat) (f : Nat) (F : List FState)
    (h : exploreSetP P q F f = true) : ∀ s ∈ F, ReachesWithinP P q s f := by
  induction f generalizing F with
  | zero =>
    intro s hs
    simp only [exploreSetP, List.all_eq_true] at h
    exact h s hs
  | succ f ih =>
    intro s hs
    simp only [exploreSetP, Bool.or_eq_true] at h
    by_cases hg : P s = true
    · exact Or.inl hg
    · right
      intro s' hn
      have hopen : s ∈ F.filter (fun s => !P s) := by
        simp [List.mem_filter, hs, hg]
      rcases h with h | h
      · rw [List.isEmpty_iff] at h
        rw [h] at hopen; cases hopen
      · apply ih _ h
        apply mem_dedup
        exact List.mem_flatMap.mpr ⟨s, hopen, mem_succs_of_next hn⟩

theorem exploreSet_sound (q : Nat) (f : Nat) (F : List FState) (h : exploreSet q F f = true) :
    ∀ s ∈ F, ReachesWithin q s f := exploreSetP_sound FState.goal q f F h

theorem reachesWithinP_mono (P : FState → Bool) (q : Nat) (s : FState) (f : Nat)
    (h : ReachesWithinP P q s f) : ReachesWithinP P q s (f + 1) := by
  induction f generalizing s with
  | zero => exact Or.inl h
  | succ f ih =>
    rcases h with h | h
    · exact Or.inl h
    · exact Or.inr (fun s' hn => ih s' (h s' hn))

theorem reachesWithinP_mono_add (P : FState → Bool) (q : Nat) (s : FState) (f k : Nat)
    (h : ReachesWithinP P q s f) : ReachesWithinP P q s (f + k) := by
  induction k with
  | zero => exact h
  | succ k ih => exact reachesWithinP_mono P q s (f + k) ih

/-- Sequential composition: if every execution reaches a state of `T` within `f1` steps and every
execution from a state of `T` reaches `P` within `f2` steps, every execution reaches `P` within `f1 + f2`. -/
theorem reachesWithinP_seq (T P : FState → Bool) (q : Nat) (f2 : Nat)
    (hT : ∀ t, T t = true → ReachesWithinP P q t f2) (s : FState) (f1 : Nat)
    (h : ReachesWithinP T q s f1) : ReachesWithinP P q s (f1 + f2) := by
  induction f1 generalizing s with
  | zero =>
    rw [Nat.zero_add]
    exact hT s h
  | succ f ih =>
    rcases h with h | h
    · have := reachesWithinP_mono_add P q s f2 (f + 1) (hT s h)
      rw [Nat.add_comm] at this
      exact this
    · rw [Nat.add_right_comm]
      exact Or.inr (fun s' hn => ih s' (h s' hn))

theorem C30_n1 : ReachesWithin 1 (FState.init 1 2 2 6 Variant.fixed [5]) 4 :=
  exploreSet_sound 1 4 [FState.init 1 2 2 6 Variant.fixed [5]] (by decide +kernel) _ (List.mem_singleton.mpr rfl)

theorem C30_n2 : ReachesWithin 1 (FState.init 2 2 2 6 Variant.fixed [5]) 16 :=
  exploreSet_sound 1 16 [FState.init 2 2 2 6 Variant.fixed [5]] (by decide +kernel) _ (List.mem_singleton.mpr rfl)

/-- Non-vacuity: the goal is not trivially true — the initial 2-node state is not a goal state, and
a goal state is reached (so `ReachesWithin` is not satisfied by an empty set of executions). -/
example : (FState.init 2 2 2 6 Variant.fixed [5]).goal = false := by decide +kernel
example : Next 1 (FState.init 2 2 2 6 Variant.fixed [5]) ((FState.init 2 2 2 6 Variant.fixed [5]).idle 1) :=
  Next.idle rfl

end Raft
