/-
  C28 — committed cluster log entries agree on all nodes and never change.

  Global part (`C28_state_machine_safety_statement`): FALSE of the code, also with the C27 repair
  applied — `append_request` accepts an entry of a newer term at `log_index + 1` without checking that
  the follower's previous entry matches the leader's, and `heartbeat_request` then commits whatever
  prefix the follower holds. Witness: `C28_state_machine_safety_counterexample` (3 nodes, 21 events).
  Local parts (commit index monotone, committed entries stable): see `Props/C28Local.lean`.
-/
import AgdbRaft.Model.Net

namespace Raft

/-- No two nodes ever hold different committed entries at the same log index. -/
def C28_state_machine_safety_statement (v : Variant) : Prop :=
  ∀ g, Reachable v g → ∀ n ∈ g.nodes, ∀ m ∈ g.nodes, ∀ e ∈ n.storage.logs, ∀ e' ∈ m.storage.logs,
    e.committed = true → e'.committed = true → e.index = e'.index → e.term = e'.term ∧ e.data = e'.data

/-- Node 0 leads term 1 and appends `7` (nobody receives it); node 1 wins term 2 with node 2,
appends `8`, replicates it to node 2 and commits it; appends `9` and sends `Append([9])` to node 0,
which — still holding `7` at index 1 — accepts `9` at index 2; node 1 counts that answer, commits
index 2 and its heartbeat makes node 0 commit its own prefix `[7, 9]`. -/
def c28Schedule : List Event :=
  [.tick 0, .deliver 0, .deliver 2, .deliver 3, .deliver 5, .append 0 7, .adv 301, .tick 1, .adv 100, .tick 1,
   .deliver 11, .deliver 12, .deliver 14, .deliver 15, .append 1 8, .deliver 19, .deliver 20, .append 1 9,
   .deliver 23, .deliver 25, .deliver 26]

def c28State : Global := run (Global.init 3 100 100 300 Variant.fixed) c28Schedule

theorem c28State_logs :
    (c28State.nodes.map (fun n => (n.index, n.storage.logs))) =
      [(0, [⟨1, 1, 7, true⟩, ⟨2, 2, 9, true⟩]), (1, [⟨1, 2, 8, true⟩, ⟨2, 2, 9, true⟩]), (2, [⟨1, 2, 8, false⟩])] := by
  decide +kernel

theorem c28State_conflict :
    ∃ n ∈ c28State.nodes, ∃ m ∈ c28State.nodes, ∃ e ∈ n.storage.logs, ∃ e' ∈ m.storage.logs,
      e.committed = true ∧ e'.committed = true ∧ e.index = e'.index ∧ e.term ≠ e'.term := by
  decide +kernel

theorem C28_state_machine_safety_counterexample : ¬ C28_state_machine_safety_statement Variant.fixed := by
  intro h
  have hr : Reachable Variant.fixed c28State := reachable_run (Reachable.init 3 100 100 300) c28Schedule
  obtain ⟨n, hn, m, hm, e, he, e', he', hc, hc', hi, ht⟩ := c28State_conflict
  exact ht (h c28State hr n hn m hm e he e' he' hc hc' hi).1

/-- Non-vacuity of the statement's hypotheses: committed entries exist on reachable states. -/
example : ∃ n ∈ c28State.nodes, ∃ e ∈ n.storage.logs, e.committed = true := by decide +kernel

end Raft
