/-
  C28 — committed cluster log entries agree on all nodes and never change.

  Global part (`C28_state_machine_safety_statement`): FALSE of the code, also with the C27 repair
  applied — `append_request` accepts an entry of a newer term at `log_index + 1` without checking that
  the follower's previous entry matches the leader's, and `heartbeat_request` then commits whatever
  prefix the follower holds. Witness: `C28_state_machine_safety_counterexample` (3 nodes, 21 events).
  Local parts, PROVED over all reachable states and all events (and all event sequences):
  `C28_commit_monotone` (a node's commit index — raft-level and storage-level — never decreases) and
  `C28_committed_stable` (an entry that is flagged committed, or lies at an index ≤ the commit index,
  stays on its node with the same index, term and payload, its committed flag is never cleared, and it
  remains the only entry at that index). Invariant: `Lemmas/LogInv.lean`, `Lemmas/LogGlobal.lean`.
-/
import AgdbRaft.Lemmas.LogGlobal

namespace Raft

/-- No two nodes ever hold different committed entries at the same log index. -/
def C28_state_machine_safety_statement (v : Variant) : Prop :=
  ∀ g, Reachable v g → ∀ n ∈ g.nodes, ∀ m ∈ g.nodes, ∀ e ∈ n.storage.logs, ∀ e' ∈ m.storage.logs,
    e.committed = true → e'.committed = true → e.index = e'.index → e.term = e'.term ∧ e.data = e'.data

/-- Node 0 leads term 1 and appends `7` (nobody receives it); node 1 wins term 2 with node 2,
appends `8`, replicates it to node 2 and commits it; appends `9` and sends `Append([9])` to node 0,
which — still holding `7` at index 1 — accepts `9` at index 2; node 1 counts that answer, commits
index 2 and its heartbeat makes node 0 commit its own prefix `[7, 9]`. -/
def c28Schedule : List Event :=
  [.tick 0, .deliver 0, .deliver 2, .deliver 3, .deliver 5, .append 0 7, .adv 301, .tick 1, .adv 100, .tick 1,
   .deliver 11, .deliver 12, .deliver 14, .deliver 15, .append 1 8, .deliver 19, .deliver 20, .append 1 9,
   .deliver 23, .deliver 25, .deliver 26]

def c28State : Global := run (Global.init 3 100 100 300 Variant.fixed) c28Schedule

theorem c28State_logs :
    (c28State.nodes.map (fun n => (n.index, n.storage.logs))) =
      [(0, [⟨1, 1, 7, true⟩, ⟨2, 2, 9, true⟩]), (1, [⟨1, 2, 8, true⟩, ⟨2, 2, 9, true⟩]), (2, [⟨1, 2, 8, false⟩])] := by
  decide +kernel

theorem c28State_conflict :
    ∃ n ∈ c28State.nodes, ∃ m ∈ c28State.nodes, ∃ e ∈ n.storage.logs, ∃ e' ∈ m.storage.logs,
      e.committed = true ∧ e'.committed = true ∧ e.index = e'.index ∧ e.term ≠ e'.term := by
  decide +kernel

theorem C28_state_machine_safety_counterexample : ¬ C28_state_machine_safety_statement Variant.fixed := by
  intro h
  have hr : Reachable Variant.fixed c28State := reachable_run (Reachable.init 3 100 100 300) c28Schedule
  obtain ⟨n, hn, m, hm, e, he, e', he', hc, hc', hi, ht⟩ := c28State_conflict
  exact ht (h c28State hr n hn m hm e he e' he' hc hc' hi).1

/-- Non-vacuity of the statement's hypotheses: committed entries exist on reachable states. -/
example : ∃ n ∈ c28State.nodes, ∃ e ∈ n.storage.logs, e.committed = true := by decide +kernel

/-! ## local clauses (proved) -/

theorem reachable_inv28 {g : Global} (h : Reachable Variant.fixed g) : Inv28 g := by
  induction h with
  | init size ef hb tt => exact inv28_init size ef hb tt _
  | step e hr ih => exact (step28 _ e (reachable_inv hr) ih).1

/-- every node after an event sequence is the successor of the node with the same index before it -/
theorem lstep_run {g : Global} (h : Reachable Variant.fixed g) (evs : List Event) :
    ∀ n' ∈ (run g evs).nodes, ∃ n ∈ g.nodes, n'.index = n.index ∧ LStep n n' := by
  induction evs generalizing g with
  | nil => intro n' hn'; exact ⟨n', hn', rfl, LStep.refl n'⟩
  | cons e es ih =>
    intro n' hn'
    obtain ⟨m, hm, hi, hs⟩ := ih (Reachable.step e h) n' hn'
    obtain ⟨n, hn, hi', hs'⟩ := (step28 g e (reachable_inv h) (reachable_inv28 h)).2 m hm
    exact ⟨n, hn, hi.trans hi', hs'.trans hs⟩

theorem pairwise_index_inj {l : List Entry} (h : l.Pairwise (fun a b => a.index < b.index)) {x y : Entry}
    (hx : x ∈ l) (hy : y ∈ l) (hxy : x.index = y.index) : x = y := by
  induction l with
  | nil => cases hx
  | cons a as ih =>
    rw [List.pairwise_cons] at h
    rcases List.mem_cons.mp hx with rfl | hx' <;> rcases List.mem_cons.mp hy with rfl | hy'
    · rfl
    · have := h.1 y hy'; omega
    · have := h.1 x hx'; omega
    · exact ih h.2 hx' hy'

/-- **C28, clause 3.** Under any sequence of events a node's commit index never decreases
(`local().log_commit` and `Storage::log_commit()`). -/
theorem C28_commit_monotone {g : Global} (h : Reachable Variant.fixed g) (evs : List Event)
    (n : Node) (hn : n ∈ g.nodes) (n' : Node) (hn' : n' ∈ (run g evs).nodes) (hi : n'.index = n.index) :
    n.loc.logCommit ≤ n'.loc.logCommit ∧ n.storage.commit ≤ n'.storage.commit := by
  obtain ⟨m, hm, hi', hs⟩ := lstep_run h evs n' hn'
  have : m = n := eq_of_index_eq (reachable_inv28 h).nodup hm hn (hi'.symm.trans hi)
  subst this
  exact ⟨hs.commit, hs.scommit⟩

/-- **C28, clause 2.** Under any sequence of events an entry that is committed on a node (flagged
committed, or at an index ≤ the node's commit index) is never removed or replaced there: the node
still holds an entry with the same index, term and payload, still flagged committed if it was, and
that is the only entry at this index. -/
theorem C28_committed_stable {g : Global} (h : Reachable Variant.fixed g) (evs : List Event)
    (n : Node) (hn : n ∈ g.nodes) (n' : Node) (hn' : n' ∈ (run g evs).nodes) (hi : n'.index = n.index)
    (e : Entry) (he : e ∈ n.storage.logs) (hc : e.committed = true ∨ e.index ≤ n.loc.logCommit) :
    ∃ e' ∈ n'.storage.logs, e'.index = e.index ∧ e'.term = e.term ∧ e'.data = e.data ∧
      (e.committed = true → e'.committed = true) ∧
      ∀ x ∈ n'.storage.logs, x.index = e.index → x = e' := by
  obtain ⟨m, hm, hi', hs⟩ := lstep_run h evs n' hn'
  have : m = n := eq_of_index_eq (reachable_inv28 h).nodup hm hn (hi'.symm.trans hi)
  subst this
  have hle : e.index ≤ m.loc.logCommit := by
    rcases hc with hc | hc
    · exact ((reachable_inv28 h).ok m hm).inv.comLe e he hc
    · exact hc
  obtain ⟨e', he', h1, h2, h3, h4⟩ := hs.keep e he hle
  refine ⟨e', he', h1, h2, h3, h4, ?_⟩
  intro x hx hxi
  have hsorted := ((reachable_inv28 (reachable_run h evs)).ok n' hn').inv.sorted
  exact pairwise_index_inj hsorted hx he' (hxi.trans h1.symm)

/-- single-event forms -/
theorem C28_commit_monotone_step {g : Global} (h : Reachable Variant.fixed g) (ev : Event)
    (n : Node) (hn : n ∈ g.nodes) (n' : Node) (hn' : n' ∈ (step g ev).1.nodes) (hi : n'.index = n.index) :
    n.loc.logCommit ≤ n'.loc.logCommit ∧ n.storage.commit ≤ n'.storage.commit :=
  C28_commit_monotone h [ev] n hn n' hn' hi

/-- Non-vacuity: on the reachable state `c28State` node 1 holds committed entries and a positive
commit index, so the hypotheses of both theorems are satisfiable on a non-trivial state. -/
example : ∃ n ∈ c28State.nodes, n.loc.logCommit = 2 ∧ ∃ e ∈ n.storage.logs, e.committed = true ∧ e.index ≤ n.loc.logCommit := by
  decide +kernel

end Raft
