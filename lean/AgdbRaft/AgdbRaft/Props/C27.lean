/-
  C27 — at most one cluster leader per term.

  `C27_election_safety` is proved for the code with `proposed_fixes/C27-vote-once-per-term.diff`
  applied (`Variant.fixed`) over ALL reachable states (any cluster size, timers, schedule).
  The code as found at the pinned commit violates the property in two independent ways
  (`C27_revote_counterexample`, `C27_stale_vote_counterexample`); each half of the patch alone is
  not enough, which the two witnesses show on the half-patched variants.
-/
import AgdbRaft.Lemmas.ElectionInv

namespace Raft

/-- **C27.** No two nodes are ever leaders for the same term. -/
theorem C27_election_safety {g : Global} (h : Reachable Variant.fixed g) (a b t : Nat)
    (ha : isLeader g a t) (hb : isLeader g b t) : a = b := by
  have inv := reachable_inv h
  obtain ⟨na, hna, rfl, hsa, rfl⟩ := ha
  obtain ⟨nb, hnb, rfl, hsb, htb⟩ := hb
  have qa := inv.lead na hna hsa
  have qb := inv.lead nb hnb hsb
  rw [inv.sizeEq na hna] at qa
  rw [inv.sizeEq nb hnb, htb] at qb
  unfold quorumL at qa qb
  have := filter_inter (List.range g.nodes.length)
    (fun v => decide ((v, na.term, na.index) ∈ g.grants))
    (fun v => decide ((v, na.term, nb.index) ∈ g.grants)) (by
      rw [List.length_range]
      omega)
  obtain ⟨v, _, h1, h2⟩ := this
  simp only [decide_eq_true_eq] at h1 h2
  exact inv.grantsUnique v na.term na.index nb.index h1 h2

/-- A node casts at most one vote per term (the history variable behind the proof). -/
theorem C27_vote_once_per_term {g : Global} (h : Reachable Variant.fixed g) (voter t c c' : Nat)
    (h1 : (voter, t, c) ∈ g.grants) (h2 : (voter, t, c') ∈ g.grants) : c = c' :=
  (reachable_inv h).grantsUnique voter t c c' h1 h2

/-- A leader of term `t` holds votes of term `t` from a majority of the cluster. -/
theorem C27_leader_has_quorum {g : Global} (h : Reachable Variant.fixed g) (n : Node) (hn : n ∈ g.nodes)
    (hl : n.state = .leader) :
    g.nodes.length / 2 <
      ((List.range g.nodes.length).filter (fun v => decide ((v, n.term, n.index) ∈ g.grants))).length := by
  have inv := reachable_inv h
  have := inv.lead n hn hl
  rw [inv.sizeEq n hn] at this
  exact this

/-- Voter re-votes in the same term after `term_timeout` (granting does not raise its term):
3 nodes; node 0 wins term 1 with node 2's vote, its heartbeats are lost; node 2 times out and
grants node 1's delayed vote request for term 1 too. Holds on the unpatched code and on the code
with only the stale-answer guard. -/
def revoteSchedule : List Event :=
  [.tick 0, .deliver 1, .deliver 2, .adv 100, .tick 1, .deliver 6, .deliver 7, .deliver 4, .deliver 10,
   .adv 301, .tick 2, .deliver 9, .deliver 13]

theorem C27_revote_counterexample :
    (isLeader (run (Global.init 3 100 100 300 Variant.legacy) revoteSchedule) 0 1 ∧
     isLeader (run (Global.init 3 100 100 300 Variant.legacy) revoteSchedule) 1 1) ∧
    (isLeader (run (Global.init 3 100 100 300 ⟨false, true⟩) revoteSchedule) 0 1 ∧
     isLeader (run (Global.init 3 100 100 300 ⟨false, true⟩) revoteSchedule) 1 1) := by
  decide +kernel

/-- Answers to the vote requests of an earlier candidacy are counted for a later one: 5 nodes;
node 0 is candidate of term 1 (granted by 1, answer delayed), then candidate of term 2 (granted
by 2), counts the delayed term-1 answer and becomes leader of term 2 with {0, 1(term 1), 2};
node 3 wins term 2 with {3, 4, 1}. Holds even when granting raises the voter's term. -/
def staleVoteSchedule : List Event :=
  [.tick 0, .deliver 0, .deliver 1, .deliver 4, .deliver 5, .deliver 6, .deliver 8, .adv 301, .tick 0, .tick 0,
   .deliver 12, .deliver 13, .deliver 16, .deliver 17, .deliver 19, .deliver 10, .deliver 22, .tick 3, .adv 300,
   .tick 3, .deliver 28, .deliver 30, .deliver 31, .deliver 32, .deliver 34, .deliver 36, .deliver 37, .deliver 38]

theorem C27_stale_vote_counterexample :
    isLeader (run (Global.init 5 100 100 300 ⟨true, false⟩) staleVoteSchedule) 0 2 ∧
    isLeader (run (Global.init 5 100 100 300 ⟨true, false⟩) staleVoteSchedule) 3 2 := by
  decide +kernel

/-- The unpatched code is reachable-unsafe: the negation of `C27_election_safety` for `legacy`. -/
theorem C27_legacy_counterexample :
    ∃ g, Reachable Variant.legacy g ∧ ∃ a b t, a ≠ b ∧ isLeader g a t ∧ isLeader g b t :=
  ⟨_, reachable_run (Reachable.init 3 100 100 300) revoteSchedule, 0, 1, 1, by decide,
    C27_revote_counterexample.1.1, C27_revote_counterexample.1.2⟩

/-- Non-vacuity: on the repaired code the same schedule elects exactly node 0 in term 1 (node 1's
late request is refused), so `isLeader` hypotheses are satisfiable on reachable states. -/
example : isLeader (run (Global.init 3 100 100 300 Variant.fixed) revoteSchedule) 0 1 ∧
    ¬ isLeader (run (Global.init 3 100 100 300 Variant.fixed) revoteSchedule) 1 1 := by
  decide +kernel

end Raft
