/-
  C29 — entries committed by a leader survive every later leader.

  FALSE of the code (also with the C27 repair): `validate_log_for_vote` compares only the last
  index / term / commit, and logs can differ below the last entry (see C28), so a node whose log lacks
  a leader-committed entry wins an election. Witness: `C29_leader_completeness_counterexample`.
-/
import AgdbRaft.Model.Net

namespace Raft

/-- Whenever a node becomes leader, its log holds every entry that some leader committed before
(`lcommitted` is the history of entries committed by a node acting as leader). -/
def C29_leader_completeness_statement (v : Variant) : Prop :=
  ∀ g, Reachable v g → ∀ ev : Event, ∀ n ∈ g.nodes, ∀ n' ∈ (step g ev).1.nodes,
    n'.index = n.index → n.state ≠ .leader → n'.state = .leader →
    ∀ c ∈ g.lcommitted, ∃ x ∈ n'.storage.logs, x.index = c.index ∧ x.term = c.term ∧ x.data = c.data

/-- As `c28Schedule` up to node 0 accepting `9` on top of its own `7`; node 1 (leader of term 2)
has committed `8` at index 1. Node 0 then times out, gets node 2's pre-vote and vote for term 3
(its last index/term `2/2` is not behind node 2's `1/2`) and becomes leader without `8`. -/
def c29Prefix : List Event :=
  [.tick 0, .deliver 0, .deliver 2, .deliver 3, .deliver 5, .append 0 7, .adv 301, .tick 1, .adv 100, .tick 1,
   .deliver 11, .deliver 12, .deliver 14, .deliver 15, .append 1 8, .deliver 19, .deliver 20, .append 1 9,
   .deliver 23, .adv 301, .tick 0, .tick 0, .deliver 27, .deliver 28, .tick 2, .deliver 30]

def c29State : Global := run (Global.init 3 100 100 300 Variant.fixed) c29Prefix

theorem c29_facts :
    c29State.lcommitted = [⟨1, 2, 8, true⟩] ∧
    ((step c29State (.deliver 31)).1.nodes.map (fun n => (n.index, decide (n.state = .leader), n.term, n.storage.logs)))
      = [(0, true, 3, [⟨1, 1, 7, false⟩, ⟨2, 2, 9, false⟩]), (1, true, 2, [⟨1, 2, 8, true⟩, ⟨2, 2, 9, false⟩]),
         (2, false, 3, [⟨1, 2, 8, false⟩])] := by
  decide +kernel

theorem c29_violation :
    ∃ n ∈ c29State.nodes, ∃ n' ∈ (step c29State (.deliver 31)).1.nodes,
      n'.index = n.index ∧ n.state ≠ .leader ∧ n'.state = .leader ∧
      ∃ c ∈ c29State.lcommitted, ¬ ∃ x ∈ n'.storage.logs, x.index = c.index ∧ x.term = c.term ∧ x.data = c.data := by
  decide +kernel

theorem C29_leader_completeness_counterexample : ¬ C29_leader_completeness_statement Variant.fixed := by
  intro h
  have hr : Reachable Variant.fixed c29State := reachable_run (Reachable.init 3 100 100 300) c29Prefix
  obtain ⟨n, hn, n', hn', hi, hs, hs', c, hc, hno⟩ := c29_violation
  exact hno (h c29State hr (.deliver 31) n hn n' hn' hi hs hs' c hc)

/-- Non-vacuity: the history of leader-committed entries is non-empty on a reachable state. -/
example : c29State.lcommitted ≠ [] := by decide +kernel

end Raft
