/-
  C29 — entries committed by a leader survive every later leader.

  FALSE of the code (also with the C27 repair): `validate_log_for_vote` compares only the last
  index / term / commit, and logs can differ below the last entry (see C28), so a node whose log lacks
  a leader-committed entry wins an election. Witness: `C29_leader_completeness_counterexample`.

  What IS guaranteed locally (proved for every node state and every request):
  `C29_vote_requires_log_check` — a vote (and a pre-vote) is granted only if the voter's last
  `log_index`, last `log_term` and `log_commit` are each ≤ the candidate's (a conjunction of three
  comparisons, not Raft's lexicographic (term, index) order), only for a term above the voter's own, and
  only from `Election` state or `Voted(t)` with `t` below the requested term;
  `C29_grant_recorded` ties this to the cluster step and the grant history.
  `C29_rule_is_conjunctive` shows the difference to the lexicographic rule on a concrete voter.
-/
import AgdbRaft.Model.Net

namespace Raft

/-- Whenever a node becomes leader, its log holds every entry that some leader committed before
(`lcommitted` is the history of entries committed by a node acting as leader). -/
def C29_leader_completeness_statement (v : Variant) : Prop :=
  ∀ g, Reachable v g → ∀ ev : Event, ∀ n ∈ g.nodes, ∀ n' ∈ (step g ev).1.nodes,
    n'.index = n.index → n.state ≠ .leader → n'.state = .leader →
    ∀ c ∈ g.lcommitted, ∃ x ∈ n'.storage.logs, x.index = c.index ∧ x.term = c.term ∧ x.data = c.data

/-- As `c28Schedule` up to node 0 accepting `9` on top of its own `7`; node 1 (leader of term 2)
has committed `8` at index 1. Node 0 then times out, gets node 2's pre-vote and vote for term 3
(its last index/term `2/2` is not behind node 2's `1/2`) and becomes leader without `8`. -/
def c29Prefix : List Event :=
  [.tick 0, .deliver 0, .deliver 2, .deliver 3, .deliver 5, .append 0 7, .adv 301, .tick 1, .adv 100, .tick 1,
   .deliver 11, .deliver 12, .deliver 14, .deliver 15, .append 1 8, .deliver 19, .deliver 20, .append 1 9,
   .deliver 23, .adv 301, .tick 0, .tick 0, .deliver 27, .deliver 28, .tick 2, .deliver 30]

def c29State : Global := run (Global.init 3 100 100 300 Variant.fixed) c29Prefix

theorem c29_facts :
    c29State.lcommitted = [⟨1, 2, 8, true⟩] ∧
    ((step c29State (.deliver 31)).1.nodes.map (fun n => (n.index, decide (n.state = .leader), n.term, n.storage.logs)))
      = [(0, true, 3, [⟨1, 1, 7, false⟩, ⟨2, 2, 9, false⟩]), (1, true, 2, [⟨1, 2, 8, true⟩, ⟨2, 2, 9, false⟩]),
         (2, false, 3, [⟨1, 2, 8, false⟩])] := by
  decide +kernel

theorem c29_violation :
    ∃ n ∈ c29State.nodes, ∃ n' ∈ (step c29State (.deliver 31)).1.nodes,
      n'.index = n.index ∧ n.state ≠ .leader ∧ n'.state = .leader ∧
      ∃ c ∈ c29State.lcommitted, ¬ ∃ x ∈ n'.storage.logs, x.index = c.index ∧ x.term = c.term ∧ x.data = c.data := by
  decide +kernel

theorem C29_leader_completeness_counterexample : ¬ C29_leader_completeness_statement Variant.fixed := by
  intro h
  have hr : Reachable Variant.fixed c29State := reachable_run (Reachable.init 3 100 100 300) c29Prefix
  obtain ⟨n, hn, n', hn', hi, hs, hs', c, hc, hno⟩ := c29_violation
  exact hno (h c29State hr (.deliver 31) n hn n' hn' hi hs hs' c hc)

/-- Non-vacuity: the history of leader-committed entries is non-empty on a reachable state. -/
example : c29State.lcommitted ≠ [] := by decide +kernel

/-! ## what the vote check does guarantee -/

theorem validateLogForVote_none {n : Node} {r : Request} (h : n.validateLogForVote r = none) :
    n.loc.logIndex ≤ r.logIndex ∧ n.loc.logTerm ≤ r.logTerm ∧ n.loc.logCommit ≤ r.logCommit := by
  unfold Node.validateLogForVote at h
  split at h
  · cases h
  · omega

/-- **The guarantee that exists.** `vote_request` answers OK only when the voter's last index, last
term and commit index are each at most the candidate's, the requested term exceeds the voter's term,
and the voter is in `Election` state or has voted only for a lower term. -/
theorem C29_vote_requires_log_check (n : Node) (now : Nat) (r : Request) (hd : r.data = .vote)
    (hok : (n.request now r).2.result = .ok) :
    (n.loc.logIndex ≤ r.logIndex ∧ n.loc.logTerm ≤ r.logTerm ∧ n.loc.logCommit ≤ r.logCommit) ∧
    n.term < r.term ∧ (n.state = .election ∨ ∃ t, n.state = .voted t ∧ t < r.term) ∧ n.hash = r.hash := by
  unfold Node.request at hok
  rw [hd] at hok
  dsimp only at hok
  unfold Node.voteRequest at hok
  split at hok
  · rename_i e he
    unfold Node.validateHash at he
    split at he <;> simp at he
    subst he; simp at hok
  · rename_i hhash
    split at hok
    · rename_i e he
      unfold Node.validateVoteState at he
      repeat' split at he
      all_goals (simp at he; try (subst he; simp at hok))
    · rename_i hstate
      split at hok
      · rename_i e he
        unfold Node.validateTermForVote at he
        split at he <;> simp at he
        subst he; simp at hok
      · rename_i hterm
        split at hok
        · rename_i e he
          unfold Node.validateLogForVote at he
          split at he <;> simp at he
          subst he; simp [Node.logMismatch] at hok
        · rename_i hlog
          refine ⟨validateLogForVote_none hlog, ?_, ?_, ?_⟩
          · unfold Node.validateTermForVote at hterm
            split at hterm
            · cases hterm
            · omega
          · unfold Node.validateVoteState at hstate
            split at hstate
            · cases hstate
            · cases hstate
            · cases hstate
            · rename_i t hs
              split at hstate
              · cases hstate
              · exact Or.inr ⟨t, hs, by omega⟩
            · rename_i hs; exact Or.inl hs
          · unfold Node.validateHash at hhash
            split at hhash
            · cases hhash
            · rename_i h; exact Classical.not_not.mp h

/-- The same check guards the pre-vote. -/
theorem C29_prevote_requires_log_check (n : Node) (now : Nat) (r : Request)
    (hok : (n.preVoteRequest now r).result = .ok) :
    n.loc.logIndex ≤ r.logIndex ∧ n.loc.logTerm ≤ r.logTerm ∧ n.loc.logCommit ≤ r.logCommit := by
  unfold Node.preVoteRequest at hok
  split at hok
  · rename_i e he
    unfold Node.validateHash at he
    split at he <;> simp at he
    subst he; simp at hok
  · split at hok
    · simp at hok
    · split at hok
      · simp at hok
      · split at hok
        · rename_i e he
          unfold Node.validateLogForVote at he
          split at he <;> simp at he
          subst he; simp [Node.logMismatch] at hok
        · rename_i hlog; exact validateLogForVote_none hlog
    · split at hok
      · rename_i e he
        unfold Node.validateLogForVote at he
        split at he <;> simp at he
        subst he; simp [Node.logMismatch] at hok
      · rename_i hlog; exact validateLogForVote_none hlog

/-- At the cluster level: delivering a vote request that is answered OK records the grant in the
history, and the voter's log passed the check against the values carried by the request. -/
theorem C29_grant_recorded (g : Global) (k : Nat) (r : Request) (n : Node)
    (hm : g.msgs[k]? = some (.req r)) (hd : r.data = .vote) (hn : g.getNode? r.target = some n)
    (hok : (n.request g.now r).2.result = .ok) :
    (n.index, r.term, r.index) ∈ (step g (.deliver k)).1.grants ∧
    n.loc.logIndex ≤ r.logIndex ∧ n.loc.logTerm ≤ r.logTerm ∧ n.loc.logCommit ≤ r.logCommit := by
  refine ⟨?_, (C29_vote_requires_log_check n g.now r hd hok).1⟩
  simp only [step, hm, hn]
  rw [if_pos ⟨hd, hok⟩]
  exact List.mem_cons_self

/-- The rule is a conjunction, not the lexicographic (last term, last index) order of Raft: a voter
whose log is longer but whose last term is older refuses a candidate with a newer last term
(first conjunct), and accepts any candidate that dominates the three numbers — whatever lies
below the last entry is never compared (which is what the counterexample exploits). -/
theorem C29_rule_is_conjunctive :
    let voter : Node := { (Node.new ⟨[⟨1, 1, 7, false⟩, ⟨2, 1, 8, false⟩], 2, 1, 0⟩ 2 3 clusterHash 100 100 300 Variant.fixed)
      with state := .election }
    let newerButShorter : Request := ⟨clusterHash, 0, 2, 5, 1, 4, 0, .vote⟩
    let dominating : Request := ⟨clusterHash, 0, 2, 5, 2, 4, 0, .vote⟩
    (voter.request 0 newerButShorter).2.result ≠ .ok ∧ (voter.request 0 dominating).2.result = .ok := by
  decide +kernel

end Raft
