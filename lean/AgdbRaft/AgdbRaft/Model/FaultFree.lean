/-
  Fault-free scheduler for C30, built on the same node functions as `step`:
  every message that is sent is delivered exactly once, in any order (`pending` is the multiset of
  messages in flight, kept in a canonical order so that equal situations are equal states); time
  advances by a fixed quantum only at quiescence and then every node's timer loop runs once, in
  index order; the client appends its payloads at the leader as soon as there is one.
  `exploreSet` is a breadth-first exploration with duplicate elimination; `exploreSet_sound`
  (Props/C30.lean) ties it to the relational definition `ReachesWithin`.
-/
import AgdbRaft.Model.Net

namespace Raft

inductive FMsg where
  | req (r : Request)
  | resp (req : Request) (r : Response)
deriving DecidableEq, Repr

structure FState where
  nodes : List Node
  now : Nat
  pending : List FMsg
  /-- payloads the client still wants to append -/
  todo : List Nat
  /-- payloads appended so far -/
  done : List Nat
deriving DecidableEq

def ReqData.code : ReqData → List Nat
  | .append logs => 0 :: logs.flatMap (fun l => [l.index, l.term, l.data])
  | .heartbeat => [1]
  | .preVote => [2]
  | .vote => [3]

def Request.code (r : Request) : List Nat :=
  [r.index, r.target, r.term, r.logIndex, r.logTerm, r.logCommit] ++ r.data.code

/-- only used to keep `pending` in a canonical order (any function would be sound) -/
def FMsg.code : FMsg → List Nat
  | .req r => 0 :: r.code
  | .resp r _ => 1 :: r.code

def insertMsg (m : FMsg) : List FMsg → List FMsg
  | [] => [m]
  | x :: xs => if m.code ≤ x.code then m :: x :: xs else x :: insertMsg m xs

def insertReqs (reqs : List Request) (p : List FMsg) : List FMsg :=
  reqs.foldl (fun p q => insertMsg (.req q) p) p

def setNodeL (nodes : List Node) (n' : Node) : List Node :=
  nodes.map (fun n => if n.index == n'.index then n' else n)

def FState.deliver (s : FState) (m : FMsg) : FState :=
  match m with
  | .req r =>
    match s.nodes.find? (fun n => n.index == r.target) with
    | none => { s with pending := s.pending.erase m }
    | some n =>
      let res := n.request s.now r
      { s with nodes := setNodeL s.nodes res.1, pending := insertMsg (.resp r res.2) (s.pending.erase m) }
  | .resp r resp =>
    match s.nodes.find? (fun n => n.index == resp.target) with
    | none => { s with pending := s.pending.erase m }
    | some n =>
      let res := n.response s.now r resp
      { s with nodes := setNodeL s.nodes res.1, pending := insertReqs (res.2.getD []) (s.pending.erase m) }

def leaderIdxL (nodes : List Node) : Option Nat :=
  (nodes.find? (fun n => decide (n.state = .leader))).map (fun n => n.index)

/-- one pass of every node's timer loop at time `now`, in index order -/
def tickAll (now : Nat) (nodes : List Node) : List Node × List Request :=
  (List.range nodes.length).foldl (fun acc i =>
    match acc.1.find? (fun n => n.index == i) with
    | none => acc
    | some n =>
      let r := n.process now
      (setNodeL acc.1 r.1, acc.2 ++ r.2.getD [])) (nodes, [])

/-- the step taken when no message is in flight -/
def FState.idle (s : FState) (quantum : Nat) : FState :=
  match s.todo, leaderIdxL s.nodes with
  | d :: rest, some l =>
    match s.nodes.find? (fun n => n.index == l) with
    | none => s
    | some n =>
      let r := n.append d
      { s with nodes := setNodeL s.nodes r.1, pending := insertReqs r.2 [], todo := rest, done := s.done ++ [d] }
  | _, _ =>
    let r := tickAll (s.now + quantum) s.nodes
    { s with nodes := r.1, now := s.now + quantum, pending := insertReqs r.2 [] }

/-- exactly one leader, everybody else follows it, nothing in flight, nothing left to append, and every
appended payload is present and committed on every node -/
def FState.goal (s : FState) : Bool :=
  s.pending.isEmpty && s.todo.isEmpty &&
  match leaderIdxL s.nodes with
  | none => false
  | some l =>
    s.nodes.all (fun n =>
      (if n.index = l then decide (n.state = .leader) else decide (n.state = .follower l)) &&
      s.done.all (fun d => n.storage.logs.any (fun e => e.data == d && e.committed)))

/-- the fault-free successors of a state -/
def FState.succs (s : FState) (quantum : Nat) : List FState :=
  match s.pending with
  | [] => [s.idle quantum]
  | m :: ms => (m :: ms).map s.deliver

def mix (acc x : Nat) : Nat := acc * 1048576 + x

def CState.code : CState → Nat
  | .candidate => 1
  | .election => 2
  | .follower l => 8 + 4 * l
  | .leader => 3
  | .voted t => 9 + 4 * t

def Node.key (n : Node) : Nat :=
  let k := mix (mix (mix n.state.code n.term) n.electionTimeout) n.storage.commit
  let k := n.storage.logs.foldl (fun a e => mix (mix (mix a e.index) e.term) (if e.committed then 1 else 0)) k
  n.peers.foldl (fun a p => mix (mix (mix (mix (mix a p.logIndex) p.logTerm) p.logCommit) p.timer) (if p.voted then 1 else 0)) k

/-- a cheap fingerprint; equal states have equal keys, and equality is re-checked on a key match -/
def FState.key (s : FState) : Nat :=
  let k := s.nodes.foldl (fun a n => mix a n.key) (mix s.now s.todo.length)
  s.pending.foldl (fun a m => m.code.foldl mix a) k

def addNew (acc : List (Nat × FState)) (s : FState) : List (Nat × FState) :=
  if acc.any (fun p => p.1 == s.key && decide (p.2 = s)) then acc else (s.key, s) :: acc

def dedup (l : List FState) : List FState := (l.foldl addNew []).map Prod.snd

/-- breadth-first exploration towards an arbitrary target predicate -/
def exploreSetP (target : FState → Bool) (quantum : Nat) : List FState → Nat → Bool
  | F, 0 => F.all target
  | F, f + 1 =>
    (F.filter (fun s => !target s)).isEmpty ||
    exploreSetP target quantum (dedup ((F.filter (fun s => !target s)).flatMap (fun s => s.succs quantum))) f

def exploreSet (quantum : Nat) : List FState → Nat → Bool := exploreSetP FState.goal quantum

/-- follow one fault-free execution: at each step deliver the pending message with the given position
(or take the idle step when nothing is pending) -/
def FState.follow (s : FState) (quantum : Nat) : List Nat → FState
  | [] => s
  | c :: cs =>
    match s.pending[c]? with
    | some m => (s.deliver m).follow quantum cs
    | none => (s.idle quantum).follow quantum cs

/-- FState view of a cluster state of the adversarial model with nothing in flight (every message
sent so far counts as lost) -/
def FState.ofGlobal (g : Global) (todo : List Nat) : FState :=
  { nodes := g.nodes, now := g.now, pending := [], todo, done := [] }

def FState.init (size ef hb tt : Nat) (v : Variant) (todo : List Nat) : FState :=
  { nodes := (Global.init size ef hb tt v).nodes, now := 0, pending := [], todo, done := [] }

/-- sizes of the successive frontiers (diagnostics only) -/
def frontierSizes (quantum : Nat) : List FState → Nat → List Nat
  | F, 0 => [F.length]
  | F, f + 1 =>
    if (F.filter (fun s => !s.goal)).isEmpty then [F.length] else
    F.length :: frontierSizes quantum (dedup ((F.filter (fun s => !s.goal)).flatMap (fun s => s.succs quantum))) f

/-- the frontier after `f` levels (diagnostics only) -/
def frontierAfter (quantum : Nat) : List FState → Nat → List FState
  | F, 0 => F
  | F, f + 1 => frontierAfter quantum (dedup ((F.filter (fun s => !s.goal)).flatMap (fun s => s.succs quantum))) f

end Raft
