/-
  L7 model of `agdb_server/src/raft.rs` (`raft::Cluster`), function for function.

  * `u64` values are `Nat` (terms / indexes grow by one per event; no overflow is reachable in practice,
    `saturating_mul` of the election factor is modelled exactly).
  * `Instant` is virtual milliseconds (`now` is a parameter); `timer.elapsed()` is `now - timer`.
  * `Storage<T, N>` is the in-memory storage of the harness, which mirrors
    `agdb_server::cluster::ClusterStorage` / `ClusterLog` (uncommitted suffix truncated on append,
    entries flagged committed individually); it never fails, so the `CommitError` paths are dead.
  * The per-peer `Vec<Node>` is addressed through the peer's `index` field; `Cluster::new` makes it
    equal to the position and nothing ever changes it (`Wf` in `Lemmas/Basic.lean`).
  * `Variant` selects between the code as found at the pinned commit (`legacy`) and the code with
    `proposed_fixes/C27-*.diff` applied (`fixed`): granting a vote raises the voter's term, and an
    OK answer to a vote request of another term is ignored.
-/
namespace Raft

structure Variant where
  grantRaisesTerm : Bool
  ignoreStaleVotes : Bool
deriving DecidableEq, Repr

def Variant.fixed : Variant := ⟨true, true⟩
def Variant.legacy : Variant := ⟨false, false⟩

/-- `raft::Log<T>` as sent on the wire (`db_id` is `#[serde(skip)]`). -/
structure Log where
  index : Nat
  term : Nat
  data : Nat
deriving DecidableEq, Repr

/-- A stored log entry with the `committed` flag of `ClusterLog`. -/
structure Entry where
  index : Nat
  term : Nat
  data : Nat
  committed : Bool
deriving DecidableEq, Repr

structure Storage where
  logs : List Entry
  index : Nat
  term : Nat
  commit : Nat
deriving DecidableEq, Repr

def Storage.empty : Storage := ⟨[], 0, 0, 0⟩

/-- `ClusterStorage::append`: `remove_uncommitted_logs(log.index)` then `append_log`. -/
def Storage.append (s : Storage) (l : Log) : Storage :=
  { s with
    logs := s.logs.filter (fun e => e.committed || decide (e.index < l.index))
              ++ [⟨l.index, l.term, l.data, false⟩]
    index := l.index
    term := l.term }

/-- `ClusterStorage::commit`: every uncommitted entry `≤ i` is flagged; `commit = i` if there was one. -/
def Storage.commitTo (s : Storage) (i : Nat) : Storage :=
  { s with
    logs := s.logs.map (fun e => if !e.committed && decide (e.index ≤ i) then { e with committed := true } else e)
    commit := if s.logs.any (fun e => !e.committed && decide (e.index ≤ i)) then i else s.commit }

/-- `ClusterLog::logs_since`: the newest `count - from` entries, oldest first. -/
def Storage.logsFrom (s : Storage) (frm : Nat) : List Log :=
  (s.logs.drop (s.logs.length - (s.logs.length - frm))).map (fun e => ⟨e.index, e.term, e.data⟩)

/-- `raft::Node`: what a node knows about a peer (and about itself at its own index). -/
structure Peer where
  index : Nat
  logIndex : Nat
  logTerm : Nat
  logCommit : Nat
  timer : Nat
  voted : Bool
deriving DecidableEq, Repr, Inhabited

inductive CState where
  | candidate
  | election
  | follower (leader : Nat)
  | leader
  | voted (term : Nat)
deriving DecidableEq, Repr

inductive ReqData where
  | append (logs : List Log)
  | heartbeat
  | preVote
  | vote
deriving DecidableEq, Repr

structure Request where
  hash : Nat
  index : Nat
  target : Nat
  term : Nat
  logIndex : Nat
  logTerm : Nat
  logCommit : Nat
  data : ReqData
deriving DecidableEq, Repr

structure MV where
  loc : Option Nat
  requested : Option Nat
deriving DecidableEq, Repr

inductive RespResult where
  | ok
  | commitError
  | clusterMismatch (m : MV)
  | leaderMismatch (m : MV)
  | termMismatch (m : MV)
  | logMismatch (index term commit : MV)
  | alreadyVoted (m : MV)
deriving DecidableEq, Repr

structure Response where
  target : Nat
  result : RespResult
deriving DecidableEq, Repr

/-- `raft::Cluster`. -/
structure Node where
  storage : Storage
  peers : List Peer
  state : CState
  hash : Nat
  size : Nat
  index : Nat
  term : Nat
  firstElectionTimeout : Nat
  electionTimeout : Nat
  heartbeatTimeout : Nat
  termTimeout : Nat
  variant : Variant
deriving DecidableEq, Repr

def u64Max : Nat := 18446744073709551615

def getP (ps : List Peer) (i : Nat) : Peer :=
  (ps.find? (fun p => p.index == i)).getD default

def setP (ps : List Peer) (i : Nat) (f : Peer → Peer) : List Peer :=
  ps.map (fun p => if p.index == i then f p else p)

/-- `Cluster::node`. -/
def Node.node (n : Node) (i : Nat) : Peer := getP n.peers i
/-- `Cluster::local`. -/
def Node.loc (n : Node) : Peer := getP n.peers n.index
/-- `*Cluster::node_mut(i) = f(..)`. -/
def Node.modNode (n : Node) (i : Nat) (f : Peer → Peer) : Node := { n with peers := setP n.peers i f }
def Node.modLoc (n : Node) (f : Peer → Peer) : Node := n.modNode n.index f

/-- `Cluster::new`. -/
def Node.new (storage : Storage) (index size hash electionFactor heartbeat termTimeout : Nat)
    (v : Variant) : Node :=
  { storage
    peers := (List.range size).map (fun i =>
      { index := i
        logIndex := if i == index then storage.index else 0
        logTerm := if i == index then storage.term else 0
        logCommit := if i == index then storage.commit else 0
        timer := 0
        voted := i == index })
    state := if size == 1 then .leader else .election
    hash, size, index
    term := if size == 1 then 1 else storage.term
    firstElectionTimeout := min (electionFactor * index) u64Max
    electionTimeout := min (electionFactor * index) u64Max
    heartbeatTimeout := heartbeat
    termTimeout
    variant := v }

def Node.mkReq (n : Node) (target term : Nat) (data : ReqData) : Request :=
  { hash := n.hash, index := n.index, target, term
    logIndex := n.loc.logIndex, logTerm := n.loc.logTerm, logCommit := n.loc.logCommit, data }

/-- the peers other than the node itself, in `nodes` order -/
def Node.others (n : Node) : List Peer := n.peers.filter (fun p => n.index != p.index)

/-- `Cluster::commit_storage`. -/
def Node.commitStorage (n : Node) (i : Nat) : Node :=
  { n with storage := n.storage.commitTo i }.modLoc (fun p => { p with logCommit := i })

/-- `Cluster::append_storage`. -/
def Node.appendStorage (n : Node) (l : Log) : Node :=
  { n with storage := n.storage.append l }.modLoc (fun p => { p with logIndex := l.index, logTerm := l.term })

/-- `Cluster::append` (the client entry point; the server only calls it where `leader()` is the node itself). -/
def Node.append (n : Node) (data : Nat) : Node × List Request :=
  let n1 := n.modLoc (fun p => { p with logIndex := p.logIndex + 1 })
  let n2 := n1.modLoc (fun p => { p with logTerm := n1.term })
  let log : Log := ⟨n2.loc.logIndex, n2.term, data⟩
  let reqs := n2.others.map (fun p => n2.mkReq p.index n2.term (.append [log]))
  let n3 := { n2 with storage := n2.storage.append log }
  let n4 := if n3.size == 1 then n3.commitStorage n3.loc.logIndex else n3
  (n4, reqs)

/-- `Cluster::leader`. -/
def Node.leaderOf (n : Node) : Option Nat :=
  match n.state with
  | .leader => some n.index
  | .follower l => some l
  | _ => none

/-- `Cluster::heartbeat`. -/
def Node.heartbeat (n : Node) (now : Nat) : List Request :=
  (n.peers.filter (fun p => n.index != p.index && decide (now - (n.node p.index).timer > n.heartbeatTimeout))).map
    (fun p => n.mkReq p.index n.term .heartbeat)

def Node.touch (n : Node) (now : Nat) (reqs : List Request) : Node :=
  reqs.foldl (fun n r => n.modNode r.target (fun p => { p with timer := now })) n

/-- `Cluster::heartbeat_no_timer`. -/
def Node.heartbeatNoTimer (n : Node) (now : Nat) : Node × List Request :=
  let reqs := n.others.map (fun p => n.mkReq p.index n.term .heartbeat)
  (n.touch now reqs, reqs)

def Node.resetVotes (n : Node) : Node :=
  { n with peers := n.peers.map (fun p => if n.index != p.index then { p with voted := false } else p) }

/-- `Cluster::pre_election`. -/
def Node.preElection (n : Node) : Node × List Request :=
  let n1 := n.resetVotes
  (n1, n1.others.map (fun p => n1.mkReq p.index (n1.term + 1) .preVote))

/-- `Cluster::election`. -/
def Node.election (n : Node) : Node × List Request :=
  let n1 := { n with term := n.term + 1, state := .candidate }.resetVotes
  (n1, n1.others.map (fun p => n1.mkReq p.index n1.term .vote))

/-- `Cluster::process`. -/
def Node.process (n : Node) (now : Nat) : Node × Option (List Request) :=
  if n.state = .leader then
    let reqs := n.heartbeat now
    if reqs.isEmpty then (n, none) else (n.touch now reqs, some reqs)
  else if n.state = .election ∧ now - n.loc.timer ≥ n.electionTimeout then
    let r := n.preElection
    let n1 := r.1.modLoc (fun p => { p with timer := now })
    ({ n1 with electionTimeout := n1.heartbeatTimeout }, some r.2)
  else if now - n.loc.timer > n.termTimeout then
    let n1 := { n with state := .election }.modLoc (fun p => { p with timer := now })
    ({ n1 with electionTimeout := n1.firstElectionTimeout }, none)
  else (n, none)

def okResp (r : Request) : Response := ⟨r.index, .ok⟩

/-- `Cluster::validate_hash` (`none` = `Ok(())`). -/
def Node.validateHash (n : Node) (r : Request) : Option Response :=
  if n.hash ≠ r.hash then some ⟨r.index, .clusterMismatch ⟨some n.hash, some r.hash⟩⟩ else none

/-- `Cluster::validate_vote_state`. -/
def Node.validateVoteState (n : Node) (r : Request) : Option Response :=
  match n.state with
  | .leader | .candidate => some ⟨r.index, .leaderMismatch ⟨some n.index, none⟩⟩
  | .follower l => some ⟨r.index, .leaderMismatch ⟨some l, none⟩⟩
  | .voted t => if r.term ≤ t then some ⟨r.index, .alreadyVoted ⟨some t, some r.term⟩⟩ else none
  | .election => none

def Node.logMismatch (n : Node) (r : Request) (reqIndex reqTerm reqCommit : Nat) : Response :=
  ⟨r.index, .logMismatch ⟨some n.loc.logIndex, some reqIndex⟩ ⟨some n.loc.logTerm, some reqTerm⟩
    ⟨some n.loc.logCommit, some reqCommit⟩⟩

/-- `Cluster::validate_log`. -/
def Node.validateLog (n : Node) (r : Request) : Option Response :=
  if n.loc.logIndex ≠ r.logIndex ∨ n.loc.logTerm ≠ r.logTerm then
    some (n.logMismatch r r.logIndex r.logTerm r.logCommit)
  else none

/-- `Cluster::validate_log_append`. -/
def Node.validateLogAppend (n : Node) (r : Request) (l : Log) : Except Response Bool :=
  if n.loc.logTerm = l.term then
    if n.loc.logIndex ≥ l.index then .ok false
    else if n.loc.logCommit < l.index ∧ n.loc.logIndex + 1 = l.index then .ok true
    else .error (n.logMismatch r l.index l.term l.index)
  else if n.loc.logTerm < l.term ∧ n.loc.logCommit < l.index ∧ n.loc.logIndex + 1 ≥ l.index then .ok true
  else .error (n.logMismatch r l.index l.term l.index)

/-- `Cluster::validate_log_for_vote`. -/
def Node.validateLogForVote (n : Node) (r : Request) : Option Response :=
  if n.loc.logIndex > r.logIndex ∨ n.loc.logTerm > r.logTerm ∨ n.loc.logCommit > r.logCommit then
    some (n.logMismatch r r.logIndex r.logTerm r.logCommit)
  else none

/-- `Cluster::validate_term_for_vote`. -/
def Node.validateTermForVote (n : Node) (r : Request) : Option Response :=
  if n.term ≥ r.term then some ⟨r.index, .termMismatch ⟨some n.term, some r.term⟩⟩ else none

/-- `Cluster::validate_term`. -/
def Node.validateTerm (n : Node) (r : Request) : Option Response :=
  if n.term > r.term then some ⟨r.index, .termMismatch ⟨some n.term, some r.term⟩⟩ else none

/-- `Cluster::become_follower`. -/
def Node.becomeFollower (n : Node) (r : Request) : Node :=
  if n.term ≤ r.term then { n with term := r.term, state := .follower r.index } else n

/-- `Cluster::update_node`. -/
def Node.updateNode (n : Node) (i logIndex logTerm logCommit : Nat) : Node :=
  n.modNode i (fun p => { p with logIndex := logIndex, logTerm := logTerm, logCommit := logCommit })

/-- `Cluster::pre_vote_request`. -/
def Node.preVoteRequest (n : Node) (now : Nat) (r : Request) : Response :=
  match n.validateHash r with
  | some e => e
  | none =>
    match n.state with
    | .leader => ⟨r.index, .leaderMismatch ⟨some n.index, none⟩⟩
    | .follower l =>
      if now - n.loc.timer ≤ n.termTimeout then ⟨r.index, .leaderMismatch ⟨some l, none⟩⟩
      else match n.validateLogForVote r with
        | some e => e
        | none => okResp r
    | _ =>
      match n.validateLogForVote r with
      | some e => e
      | none => okResp r

/-- `Cluster::vote_request`. With `grantRaisesTerm` the voter's term becomes the granted term. -/
def Node.voteRequest (n : Node) (r : Request) : Node × Response :=
  match n.validateHash r with
  | some e => (n, e)
  | none =>
    match n.validateVoteState r with
    | some e => (n, e)
    | none =>
      match n.validateTermForVote r with
      | some e => (n, e)
      | none =>
        match n.validateLogForVote r with
        | some e => (n, e)
        | none =>
          ({ n with state := .voted r.term, term := if n.variant.grantRaisesTerm then r.term else n.term },
            okResp r)

/-- the `for log in logs` loop of `Cluster::append_request` (`some e` = early `Err(e)`) -/
def Node.appendLogs (n : Node) (r : Request) : List Log → Node × Option Response
  | [] => (n, none)
  | l :: ls =>
    match n.validateLogAppend r l with
    | .error e => (n, some e)
    | .ok b =>
      let n1 := if b then n.appendStorage l else n
      let n2 := if l.index ≤ r.logCommit ∧ n1.loc.logCommit < l.index then n1.commitStorage l.index else n1
      n2.appendLogs r ls

/-- `Cluster::append_request`. -/
def Node.appendRequest (n : Node) (r : Request) (logs : List Log) : Node × Response :=
  match n.validateHash r with
  | some e => (n, e)
  | none =>
    match n.validateTerm r with
    | some e => (n, e)
    | none =>
      let n1 := (n.becomeFollower r).updateNode r.index r.logIndex r.logTerm r.logCommit
      let res := n1.appendLogs r logs
      match res.2 with
      | some e => (res.1, e)
      | none => (res.1, okResp r)

/-- `Cluster::heartbeat_request`. -/
def Node.heartbeatRequest (n : Node) (r : Request) : Node × Response :=
  match n.validateHash r with
  | some e => (n, e)
  | none =>
    match n.validateTerm r with
    | some e => (n, e)
    | none =>
      let n1 := n.becomeFollower r
      match n1.validateLog r with
      | some e => (n1, e)
      | none =>
        let n2 := n1.updateNode r.index r.logIndex r.logTerm r.logCommit
        let n3 := if n2.loc.logCommit < r.logCommit then n2.commitStorage r.logCommit else n2
        (n3, okResp r)

/-- `Cluster::request`. -/
def Node.request (n : Node) (now : Nat) (r : Request) : Node × Response :=
  match r.data with
  | .append logs =>
    let res := n.appendRequest r logs
    (res.1.modLoc (fun p => { p with timer := now }), res.2)
  | .heartbeat =>
    let res := n.heartbeatRequest r
    (res.1.modLoc (fun p => { p with timer := now }), res.2)
  | .preVote => (n, n.preVoteRequest now r)
  | .vote =>
    let res := n.voteRequest r
    (res.1.modLoc (fun p => { p with timer := now }), res.2)

def Node.votes (n : Node) : Nat := (n.peers.filter (fun p => p.voted)).length

/-- `Cluster::pre_vote_received`. -/
def Node.preVoteReceived (n : Node) (now : Nat) (r : Request) : Node × Option (List Request) :=
  let n1 := n.modNode r.target (fun p => { p with voted := true })
  if n1.votes > n1.size / 2 then
    let e := (n1.modLoc (fun p => { p with timer := now })).election
    (e.1, some e.2)
  else (n1, none)

/-- `Cluster::vote_received`. -/
def Node.voteReceived (n : Node) (now : Nat) (r : Request) : Node × Option (List Request) :=
  let n1 := n.modNode r.target (fun p => { p with voted := true })
  if n1.votes > n1.size / 2 then
    let h := { n1 with state := .leader, term := r.term }.heartbeatNoTimer now
    (h.1, some h.2)
  else (n1, none)

/-- `Cluster::commit` (the leader's commit rule). -/
def Node.commit (n : Node) (now : Nat) (r : Request) : Node × Option (List Request) :=
  let n1 := n.modNode r.target (fun p =>
    { p with logIndex := r.logIndex, logTerm := r.logTerm, logCommit := r.logCommit })
  if n1.loc.logCommit < r.logIndex
      ∧ (n1.peers.filter (fun p => decide (p.logIndex ≥ r.logIndex))).length ≥ n1.size / 2 + 1 then
    let h := (n1.commitStorage r.logIndex).heartbeatNoTimer now
    (h.1, some h.2)
  else (n1, none)

/-- `Cluster::reconcile`. -/
def Node.reconcile (n : Node) (now : Nat) (r : Request) (commit : MV) : Node × Option (List Request) :=
  let logs := n.storage.logsFrom (commit.loc.getD (n.node r.target).logCommit)
  let n1 := n.modNode r.target (fun p => { p with timer := now })
  (n1, some [n1.mkReq r.target n1.term (.append logs)])

def Node.stepDown (n : Node) (now : Nat) (m : MV) : Node :=
  match m.loc with
  | some remote =>
    if remote > n.term then
      let n1 := { n with term := remote, state := .election }.modLoc (fun p => { p with timer := now })
      { n1 with electionTimeout := n1.firstElectionTimeout }
    else n
  | none => n

/-- `Cluster::response`. With `ignoreStaleVotes` the `(Candidate, Vote, OK)` arm carries the guard
`request.term == self.term`. -/
def Node.response (n : Node) (now : Nat) (req : Request) (resp : Response) : Node × Option (List Request) :=
  match n.state, req.data, resp.result with
  | .election, .preVote, .ok => n.preVoteReceived now req
  | .candidate, .vote, .ok =>
    if n.variant.ignoreStaleVotes && req.term != n.term then (n, none) else n.voteReceived now req
  | .leader, .heartbeat, .ok => n.commit now req
  | .leader, .append _, .ok => n.commit now req
  | .leader, .heartbeat, .logMismatch _ _ c => n.reconcile now req c
  | .leader, .append _, .logMismatch _ _ c => n.reconcile now req c
  | _, _, .termMismatch m => (n.stepDown now m, none)
  | _, _, _ => (n, none)

end Raft
