/-
  The cluster: N nodes, one virtual clock and an adversarial network.

  `msgs` is the append-only pool of every request / response ever sent; `deliver k` hands message `k`
  to its addressee and leaves it in the pool. Loss (never delivered), duplication (delivered again) and
  reordering (any order) are therefore all schedules of `deliver`; timers expire through `adv` + `tick`.
  Ghost (history) fields, not printed by the driver and never read by `step`'s protocol part:
  `grants` (voter, term, candidate) and `lcommitted` (entries committed by a node acting as leader).
-/
import AgdbRaft.Model.Raft

namespace Raft

inductive Msg where
  | req (r : Request)
  | resp (reqId : Nat) (req : Request) (r : Response)
deriving DecidableEq, Repr

structure Global where
  nodes : List Node
  msgs : List Msg
  now : Nat
  grants : List (Nat × Nat × Nat)
  lcommitted : List Entry
deriving Repr

inductive Event where
  | tick (n : Nat)
  | adv (d : Nat)
  | deliver (k : Nat)
  | append (n : Nat) (data : Nat)
deriving DecidableEq, Repr

def clusterHash : Nat := 123

def Global.init (size ef hb tt : Nat) (v : Variant) : Global :=
  { nodes := (List.range size).map (fun i => Node.new Storage.empty i size clusterHash ef hb tt v)
    msgs := []
    now := 0
    -- ghost: a single-node cluster starts as leader of term 1, i.e. has voted for itself in term 1
    grants := if size == 1 then [(0, 1, 0)] else []
    lcommitted := [] }

def Global.getNode? (g : Global) (i : Nat) : Option Node := g.nodes.find? (fun n => n.index == i)

def Global.setNode (g : Global) (n' : Node) : Global :=
  { g with nodes := g.nodes.map (fun n => if n.index == n'.index then n' else n) }

def Global.send (g : Global) (reqs : List Request) : Global :=
  { g with msgs := g.msgs ++ reqs.map Msg.req }

/-- entries that are flagged committed in `n'` but were not (as such) in `n` -/
def newlyCommitted (n n' : Node) : List Entry :=
  n'.storage.logs.filter (fun e => e.committed && !(n.storage.logs.contains e))

/-- ghost: a node that is leader before and after the event committed these entries -/
def Global.noteLeaderCommit (g : Global) (n n' : Node) : Global :=
  if n.state = .leader ∧ n'.state = .leader then { g with lcommitted := g.lcommitted ++ newlyCommitted n n' }
  else g

inductive Status where
  | ok | noNode | noMsg | notLeader
deriving DecidableEq, Repr

def step (g : Global) : Event → Global × Status
  | .adv d => ({ g with now := g.now + d }, .ok)
  | .tick i =>
    match g.getNode? i with
    | none => (g, .noNode)
    | some n =>
      let r := n.process g.now
      (((g.setNode r.1).send (r.2.getD [])), .ok)
  | .append i data =>
    match g.getNode? i with
    | none => (g, .noNode)
    | some n =>
      if n.leaderOf ≠ some i then (g, .notLeader)
      else
        let r := n.append data
        ((((g.setNode r.1).send r.2).noteLeaderCommit n r.1), .ok)
  | .deliver k =>
    match g.msgs[k]? with
    | none => (g, .noMsg)
    | some (.req r) =>
      match g.getNode? r.target with
      | none => (g, .noNode)
      | some n =>
        let res := n.request g.now r
        let g1 := g.setNode res.1
        let g2 := { g1 with msgs := g1.msgs ++ [Msg.resp k r res.2] }
        -- ghost: a granted vote
        let g3 := if r.data = .vote ∧ res.2.result = .ok then
            { g2 with grants := (n.index, r.term, r.index) :: g2.grants } else g2
        (g3, .ok)
    | some (.resp _ req resp) =>
      match g.getNode? resp.target with
      | none => (g, .noNode)
      | some n =>
        let res := n.response g.now req resp
        let g1 := (g.setNode res.1).send (res.2.getD [])
        -- ghost: starting an election is a vote for oneself in the new term
        let g2 := if n.state = .election ∧ res.1.state = .candidate then
            { g1 with grants := (n.index, res.1.term, n.index) :: g1.grants } else g1
        ((g2.noteLeaderCommit n res.1), .ok)

/-- the messages sent by the last event -/
def emitted (g g' : Global) : List (Nat × Msg) :=
  ((g'.msgs.drop g.msgs.length).zipIdx g.msgs.length).map (fun p => (p.2, p.1))

def run (g : Global) (evs : List Event) : Global := evs.foldl (fun g e => (step g e).1) g

/-- Every state the cluster can reach: any cluster size and timer configuration, any sequence of
timer ticks, clock advances, message deliveries (any order, any number of times, or never) and
client appends. -/
inductive Reachable (v : Variant) : Global → Prop where
  | init (size ef hb tt : Nat) : Reachable v (Global.init size ef hb tt v)
  | step {g : Global} (e : Event) : Reachable v g → Reachable v (step g e).1

theorem reachable_run {v : Variant} {g : Global} (h : Reachable v g) (evs : List Event) :
    Reachable v (run g evs) := by
  induction evs generalizing g with
  | nil => exact h
  | cons e es ih => exact ih (Reachable.step e h)

/-- node `i` is in `Leader` state with term `t` -/
def isLeader (g : Global) (i t : Nat) : Prop :=
  ∃ n ∈ g.nodes, n.index = i ∧ n.state = .leader ∧ n.term = t

instance (g : Global) (i t : Nat) : Decidable (isLeader g i t) := by
  unfold isLeader; exact inferInstance

end Raft
