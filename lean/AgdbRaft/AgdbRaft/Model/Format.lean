/-
  Canonical text of states and messages (must agree byte for byte with harness/raft/src/sim.rs)
  and the op-line parser of the driver.
-/
import AgdbRaft.Model.Net

namespace Raft

def joinWith (sep : String) (l : List String) : String := sep.intercalate l

def CState.text : CState → String
  | .candidate => "C"
  | .election => "E"
  | .follower l => s!"F{l}"
  | .leader => "L"
  | .voted t => s!"V{t}"

def Entry.text (e : Entry) : String :=
  s!"{e.index}/{e.term}/{e.data}/{if e.committed then "c" else "u"}"

def Peer.text (p : Peer) : String :=
  s!"{p.logIndex}/{p.logTerm}/{p.logCommit}/{p.timer}/{if p.voted then 1 else 0}"

def Node.text (n : Node) : String :=
  s!"{n.index}:{n.state.text}:t{n.term}:e{n.electionTimeout}:L[{joinWith "," (n.storage.logs.map Entry.text)}]" ++
  s!":S{n.storage.index}/{n.storage.term}/{n.storage.commit}:P[{joinWith "," (n.peers.map Peer.text)}]"

def ReqData.text : ReqData → String
  | .append logs => s!"A[{joinWith "," (logs.map (fun l => s!"{l.index}/{l.term}/{l.data}"))}]"
  | .heartbeat => "H"
  | .preVote => "P"
  | .vote => "V"

def Request.text (r : Request) : String :=
  s!"Q{r.index}>{r.target}/h{r.hash}/t{r.term}/{r.logIndex}/{r.logTerm}/{r.logCommit}/{r.data.text}"

def optText : Option Nat → String
  | some x => toString x
  | none => "-"

def MV.text (m : MV) : String := s!"{optText m.loc},{optText m.requested}"

def RespResult.text : RespResult → String
  | .ok => "OK"
  | .commitError => "CE"
  | .clusterMismatch m => s!"CM({m.text})"
  | .leaderMismatch m => s!"LM({m.text})"
  | .termMismatch m => s!"TM({m.text})"
  | .logMismatch i t c => s!"LG({i.text},{t.text},{c.text})"
  | .alreadyVoted m => s!"AV({m.text})"

def Response.text (r : Response) : String := s!"{r.target}/{r.result.text}"

def msgText (k : Nat) : Msg → String
  | .req r => s!"{k}={r.text}"
  | .resp reqId _ r => s!"{k}=R{reqId}>{r.text}"

def lineText (status : String) (g g' : Global) : String :=
  s!"T{g'.now} {status}" ++ String.join (g'.nodes.map (fun n => "|" ++ n.text)) ++
  s!"|M[{joinWith ";" ((emitted g g').map (fun p => msgText p.1 p.2))}]"

def Status.text : Status → String
  | .ok => "ok"
  | .noNode => "nonode"
  | .noMsg => "nomsg"
  | .notLeader => "notleader"

def maxNodes : Nat := 7
def maxAdv : Nat := 1000000000
def maxData : Nat := 4294967296

def parseNum (s : String) : Option Nat :=
  if s.isEmpty || s.length > 18 || !s.all Char.isDigit then none else s.toNat?

def parseVariant : String → Option Variant
  | "fixed" => some ⟨true, true⟩
  | "legacy" => some ⟨false, false⟩
  | "fixgrant" => some ⟨true, false⟩
  | "fixstale" => some ⟨false, true⟩
  | _ => none

inductive Op where
  | init (size ef hb tt : Nat) (v : Variant)
  | ev (e : Event)
  | ff
  | goal

def parseOp (line : String) : Option Op :=
  match line.splitOn " " with
  | ["init", s, ef, hb, tt, v] => do
    let s ← parseNum s
    let ef ← parseNum ef
    let hb ← parseNum hb
    let tt ← parseNum tt
    let v ← parseVariant v
    if s == 0 || s > maxNodes || ef > maxAdv || hb > maxAdv || tt > maxAdv then none
    else some (.init s ef hb tt v)
  | ["ff"] => some .ff
  | ["goal"] => some .goal
  | ["tick", n] => do let n ← parseNum n; some (.ev (.tick n))
  | ["adv", d] => do
    let d ← parseNum d
    if d > maxAdv then none else some (.ev (.adv d))
  | ["deliver", k] => do let k ← parseNum k; some (.ev (.deliver k))
  | ["append", n, d] => do
    let n ← parseNum n
    let d ← parseNum d
    if d ≥ maxData then none else some (.ev (.append n d))
  | _ => none

/-- One driver step: the new cluster (if any) and the output line. -/
def driverStep (st : Option Global) (line : String) : Option Global × String :=
  match parseOp line with
  | none => (st, "bad-op")
  | some (.init s ef hb tt v) =>
    let g := Global.init s ef hb tt v
    (some g, lineText "init" g g)
  | some op =>
    match st with
    | none => (st, "noinit")
    | some g =>
      match op with
      | .ev e =>
        let r := step g e
        (some r.1, lineText r.2.text g r.1)
      | .ff => (st, lineText "ff" g g)
      | .goal => (st, lineText "goal" g g)
      | .init .. => (st, "bad-op")

end Raft
