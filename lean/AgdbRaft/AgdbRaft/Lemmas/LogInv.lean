/-
  The per-node log invariant (C28 local clauses) and the effect of the two storage-changing
  primitives, `commit_storage` and `append_storage`.
-/
import AgdbRaft.Lemmas.LogBasic

namespace Raft

structure LogInv (n : Node) : Prop where
  /-- `Storage::log_commit()` never runs ahead of the raft-level commit index -/
  scLe : n.storage.commit ≤ n.loc.logCommit
  /-- entries flagged committed lie at or below the commit index -/
  comLe : ∀ e ∈ n.storage.logs, e.committed = true → e.index ≤ n.loc.logCommit
  /-- no entry lies beyond `log_index` -/
  idxLe : ∀ e ∈ n.storage.logs, e.index ≤ n.loc.logIndex
  /-- one entry per index, in increasing order -/
  sorted : n.storage.logs.Pairwise (fun a b => a.index < b.index)

structure LOk (n : Node) : Prop where
  hasLoc : HasLoc n
  inv : LogInv n

/-- what one event may do to a node's log: both commit indexes only grow, every entry at or below
the commit index stays (same index, term and payload; a committed flag is never cleared) -/
structure LStep (n n' : Node) : Prop where
  commit : n.loc.logCommit ≤ n'.loc.logCommit
  scommit : n.storage.commit ≤ n'.storage.commit
  keep : ∀ e ∈ n.storage.logs, e.index ≤ n.loc.logCommit →
    ∃ e' ∈ n'.storage.logs, e'.index = e.index ∧ e'.term = e.term ∧ e'.data = e.data ∧
      (e.committed = true → e'.committed = true)

theorem LStep.refl (n : Node) : LStep n n :=
  ⟨Nat.le_refl _, Nat.le_refl _, fun e he _ => ⟨e, he, rfl, rfl, rfl, id⟩⟩

theorem LStep.trans {a b c : Node} (h1 : LStep a b) (h2 : LStep b c) : LStep a c where
  commit := Nat.le_trans h1.commit h2.commit
  scommit := Nat.le_trans h1.scommit h2.scommit
  keep := by
    intro e he hle
    obtain ⟨e1, he1, hi1, ht1, hd1, hc1⟩ := h1.keep e he hle
    obtain ⟨e2, he2, hi2, ht2, hd2, hc2⟩ := h2.keep e1 he1 (by rw [hi1]; exact Nat.le_trans hle h1.commit)
    exact ⟨e2, he2, hi2.trans hi1, ht2.trans ht1, hd2.trans hd1, fun h => hc2 (hc1 h)⟩

/-- conclusion bundle of a node-level transition -/
structure LT (n n' : Node) : Prop where
  index : n'.index = n.index
  size : n'.size = n.size
  ok : LOk n'
  step : LStep n n'

theorem LT.refl {n : Node} (h : LOk n) : LT n n := ⟨rfl, rfl, h, LStep.refl n⟩

theorem LT.trans {a b c : Node} (h1 : LT a b) (h2 : LT b c) : LT a c :=
  ⟨h2.index.trans h1.index, h2.size.trans h1.size, h2.ok, h1.step.trans h2.step⟩

theorem LSame.lt {n n' : Node} (h : LSame n n') (hok : LOk n) : LT n n' := by
  refine ⟨h.index, h.size, ⟨h.hasLoc hok.hasLoc, ?_⟩, ?_⟩
  · obtain ⟨a, b, c, d⟩ := hok.inv
    refine ⟨?_, ?_, ?_, ?_⟩
    · rw [h.storage, h.commit]; exact a
    · rw [h.storage, h.commit]; exact b
    · rw [h.storage, h.lindex]; exact c
    · rw [h.storage]; exact d
  · refine ⟨Nat.le_of_eq h.commit.symm, by rw [h.storage]; exact Nat.le_refl _, ?_⟩
    intro e he _
    exact ⟨e, (by rw [h.storage]; exact he), rfl, rfl, rfl, id⟩

theorem LT.ite {c : Prop} [Decidable c] {n a b : Node} (ha : c → LT n a) (hb : ¬c → LT n b) :
    LT n (if c then a else b) := by
  split
  · exact ha ‹_›
  · exact hb ‹_›

/-! ### `commit_storage` -/

theorem commitTo_mem {s : Storage} {i : Nat} {e' : Entry} (h : e' ∈ (s.commitTo i).logs) :
    ∃ e ∈ s.logs, e'.index = e.index ∧ e'.term = e.term ∧ e'.data = e.data ∧
      (e'.committed = true → e.committed = true ∨ e.index ≤ i) ∧ (e.committed = true → e'.committed = true) := by
  unfold Storage.commitTo at h
  obtain ⟨e, he, rfl⟩ := List.mem_map.mp h
  refine ⟨e, he, ?_⟩
  by_cases hc : (!e.committed && decide (e.index ≤ i)) = true
  · rw [if_pos hc]
    simp only [Bool.and_eq_true, Bool.not_eq_true', decide_eq_true_eq] at hc
    exact ⟨rfl, rfl, rfl, fun _ => Or.inr hc.2, fun _ => rfl⟩
  · rw [if_neg hc]
    exact ⟨rfl, rfl, rfl, fun h => Or.inl h, id⟩

theorem lt_commitStorage (n : Node) (i : Nat) (hok : LOk n) (hlt : n.loc.logCommit < i) :
    LT n (n.commitStorage i) := by
  have hloc : (n.commitStorage i).loc = { n.loc with logCommit := i } := by
    unfold Node.commitStorage
    have hl : HasLoc { n with storage := n.storage.commitTo i } := hok.hasLoc
    rw [loc_modLoc { n with storage := n.storage.commitTo i } (fun p => { p with logCommit := i }) (fun _ => rfl) hl]
    rfl
  have hst : (n.commitStorage i).storage = n.storage.commitTo i := rfl
  obtain ⟨a, b, c, d⟩ := hok.inv
  refine ⟨rfl, rfl, ⟨?_, ?_, ?_, ?_, ?_⟩, ?_, ?_, ?_⟩
  · unfold Node.commitStorage
    exact hasLoc_modLoc { n with storage := n.storage.commitTo i } (fun p => { p with logCommit := i })
      (fun _ => rfl) hok.hasLoc
  · rw [hloc, hst]
    show (n.storage.commitTo i).commit ≤ i
    unfold Storage.commitTo
    dsimp only
    split
    · exact Nat.le_refl _
    · omega
  · intro e' he' hc'
    rw [hloc]; rw [hst] at he'
    obtain ⟨e, he, hi, _, _, hc, _⟩ := commitTo_mem he'
    show e'.index ≤ i
    rcases hc hc' with h | h
    · have := b e he h; omega
    · omega
  · intro e' he'
    rw [hloc]; rw [hst] at he'
    obtain ⟨e, he, hi, _⟩ := commitTo_mem he'
    show e'.index ≤ n.loc.logIndex
    rw [hi]; exact c e he
  · rw [hst]
    unfold Storage.commitTo
    dsimp only
    rw [List.pairwise_map]
    refine d.imp ?_
    intro x y hxy
    by_cases h1 : (!x.committed && decide (x.index ≤ i)) = true <;>
      by_cases h2 : (!y.committed && decide (y.index ≤ i)) = true <;> simp only [h1, h2] <;> exact hxy
  · rw [hloc]; show n.loc.logCommit ≤ i; omega
  · rw [hst]
    unfold Storage.commitTo
    dsimp only
    split
    · omega
    · exact Nat.le_refl _
  · intro e he _
    rw [hst]
    unfold Storage.commitTo
    dsimp only
    refine ⟨_, List.mem_map.mpr ⟨e, he, rfl⟩, ?_⟩
    by_cases hc : (!e.committed && decide (e.index ≤ i)) = true
    · rw [if_pos hc]; exact ⟨rfl, rfl, rfl, fun _ => rfl⟩
    · rw [if_neg hc]; exact ⟨rfl, rfl, rfl, id⟩

/-! ### `Storage::append` -/

/-- Appending `l` keeps every entry below `l.index`; when every committed entry is below `l.index`
the result is again sorted and bounded by `l.index`. -/
theorem storage_append_facts (s : Storage) (l : Log)
    (hsorted : s.logs.Pairwise (fun a b => a.index < b.index))
    (hcom : ∀ e ∈ s.logs, e.committed = true → e.index < l.index) :
    (s.append l).commit = s.commit ∧
    (∀ e ∈ (s.append l).logs, e.index ≤ l.index) ∧
    (∀ e ∈ (s.append l).logs, e.committed = true → e ∈ s.logs) ∧
    (s.append l).logs.Pairwise (fun a b => a.index < b.index) ∧
    (∀ e ∈ s.logs, e.index < l.index → e ∈ (s.append l).logs) := by
  have hkept : ∀ e ∈ s.logs.filter (fun e => e.committed || decide (e.index < l.index)), e.index < l.index := by
    intro e he
    obtain ⟨hm, hp⟩ := List.mem_filter.mp he
    simp only [Bool.or_eq_true, decide_eq_true_eq] at hp
    rcases hp with h | h
    · exact hcom e hm h
    · exact h
  refine ⟨rfl, ?_, ?_, ?_, ?_⟩
  · intro e he
    unfold Storage.append at he
    rcases List.mem_append.mp he with h | h
    · exact Nat.le_of_lt (hkept e h)
    · simp at h; subst h; exact Nat.le_refl _
  · intro e he hc
    unfold Storage.append at he
    rcases List.mem_append.mp he with h | h
    · exact (List.mem_filter.mp h).1
    · simp at h; subst h; cases hc
  · unfold Storage.append
    dsimp only
    rw [List.pairwise_append]
    refine ⟨hsorted.sublist List.filter_sublist, List.pairwise_singleton _ _, ?_⟩
    intro a ha b hb
    simp at hb; subst hb
    exact hkept a ha
  · intro e he hlt
    unfold Storage.append
    dsimp only
    apply List.mem_append_left
    exact List.mem_filter.mpr ⟨he, by simp [hlt]⟩

theorem lt_appendStorage (n : Node) (l : Log) (hok : LOk n) (hlt : n.loc.logCommit < l.index) :
    LT n (n.appendStorage l) := by
  have hloc : (n.appendStorage l).loc = { n.loc with logIndex := l.index, logTerm := l.term } := by
    unfold Node.appendStorage
    have hl : HasLoc { n with storage := n.storage.append l } := hok.hasLoc
    rw [loc_modLoc { n with storage := n.storage.append l }
      (fun p => { p with logIndex := l.index, logTerm := l.term }) (fun _ => rfl) hl]
    rfl
  have hst : (n.appendStorage l).storage = n.storage.append l := rfl
  obtain ⟨a, b, c, d⟩ := hok.inv
  obtain ⟨f1, f2, f3, f4, f5⟩ := storage_append_facts n.storage l d
    (fun e he hc => Nat.lt_of_le_of_lt (b e he hc) hlt)
  refine ⟨rfl, rfl, ⟨?_, ?_, ?_, ?_, ?_⟩, ?_, ?_, ?_⟩
  · unfold Node.appendStorage
    exact hasLoc_modLoc { n with storage := n.storage.append l }
      (fun p => { p with logIndex := l.index, logTerm := l.term }) (fun _ => rfl) hok.hasLoc
  · rw [hloc, hst, f1]; exact a
  · intro e he hc
    rw [hloc]; rw [hst] at he
    exact b e (f3 e he hc) hc
  · intro e he
    rw [hloc]; rw [hst] at he
    exact f2 e he
  · rw [hst]; exact f4
  · rw [hloc]; exact Nat.le_refl _
  · rw [hst, f1]; exact Nat.le_refl _
  · intro e he hle
    rw [hst]
    exact ⟨e, f5 e he (by omega), rfl, rfl, rfl, id⟩

end Raft
