/-
  The inductive invariant behind C27 (repaired code): votes are cast at most once per
  (voter, term) (`grants` history), a candidate's vote flags are backed by grants of its current term,
  a leader of term `t` holds a majority of grants of term `t`.
-/
import AgdbRaft.Lemmas.Election

namespace Raft

theorem filter_length_le_map {α β : Type} (l : List α) (f : α → β) (p : α → Bool) (q : β → Bool)
    (h : ∀ x ∈ l, p x = true → q (f x) = true) :
    (l.filter p).length ≤ ((l.map f).filter q).length := by
  induction l with
  | nil => simp
  | cons a l ih =>
    have ih' := ih (fun x hx => h x (List.mem_cons_of_mem a hx))
    simp only [List.filter_cons, List.map_cons]
    by_cases hp : p a = true
    · have hq := h a List.mem_cons_self hp
      simp [hp, hq]; omega
    · simp [hp]
      split
      · simp; omega
      · exact ih'

/-- two majorities of the same list meet -/
theorem filter_inter {α : Type} (l : List α) (p q : α → Bool)
    (h : l.length < (l.filter p).length + (l.filter q).length) : ∃ x ∈ l, p x = true ∧ q x = true := by
  induction l with
  | nil => simp at h
  | cons a l ih =>
    by_cases hp : p a = true <;> by_cases hq : q a = true
    · exact ⟨a, List.mem_cons_self, hp, hq⟩
    all_goals
      have : l.length < (l.filter p).length + (l.filter q).length := by
        simp [hp, hq] at h; omega
      obtain ⟨x, hx, h1, h2⟩ := ih this
      exact ⟨x, List.mem_cons_of_mem a hx, h1, h2⟩

def quorumL (gr : List (Nat × Nat × Nat)) (size t c : Nat) : Prop :=
  size / 2 < ((List.range size).filter (fun v => decide ((v, t, c) ∈ gr))).length

theorem quorumL_mono {gr gr' : List (Nat × Nat × Nat)} (h : ∀ x, x ∈ gr → x ∈ gr') {s t c : Nat}
    (hq : quorumL gr s t c) : quorumL gr' s t c := by
  unfold quorumL at *
  refine Nat.lt_of_lt_of_le hq ?_
  have := filter_length_le_map (List.range s) id (fun v => decide ((v, t, c) ∈ gr))
    (fun v => decide ((v, t, c) ∈ gr')) (by
      intro x _ hx
      simp only [decide_eq_true_eq] at hx ⊢
      exact h _ hx)
  simpa using this

structure Inv (g : Global) : Prop where
  variant : ∀ n ∈ g.nodes, n.variant = Variant.fixed
  sizeEq : ∀ n ∈ g.nodes, n.size = g.nodes.length
  wf : ∀ n ∈ g.nodes, n.flags.map Prod.fst = List.range n.size
  grantsTerm : ∀ v t c, (v, t, c) ∈ g.grants → ∀ n ∈ g.nodes, n.index = v → t ≤ n.term
  grantsUnique : ∀ v t c c', (v, t, c) ∈ g.grants → (v, t, c') ∈ g.grants → c = c'
  respGrant : ∀ k req resp, Msg.resp k req resp ∈ g.msgs →
    resp.target = req.index ∧
    (req.data = .vote → resp.result = .ok → (req.target, req.term, req.index) ∈ g.grants)
  cand : ∀ n ∈ g.nodes, n.state = .candidate →
    ∀ q ∈ n.flags, q.2 = true → (q.1, n.term, n.index) ∈ g.grants
  lead : ∀ n ∈ g.nodes, n.state = .leader → quorumL g.grants n.size n.term n.index

/-- One node `n` is replaced by `n'`, messages and grants are added. -/
theorem inv_update {g g' : Global} (hinv : Inv g) {n n' : Node} (hn : n ∈ g.nodes)
    {newMsgs : List Msg} {newGrants : List (Nat × Nat × Nat)}
    (hnodes : g'.nodes = g.nodes.map (fun m => if m.index == n'.index then n' else m))
    (hmsgs : g'.msgs = g.msgs ++ newMsgs)
    (hgrants : g'.grants = newGrants ++ g.grants)
    (hindex : n'.index = n.index) (hsize : n'.size = n.size) (hvariant : n'.variant = n.variant)
    (hidx : n'.flags.map Prod.fst = n.flags.map Prod.fst) (hterm : n.term ≤ n'.term)
    (hnew : ∀ v t c, (v, t, c) ∈ newGrants → v = n.index ∧ n.term < t ∧ t ≤ n'.term)
    (hnewU : ∀ v t c c', (v, t, c) ∈ newGrants → (v, t, c') ∈ newGrants → c = c')
    (hresp : ∀ k req resp, Msg.resp k req resp ∈ newMsgs →
      resp.target = req.index ∧
      (req.data = .vote → resp.result = .ok → (req.target, req.term, req.index) ∈ newGrants ++ g.grants))
    (hcand : n'.state = .candidate → ∀ q ∈ n'.flags, q.2 = true → (q.1, n'.term, n'.index) ∈ newGrants ++ g.grants)
    (hlead : n'.state = .leader → quorumL (newGrants ++ g.grants) n'.size n'.term n'.index) : Inv g' := by
  have hmem : ∀ m' ∈ g'.nodes, m' = n' ∨ (m' ∈ g.nodes ∧ m'.index ≠ n.index) := by
    intro m' hm'
    rw [hnodes] at hm'
    obtain ⟨m, hm, rfl⟩ := List.mem_map.mp hm'
    by_cases h : m.index = n'.index
    · left; simp [h]
    · right; simp [h]; exact ⟨hm, by rw [← hindex]; exact h⟩
  have hmono : ∀ x, x ∈ g.grants → x ∈ g'.grants := by
    intro x hx; rw [hgrants]; exact List.mem_append_right _ hx
  refine ⟨?_, ?_, ?_, ?_, ?_, ?_, ?_, ?_⟩
  · intro m' hm'
    rcases hmem m' hm' with rfl | ⟨hm, _⟩
    · rw [hvariant]; exact hinv.variant n hn
    · exact hinv.variant m' hm
  · intro m' hm'
    have hlen : g'.nodes.length = g.nodes.length := by rw [hnodes, List.length_map]
    rw [hlen]
    rcases hmem m' hm' with rfl | ⟨hm, _⟩
    · rw [hsize]; exact hinv.sizeEq n hn
    · exact hinv.sizeEq m' hm
  · intro m' hm'
    rcases hmem m' hm' with rfl | ⟨hm, _⟩
    · rw [hidx, hsize]; exact hinv.wf n hn
    · exact hinv.wf m' hm
  · intro v t c hg m' hm' hv
    rw [hgrants] at hg
    rcases List.mem_append.mp hg with hg | hg
    · obtain ⟨hv', _, hle⟩ := hnew v t c hg
      rcases hmem m' hm' with rfl | ⟨_, hne⟩
      · exact hle
      · exact absurd (hv.trans hv') hne
    · rcases hmem m' hm' with rfl | ⟨hm, _⟩
      · exact Nat.le_trans (hinv.grantsTerm v t c hg n hn (hindex ▸ hv)) hterm
      · exact hinv.grantsTerm v t c hg m' hm hv
  · intro v t c c' h1 h2
    rw [hgrants] at h1 h2
    rcases List.mem_append.mp h1 with h1 | h1 <;> rcases List.mem_append.mp h2 with h2 | h2
    · exact hnewU v t c c' h1 h2
    · obtain ⟨hv, hlt, _⟩ := hnew v t c h1
      have := hinv.grantsTerm v t c' h2 n hn hv.symm
      omega
    · obtain ⟨hv, hlt, _⟩ := hnew v t c' h2
      have := hinv.grantsTerm v t c h1 n hn hv.symm
      omega
    · exact hinv.grantsUnique v t c c' h1 h2
  · intro k req resp hm
    rw [hmsgs] at hm
    rw [hgrants]
    rcases List.mem_append.mp hm with hm | hm
    · obtain ⟨a, b⟩ := hinv.respGrant k req resp hm
      exact ⟨a, fun h1 h2 => List.mem_append_right _ (b h1 h2)⟩
    · exact hresp k req resp hm
  · intro m' hm' hs q hq hv
    rcases hmem m' hm' with rfl | ⟨hm, _⟩
    · rw [hgrants]; exact hcand hs q hq hv
    · exact hmono _ (hinv.cand m' hm hs q hq hv)
  · intro m' hm' hs
    rcases hmem m' hm' with rfl | ⟨hm, _⟩
    · rw [hgrants]; exact hlead hs
    · exact quorumL_mono hmono (hinv.lead m' hm hs)

theorem inv_congr {g g' : Global} (hinv : Inv g) (h1 : g'.nodes = g.nodes) (h2 : g'.msgs = g.msgs)
    (h3 : g'.grants = g.grants) : Inv g' := by
  obtain ⟨a, b, c, d, e, f, i, j⟩ := hinv
  refine ⟨?_, ?_, ?_, ?_, ?_, ?_, ?_, ?_⟩ <;> simp only [h1, h2, h3] <;> assumption

theorem getNode?_mem {g : Global} {i : Nat} {n : Node} (h : g.getNode? i = some n) :
    n ∈ g.nodes ∧ n.index = i := by
  unfold Global.getNode? at h
  refine ⟨List.mem_of_find?_eq_some h, ?_⟩
  have := List.find?_some h
  simpa using this

theorem inv_init (size ef hb tt : Nat) : Inv (Global.init size ef hb tt Variant.fixed) := by
  have hmem : ∀ n ∈ (Global.init size ef hb tt Variant.fixed).nodes,
      ∃ i, i < size ∧ n = Node.new Storage.empty i size clusterHash ef hb tt Variant.fixed := by
    intro n hn
    simp only [Global.init, List.mem_map, List.mem_range] at hn
    obtain ⟨i, hi, rfl⟩ := hn
    exact ⟨i, hi, rfl⟩
  refine ⟨?_, ?_, ?_, ?_, ?_, ?_, ?_, ?_⟩
  · intro n hn
    obtain ⟨i, _, rfl⟩ := hmem n hn
    rfl
  · intro n hn
    obtain ⟨i, _, rfl⟩ := hmem n hn
    simp [Global.init, Node.new]
  · intro n hn
    obtain ⟨i, _, rfl⟩ := hmem n hn
    simp [Node.new, Node.flags, List.map_map, Function.comp_def]
  · intro v t c hg n hn hv
    obtain ⟨i, hi, rfl⟩ := hmem n hn
    simp only [Global.init] at hg
    split at hg
    · rename_i h1
      simp at hg
      obtain ⟨rfl, rfl, rfl⟩ := hg
      simp [Node.new, h1]
    · simp at hg
  · intro v t c c' h h'
    simp only [Global.init] at h h'
    split at h
    · simp at h h'
      rw [h.2.2, h'.2.2.2]
    · simp at h
  · intro k req resp h
    simp [Global.init] at h
  · intro n hn hs
    obtain ⟨i, _, rfl⟩ := hmem n hn
    simp only [Node.new] at hs
    split at hs <;> cases hs
  · intro n hn hs
    obtain ⟨i, hi, rfl⟩ := hmem n hn
    simp only [Node.new] at hs
    split at hs
    · rename_i h1
      have h1' : size = 1 := by simpa using h1
      subst h1'
      have hi0 : i = 0 := by omega
      subst hi0
      show quorumL [(0, 1, 0)] 1 1 0
      unfold quorumL
      decide
    · cases hs

/-- `inv_update` for a `Core` transition. -/
theorem inv_update_core {g g' : Global} (hinv : Inv g) {n n' : Node} (hn : n ∈ g.nodes) (hc : Core n n')
    {newMsgs : List Msg} {newGrants : List (Nat × Nat × Nat)}
    (hnodes : g'.nodes = g.nodes.map (fun m => if m.index == n'.index then n' else m))
    (hmsgs : g'.msgs = g.msgs ++ newMsgs)
    (hgrants : g'.grants = newGrants ++ g.grants)
    (hnew : ∀ v t c, (v, t, c) ∈ newGrants → v = n.index ∧ n.term < t ∧ t ≤ n'.term)
    (hnewU : ∀ v t c c', (v, t, c) ∈ newGrants → (v, t, c') ∈ newGrants → c = c')
    (hresp : ∀ k req resp, Msg.resp k req resp ∈ newMsgs →
      resp.target = req.index ∧
      (req.data = .vote → resp.result = .ok → (req.target, req.term, req.index) ∈ newGrants ++ g.grants)) :
    Inv g' := by
  refine inv_update hinv hn hnodes hmsgs hgrants hc.index hc.size hc.variant hc.idx hc.term_le
    hnew hnewU hresp ?_ ?_
  · intro hs q hq hv
    obtain ⟨s, t, f⟩ := hc.cand hs
    rw [t, hc.index]
    exact List.mem_append_right _ (hinv.cand n hn s q (f ▸ hq) hv)
  · intro hs
    obtain ⟨s, t⟩ := hc.lead hs
    rw [t, hc.index, hc.size]
    exact quorumL_mono (fun x hx => List.mem_append_right _ hx) (hinv.lead n hn s)

theorem noteLeaderCommit_fields (g : Global) (n n' : Node) :
    (g.noteLeaderCommit n n').nodes = g.nodes ∧ (g.noteLeaderCommit n n').msgs = g.msgs ∧
    (g.noteLeaderCommit n n').grants = g.grants := by
  unfold Global.noteLeaderCommit
  split <;> exact ⟨rfl, rfl, rfl⟩

theorem inv_step (g : Global) (e : Event) (hinv : Inv g) : Inv (step g e).1 := by
  cases e with
  | adv d => exact inv_congr hinv rfl rfl rfl
  | tick i =>
    simp only [step]
    split
    · exact hinv
    · rename_i n hget
      obtain ⟨hn, _⟩ := getNode?_mem hget
      exact inv_update_core hinv hn (core_process n g.now) (newGrants := [])
        (newMsgs := ((n.process g.now).2.getD []).map Msg.req) rfl rfl rfl (by simp) (by simp) (by simp)
  | append i data =>
    simp only [step]
    split
    · exact hinv
    · rename_i n hget
      obtain ⟨hn, _⟩ := getNode?_mem hget
      split
      · exact hinv
      · obtain ⟨h1, h2, h3⟩ := noteLeaderCommit_fields
          ((g.setNode (n.append data).1).send (n.append data).2) n (n.append data).1
        exact inv_update_core hinv hn (core_append n data) (newGrants := [])
          (newMsgs := (n.append data).2.map Msg.req) (by rw [h1]; rfl) (by rw [h2]; rfl) (by rw [h3]; rfl)
          (by simp) (by simp) (by simp)
  | deliver k =>
    simp only [step]
    split
    · exact hinv
    · -- a request reaches its target
      rename_i r hmsg
      split
      · exact hinv
      · rename_i n hget
        obtain ⟨hn, hni⟩ := getNode?_mem hget
        have hvar := hinv.variant n hn
        obtain ⟨hc, htarget, hvote⟩ := core_request n g.now r (by rw [hvar]; rfl)
        dsimp only
        split
        · rename_i hgrant
          obtain ⟨hlt, hterm⟩ := hvote hgrant.1 hgrant.2
          refine inv_update_core hinv hn hc (newGrants := [(n.index, r.term, r.index)])
            (newMsgs := [Msg.resp k r (n.request g.now r).2]) rfl rfl rfl ?_ ?_ ?_
          · intro v t c h
            simp at h
            obtain ⟨rfl, rfl, rfl⟩ := h
            exact ⟨rfl, hlt, Nat.le_of_eq hterm.symm⟩
          · intro v t c c' h h'
            simp at h h'
            rw [h.2.2, h'.2.2]
          · intro k' req resp h
            simp at h
            obtain ⟨_, rfl, rfl⟩ := h
            refine ⟨htarget, fun _ _ => ?_⟩
            simp [hni]
        · rename_i hgrant
          refine inv_update_core hinv hn hc (newGrants := [])
            (newMsgs := [Msg.resp k r (n.request g.now r).2]) rfl rfl rfl (by simp) (by simp) ?_
          intro k' req resp h
          simp at h
          obtain ⟨_, rfl, rfl⟩ := h
          exact ⟨htarget, fun h1 h2 => absurd ⟨h1, h2⟩ hgrant⟩
    · -- an answer reaches the sender of the request
      rename_i k' req resp hmsg
      split
      · exact hinv
      · rename_i n hget
        obtain ⟨hn, hni⟩ := getNode?_mem hget
        have hvar := hinv.variant n hn
        have hmem : Msg.resp k' req resp ∈ g.msgs := List.mem_of_getElem? hmsg
        obtain ⟨hrt, hrg⟩ := hinv.respGrant k' req resp hmem
        have hrc := respCore_response n g.now req resp (by rw [hvar]; rfl)
        have hreqidx : req.index = n.index := by rw [← hrt, hni]
        -- flags backed by grants (old or the answer being processed)
        have hback : ∀ q, (q ∈ n.flags ∨ VoteOk n req resp q.1) → n.state = .candidate → q.2 = true →
            (q.1, n.term, n.index) ∈ g.grants := by
          intro q hq hs hv
          rcases hq with hq | ⟨h1, h2, h3, h4⟩
          · exact hinv.cand n hn hs q hq hv
          · have := hrg h2 h3
            rw [h1, ← h4, ← hreqidx]; exact this
        obtain ⟨h1, h2, h3⟩ := noteLeaderCommit_fields
          (if n.state = .election ∧ (n.response g.now req resp).1.state = .candidate then
            { (g.setNode (n.response g.now req resp).1).send ((n.response g.now req resp).2.getD []) with
              grants := (n.index, (n.response g.now req resp).1.term, n.index) ::
                ((g.setNode (n.response g.now req resp).1).send ((n.response g.now req resp).2.getD [])).grants }
           else (g.setNode (n.response g.now req resp).1).send ((n.response g.now req resp).2.getD []))
          n (n.response g.now req resp).1
        dsimp only
        by_cases hel : n.state = .election ∧ (n.response g.now req resp).1.state = .candidate
        · -- a candidacy starts: self-vote in the new term
          have hterm : (n.response g.now req resp).1.term = n.term + 1 := by
            rcases hrc.cand hel.2 with ⟨hs, _⟩ | ⟨_, ht, _⟩
            · rw [hel.1] at hs; cases hs
            · exact ht
          refine inv_update hinv hn (n' := (n.response g.now req resp).1)
            (newGrants := [(n.index, (n.response g.now req resp).1.term, n.index)])
            (newMsgs := ((n.response g.now req resp).2.getD []).map Msg.req)
            (by rw [h1, if_pos hel]; rfl) (by rw [h2, if_pos hel]; rfl) (by rw [h3, if_pos hel]; rfl)
            hrc.index hrc.size hrc.variant hrc.idx hrc.term_le ?_ ?_ (by simp) ?_ ?_
          · intro v t c h
            simp at h
            obtain ⟨rfl, rfl, rfl⟩ := h
            exact ⟨rfl, by omega, Nat.le_refl _⟩
          · intro v t c c' h h'
            simp at h h'
            rw [h.2.2, h'.2.2]
          · intro hs q hq hv
            rcases hrc.cand hs with ⟨hs', _⟩ | ⟨_, _, hf⟩
            · rw [hel.1] at hs'; cases hs'
            · have := hf q hq hv
              rw [this, hrc.index]
              exact List.mem_cons_self
          · intro hs
            rw [hel.2] at hs; cases hs
        · have hng : ∀ x, x ∈ g.grants → x ∈ ([] : List (Nat × Nat × Nat)) ++ g.grants := by simp
          refine inv_update hinv hn (n' := (n.response g.now req resp).1) (newGrants := [])
            (newMsgs := ((n.response g.now req resp).2.getD []).map Msg.req)
            (by rw [h1, if_neg hel]; rfl) (by rw [h2, if_neg hel]; rfl) (by rw [h3, if_neg hel]; rfl)
            hrc.index hrc.size hrc.variant hrc.idx hrc.term_le (by simp) (by simp) (by simp) ?_ ?_
          · intro hs q hq hv
            rcases hrc.cand hs with ⟨hs', ht, hf⟩ | ⟨hs', _, _⟩
            · rw [ht, hrc.index]
              exact hng _ (hback q (hf q hq hv) hs' hv)
            · exact absurd ⟨hs', hs⟩ hel
          · intro hs
            rcases hrc.lead hs with ⟨hs', ht⟩ | ⟨hs', ht, hcount, hf⟩
            · rw [ht, hrc.index, hrc.size]
              exact quorumL_mono hng (hinv.lead n hn hs')
            · -- the candidate wins: its majority of flags is a majority of grants
              rw [ht, hrc.index, hrc.size]
              unfold quorumL
              refine Nat.lt_of_lt_of_le hcount ?_
              have hwf : (n.response g.now req resp).1.flags.map Prod.fst = List.range n.size := by
                rw [hrc.idx]; exact hinv.wf n hn
              rw [← hwf]
              apply filter_length_le_map
              intro q hq hv
              simp only [decide_eq_true_eq]
              exact hng _ (hback q (hf q hq hv) hs' hv)

theorem reachable_inv {g : Global} (h : Reachable Variant.fixed g) : Inv g := by
  induction h with
  | init size ef hb tt => exact inv_init size ef hb tt
  | step e _ ih => exact inv_step _ e ih

end Raft
