/-
  Node-level facts for election safety (C27), for the repaired code (`Variant.fixed`):
  `Core n n'` describes every transition that neither starts a candidacy nor wins one.
-/
import AgdbRaft.Lemmas.Basic

namespace Raft

/-- A transition after which "candidate" / "leader" can only be inherited, with the same term and
the same vote flags; the term never decreases. -/
structure Core (n n' : Node) : Prop where
  index : n'.index = n.index
  size : n'.size = n.size
  variant : n'.variant = n.variant
  idx : n'.flags.map Prod.fst = n.flags.map Prod.fst
  term_le : n.term ≤ n'.term
  cand : n'.state = .candidate → n.state = .candidate ∧ n'.term = n.term ∧ n'.flags = n.flags
  lead : n'.state = .leader → n.state = .leader ∧ n'.term = n.term

theorem Core.refl (n : Node) : Core n n :=
  ⟨rfl, rfl, rfl, rfl, Nat.le_refl _, fun h => ⟨h, rfl, rfl⟩, fun h => ⟨h, rfl⟩⟩

theorem Core.trans {a b c : Node} (h1 : Core a b) (h2 : Core b c) : Core a c where
  index := h2.index.trans h1.index
  size := h2.size.trans h1.size
  variant := h2.variant.trans h1.variant
  idx := h2.idx.trans h1.idx
  term_le := Nat.le_trans h1.term_le h2.term_le
  cand := fun h => by
    obtain ⟨s, t, f⟩ := h2.cand h
    obtain ⟨s', t', f'⟩ := h1.cand s
    exact ⟨s', t.trans t', f.trans f'⟩
  lead := fun h => by
    obtain ⟨s, t⟩ := h2.lead h
    obtain ⟨s', t'⟩ := h1.lead s
    exact ⟨s', t.trans t'⟩

theorem SameCore.core {n n' : Node} (h : SameCore n n') : Core n n' where
  index := h.index
  size := h.size
  variant := h.variant
  idx := by rw [h.flags]
  term_le := Nat.le_of_eq h.term.symm
  cand := fun hs => ⟨h.state ▸ hs, h.term, h.flags⟩
  lead := fun hs => ⟨h.state ▸ hs, h.term⟩

theorem Core.ite {c : Prop} [Decidable c] {n a b : Node} (ha : Core n a) (hb : Core n b) :
    Core n (if c then a else b) := by
  split <;> assumption

theorem core_becomeFollower (n : Node) (r : Request) : Core n (n.becomeFollower r) := by
  unfold Node.becomeFollower
  split
  · rename_i h
    exact ⟨rfl, rfl, rfl, rfl, h, fun hs => by simp at hs, fun hs => by simp at hs⟩
  · exact Core.refl n

theorem core_appendRequest (n : Node) (r : Request) (logs : List Log) :
    Core n (n.appendRequest r logs).1 ∧ (n.appendRequest r logs).2.target = r.index := by
  unfold Node.appendRequest
  split
  · rename_i e he
    refine ⟨Core.refl n, ?_⟩
    unfold Node.validateHash at he
    split at he <;> simp at he
    subst he; rfl
  · split
    · rename_i e he
      refine ⟨Core.refl n, ?_⟩
      unfold Node.validateTerm at he
      split at he <;> simp at he
      subst he; rfl
    · have hc : Core n (((n.becomeFollower r).updateNode r.index r.logIndex r.logTerm r.logCommit).appendLogs r logs).1 :=
        (core_becomeFollower n r).trans
          (((sameCore_updateNode _ _ _ _ _).trans (sameCore_appendLogs _ r logs)).core)
      sorry

end Raft
