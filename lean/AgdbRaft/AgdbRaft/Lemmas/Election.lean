/-
  Node-level facts for election safety (C27), for the repaired code (`Variant.fixed`):
  `Core n n'` describes every transition that neither starts a candidacy nor wins one.
-/
import AgdbRaft.Lemmas.Basic

namespace Raft

/-- A transition after which "candidate" / "leader" can only be inherited, with the same term and
the same vote flags; the term never decreases. -/
structure Core (n n' : Node) : Prop where
  index : n'.index = n.index
  size : n'.size = n.size
  variant : n'.variant = n.variant
  idx : n'.flags.map Prod.fst = n.flags.map Prod.fst
  term_le : n.term ≤ n'.term
  cand : n'.state = .candidate → n.state = .candidate ∧ n'.term = n.term ∧ n'.flags = n.flags
  lead : n'.state = .leader → n.state = .leader ∧ n'.term = n.term

theorem Core.refl (n : Node) : Core n n :=
  ⟨rfl, rfl, rfl, rfl, Nat.le_refl _, fun h => ⟨h, rfl, rfl⟩, fun h => ⟨h, rfl⟩⟩

theorem Core.trans {a b c : Node} (h1 : Core a b) (h2 : Core b c) : Core a c where
  index := h2.index.trans h1.index
  size := h2.size.trans h1.size
  variant := h2.variant.trans h1.variant
  idx := h2.idx.trans h1.idx
  term_le := Nat.le_trans h1.term_le h2.term_le
  cand := fun h => by
    obtain ⟨s, t, f⟩ := h2.cand h
    obtain ⟨s', t', f'⟩ := h1.cand s
    exact ⟨s', t.trans t', f.trans f'⟩
  lead := fun h => by
    obtain ⟨s, t⟩ := h2.lead h
    obtain ⟨s', t'⟩ := h1.lead s
    exact ⟨s', t.trans t'⟩

theorem SameCore.core {n n' : Node} (h : SameCore n n') : Core n n' where
  index := h.index
  size := h.size
  variant := h.variant
  idx := by rw [h.flags]
  term_le := Nat.le_of_eq h.term.symm
  cand := fun hs => ⟨h.state ▸ hs, h.term, h.flags⟩
  lead := fun hs => ⟨h.state ▸ hs, h.term⟩

theorem Core.ite {c : Prop} [Decidable c] {n a b : Node} (ha : Core n a) (hb : Core n b) :
    Core n (if c then a else b) := by
  split <;> assumption

theorem core_becomeFollower (n : Node) (r : Request) : Core n (n.becomeFollower r) := by
  unfold Node.becomeFollower
  split
  · rename_i h
    exact ⟨rfl, rfl, rfl, rfl, h, fun hs => by simp at hs, fun hs => by simp at hs⟩
  · exact Core.refl n

theorem validateHash_target {n : Node} {r : Request} {e : Response} (h : n.validateHash r = some e) :
    e.target = r.index := by
  unfold Node.validateHash at h
  split at h <;> simp at h
  subst h; rfl

theorem validateTerm_target {n : Node} {r : Request} {e : Response} (h : n.validateTerm r = some e) :
    e.target = r.index := by
  unfold Node.validateTerm at h
  split at h <;> simp at h
  subst h; rfl

theorem validateTermForVote_target {n : Node} {r : Request} {e : Response}
    (h : n.validateTermForVote r = some e) : e.target = r.index := by
  unfold Node.validateTermForVote at h
  split at h <;> simp at h
  subst h; rfl

theorem validateVoteState_target {n : Node} {r : Request} {e : Response}
    (h : n.validateVoteState r = some e) : e.target = r.index := by
  unfold Node.validateVoteState at h
  split at h
  · simp at h; subst h; rfl
  · simp at h; subst h; rfl
  · simp at h; subst h; rfl
  · split at h <;> simp at h
    subst h; rfl
  · simp at h

theorem validateLog_target {n : Node} {r : Request} {e : Response} (h : n.validateLog r = some e) :
    e.target = r.index := by
  unfold Node.validateLog at h
  split at h <;> simp at h
  subst h; rfl

theorem validateLogForVote_target {n : Node} {r : Request} {e : Response}
    (h : n.validateLogForVote r = some e) : e.target = r.index := by
  unfold Node.validateLogForVote at h
  split at h <;> simp at h
  subst h; rfl

theorem validateLogAppend_target {n : Node} {r : Request} {l : Log} {e : Response}
    (h : n.validateLogAppend r l = .error e) : e.target = r.index := by
  unfold Node.validateLogAppend at h
  repeat' split at h
  all_goals first | (injection h with h; subst h; rfl) | (simp at h)

theorem appendLogs_target {n : Node} {r : Request} {logs : List Log} {e : Response}
    (h : (n.appendLogs r logs).2 = some e) : e.target = r.index := by
  induction logs generalizing n with
  | nil => simp [Node.appendLogs] at h
  | cons l ls ih =>
    unfold Node.appendLogs at h
    split at h
    · rename_i e' he
      simp at h; subst h
      exact validateLogAppend_target he
    · exact ih h

theorem core_appendRequest (n : Node) (r : Request) (logs : List Log) :
    Core n (n.appendRequest r logs).1 ∧ (n.appendRequest r logs).2.target = r.index := by
  unfold Node.appendRequest
  split
  · rename_i e he
    exact ⟨Core.refl n, validateHash_target he⟩
  · split
    · rename_i e he
      exact ⟨Core.refl n, validateTerm_target he⟩
    · have hc : Core n (((n.becomeFollower r).updateNode r.index r.logIndex r.logTerm r.logCommit).appendLogs r logs).1 :=
        (core_becomeFollower n r).trans
          (((sameCore_updateNode _ _ _ _ _).trans (sameCore_appendLogs _ r logs)).core)
      dsimp only
      split
      · rename_i e he
        exact ⟨hc, appendLogs_target he⟩
      · exact ⟨hc, rfl⟩

theorem core_heartbeatRequest (n : Node) (r : Request) :
    Core n (n.heartbeatRequest r).1 ∧ (n.heartbeatRequest r).2.target = r.index := by
  unfold Node.heartbeatRequest
  split
  · rename_i e he
    exact ⟨Core.refl n, validateHash_target he⟩
  · split
    · rename_i e he
      exact ⟨Core.refl n, validateTerm_target he⟩
    · dsimp only
      split
      · rename_i e he
        exact ⟨core_becomeFollower n r, validateLog_target he⟩
      · refine ⟨(core_becomeFollower n r).trans ?_, rfl⟩
        have h1 := (sameCore_updateNode (n.becomeFollower r) r.index r.logIndex r.logTerm r.logCommit)
        exact (SameCore.core (sameCore_ite (h1.trans (sameCore_commitStorage _ _)) h1))

theorem preVoteRequest_target (n : Node) (now : Nat) (r : Request) :
    (n.preVoteRequest now r).target = r.index := by
  unfold Node.preVoteRequest
  split
  · rename_i e he; exact validateHash_target he
  · split
    · rfl
    · split
      · rfl
      · split
        · rename_i e he; exact validateLogForVote_target he
        · rfl
    · split
      · rename_i e he; exact validateLogForVote_target he
      · rfl

/-- `vote_request` on the repaired code: a grant needs `term < request.term` and raises the term. -/
theorem core_voteRequest (n : Node) (r : Request) (hv : n.variant.grantRaisesTerm = true) :
    Core n (n.voteRequest r).1 ∧ (n.voteRequest r).2.target = r.index ∧
    ((n.voteRequest r).2.result = .ok → n.term < r.term ∧ (n.voteRequest r).1.term = r.term) := by
  unfold Node.voteRequest
  split
  · rename_i e he
    refine ⟨Core.refl n, validateHash_target he, fun h => ?_⟩
    unfold Node.validateHash at he
    split at he <;> simp at he
    subst he; simp at h
  · split
    · rename_i e he
      refine ⟨Core.refl n, validateVoteState_target he, fun h => ?_⟩
      unfold Node.validateVoteState at he
      repeat' split at he
      all_goals (simp at he; try (subst he; simp at h))
    · split
      · rename_i e he
        refine ⟨Core.refl n, validateTermForVote_target he, fun h => ?_⟩
        unfold Node.validateTermForVote at he
        split at he <;> simp at he
        subst he; simp at h
      · rename_i hterm
        have hlt : n.term < r.term := by
          unfold Node.validateTermForVote at hterm
          split at hterm
          · simp at hterm
          · omega
        split
        · rename_i e he
          refine ⟨Core.refl n, validateLogForVote_target he, fun h => ?_⟩
          unfold Node.validateLogForVote at he
          split at he <;> simp at he
          subst he; simp [Node.logMismatch] at h
        · refine ⟨⟨rfl, rfl, rfl, rfl, ?_, fun hs => by simp at hs, fun hs => by simp at hs⟩, rfl, fun _ => ⟨hlt, ?_⟩⟩
          · simp [hv]; omega
          · simp [hv]

theorem sameCore_modLoc_timer (n : Node) (now : Nat) :
    SameCore n (n.modLoc (fun p => { p with timer := now })) :=
  sameCore_modLoc _ _ (fun _ => ⟨rfl, rfl⟩)

theorem core_request (n : Node) (now : Nat) (r : Request) (hv : n.variant.grantRaisesTerm = true) :
    Core n (n.request now r).1 ∧ (n.request now r).2.target = r.index ∧
    (r.data = .vote → (n.request now r).2.result = .ok →
      n.term < r.term ∧ (n.request now r).1.term = r.term) := by
  unfold Node.request
  split
  · rename_i logs hd
    obtain ⟨h1, h2⟩ := core_appendRequest n r logs
    exact ⟨h1.trans (sameCore_modLoc_timer _ now).core, h2, fun h => by simp [hd] at h⟩
  · rename_i hd
    obtain ⟨h1, h2⟩ := core_heartbeatRequest n r
    exact ⟨h1.trans (sameCore_modLoc_timer _ now).core, h2, fun h => by simp [hd] at h⟩
  · rename_i hd
    exact ⟨Core.refl n, preVoteRequest_target n now r, fun h => by simp [hd] at h⟩
  · obtain ⟨h1, h2, h3⟩ := core_voteRequest n r hv
    exact ⟨h1.trans (sameCore_modLoc_timer _ now).core, h2, fun _ h => h3 h⟩

theorem flags_fst_map_ite (l : List (Nat × Bool)) (c : Nat × Bool → Prop) [DecidablePred c] (b : Bool) :
    (l.map (fun q => if c q then (q.1, b) else q)).map Prod.fst = l.map Prod.fst := by
  rw [List.map_map]
  apply List.map_congr_left
  intro q _
  by_cases h : c q <;> simp [h]

theorem resetVotes_idx (n : Node) : n.resetVotes.flags.map Prod.fst = n.flags.map Prod.fst := by
  rw [resetVotes_flags]
  exact flags_fst_map_ite n.flags (fun q => (n.index != q.1) = true) false

theorem modNode_voted_idx (n : Node) (i : Nat) :
    (n.modNode i (fun p => { p with voted := true })).flags.map Prod.fst = n.flags.map Prod.fst := by
  rw [modNode_voted_flags]
  exact flags_fst_map_ite n.flags (fun q => (q.1 == i) = true) true

theorem core_process (n : Node) (now : Nat) : Core n (n.process now).1 := by
  unfold Node.process
  split
  · dsimp only
    split
    · exact Core.refl n
    · exact (sameCore_touch n now _).core
  · split
    · dsimp only [Node.preElection]
      refine ⟨rfl, rfl, rfl, ?_, Nat.le_refl _, fun hs => ?_, fun hs => ?_⟩
      · change List.map Prod.fst (Node.flags (n.resetVotes.modLoc (fun p => { p with timer := now }))) = _
        rw [(sameCore_modLoc_timer n.resetVotes now).flags]
        exact resetVotes_idx n
      · rename_i h1 h2
        have : n.state = .candidate := hs
        rw [h2.1] at this; cases this
      · rename_i h1 h2
        have : n.state = .leader := hs
        exact absurd this h1
    · split
      · dsimp only
        refine ⟨rfl, rfl, rfl, ?_, Nat.le_refl _, fun hs => ?_, fun hs => ?_⟩
        · change List.map Prod.fst (Node.flags (Node.modLoc { n with state := .election } (fun p => { p with timer := now }))) = _
          rw [(sameCore_modLoc_timer { n with state := .election } now).flags]
          rfl
        · have : CState.election = .candidate := hs
          cases this
        · have : CState.election = .leader := hs
          cases this
      · exact Core.refl n

theorem core_append (n : Node) (data : Nat) : Core n (n.append data).1 := by
  unfold Node.append
  dsimp only
  have h1 : SameCore n (n.modLoc (fun p => { p with logIndex := p.logIndex + 1 })) :=
    sameCore_modLoc _ _ (fun p => ⟨rfl, rfl⟩)
  have h2 : SameCore n ((n.modLoc (fun p => { p with logIndex := p.logIndex + 1 })).modLoc
      (fun p => { p with logTerm := (n.modLoc (fun p => { p with logIndex := p.logIndex + 1 })).term })) :=
    h1.trans (sameCore_modLoc _ _ (fun p => ⟨rfl, rfl⟩))
  have h3 := h2.trans (sameCore_storage _ (((n.modLoc (fun p => { p with logIndex := p.logIndex + 1 })).modLoc
      (fun p => { p with logTerm := (n.modLoc (fun p => { p with logIndex := p.logIndex + 1 })).term })).storage.append
      ⟨((n.modLoc (fun p => { p with logIndex := p.logIndex + 1 })).modLoc
      (fun p => { p with logTerm := (n.modLoc (fun p => { p with logIndex := p.logIndex + 1 })).term })).loc.logIndex,
       ((n.modLoc (fun p => { p with logIndex := p.logIndex + 1 })).modLoc
      (fun p => { p with logTerm := (n.modLoc (fun p => { p with logIndex := p.logIndex + 1 })).term })).term, data⟩))
  exact (sameCore_ite (h3.trans (sameCore_commitStorage _ _)) h3).core

/-- the answer is a grant for the candidate's current term from peer `i` -/
def VoteOk (n : Node) (req : Request) (resp : Response) (i : Nat) : Prop :=
  i = req.target ∧ req.data = .vote ∧ resp.result = .ok ∧ req.term = n.term

/-- What `Cluster::response` can do to the C27 core (repaired code). -/
structure RespCore (n n' : Node) (req : Request) (resp : Response) : Prop where
  index : n'.index = n.index
  size : n'.size = n.size
  variant : n'.variant = n.variant
  idx : n'.flags.map Prod.fst = n.flags.map Prod.fst
  term_le : n.term ≤ n'.term
  cand : n'.state = .candidate →
      (n.state = .candidate ∧ n'.term = n.term ∧
        ∀ q ∈ n'.flags, q.2 = true → q ∈ n.flags ∨ VoteOk n req resp q.1)
    ∨ (n.state = .election ∧ n'.term = n.term + 1 ∧ ∀ q ∈ n'.flags, q.2 = true → q.1 = n.index)
  lead : n'.state = .leader →
      (n.state = .leader ∧ n'.term = n.term)
    ∨ (n.state = .candidate ∧ n'.term = n.term ∧ n.size / 2 < (n'.flags.filter (fun q => q.2)).length ∧
        ∀ q ∈ n'.flags, q.2 = true → q ∈ n.flags ∨ VoteOk n req resp q.1)

theorem Core.respCore {n n' : Node} (h : Core n n') (req : Request) (resp : Response) :
    RespCore n n' req resp where
  index := h.index
  size := h.size
  variant := h.variant
  idx := h.idx
  term_le := h.term_le
  cand := fun hs => by
    obtain ⟨a, b, c⟩ := h.cand hs
    exact Or.inl ⟨a, b, fun q hq _ => Or.inl (c ▸ hq)⟩
  lead := fun hs => Or.inl (h.lead hs)

theorem votes_eq_flags (n : Node) : n.votes = (n.flags.filter (fun q => q.2)).length := by
  unfold Node.votes Node.flags
  rw [List.filter_map, List.length_map]
  rfl

theorem core_stepDown (n : Node) (now : Nat) (m : MV) : Core n (n.stepDown now m) := by
  unfold Node.stepDown
  split
  · split
    · rename_i h
      dsimp only
      refine ⟨rfl, rfl, rfl, ?_, Nat.le_of_lt h, fun hs => ?_, fun hs => ?_⟩
      · rename_i remote _
        change List.map Prod.fst (Node.flags (Node.modLoc { n with term := remote, state := .election } (fun p => { p with timer := now }))) = _
        rw [(sameCore_modLoc_timer { n with term := remote, state := .election } now).flags]
        rfl
      · have : CState.election = .candidate := hs
        cases this
      · have : CState.election = .leader := hs
        cases this
    · exact Core.refl n
  · exact Core.refl n

theorem sameCore_commit (n : Node) (now : Nat) (r : Request) : SameCore n (n.commit now r).1 := by
  unfold Node.commit
  dsimp only
  have h1 : SameCore n (n.modNode r.target (fun p =>
      { p with logIndex := r.logIndex, logTerm := r.logTerm, logCommit := r.logCommit })) :=
    sameCore_modNode _ _ _ (fun _ => ⟨rfl, rfl⟩)
  split
  · exact (h1.trans (sameCore_commitStorage _ _)).trans (sameCore_heartbeatNoTimer _ now)
  · exact h1

theorem sameCore_reconcile (n : Node) (now : Nat) (r : Request) (c : MV) :
    SameCore n (n.reconcile now r c).1 := by
  unfold Node.reconcile
  exact sameCore_modNode _ _ _ (fun _ => ⟨rfl, rfl⟩)

theorem mem_voted_flags {n : Node} {i : Nat} {q : Nat × Bool}
    (hq : q ∈ (n.modNode i (fun p => { p with voted := true })).flags) :
    q ∈ n.flags ∨ q.1 = i := by
  rw [modNode_voted_flags] at hq
  obtain ⟨q0, hq0, rfl⟩ := List.mem_map.mp hq
  by_cases h : q0.1 = i
  · right; simp [h]
  · left; simp [h]; exact hq0

theorem respCore_preVoteReceived (n : Node) (now : Nat) (req : Request) (resp : Response)
    (hs : n.state = .election) : RespCore n (n.preVoteReceived now req).1 req resp := by
  unfold Node.preVoteReceived
  dsimp only
  split
  · -- election()
    unfold Node.election
    dsimp only
    refine ⟨rfl, rfl, rfl, ?_, by show n.term ≤ n.term + 1; omega, fun _ => Or.inr ⟨hs, rfl, ?_⟩, fun h => ?_⟩
    · rw [resetVotes_idx]
      show ((n.modNode req.target _).modLoc _).flags.map Prod.fst = _
      rw [(sameCore_modLoc_timer _ now).flags]
      exact modNode_voted_idx n req.target
    · intro q hq hv
      rw [resetVotes_flags] at hq
      obtain ⟨q0, _, rfl⟩ := List.mem_map.mp hq
      by_cases h : n.index = q0.1
      · simp [h]
      · have : ((n.modNode req.target fun p => { p with voted := true }).modLoc fun p => { p with timer := now }).index = n.index := rfl
        simp [h] at hv
    · have : CState.candidate = .leader := h
      cases this
  · refine ⟨rfl, rfl, rfl, modNode_voted_idx n req.target, Nat.le_refl _, fun h => ?_, fun h => ?_⟩
    · have : n.state = .candidate := h
      rw [hs] at this; cases this
    · have : n.state = .leader := h
      rw [hs] at this; cases this

theorem respCore_voteReceived (n : Node) (now : Nat) (req : Request) (resp : Response)
    (hs : n.state = .candidate) (hd : req.data = .vote) (hr : resp.result = .ok) (ht : req.term = n.term) :
    RespCore n (n.voteReceived now req).1 req resp := by
  have hflags : ∀ q ∈ (n.modNode req.target (fun p => { p with voted := true })).flags, q.2 = true →
      q ∈ n.flags ∨ VoteOk n req resp q.1 := by
    intro q hq _
    rcases mem_voted_flags hq with h | h
    · exact Or.inl h
    · exact Or.inr ⟨h, hd, hr, ht⟩
  unfold Node.voteReceived
  dsimp only
  split
  · rename_i hvotes
    have hsc := sameCore_heartbeatNoTimer
      { (n.modNode req.target (fun p => { p with voted := true })) with state := .leader, term := req.term } now
    refine ⟨hsc.index, hsc.size, hsc.variant, ?_, ?_, fun h => ?_, fun _ => Or.inr ⟨hs, ?_, ?_, ?_⟩⟩
    · rw [hsc.flags]; exact modNode_voted_idx n req.target
    · rw [hsc.term]; show n.term ≤ req.term; omega
    · rw [hsc.state] at h
      have : CState.leader = .candidate := h
      cases this
    · rw [hsc.term]; exact ht
    · rw [hsc.flags]
      rw [votes_eq_flags] at hvotes
      exact hvotes
    · rw [hsc.flags]; exact hflags
  · refine ⟨rfl, rfl, rfl, modNode_voted_idx n req.target, Nat.le_refl _, fun _ => Or.inl ⟨hs, rfl, hflags⟩, fun h => ?_⟩
    have : n.state = .leader := h
    rw [hs] at this; cases this

theorem respCore_response (n : Node) (now : Nat) (req : Request) (resp : Response)
    (hv : n.variant.ignoreStaleVotes = true) : RespCore n (n.response now req resp).1 req resp := by
  unfold Node.response
  split
  · rename_i hs _ _
    exact respCore_preVoteReceived n now req resp hs
  · rename_i hs hd hr
    split
    · exact (Core.refl n).respCore req resp
    · rename_i hg
      have ht : req.term = n.term := by
        simp [hv] at hg
        exact hg
      exact respCore_voteReceived n now req resp hs hd hr ht
  · exact (sameCore_commit n now req).core.respCore req resp
  · exact (sameCore_commit n now req).core.respCore req resp
  · exact (sameCore_reconcile n now req _).core.respCore req resp
  · exact (sameCore_reconcile n now req _).core.respCore req resp
  · exact (core_stepDown n now _).respCore req resp
  · exact (Core.refl n).respCore req resp

end Raft
