/-
  Cluster-level invariant for the local clauses of C28 and the per-event step relation:
  every node of the post-state is the successor (same index) of a node of the pre-state and
  related to it by `LStep`.
-/
import AgdbRaft.Lemmas.LogStep
import AgdbRaft.Lemmas.ElectionInv

namespace Raft

def MsgOk : Msg → Prop
  | .req r => r.index ≠ r.target
  | .resp _ r _ => r.index ≠ r.target

structure Inv28 (g : Global) : Prop where
  ok : ∀ n ∈ g.nodes, LOk n
  msgs : ∀ m ∈ g.msgs, MsgOk m
  /-- a single-node cluster never sends anything and its commit index stays within its log -/
  single : g.nodes.length = 1 → g.msgs = [] ∧ ∀ n ∈ g.nodes, n.loc.logCommit ≤ n.loc.logIndex
  nodup : (g.nodes.map (fun n => n.index)).Nodup

def AllSelf (n : Node) : Prop := ∀ p ∈ n.peers, p.index = n.index

theorem others_nil {n : Node} (h : AllSelf n) : n.others = [] := by
  unfold Node.others
  rw [List.filter_eq_nil_iff]
  intro p hp
  simp [h p hp]

theorem heartbeat_nil {n : Node} (h : AllSelf n) (now : Nat) : n.heartbeat now = [] := by
  unfold Node.heartbeat
  rw [List.map_eq_nil_iff, List.filter_eq_nil_iff]
  intro p hp
  simp [h p hp]

theorem allSelf_mapPeers {n : Node} (h : AllSelf n) (g : Peer → Peer) (hg : ∀ p, (g p).index = p.index) :
    AllSelf { n with peers := n.peers.map g } := by
  intro p' hp'
  obtain ⟨p, hp, rfl⟩ := List.mem_map.mp hp'
  show (g p).index = n.index
  rw [hg]; exact h p hp

theorem allSelf_modLoc {n : Node} (h : AllSelf n) (f : Peer → Peer) (hf : ∀ p, (f p).index = p.index) :
    AllSelf (n.modLoc f) := by
  unfold Node.modLoc Node.modNode setP
  apply allSelf_mapPeers h
  intro p; by_cases hp : p.index = n.index <;> simp [hp, hf p]

theorem process_emits_nil {n : Node} (h : AllSelf n) (now : Nat) : (n.process now).2.getD [] = [] := by
  unfold Node.process
  split
  · dsimp only
    rw [heartbeat_nil h]
    rfl
  · split
    · dsimp only [Node.preElection]
      have : AllSelf n.resetVotes := by
        unfold Node.resetVotes
        apply allSelf_mapPeers h
        intro p; by_cases hp : n.index = p.index <;> simp [hp]
      rw [others_nil this]
      rfl
    · split <;> rfl

theorem append_emits_nil {n : Node} (h : AllSelf n) (data : Nat) : (n.append data).2 = [] := by
  unfold Node.append
  dsimp only
  have h1 := allSelf_modLoc h (fun p => { p with logIndex := p.logIndex + 1 }) (fun _ => rfl)
  have h2 := allSelf_modLoc h1 (fun p => { p with logTerm := (n.modLoc fun p => { p with logIndex := p.logIndex + 1 }).term })
    (fun _ => rfl)
  rw [others_nil h2]
  rfl

theorem allSelf_of_single {g : Global} (hinv : Inv g) (h28 : Inv28 g) (h1 : g.nodes.length = 1)
    {n : Node} (hn : n ∈ g.nodes) : AllSelf n := by
  have hsz : n.size = 1 := by rw [hinv.sizeEq n hn, h1]
  have hwf := hinv.wf n hn
  rw [hsz] at hwf
  have hidx : n.peers.map (fun p => p.index) = [0] := by
    have : n.flags.map Prod.fst = n.peers.map (fun p => p.index) := by
      unfold Node.flags; rw [List.map_map]; rfl
    rw [← this, hwf]; rfl
  have hall : ∀ p ∈ n.peers, p.index = 0 := by
    intro p hp
    have : p.index ∈ n.peers.map (fun p => p.index) := List.mem_map.mpr ⟨p, hp, rfl⟩
    rw [hidx] at this
    simpa using this
  obtain ⟨q, hq, hqi⟩ := (h28.ok n hn).hasLoc
  intro p hp
  rw [hall p hp, ← hqi, hall q hq]

theorem eq_of_index_eq {l : List Node} (hnd : (l.map (fun n => n.index)).Nodup) {a b : Node}
    (ha : a ∈ l) (hb : b ∈ l) (h : a.index = b.index) : a = b := by
  induction l with
  | nil => cases ha
  | cons x xs ih =>
    simp only [List.map_cons, List.nodup_cons] at hnd
    rcases List.mem_cons.mp ha with rfl | ha' <;> rcases List.mem_cons.mp hb with rfl | hb'
    · rfl
    · exact absurd (List.mem_map.mpr ⟨b, hb', h.symm⟩) hnd.1
    · exact absurd (List.mem_map.mpr ⟨a, ha', h⟩) hnd.1
    · exact ih hnd.2 ha' hb'

/-- One node `n` is replaced by its successor `n'`, messages are added. -/
theorem inv28_update {g g' : Global} (h28 : Inv28 g) {n n' : Node} (hn : n ∈ g.nodes)
    {newMsgs : List Msg}
    (hnodes : g'.nodes = g.nodes.map (fun m => if m.index == n'.index then n' else m))
    (hmsgs : g'.msgs = g.msgs ++ newMsgs)
    (hlt : LT n n')
    (hnew : ∀ m ∈ newMsgs, MsgOk m)
    (hsingle : g.nodes.length = 1 → newMsgs = [] ∧ n'.loc.logCommit ≤ n'.loc.logIndex) :
    Inv28 g' ∧ ∀ m' ∈ g'.nodes, ∃ m ∈ g.nodes, m'.index = m.index ∧ LStep m m' := by
  have hmem : ∀ m' ∈ g'.nodes, m' = n' ∨ (m' ∈ g.nodes ∧ m'.index ≠ n.index) := by
    intro m' hm'
    rw [hnodes] at hm'
    obtain ⟨m, hm, rfl⟩ := List.mem_map.mp hm'
    by_cases h : m.index = n'.index
    · left; simp [h]
    · right; simp [h]; exact ⟨hm, by rw [← hlt.index]; exact h⟩
  have hidx : g'.nodes.map (fun n => n.index) = g.nodes.map (fun n => n.index) := by
    rw [hnodes, List.map_map]
    apply List.map_congr_left
    intro m _
    by_cases h : m.index = n'.index <;> simp [h]
  refine ⟨⟨?_, ?_, ?_, ?_⟩, ?_⟩
  · intro m' hm'
    rcases hmem m' hm' with rfl | ⟨hm, _⟩
    · exact hlt.ok
    · exact h28.ok m' hm
  · intro m hm
    rw [hmsgs] at hm
    rcases List.mem_append.mp hm with h | h
    · exact h28.msgs m h
    · exact hnew m h
  · intro h1
    have hlen : g'.nodes.length = g.nodes.length := by rw [hnodes, List.length_map]
    rw [hlen] at h1
    obtain ⟨hm0, hc0⟩ := h28.single h1
    obtain ⟨hm1, hc1⟩ := hsingle h1
    refine ⟨by rw [hmsgs, hm0, hm1]; rfl, ?_⟩
    intro m' hm'
    rcases hmem m' hm' with rfl | ⟨hm, _⟩
    · exact hc1
    · exact hc0 m' hm
  · rw [hidx]; exact h28.nodup
  · intro m' hm'
    rcases hmem m' hm' with rfl | ⟨hm, _⟩
    · exact ⟨n, hn, hlt.index, hlt.step⟩
    · exact ⟨m', hm, rfl, LStep.refl m'⟩

theorem inv28_same {g g' : Global} (h28 : Inv28 g) (h1 : g'.nodes = g.nodes) (h2 : g'.msgs = g.msgs) :
    Inv28 g' ∧ ∀ m' ∈ g'.nodes, ∃ m ∈ g.nodes, m'.index = m.index ∧ LStep m m' := by
  obtain ⟨a, b, c, d⟩ := h28
  refine ⟨⟨?_, ?_, ?_, ?_⟩, ?_⟩
  · rw [h1]; exact a
  · rw [h2]; exact b
  · rw [h1, h2]; exact c
  · rw [h1]; exact d
  · intro m' hm'
    rw [h1] at hm'
    exact ⟨m', hm', rfl, LStep.refl m'⟩

theorem inv28_init (size ef hb tt : Nat) (v : Variant) : Inv28 (Global.init size ef hb tt v) := by
  have hmem : ∀ n ∈ (Global.init size ef hb tt v).nodes,
      ∃ i, i < size ∧ n = Node.new Storage.empty i size clusterHash ef hb tt v := by
    intro n hn
    simp only [Global.init, List.mem_map, List.mem_range] at hn
    obtain ⟨i, hi, rfl⟩ := hn
    exact ⟨i, hi, rfl⟩
  have hloc : ∀ i, i < size → (Node.new Storage.empty i size clusterHash ef hb tt v).loc
      = { index := i, logIndex := 0, logTerm := 0, logCommit := 0, timer := 0, voted := true } := by
    intro i hi
    unfold Node.loc Node.new
    dsimp only
    rw [getP_map_range _ _ _ (fun _ => rfl) hi]
    simp [Storage.empty]
  refine ⟨?_, ?_, ?_, ?_⟩
  · intro n hn
    obtain ⟨i, hi, rfl⟩ := hmem n hn
    refine ⟨?_, ?_⟩
    · refine ⟨_, List.mem_map.mpr ⟨i, List.mem_range.mpr hi, rfl⟩, rfl⟩
    · refine ⟨?_, ?_, ?_, ?_⟩
      · rw [hloc i hi]; exact Nat.le_refl _
      · intro e he; simp [Node.new, Storage.empty] at he
      · intro e he; simp [Node.new, Storage.empty] at he
      · simp [Node.new, Storage.empty]
  · intro m hm; simp [Global.init] at hm
  · intro _
    refine ⟨rfl, ?_⟩
    intro n hn
    obtain ⟨i, hi, rfl⟩ := hmem n hn
    rw [hloc i hi]; exact Nat.le_refl _
  · simp only [Global.init, List.map_map]
    have : ((fun n : Node => n.index) ∘ fun i => Node.new Storage.empty i size clusterHash ef hb tt v) = id := by
      funext i; rfl
    rw [this, List.map_id]
    exact List.nodup_range

theorem msgOk_of_emitOk {n : Node} {reqs : List Request} (h : EmitOk n reqs) :
    ∀ m ∈ reqs.map Msg.req, MsgOk m := by
  intro m hm
  obtain ⟨r, hr, rfl⟩ := List.mem_map.mp hm
  obtain ⟨h1, h2⟩ := h r hr
  show r.index ≠ r.target
  rw [h1]; exact fun h => h2 h.symm

/-- Every event preserves the invariant, and relates every node to its predecessor by `LStep`. -/
theorem step28 (g : Global) (e : Event) (hinv : Inv g) (h28 : Inv28 g) :
    Inv28 (step g e).1 ∧ ∀ m' ∈ (step g e).1.nodes, ∃ m ∈ g.nodes, m'.index = m.index ∧ LStep m m' := by
  cases e with
  | adv d => exact inv28_same h28 rfl rfl
  | tick i =>
    simp only [step]
    split
    · exact inv28_same h28 rfl rfl
    · rename_i n hget
      obtain ⟨hn, _⟩ := getNode?_mem hget
      have hok := h28.ok n hn
      refine inv28_update h28 hn (n' := (n.process g.now).1)
        (newMsgs := ((n.process g.now).2.getD []).map Msg.req) rfl rfl (lt_process n g.now hok)
        (msgOk_of_emitOk (emitOk_process n g.now)) ?_
      intro h1
      have hall := allSelf_of_single hinv h28 h1 hn
      refine ⟨by rw [process_emits_nil hall]; rfl, ?_⟩
      have hs := lsame_process n g.now
      rw [hs.commit, hs.lindex]
      exact (h28.single h1).2 n hn
  | append i data =>
    simp only [step]
    split
    · exact inv28_same h28 rfl rfl
    · rename_i n hget
      obtain ⟨hn, _⟩ := getNode?_mem hget
      have hok := h28.ok n hn
      split
      · exact inv28_same h28 rfl rfl
      · obtain ⟨h1, h2, _⟩ := noteLeaderCommit_fields
          ((g.setNode (n.append data).1).send (n.append data).2) n (n.append data).1
        have hsing : n.size = 1 → n.loc.logCommit ≤ n.loc.logIndex := by
          intro hs
          have : g.nodes.length = 1 := by rw [← hinv.sizeEq n hn]; exact hs
          exact (h28.single this).2 n hn
        obtain ⟨hlt, hsing'⟩ := lt_append n data hok hsing
        refine inv28_update h28 hn (n' := (n.append data).1)
          (newMsgs := (n.append data).2.map Msg.req) (by rw [h1]; rfl) (by rw [h2]; rfl) hlt
          (msgOk_of_emitOk (emitOk_append n data)) ?_
        intro hlen
        have hall := allSelf_of_single hinv h28 hlen hn
        refine ⟨by rw [append_emits_nil hall]; rfl, ?_⟩
        exact hsing' (by rw [hinv.sizeEq n hn]; exact hlen)
  | deliver k =>
    simp only [step]
    split
    · exact inv28_same h28 rfl rfl
    · rename_i r hmsg
      split
      · exact inv28_same h28 rfl rfl
      · rename_i n hget
        obtain ⟨hn, hni⟩ := getNode?_mem hget
        have hmem : Msg.req r ∈ g.msgs := List.mem_of_getElem? hmsg
        have hmo : r.index ≠ r.target := h28.msgs _ hmem
        have hlt := lt_request n g.now r (h28.ok n hn) (by rw [hni]; exact hmo)
        have hsingle : g.nodes.length = 1 →
            ([Msg.resp k r (n.request g.now r).2] : List Msg) = [] ∧
            (n.request g.now r).1.loc.logCommit ≤ (n.request g.now r).1.loc.logIndex := by
          intro h1
          rw [(h28.single h1).1] at hmem
          cases hmem
        have hnew : ∀ m ∈ ([Msg.resp k r (n.request g.now r).2] : List Msg), MsgOk m := by
          intro m hm
          simp at hm
          subst hm
          exact hmo
        dsimp only
        split
        · exact inv28_update h28 hn (n' := (n.request g.now r).1)
            (newMsgs := [Msg.resp k r (n.request g.now r).2]) rfl rfl hlt hnew hsingle
        · exact inv28_update h28 hn (n' := (n.request g.now r).1)
            (newMsgs := [Msg.resp k r (n.request g.now r).2]) rfl rfl hlt hnew hsingle
    · rename_i k' req resp hmsg
      split
      · exact inv28_same h28 rfl rfl
      · rename_i n hget
        obtain ⟨hn, hni⟩ := getNode?_mem hget
        have hmem : Msg.resp k' req resp ∈ g.msgs := List.mem_of_getElem? hmsg
        have hmo : req.index ≠ req.target := h28.msgs _ hmem
        obtain ⟨hrt, _⟩ := hinv.respGrant k' req resp hmem
        have hne : req.target ≠ n.index := by rw [hni, hrt]; exact fun h => hmo h.symm
        have hlt := lt_response n g.now req resp (h28.ok n hn) hne
        obtain ⟨h1, h2, _⟩ := noteLeaderCommit_fields
          (if n.state = .election ∧ (n.response g.now req resp).1.state = .candidate then
            { (g.setNode (n.response g.now req resp).1).send ((n.response g.now req resp).2.getD []) with
              grants := (n.index, (n.response g.now req resp).1.term, n.index) ::
                ((g.setNode (n.response g.now req resp).1).send ((n.response g.now req resp).2.getD [])).grants }
           else (g.setNode (n.response g.now req resp).1).send ((n.response g.now req resp).2.getD []))
          n (n.response g.now req resp).1
        dsimp only
        refine inv28_update h28 hn (n' := (n.response g.now req resp).1)
          (newMsgs := ((n.response g.now req resp).2.getD []).map Msg.req)
          (by rw [h1]; split <;> rfl) (by rw [h2]; split <;> rfl) hlt
          (msgOk_of_emitOk (emitOk_response n g.now req resp hne)) ?_
        intro hlen
        rw [(h28.single hlen).1] at hmem
        cases hmem

end Raft
