/-
  Frame lemmas: what each primitive of the model does to the part of a node that election safety
  depends on: `(state, term, index, size, variant)` and the `(peer index, voted)` flags.
-/
import AgdbRaft.Model.Net

namespace Raft

/-- the `(index, voted)` view of the per-peer table -/
def Node.flags (n : Node) : List (Nat × Bool) := n.peers.map (fun p => (p.index, p.voted))

theorem setP_flags_same (ps : List Peer) (i : Nat) (f : Peer → Peer)
    (h : ∀ p, (f p).index = p.index ∧ (f p).voted = p.voted) :
    (setP ps i f).map (fun p => (p.index, p.voted)) = ps.map (fun p => (p.index, p.voted)) := by
  unfold setP
  rw [List.map_map]
  apply List.map_congr_left
  intro p _
  by_cases hp : p.index = i <;> simp [hp, h p]

section frame
variable (n : Node) (i : Nat) (f : Peer → Peer)

@[simp] theorem modNode_state : (n.modNode i f).state = n.state := rfl
@[simp] theorem modNode_term : (n.modNode i f).term = n.term := rfl
@[simp] theorem modNode_index : (n.modNode i f).index = n.index := rfl
@[simp] theorem modNode_size : (n.modNode i f).size = n.size := rfl
@[simp] theorem modNode_variant : (n.modNode i f).variant = n.variant := rfl
@[simp] theorem modNode_storage : (n.modNode i f).storage = n.storage := rfl
@[simp] theorem modLoc_state : (n.modLoc f).state = n.state := rfl
@[simp] theorem modLoc_term : (n.modLoc f).term = n.term := rfl
@[simp] theorem modLoc_index : (n.modLoc f).index = n.index := rfl
@[simp] theorem modLoc_size : (n.modLoc f).size = n.size := rfl
@[simp] theorem modLoc_variant : (n.modLoc f).variant = n.variant := rfl
@[simp] theorem modLoc_storage : (n.modLoc f).storage = n.storage := rfl

theorem modNode_flags (h : ∀ p, (f p).index = p.index ∧ (f p).voted = p.voted) :
    (n.modNode i f).flags = n.flags := by
  unfold Node.flags Node.modNode
  exact setP_flags_same n.peers i f h

theorem modLoc_flags (h : ∀ p, (f p).index = p.index ∧ (f p).voted = p.voted) :
    (n.modLoc f).flags = n.flags := modNode_flags n n.index f h

end frame

/-- flags after `node_mut(i).voted = true` -/
theorem modNode_voted_flags (n : Node) (i : Nat) :
    (n.modNode i (fun p => { p with voted := true })).flags
      = n.flags.map (fun q => if q.1 == i then (q.1, true) else q) := by
  unfold Node.flags Node.modNode setP
  rw [List.map_map, List.map_map]
  apply List.map_congr_left
  intro p _
  by_cases hp : p.index = i <;> simp [hp]

theorem resetVotes_flags (n : Node) :
    n.resetVotes.flags = n.flags.map (fun q => if n.index != q.1 then (q.1, false) else q) := by
  unfold Node.flags Node.resetVotes
  rw [List.map_map, List.map_map]
  apply List.map_congr_left
  intro p _
  by_cases hp : n.index = p.index <;> simp [hp]

@[simp] theorem resetVotes_state (n : Node) : n.resetVotes.state = n.state := rfl
@[simp] theorem resetVotes_term (n : Node) : n.resetVotes.term = n.term := rfl
@[simp] theorem resetVotes_index (n : Node) : n.resetVotes.index = n.index := rfl
@[simp] theorem resetVotes_size (n : Node) : n.resetVotes.size = n.size := rfl
@[simp] theorem resetVotes_variant (n : Node) : n.resetVotes.variant = n.variant := rfl

/-- The C27-relevant abstraction of a node is untouched. -/
structure SameCore (n n' : Node) : Prop where
  state : n'.state = n.state
  term : n'.term = n.term
  index : n'.index = n.index
  size : n'.size = n.size
  variant : n'.variant = n.variant
  flags : n'.flags = n.flags

theorem SameCore.refl (n : Node) : SameCore n n := ⟨rfl, rfl, rfl, rfl, rfl, rfl⟩

theorem SameCore.trans {a b c : Node} (h1 : SameCore a b) (h2 : SameCore b c) : SameCore a c :=
  ⟨h2.state.trans h1.state, h2.term.trans h1.term, h2.index.trans h1.index, h2.size.trans h1.size,
   h2.variant.trans h1.variant, h2.flags.trans h1.flags⟩

theorem sameCore_modNode (n : Node) (i : Nat) (f : Peer → Peer)
    (h : ∀ p, (f p).index = p.index ∧ (f p).voted = p.voted) : SameCore n (n.modNode i f) :=
  ⟨rfl, rfl, rfl, rfl, rfl, modNode_flags n i f h⟩

theorem sameCore_modLoc (n : Node) (f : Peer → Peer)
    (h : ∀ p, (f p).index = p.index ∧ (f p).voted = p.voted) : SameCore n (n.modLoc f) :=
  sameCore_modNode n n.index f h

theorem sameCore_storage (n : Node) (s : Storage) : SameCore n { n with storage := s } :=
  ⟨rfl, rfl, rfl, rfl, rfl, rfl⟩

theorem sameCore_commitStorage (n : Node) (i : Nat) : SameCore n (n.commitStorage i) := by
  unfold Node.commitStorage
  exact (sameCore_storage n _).trans (sameCore_modLoc _ _ (fun p => ⟨rfl, rfl⟩))

theorem sameCore_appendStorage (n : Node) (l : Log) : SameCore n (n.appendStorage l) := by
  unfold Node.appendStorage
  exact (sameCore_storage n _).trans (sameCore_modLoc _ _ (fun p => ⟨rfl, rfl⟩))

theorem sameCore_touch (n : Node) (now : Nat) (reqs : List Request) : SameCore n (n.touch now reqs) := by
  unfold Node.touch
  induction reqs generalizing n with
  | nil => exact SameCore.refl n
  | cons r rs ih =>
    simp only [List.foldl_cons]
    exact (sameCore_modNode n r.target (fun p => { p with timer := now }) (fun p => ⟨rfl, rfl⟩)).trans (ih _)

theorem sameCore_heartbeatNoTimer (n : Node) (now : Nat) : SameCore n (n.heartbeatNoTimer now).1 := by
  unfold Node.heartbeatNoTimer
  exact sameCore_touch n now _

theorem sameCore_updateNode (n : Node) (i a b c : Nat) : SameCore n (n.updateNode i a b c) := by
  unfold Node.updateNode
  exact sameCore_modNode n i _ (fun p => ⟨rfl, rfl⟩)

theorem sameCore_ite {c : Prop} [Decidable c] {n a b : Node} (ha : SameCore n a) (hb : SameCore n b) :
    SameCore n (if c then a else b) := by
  split <;> assumption

theorem sameCore_appendLogs (n : Node) (r : Request) (logs : List Log) :
    SameCore n (n.appendLogs r logs).1 := by
  induction logs generalizing n with
  | nil => exact SameCore.refl n
  | cons l ls ih =>
    unfold Node.appendLogs
    split
    · exact SameCore.refl n
    · rename_i b _
      have h1 : SameCore n (if b = true then n.appendStorage l else n) :=
        sameCore_ite (sameCore_appendStorage n l) (SameCore.refl n)
      exact (sameCore_ite (h1.trans (sameCore_commitStorage _ _)) h1).trans (ih _)

end Raft
