/-
  Frame lemmas for the log part of a node (C28 local clauses): the local slot's `log_commit` /
  `log_index`, the storage, and how the primitives of the model change them.
-/
import AgdbRaft.Model.Net

namespace Raft

/-- the node has a slot for itself in its per-peer table -/
def HasLoc (n : Node) : Prop := ∃ p ∈ n.peers, p.index = n.index

theorem getP_map (ps : List Peer) (g : Peer → Peer) (j : Nat) (hg : ∀ p, (g p).index = p.index) :
    getP (ps.map g) j = match ps.find? (fun p => p.index == j) with
      | some p => g p
      | none => default := by
  unfold getP
  induction ps with
  | nil => rfl
  | cons a as ih =>
    simp only [List.map_cons, List.find?_cons, hg]
    by_cases h : a.index == j
    · simp [h]
    · simp only [h]
      exact ih

theorem getP_eq (ps : List Peer) (j : Nat) :
    getP ps j = match ps.find? (fun p => p.index == j) with
      | some p => p
      | none => default := by
  unfold getP
  cases ps.find? (fun p => p.index == j) <;> rfl

theorem getP_map_mem (l : List Nat) (i : Nat) (mk : Nat → Peer) (hmk : ∀ j, (mk j).index = j) (hi : i ∈ l) :
    getP (l.map mk) i = mk i := by
  unfold getP
  induction l with
  | nil => cases hi
  | cons a as ih =>
    simp only [List.map_cons, List.find?_cons, hmk]
    by_cases h : a = i
    · subst h; simp
    · have : (a == i) = false := by simpa using h
      simp only [this]
      rcases List.mem_cons.mp hi with h' | h'
      · exact absurd h'.symm h
      · exact ih h'

theorem getP_map_range (size i : Nat) (mk : Nat → Peer) (hmk : ∀ j, (mk j).index = j) (hi : i < size) :
    getP ((List.range size).map mk) i = mk i :=
  getP_map_mem _ i mk hmk (List.mem_range.mpr hi)

/-- The log-relevant part of the node is untouched. -/
structure LSame (n n' : Node) : Prop where
  index : n'.index = n.index
  size : n'.size = n.size
  hasLoc : HasLoc n → HasLoc n'
  commit : n'.loc.logCommit = n.loc.logCommit
  lindex : n'.loc.logIndex = n.loc.logIndex
  storage : n'.storage = n.storage

theorem LSame.refl (n : Node) : LSame n n := ⟨rfl, rfl, id, rfl, rfl, rfl⟩

theorem LSame.trans {a b c : Node} (h1 : LSame a b) (h2 : LSame b c) : LSame a c :=
  ⟨h2.index.trans h1.index, h2.size.trans h1.size, fun h => h2.hasLoc (h1.hasLoc h),
   h2.commit.trans h1.commit, h2.lindex.trans h1.lindex, h2.storage.trans h1.storage⟩

theorem LSame.of_eq {n n' : Node} (hp : n'.peers = n.peers) (hs : n'.storage = n.storage)
    (hi : n'.index = n.index) (hz : n'.size = n.size) : LSame n n' := by
  refine ⟨hi, hz, ?_, ?_, ?_, hs⟩
  · intro h; unfold HasLoc at *; rw [hp, hi]; exact h
  · unfold Node.loc; rw [hp, hi]
  · unfold Node.loc; rw [hp, hi]

theorem LSame.ite {c : Prop} [Decidable c] {n a b : Node} (ha : LSame n a) (hb : LSame n b) :
    LSame n (if c then a else b) := by
  split <;> assumption

/-- every per-peer update is a `map`; it is log-neutral when it keeps the indexes and, on the local
slot, `log_commit` and `log_index` -/
theorem lsame_mapPeers (n : Node) (g : Peer → Peer) (hidx : ∀ p, (g p).index = p.index)
    (hloc : ∀ p, p.index = n.index → (g p).logCommit = p.logCommit ∧ (g p).logIndex = p.logIndex) :
    LSame n { n with peers := n.peers.map g } := by
  have hl : ∀ P : Peer → Nat, (∀ p, p.index = n.index → P (g p) = P p) →
      P (getP (n.peers.map g) n.index) = P (getP n.peers n.index) := by
    intro P hP
    rw [getP_map _ _ _ hidx, getP_eq]
    cases hf : n.peers.find? (fun p => p.index == n.index) with
    | none => rfl
    | some p =>
      have := List.find?_some hf
      exact hP p (by simpa using this)
  refine ⟨rfl, rfl, ?_, ?_, ?_, rfl⟩
  · rintro ⟨p, hp, hpi⟩
    exact ⟨g p, List.mem_map.mpr ⟨p, hp, rfl⟩, by show (g p).index = n.index; rw [hidx]; exact hpi⟩
  · exact hl (fun p => p.logCommit) (fun p hp => (hloc p hp).1)
  · exact hl (fun p => p.logIndex) (fun p hp => (hloc p hp).2)

theorem lsame_modNode_neutral (n : Node) (i : Nat) (f : Peer → Peer)
    (hf : ∀ p, (f p).index = p.index ∧ (f p).logCommit = p.logCommit ∧ (f p).logIndex = p.logIndex) :
    LSame n (n.modNode i f) := by
  unfold Node.modNode setP
  apply lsame_mapPeers
  · intro p; by_cases h : p.index = i <;> simp [h, (hf p).1]
  · intro p _; by_cases h : p.index = i <;> simp [h, (hf p).2]

theorem lsame_modNode_other (n : Node) (i : Nat) (f : Peer → Peer) (hi : i ≠ n.index)
    (hf : ∀ p, (f p).index = p.index) : LSame n (n.modNode i f) := by
  unfold Node.modNode setP
  apply lsame_mapPeers
  · intro p; by_cases h : p.index = i <;> simp [h, hf p]
  · intro p hp
    have : ¬ p.index = i := by rw [hp]; exact fun h => hi h.symm
    simp [this]

theorem lsame_modLoc_neutral (n : Node) (f : Peer → Peer)
    (hf : ∀ p, (f p).index = p.index ∧ (f p).logCommit = p.logCommit ∧ (f p).logIndex = p.logIndex) :
    LSame n (n.modLoc f) := lsame_modNode_neutral n n.index f hf

theorem lsame_resetVotes (n : Node) : LSame n n.resetVotes := by
  unfold Node.resetVotes
  apply lsame_mapPeers
  · intro p; by_cases h : n.index = p.index <;> simp [h]
  · intro p _; by_cases h : n.index = p.index <;> simp [h]

theorem lsame_touch (n : Node) (now : Nat) (reqs : List Request) : LSame n (n.touch now reqs) := by
  unfold Node.touch
  induction reqs generalizing n with
  | nil => exact LSame.refl n
  | cons r rs ih =>
    simp only [List.foldl_cons]
    exact (lsame_modNode_neutral n r.target (fun p => { p with timer := now }) (fun _ => ⟨rfl, rfl, rfl⟩)).trans (ih _)

theorem lsame_heartbeatNoTimer (n : Node) (now : Nat) : LSame n (n.heartbeatNoTimer now).1 := by
  unfold Node.heartbeatNoTimer
  exact lsame_touch n now _

theorem lsame_timer (n : Node) (now : Nat) : LSame n (n.modLoc (fun p => { p with timer := now })) :=
  lsame_modLoc_neutral n _ (fun _ => ⟨rfl, rfl, rfl⟩)

theorem lsame_voted (n : Node) (i : Nat) : LSame n (n.modNode i (fun p => { p with voted := true })) :=
  lsame_modNode_neutral n i _ (fun _ => ⟨rfl, rfl, rfl⟩)

/-- read-after-write on the local slot -/
theorem loc_modLoc (n : Node) (f : Peer → Peer) (hf : ∀ p, (f p).index = p.index) (h : HasLoc n) :
    (n.modLoc f).loc = f n.loc := by
  unfold Node.loc Node.modLoc Node.modNode setP
  show getP (n.peers.map _) n.index = f (getP n.peers n.index)
  rw [getP_map _ _ _ (by intro p; by_cases hp : p.index = n.index <;> simp [hp, hf p]), getP_eq]
  cases hfind : n.peers.find? (fun p => p.index == n.index) with
  | none =>
    obtain ⟨p, hp, hpi⟩ := h
    have := List.find?_eq_none.mp hfind p hp
    simp [hpi] at this
  | some p =>
    have := List.find?_some hfind
    have hpi : p.index = n.index := by simpa using this
    simp [hpi]

theorem hasLoc_modLoc (n : Node) (f : Peer → Peer) (hf : ∀ p, (f p).index = p.index) (h : HasLoc n) :
    HasLoc (n.modLoc f) := by
  obtain ⟨p, hp, hpi⟩ := h
  refine ⟨if p.index == n.index then f p else p, ?_, ?_⟩
  · unfold Node.modLoc Node.modNode setP
    exact List.mem_map.mpr ⟨p, hp, rfl⟩
  · show (if p.index == n.index then f p else p).index = n.index
    simp [hpi, hf]

end Raft
