/-
  Node-level transitions and the log invariant: every raft.rs entry point (`process`, `append`,
  `request`, `response`) maps a node satisfying `LOk` to one satisfying `LOk`, related by `LStep`.
  Requests are assumed to come from another node (`request.index ≠ own index`) and answers to
  concern a request sent to another node (`request.target ≠ own index`); both hold for every message
  the model ever sends (`EmitOk`).
-/
import AgdbRaft.Lemmas.LogInv

namespace Raft

theorem lsame_becomeFollower (n : Node) (r : Request) : LSame n (n.becomeFollower r) := by
  unfold Node.becomeFollower
  split
  · exact LSame.of_eq rfl rfl rfl rfl
  · exact LSame.refl n

theorem lsame_updateNode (n : Node) (i a b c : Nat) (hi : i ≠ n.index) : LSame n (n.updateNode i a b c) := by
  unfold Node.updateNode
  exact lsame_modNode_other n i _ hi (fun _ => rfl)

theorem lsame_preElection (n : Node) : LSame n n.preElection.1 := lsame_resetVotes n

theorem lsame_election (n : Node) : LSame n n.election.1 := by
  unfold Node.election
  dsimp only
  exact (LSame.of_eq (n := n) (n' := { n with term := n.term + 1, state := .candidate }) rfl rfl rfl rfl).trans
    (lsame_resetVotes _)

theorem lsame_stepDown (n : Node) (now : Nat) (m : MV) : LSame n (n.stepDown now m) := by
  unfold Node.stepDown
  split
  · split
    · rename_i remote _ _
      dsimp only
      exact ((LSame.of_eq (n := n) (n' := { n with term := remote, state := .election }) rfl rfl rfl rfl).trans
        (lsame_timer _ now)).trans (LSame.of_eq rfl rfl rfl rfl)
    · exact LSame.refl n
  · exact LSame.refl n

theorem lsame_reconcile (n : Node) (now : Nat) (r : Request) (c : MV) : LSame n (n.reconcile now r c).1 := by
  unfold Node.reconcile
  exact lsame_modNode_neutral n r.target (fun p => { p with timer := now }) (fun _ => ⟨rfl, rfl, rfl⟩)

theorem lsame_preVoteReceived (n : Node) (now : Nat) (r : Request) : LSame n (n.preVoteReceived now r).1 := by
  unfold Node.preVoteReceived
  dsimp only
  have h1 := lsame_voted n r.target
  split
  · exact (h1.trans (lsame_timer _ now)).trans (lsame_election _)
  · exact h1

theorem lsame_voteReceived (n : Node) (now : Nat) (r : Request) : LSame n (n.voteReceived now r).1 := by
  unfold Node.voteReceived
  dsimp only
  have h1 := lsame_voted n r.target
  split
  · exact (h1.trans (LSame.of_eq (n := n.modNode r.target (fun p => { p with voted := true }))
        (n' := { (n.modNode r.target (fun p => { p with voted := true })) with
        state := .leader, term := r.term }) rfl rfl rfl rfl)).trans (lsame_heartbeatNoTimer _ now)
  · exact h1

theorem lsame_voteRequest (n : Node) (r : Request) : LSame n (n.voteRequest r).1 := by
  unfold Node.voteRequest
  repeat' split
  all_goals first | exact LSame.refl n | exact LSame.of_eq rfl rfl rfl rfl

theorem lsame_process (n : Node) (now : Nat) : LSame n (n.process now).1 := by
  unfold Node.process
  split
  · dsimp only
    split
    · exact LSame.refl n
    · exact lsame_touch n now _
  · split
    · dsimp only
      exact ((lsame_preElection n).trans (lsame_timer _ now)).trans (LSame.of_eq rfl rfl rfl rfl)
    · split
      · dsimp only
        exact ((LSame.of_eq (n := n) (n' := { n with state := .election }) rfl rfl rfl rfl).trans
          (lsame_timer _ now)).trans (LSame.of_eq rfl rfl rfl rfl)
      · exact LSame.refl n

theorem sameIdx_commitStorage (n : Node) (i : Nat) : (n.commitStorage i).index = n.index := rfl

/-! ### transitions that touch the log -/

theorem validateLogAppend_commit_lt {n : Node} {r : Request} {l : Log}
    (h : n.validateLogAppend r l = .ok true) : n.loc.logCommit < l.index := by
  unfold Node.validateLogAppend at h
  repeat' split at h
  all_goals first | (rename_i hc; exact hc.1) | (rename_i hc; exact hc.2.1) | (simp at h) | (cases h)

theorem lt_commitIf (n : Node) (c : Prop) [Decidable c] (i : Nat) (hok : LOk n)
    (h : c → n.loc.logCommit < i) : LT n (if c then n.commitStorage i else n) := by
  split
  · exact lt_commitStorage n i hok (h ‹_›)
  · exact LT.refl hok

theorem lt_appendLogs (n : Node) (r : Request) (logs : List Log) (hok : LOk n) :
    LT n (n.appendLogs r logs).1 := by
  induction logs generalizing n with
  | nil => exact LT.refl hok
  | cons l ls ih =>
    unfold Node.appendLogs
    split
    · exact LT.refl hok
    · rename_i b hb
      dsimp only
      have h1 : LT n (if b = true then n.appendStorage l else n) := by
        split
        · rename_i hbt
          subst hbt
          exact lt_appendStorage n l hok (validateLogAppend_commit_lt hb)
        · exact LT.refl hok
      have h2 := lt_commitIf (if b = true then n.appendStorage l else n)
        (l.index ≤ r.logCommit ∧ (if b = true then n.appendStorage l else n).loc.logCommit < l.index)
        l.index h1.ok (fun hc => hc.2)
      exact (h1.trans h2).trans (ih _ h2.ok)

theorem lt_appendRequest (n : Node) (r : Request) (logs : List Log) (hok : LOk n) (hne : r.index ≠ n.index) :
    LT n (n.appendRequest r logs).1 := by
  unfold Node.appendRequest
  split
  · exact LT.refl hok
  · split
    · exact LT.refl hok
    · have hs : LSame n ((n.becomeFollower r).updateNode r.index r.logIndex r.logTerm r.logCommit) := by
        have h1 := lsame_becomeFollower n r
        exact h1.trans (lsame_updateNode _ _ _ _ _ (by rw [h1.index]; exact hne))
      have h2 := (hs.lt hok).trans (lt_appendLogs _ r logs (hs.lt hok).ok)
      dsimp only
      split <;> exact h2

theorem lt_heartbeatRequest (n : Node) (r : Request) (hok : LOk n) (hne : r.index ≠ n.index) :
    LT n (n.heartbeatRequest r).1 := by
  unfold Node.heartbeatRequest
  split
  · exact LT.refl hok
  · split
    · exact LT.refl hok
    · dsimp only
      have h1 := lsame_becomeFollower n r
      split
      · exact h1.lt hok
      · have hs := h1.trans (lsame_updateNode (n.becomeFollower r) r.index r.logIndex r.logTerm r.logCommit
          (by rw [h1.index]; exact hne))
        have h2 := hs.lt hok
        split
        · rename_i hc
          exact h2.trans (lt_commitStorage _ _ h2.ok hc)
        · exact h2

theorem lt_request (n : Node) (now : Nat) (r : Request) (hok : LOk n) (hne : r.index ≠ n.index) :
    LT n (n.request now r).1 := by
  unfold Node.request
  split
  · rename_i logs _
    have h := lt_appendRequest n r logs hok hne
    exact h.trans ((lsame_timer _ now).lt h.ok)
  · have h := lt_heartbeatRequest n r hok hne
    exact h.trans ((lsame_timer _ now).lt h.ok)
  · exact LT.refl hok
  · have h := (lsame_voteRequest n r).lt hok
    exact h.trans ((lsame_timer _ now).lt h.ok)

theorem lt_commit (n : Node) (now : Nat) (r : Request) (hok : LOk n) (hne : r.target ≠ n.index) :
    LT n (n.commit now r).1 := by
  unfold Node.commit
  dsimp only
  have hs : LSame n (n.modNode r.target (fun p =>
      { p with logIndex := r.logIndex, logTerm := r.logTerm, logCommit := r.logCommit })) :=
    lsame_modNode_other n r.target _ hne (fun _ => rfl)
  have h1 := hs.lt hok
  split
  · rename_i hc
    have h2 := h1.trans (lt_commitStorage _ _ h1.ok hc.1)
    exact h2.trans ((lsame_heartbeatNoTimer _ now).lt h2.ok)
  · exact h1

theorem lt_response (n : Node) (now : Nat) (req : Request) (resp : Response) (hok : LOk n)
    (hne : req.target ≠ n.index) : LT n (n.response now req resp).1 := by
  unfold Node.response
  split
  · exact (lsame_preVoteReceived n now req).lt hok
  · split
    · exact LT.refl hok
    · exact (lsame_voteReceived n now req).lt hok
  · exact lt_commit n now req hok hne
  · exact lt_commit n now req hok hne
  · exact (lsame_reconcile n now req _).lt hok
  · exact (lsame_reconcile n now req _).lt hok
  · exact (lsame_stepDown n now _).lt hok
  · exact LT.refl hok

theorem lt_process (n : Node) (now : Nat) (hok : LOk n) : LT n (n.process now).1 :=
  (lsame_process n now).lt hok

/-- `Cluster::append`; in a single-node cluster it commits at once, which is monotone because there
the commit index never exceeds `log_index`. -/
theorem lt_append (n : Node) (data : Nat) (hok : LOk n) (hsingle : n.size = 1 → n.loc.logCommit ≤ n.loc.logIndex) :
    LT n (n.append data).1 ∧
    (n.size = 1 → (n.append data).1.loc.logCommit ≤ (n.append data).1.loc.logIndex) := by
  -- the two bumps of the local slot
  let f1 : Peer → Peer := fun p => { p with logIndex := p.logIndex + 1 }
  let n1 := n.modLoc f1
  have hl1 : n1.loc = f1 n.loc := loc_modLoc n f1 (fun _ => rfl) hok.hasLoc
  have hh1 : HasLoc n1 := hasLoc_modLoc n f1 (fun _ => rfl) hok.hasLoc
  let f2 : Peer → Peer := fun p => { p with logTerm := n1.term }
  let n2 := n1.modLoc f2
  have hl2 : n2.loc = f2 n1.loc := loc_modLoc n1 f2 (fun _ => rfl) hh1
  have hh2 : HasLoc n2 := hasLoc_modLoc n1 f2 (fun _ => rfl) hh1
  have hidx : n2.loc.logIndex = n.loc.logIndex + 1 := by rw [hl2, hl1]
  have hcom : n2.loc.logCommit = n.loc.logCommit := by rw [hl2, hl1]
  let log : Log := ⟨n2.loc.logIndex, n2.term, data⟩
  let n3 : Node := { n2 with storage := n2.storage.append log }
  have hst2 : n2.storage = n.storage := rfl
  have hl3 : n3.loc = n2.loc := rfl
  obtain ⟨a, b, c, d⟩ := hok.inv
  obtain ⟨g1, g2, g3, g4, g5⟩ := storage_append_facts n.storage log d (by
    intro e he _
    have := c e he
    show e.index < n2.loc.logIndex
    omega)
  have hok3 : LOk n3 := by
    refine ⟨hh2, ?_, ?_, ?_, ?_⟩
    · show (n.storage.append log).commit ≤ n3.loc.logCommit
      rw [g1, hl3, hcom]; exact a
    · intro e he hc
      rw [hl3, hcom]
      exact b e (g3 e he hc) hc
    · intro e he
      rw [hl3]
      exact g2 e he
    · exact g4
  have hstep3 : LStep n n3 := by
    refine ⟨?_, ?_, ?_⟩
    · rw [hl3, hcom]; exact Nat.le_refl _
    · show n.storage.commit ≤ (n.storage.append log).commit
      rw [g1]; exact Nat.le_refl _
    · intro e he _
      refine ⟨e, g5 e he ?_, rfl, rfl, rfl, id⟩
      have := c e he
      show e.index < n2.loc.logIndex
      omega
  have h3 : LT n n3 := ⟨rfl, rfl, hok3, hstep3⟩
  show LT n (if (n3.size == 1) = true then n3.commitStorage n3.loc.logIndex else n3) ∧
    (n.size = 1 → (if (n3.size == 1) = true then n3.commitStorage n3.loc.logIndex else n3).loc.logCommit
      ≤ (if (n3.size == 1) = true then n3.commitStorage n3.loc.logIndex else n3).loc.logIndex)
  by_cases hs : (n3.size == 1) = true
  · rw [if_pos hs]
    have hsz : n3.size = n.size := rfl
    have hs1 : n.size = 1 := by rw [← hsz]; simpa using hs
    have hlt : n3.loc.logCommit < n3.loc.logIndex := by
      rw [hl3, hcom, hidx]
      have := hsingle hs1
      omega
    refine ⟨h3.trans (lt_commitStorage n3 _ hok3 hlt), fun _ => ?_⟩
    have hloc : (n3.commitStorage n3.loc.logIndex).loc = { n3.loc with logCommit := n3.loc.logIndex } := by
      unfold Node.commitStorage
      have hl : HasLoc { n3 with storage := n3.storage.commitTo n3.loc.logIndex } := hok3.hasLoc
      rw [loc_modLoc { n3 with storage := n3.storage.commitTo n3.loc.logIndex }
        (fun p => { p with logCommit := n3.loc.logIndex }) (fun _ => rfl) hl]
      rfl
    rw [hloc]
    exact Nat.le_refl _
  · rw [if_neg hs]
    refine ⟨h3, fun h1 => ?_⟩
    have hsz : n3.size = n.size := rfl
    exact absurd (by rw [hsz]; simpa using h1) hs

/-! ### every request a node sends goes to another node -/

def EmitOk (n : Node) (reqs : List Request) : Prop := ∀ r ∈ reqs, r.index = n.index ∧ r.target ≠ n.index

theorem emitOk_others (n : Node) (t : Nat) (d : ReqData) :
    EmitOk n (n.others.map (fun p => n.mkReq p.index t d)) := by
  intro r hr
  obtain ⟨p, hp, rfl⟩ := List.mem_map.mp hr
  unfold Node.others at hp
  have := (List.mem_filter.mp hp).2
  exact ⟨rfl, fun h => by simp [Node.mkReq] at h; simp [h] at this⟩

theorem emitOk_heartbeat (n : Node) (now : Nat) : EmitOk n (n.heartbeat now) := by
  intro r hr
  unfold Node.heartbeat at hr
  obtain ⟨p, hp, rfl⟩ := List.mem_map.mp hr
  have := (List.mem_filter.mp hp).2
  simp only [Bool.and_eq_true] at this
  exact ⟨rfl, fun h => by simp [Node.mkReq] at h; simp [h] at this⟩

theorem EmitOk.congr {n n' : Node} {reqs : List Request} (h : EmitOk n' reqs) (hi : n'.index = n.index) :
    EmitOk n reqs := fun r hr => by rw [← hi]; exact h r hr

theorem emitOk_process (n : Node) (now : Nat) : EmitOk n ((n.process now).2.getD []) := by
  unfold Node.process
  split
  · dsimp only
    split
    · intro r hr; cases hr
    · exact emitOk_heartbeat n now
  · split
    · dsimp only [Node.preElection]
      exact (emitOk_others n.resetVotes (n.resetVotes.term + 1) .preVote).congr rfl
    · split
      · intro r hr; cases hr
      · intro r hr; cases hr

theorem emitOk_append (n : Node) (data : Nat) : EmitOk n (n.append data).2 := by
  unfold Node.append
  dsimp only
  exact (emitOk_others _ _ _).congr rfl

theorem emitOk_heartbeatNoTimer (n : Node) (now : Nat) : EmitOk n (n.heartbeatNoTimer now).2 := by
  unfold Node.heartbeatNoTimer
  exact emitOk_others n n.term .heartbeat

theorem emitOk_election (n : Node) : EmitOk n n.election.2 := by
  unfold Node.election
  dsimp only
  exact (emitOk_others _ _ _).congr rfl

theorem emitOk_response (n : Node) (now : Nat) (req : Request) (resp : Response)
    (hne : req.target ≠ n.index) : EmitOk n ((n.response now req resp).2.getD []) := by
  have hnil : EmitOk n [] := fun r hr => by cases hr
  unfold Node.response
  split
  · unfold Node.preVoteReceived
    dsimp only
    split
    · exact (emitOk_election _).congr rfl
    · exact hnil
  · split
    · exact hnil
    · unfold Node.voteReceived
      dsimp only
      split
      · exact (emitOk_heartbeatNoTimer _ now).congr rfl
      · exact hnil
  all_goals first
    | exact hnil
    | (unfold Node.commit
       dsimp only
       split
       · exact (emitOk_heartbeatNoTimer _ now).congr (sameIdx_commitStorage _ _)
       · exact hnil)
    | (unfold Node.reconcile
       intro r hr
       simp at hr
       subst hr
       exact ⟨rfl, hne⟩)

end Raft
