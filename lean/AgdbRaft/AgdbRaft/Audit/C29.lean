import AgdbRaft.Props.C29
#print axioms Raft.C29_vote_requires_log_check
#print axioms Raft.C29_prevote_requires_log_check
#print axioms Raft.C29_grant_recorded
#print axioms Raft.C29_rule_is_conjunctive
#print axioms Raft.C29_leader_completeness_counterexample
