import AgdbRaft.Props.C29
#print axioms Raft.C29_leader_completeness_counterexample
