import AgdbRaft.Props.C30
import AgdbRaft.Props.C30n3
#print axioms Raft.exploreSet_sound
#print axioms Raft.C30_n1
#print axioms Raft.C30_n2
#print axioms Raft.C30_n3_election
