import AgdbRaft.Props.C30
import AgdbRaft.Props.C30n3r
import AgdbRaft.Props.C30pp
#print axioms Raft.exploreSetP_sound
#print axioms Raft.exploreSet_sound
#print axioms Raft.reachesWithinP_seq
#print axioms Raft.C30_n1
#print axioms Raft.C30_n2
#print axioms Raft.C30_n3_election
#print axioms Raft.C30_n3_replication
#print axioms Raft.C30_n3
#print axioms Raft.C30_post_partition
