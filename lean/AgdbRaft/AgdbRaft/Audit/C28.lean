import AgdbRaft.Props.C28
#print axioms Raft.C28_state_machine_safety_counterexample
