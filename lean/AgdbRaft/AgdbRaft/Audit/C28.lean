import AgdbRaft.Props.C28
#print axioms Raft.C28_commit_monotone
#print axioms Raft.C28_committed_stable
#print axioms Raft.C28_commit_monotone_step
#print axioms Raft.C28_state_machine_safety_counterexample
