import AgdbRaft.Props.C27
#print axioms Raft.C27_election_safety
#print axioms Raft.C27_vote_once_per_term
#print axioms Raft.C27_leader_has_quorum
#print axioms Raft.C27_revote_counterexample
#print axioms Raft.C27_stale_vote_counterexample
#print axioms Raft.C27_legacy_counterexample
