import AgdbRaft.Model.Raft
import AgdbRaft.Model.Net
import AgdbRaft.Model.Format
