import AgdbRaft.Model.Format
open Raft

partial def loop (stdin stdout : IO.FS.Stream) (st : Option Global) : IO Unit := do
  let line ← stdin.getLine
  if line.isEmpty then
    stdout.flush
  else
    let l := line.trimAscii.toString
    if l.startsWith "case " then
      stdout.putStrLn l
      loop stdin stdout none
    else
      let r := driverStep st l
      stdout.putStrLn r.2
      loop stdin stdout r.1

def main : IO Unit := do
  let stdin ← IO.getStdin
  let stdout ← IO.getStdout
  loop stdin stdout none
