import AgdbCodec.Lemmas.RoundTripMain
import AgdbCodec.Lemmas.AdvSize
/-
  C20 — binary serialization round-trips and reports its exact size.

  Quantifiers: `σ` ranges over ALL type descriptors (every built-in impl and every type the
  derive macro can generate: any nesting of named/tuple/unit structs, enums, vectors), `v` over
  all values of that type (`WT σ v`), `rest` over all trailing bytes.
  `(ser v).length < 2^64` is the physical bound (`serialized_size` is a `u64`, a `Vec<u8>` cannot
  be longer).  The decoder is the repaired one (`Mode.fixed`, proposed_fixes/C21-*.diff); the
  repairs only touch inputs that are not serializations of any value.
-/
namespace AgdbCodec

/-- `T::deserialize(serialize(x) ++ rest) == Ok(x)` and the reported size is the number of bytes
    produced. -/
theorem C20_roundtrip (σ : Schema) (v : Val) (rest : List Nat) (h : WT σ v)
    (hs : (ser v).length < U64) :
    de .fixed σ (ser v ++ rest) = .ok (v, (ser v).length) :=
  rt h rest hs

/-- `serialized_size(x) == serialize(x).len()` for every value (typed or not). -/
theorem C20_size (v : Val) : size v = (ser v).length := size_eq_length v

/-- The two together, in the form of the property statement. -/
theorem C20_roundtrip_and_size (σ : Schema) (v : Val) (h : WT σ v) (hs : (ser v).length < U64) :
    de .fixed σ (ser v) = .ok (v, size v) ∧ size v = (ser v).length := by
  have := C20_roundtrip σ v [] h hs
  simp only [List.append_nil] at this
  exact ⟨by rw [this, C20_size v], C20_size v⟩

/-- Whatever a decoder returns (on any bytes, in either mode), the offset advance it reports is the
    `serialized_size()` of the returned value — this is what `Vec<T>` and derived code add to
    their running offset. -/
theorem C20_decoded_size (m : Mode) (σ : Schema) (b : List Nat) (v : Val) (n : Nat)
    (h : de m σ b = .ok (v, n)) : n = size v := de_adv m σ b v n h

/-- Instance: `DbValue` / `DbKeyValue` (the database's own derived types). -/
theorem C20_dbKeyValue_roundtrip (k v : Val) (hk : WT dbValueSchema k) (hv : WT dbValueSchema v)
    (hs : (ser k).length + (ser v).length < U64) :
    de .fixed dbKeyValueSchema (ser (.struct (.cons k (.cons v .nil)))) =
      .ok (.struct (.cons k (.cons v .nil)), (ser k).length + (ser v).length) := by
  have hwt : WT dbKeyValueSchema (.struct (.cons k (.cons v .nil))) :=
    .struct (.cons hk (.cons hv .nil))
  have := C20_roundtrip dbKeyValueSchema _ [] hwt (by simpa [ser, serList] using hs)
  simpa [ser, serList] using this

/-! ### Where the statement fails on the code as it is (known findings, no small repair)

`WT .path` demands valid UTF-8 because `PathBuf::serialize` goes through `to_string_lossy()`:
the path with the single byte `0xFF` is written as U+FFFD and reads back as a different path.
(The other lossy encoding, `SocketAddrV6::flowinfo`, is invisible to the model: `to_string()` does
not print it; the harness oracle reports it.) -/

theorem C20_path_lossy_counterexample :
    (match de .fixed .path (serPath [0xFF]) with
     | .ok (.blob back, _) => back != [0xFF]
     | _ => false) = true := by decide

/-! Non-vacuity: the hypotheses are satisfiable on non-trivial values. -/

/-- `DbValue::String("hé")` (tag 4) is well typed … -/
example : WT dbValueSchema (.enum 4 (.cons (.blob [104, 195, 169]) .nil)) :=
  .enum (by decide) rfl (.cons (.str (by decide)) .nil)

/-- … and a `Vec<enum { A, B(u64, String), C { x: Vec<i64> } }>` value with all three variants. -/
example :
    WT (.vec (.enum (SchemaListList.ofList [[], [.u64, .str], [.vec .i64]])))
      (.vec (ValList.ofList
        [.enum 0 .nil, .enum 1 (ValList.ofList [.num 7, .blob [97]]),
         .enum 2 (ValList.ofList [.vec (ValList.ofList [.num 18446744073709551615])])])) :=
  .vec
    (.cons (.enum (by decide) rfl .nil)
      (.cons (.enum (by decide) rfl (.cons (.u64 (by decide)) (.cons (.str (by decide)) .nil)))
        (.cons (.enum (by decide) rfl (.cons (.vec (.cons (.i64 (by decide)) .nil) (by decide)) .nil))
          .nil)))
    (by decide)

/-- a pre-epoch time with a fractional part: 1969-12-31T23:59:58.75 -/
example : WT .time (.time (-2) 750000000) := .time (by decide) (by decide) (by decide)
example : ser (.time (-2) 750000000) = [1, 0, 0, 0, 0, 0, 0, 0, 128, 178, 230, 14, 0] := by decide

/-- an address in canonical text form (`::1`) -/
example : WT .ip (.blob [58, 58, 49]) := .ip (by decide) (by decide)

end AgdbCodec
