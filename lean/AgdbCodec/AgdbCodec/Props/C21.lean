import AgdbCodec.Lemmas.Total
import AgdbCodec.Lemmas.ConvTotal
/-
  C21 — deserializing arbitrary bytes never crashes.

  `de m σ b` models `<T as AgdbSerialize>::deserialize(b)` with every crash site of the real
  decoders explicit (checked `usize`/`u64` addition, `&b[off..]`, `Vec::with_capacity` by an
  untrusted length, `Duration::new`).  `noCrash o` = `o` is `ok _` or `err _`.

  The full theorem holds of the REPAIRED decoders (`Mode.fixed`); the pinned code
  (`Mode.legacy`) violates it at four sites, each with a witness below.
  `b.length < 2^63` is physical: a Rust slice never exceeds `isize::MAX` bytes.
-/
namespace AgdbCodec

/-- Every decoder (any type descriptor, any bytes) returns a value or an error. -/
theorem C21_total (σ : Schema) (b : List Nat) (hb : b.length < I63) :
    (de .fixed σ b).noCrash :=
  (safe_de σ b hb).1

/-- Same statement spelled out as the disjunction of the property text. -/
theorem C21_total_cases (σ : Schema) (b : List Nat) (hb : b.length < I63) :
    (∃ v n, de .fixed σ b = .ok (v, n)) ∨ (∃ k, de .fixed σ b = .err k) := by
  have h := C21_total σ b hb
  cases hd : de .fixed σ b with
  | ok a => exact .inl ⟨a.1, a.2, rfl⟩
  | err k => exact .inr ⟨k, rfl⟩
  | panic s => rw [hd] at h; exact absurd h (by simp [Outcome.noCrash])
  | hugeAlloc s => rw [hd] at h; exact absurd h (by simp [Outcome.noCrash])
  | outOfFuel => rw [hd] at h; exact absurd h (by simp [Outcome.noCrash])

/-- No offset ever runs away: the advance reported on success exceeds the input length by at most
    the longest address text (this is the invariant that makes every `offset += size` safe). -/
theorem C21_advance_bounded (σ : Schema) (b : List Nat) (hb : b.length < I63) (v : Val) (n : Nat)
    (h : de .fixed σ b = .ok (v, n)) : n ≤ b.length + maxAddrLen :=
  (safe_de σ b hb).2 v n h

/-- "including byte-array values converted to typed vectors":
    `Vec::<T>::try_from(DbValue::Bytes(b))` (T = u64, i64, f64, String, SystemTime) returns a
    vector or an error for every `b`. -/
theorem C21_tovec_total (k : ConvKind) (b : List Nat) (hb : b.length < I63) :
    (toVec .fixed k b).noCrash :=
  toVec_fixed_noCrash k b hb

/-! ### Witnesses: the property is false of the pinned code -/

/-- `String::deserialize` on a `u64::MAX` length prefix: `begin + len` overflows. -/
theorem C21_len_overflow_counterexample :
    (de .legacy .str [255, 255, 255, 255, 255, 255, 255, 255]).isPanic = true := by decide

/-- same arithmetic in `Vec<u8>::deserialize` (prefix `2^64 - 8`) -/
theorem C21_bytes_len_overflow_counterexample :
    (de .legacy .bytes [248, 255, 255, 255, 255, 255, 255, 255]).isPanic = true := by decide

/-- `Vec<u64>::deserialize` on a `2^40` length prefix: `with_capacity(2^40)` (8.8 TB). -/
theorem C21_capacity_counterexample :
    (de .legacy (.vec .u64) [0, 0, 0, 0, 0, 1, 0, 0]).isHugeAlloc = true := by decide

/-- `SystemTime::deserialize` with secs = `u64::MAX`, nanos = `u32::MAX`: `Duration::new` panics. -/
theorem C21_duration_counterexample :
    (de .legacy .time
      [255, 255, 255, 255, 255, 255, 255, 255, 255, 255, 255, 255, 1]).isPanic = true := by decide

/-- `Vec<IpAddr>` = [count 2]["::ffff:0:0"]: the decoded address prints as `::ffff:0.0.0.0`
    (4 bytes longer), so `begin` passes the end of the buffer and `&bytes[begin..]` panics. -/
theorem C21_vec_offset_counterexample :
    (de .legacy (.vec .ip)
      ([2, 0, 0, 0, 0, 0, 0, 0] ++ [10, 0, 0, 0, 0, 0, 0, 0] ++
        [58, 58, 102, 102, 102, 102, 58, 48, 58, 48])).isPanic = true := by decide

/-- the same through derived code: `struct { a: IpAddr, b: u64 }`, `&buffer[__offset..]`. -/
theorem C21_derive_offset_counterexample :
    (de .legacy (.struct (SchemaList.ofList [.ip, .u64]))
      ([10, 0, 0, 0, 0, 0, 0, 0] ++
        [58, 58, 102, 102, 102, 102, 58, 48, 58, 48])).isPanic = true := by decide

/-- the conversion path reaches the `Duration::new` panic as well:
    `Vec::<SystemTime>::try_from(Bytes(serialize(vec![DbValue::Bytes(<13 bad bytes>)])))` -/
theorem C21_tovec_duration_counterexample :
    (toVec .legacy .time
      ([1, 0, 0, 0, 0, 0, 0, 0] ++ [0] ++ [13, 0, 0, 0, 0, 0, 0, 0] ++
        [255, 255, 255, 255, 255, 255, 255, 255, 255, 255, 255, 255, 1])).isPanic = true := by decide

/-- The repaired decoders turn each witness into an error. -/
example : (de .fixed .str [255, 255, 255, 255, 255, 255, 255, 255]).errKind? = some .outOfBounds := by
  decide
example : (de .fixed (.vec .u64) [0, 0, 0, 0, 0, 1, 0, 0]).errKind? = some .outOfBounds := by decide
example : (de .fixed .time [255, 255, 255, 255, 255, 255, 255, 255, 255, 255, 255, 255, 1]).errKind? =
    some .outOfBounds := by decide
example : (de .fixed (.vec .ip)
    ([2, 0, 0, 0, 0, 0, 0, 0] ++ [10, 0, 0, 0, 0, 0, 0, 0] ++
      [58, 58, 102, 102, 102, 102, 58, 48, 58, 48])).errKind? = some .outOfBounds := by decide

/-- Non-vacuity: the decoders do succeed on non-trivial input (a `Vec<u64>` of two elements
    followed by garbage), so `C21_total` is not about a function that always errors. -/
example : (de .fixed (.vec .u64)
    ([2, 0, 0, 0, 0, 0, 0, 0] ++ [1, 0, 0, 0, 0, 0, 0, 0] ++ [0, 1, 0, 0, 0, 0, 0, 0] ++ [9, 9])).isOk
      = true := by decide

end AgdbCodec
