import AgdbCodec.Lemmas.StoreLoad
/-
  C12 — every stored value reads back bit-for-bit.

  `storeValue` / `loadValue` mirror `DbValue::store_db_value` / `load_db_value` with the exact
  16-byte `DbValueIndex` packing (type nibble, inline-size nibble, ≤ 15 inline bytes, otherwise a
  storage index) over an abstract `index ↦ bytes` store; out-of-line payloads are the C20 codec.
  A `DbValue` is any `v` with `WT dbValueSchema v` (all nine variants, any length, floats as bit
  patterns).  `st.Wf` is the storage invariant (indexes are non-zero and fresh), `st.next < 2^64`
  is physical (a `StorageIndex` is a `u64`).  Persistence of the store across reopen is the
  storage layer's property (C05) and is exercised here only by the harness.
-/
namespace AgdbCodec

/-- `store_db_value` is defined on every `DbValue`. -/
theorem C12_store_defined (v : Val) (st : Store) (hv : WT dbValueSchema v) :
    ∃ i st', storeValue v st = some (i, st') := by
  cases hv with
  | enum htag hget hl =>
    rename_i fs tag vs
    match tag, hget with
    | 0, hget | 1, hget | 2, hget | 3, hget | 4, hget | 5, hget | 6, hget | 7, hget | 8, hget =>
      simp [SchemaListList.ofList, SchemaList.ofList, SchemaListList.get?] at hget
      subst hget
      cases hl with
      | cons hp hnil => cases hnil; cases hp <;> exact ⟨_, _, rfl⟩
    | n + 9, hget =>
      simp [SchemaListList.ofList, SchemaList.ofList, SchemaListList.get?] at hget

/-- `load_db_value(store_db_value(v)) == v` for every value of every one of the nine types
    (the 15/16-byte inline boundary is a case split inside the proof, not a sample). -/
theorem C12_roundtrip (v : Val) (st : Store) (hw : st.Wf) (hn : st.next < U64)
    (hv : WT dbValueSchema v) (hs : (ser v).length < U64) (i : List Nat) (st' : Store)
    (h : storeValue v st = some (i, st')) : loadValue .fixed i st' = .ok v :=
  store_load v st hw hn hv hs i st' h

/-- A stored value keeps reading back the same after any later `store_db_value`. -/
theorem C12_stable (i : List Nat) (st : Store) (hw : st.Wf) (v w : Val) (j : List Nat)
    (st' : Store) (hl : loadValue .fixed i st = .ok v) (hs : storeValue w st = some (j, st')) :
    loadValue .fixed i st' = .ok v :=
  loadValue_stable .fixed i st hw v w j st' hl hs

/-- As a property key AND value: the 32-byte `DbKeyValue` record (`VecValue::store` / `load`). -/
theorem C12_key_value_roundtrip (k v : Val) (st : Store) (hw : st.Wf) (hn : st.next + 1 < U64)
    (hk : WT dbValueSchema k) (hv : WT dbValueSchema v)
    (hsk : (ser k).length < U64) (hsv : (ser v).length < U64)
    (bytes : List Nat) (st2 : Store) (h : storeKV k v st = some (bytes, st2)) :
    loadKV .fixed bytes st2 = .ok (k, v) :=
  store_load_kv k v st hw hn hk hv hsk hsv bytes st2 h

/-- All 2^64 float bit patterns (NaN payloads, signed zeros, …) survive: the `F64` path is the
    identity on bits. -/
theorem C12_float_bits (bits : Nat) (hb : bits < U64) (st : Store) (hw : st.Wf) (hn : st.next < U64) :
    ∃ i, storeValue (wrap 3 (.num bits)) st = some (i, st) ∧
      loadValue .fixed i st = .ok (wrap 3 (.num bits)) := by
  have hv : WT dbValueSchema (wrap 3 (.num bits)) :=
    .enum (by decide) rfl (.cons (.f64 hb) .nil)
  obtain ⟨i', e1, _⟩ := storeInlineOr_inline F64_META (by decide) (le8 bits) [] st (by simp [le8_length])
  refine ⟨i', by simp [wrap, storeValue, e1], ?_⟩
  exact C12_roundtrip _ st hw hn hv (by simp [wrap, ser, serList, le8_length, U64]) i' st
    (by simp [wrap, storeValue, e1])

/-! Non-vacuity: the inline/out-of-line boundary on concrete strings (15 vs 16 bytes) -/

example : (storeValue (wrap 4 (.blob (List.replicate 15 97))) Store.empty).map (·.1) =
    some (List.replicate 15 97 ++ [5 * 16 + 15]) := by decide

example : (storeValue (wrap 4 (.blob (List.replicate 16 97))) Store.empty).map (·.1) =
    some ([1, 0, 0, 0, 0, 0, 0, 0, 0, 0, 0, 0, 0, 0, 0, 5 * 16]) := by decide

example : Store.empty.Wf := ⟨by decide, by intro p hp; cases hp⟩

/-- a NaN with payload and the negative zero, as key and value -/
example : WT dbValueSchema (wrap 3 (.num 0x7ff8000000000abc)) ∧
    WT dbValueSchema (wrap 3 (.num 0x8000000000000000)) :=
  ⟨.enum (by decide) rfl (.cons (.f64 (by decide)) .nil),
   .enum (by decide) rfl (.cons (.f64 (by decide)) .nil)⟩

/-- `load_db_value` does have panic sites on indexes that `store_db_value` never produces
    (type nibble 0, or an i64 with inline size ≠ 8) — they belong to C07 (damaged file). -/
example : (loadValue .fixed newIdx Store.empty).isPanic = true := by decide

end AgdbCodec
