import AgdbCodec.Lemmas.DeriveUpdateRead
import AgdbCodec.Lemmas.KindOk
/-
  C22 — user types stored with the derive macros read back unchanged.

  `τ : TypeDesc` ranges over ALL struct shapes the `DbType` / `DbElement` derive accepts (any
  number of plain / `Option` / `#[agdb(flatten)]` (to any depth) / `#[agdb(skip)]` / renamed /
  `db_id` fields, any field kinds), `v` over all values of the type (`WTU`), `db` over all
  database states (`Db.Wf`).  Field conversions enter only through `KindOk k x`
  (`T::try_from(DbValue::from(x)) == Ok(x)`), proved kind by kind in `kindOk_*` below.
  `DistinctKeys τ`: no two fields share a key (the derive's documentation makes that the user's
  responsibility).  The theorems are about the REPAIRED `db_keys()`
  (proposed_fixes/C22-flatten-db-keys.diff); the pinned code fails `C22_flatten_keys_counterexample`.
-/
namespace AgdbCodec

/-- `insert().element(&v)` (new element) then `select().elements::<T>().ids(id)` + `try_into::<T>()`
    yields `v` with `db_id = Some(id)` and skipped fields at their defaults. -/
theorem C22_roundtrip (τ : TypeDesc) (v : UValList) (db : Db) (hw : db.Wf)
    (hv : WTU τ.fields v) (hd : DistinctKeys τ) (hid : uvalId v = none ∨ uvalId v = some 0) :
    ∃ db', db.insertElement (uvalId v) (typeValues τ v) = .ok (db', (db.next : Int)) ∧
      db'.selectAs .fixed τ (db.next : Int) = .ok (normalize (db.next : Int) τ.fields v) :=
  roundtrip_new τ v db hw hv hd hid

/-- the macro-generated pair on its own: `from_db_element` inverts `to_db_values` on any element
    that holds the written pairs, whatever else it holds under other keys -/
theorem C22_from_to_db_values (fs : FieldList) (v : UValList) (id : Int) (extra : List (Val × Val))
    (hw : WTU fs v) (hnd : (keysOf fs).Nodup) (hex : ∀ k ∈ keysOf fs, k ∉ kvKeys extra) :
    fromDbElement .fixed fs id (toDbValues fs v ++ extra) = .ok (normalize id fs v) :=
  from_to_values fs v id extra hw hnd hex

/-- updating through the id field updates exactly that element: every other element is unchanged,
    every written key of element `i` holds the written value, every other key of `i` keeps its
    old value (this is also why a `None` option field leaves a previously stored value in place). -/
theorem C22_update_by_id (τ : TypeDesc) (v : UValList) (db : Db) (i : Int)
    (old : List (Val × Val)) (hg : db.get i = some old) (hd : DistinctKeys τ)
    (hid : uvalId v = some i) :
    ∃ db' new, db.insertElement (uvalId v) (typeValues τ v) = .ok (db', i) ∧
      db'.next = db.next ∧ (∀ j, j ≠ i → db'.get j = db.get j) ∧ db'.get i = some new ∧
      ∀ key, lookupKey new key =
        (match lookupKey (typeValues τ v) key with
         | some d => some d
         | none => lookupKey old key) := by
  rw [hid]
  obtain ⟨db', h⟩ := update_exact db i old (typeValues τ v) hg (kvKeys_typeValues_nodup τ v hd)
  exact ⟨db', _, h⟩

/-- update through the id field, then select as `T`: when the new value has no `None` option
    (so every key of the type is written) the element reads back as the new value, and no other
    element is touched.  `old` is whatever the element held (any pairs with distinct string keys). -/
theorem C22_update_roundtrip (τ : TypeDesc) (v : UValList) (db : Db) (i : Int)
    (old : List (Val × Val)) (hg : db.get i = some old) (hno : (kvKeys old).Nodup)
    (hv : WTU τ.fields v) (hd : DistinctKeys τ) (hid : uvalId v = some i)
    (hsome : AllSome τ.fields v) :
    ∃ db', db.insertElement (uvalId v) (typeValues τ v) = .ok (db', i) ∧
      (∀ j, j ≠ i → db'.get j = db.get j) ∧
      db'.selectAs .fixed τ i = .ok (normalize i τ.fields v) :=
  update_roundtrip τ v db i old hg hno hv hd hid hsome

/-- the lookup-level version, usable when some options are `None`: -/
theorem C22_update_readback (fs : FieldList) (v : UValList) (i : Int) (old new : List (Val × Val))
    (hv : WTU fs v)
    (hl : ∀ key, lookupKey new key =
        (match lookupKey (toDbValues fs v) key with
         | some d => some d
         | none => lookupKey old key))
    (ha : Agrees (lookupKey (toDbValues fs v)) fs v)
    (hall : ∀ k ∈ keysOf fs, (lookupKey (toDbValues fs v) k).isSome) :
    fromDbElement .fixed fs i new = .ok (normalize i fs v) := by
  unfold fromDbElement
  apply fromLookup_agrees _ _ hv
  apply agrees_congr (lookupKey (toDbValues fs v)) _ _ _ _ ha
  intro k hk
  have := hl k
  cases h : lookupKey (toDbValues fs v) k with
  | none => have := hall k hk; simp [h] at this
  | some d => rw [h] at this; exact this.symm

/-! ### Witness: the pinned `db_keys()` loses the keys of a flattened type that has an optional
    field — `struct Outer { a: u64, #[agdb(flatten)] n: Inner }`, `struct Inner { b: u64, c: Option<u64> }` -/

def innerOpt : FieldList := .cons (.plain [98] .u64) (.cons (.opt [99] .u64) .nil)
def outerNoOpt : TypeDesc := ⟨.cons (.plain [97] .u64) (.cons (.flatten innerOpt) .nil), none⟩
def outerVal : UValList :=
  .cons (.val (.num 1)) (.cons (.nested (.cons (.val (.num 2)) (.cons (.some (.num 3)) .nil))) .nil)

/-- legacy: `Outer::db_keys()` = `["a"]`, the select drops `b` and `c`, `from_db_element` fails
    with "Key 'b' not found" -/
theorem C22_flatten_keys_counterexample :
    (match ({} : Db).insertElement (uvalId outerVal) (typeValues outerNoOpt outerVal) with
     | .ok (db', id) => (db'.selectAs .legacy outerNoOpt id).errKind?
     | _ => none) = some .notFound := by decide

/-- repaired: the same value reads back -/
example :
    (match ({} : Db).insertElement (uvalId outerVal) (typeValues outerNoOpt outerVal) with
     | .ok (db', id) => (db'.selectAs .fixed outerNoOpt id).isOk
     | _ => false) = true := by decide

/-! Non-vacuity -/

example : WTU outerNoOpt.fields outerVal :=
  .cons (.plain (kindOk_u64 1))
    (.cons (.flatten (.cons (.plain (kindOk_u64 2)) (.cons (.optSome (kindOk_u64 3)) .nil))) .nil)

example : DistinctKeys outerNoOpt := ⟨by decide, by simp [outerNoOpt]⟩

example : ({} : Db).Wf := ⟨by decide, by intro e he; cases he⟩

/-- a custom value field (`Status::Inactive(7)` of `enum Status { Active, Inactive(u64), Named{s:String} }`) -/
example : KindOk (.custom (.enum (SchemaListList.ofList [[], [.u64], [.str]])))
    (.enum 1 (.cons (.num 7) .nil)) :=
  kindOk_custom _ _ (.enum (by decide) rfl (.cons (.u64 (by decide)) .nil)) (by decide)

end AgdbCodec
