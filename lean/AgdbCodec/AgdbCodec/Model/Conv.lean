import AgdbCodec.Model.Schema
/-
  Typed conversions of byte-array values: `impl TryFrom<DbValue> for Vec<T>` in
  `agdb/src/db/db_value.rs` for a `DbValue::Bytes(b)` argument:
  empty → `[]`, otherwise `Vec::<DbValue>::deserialize(b)` followed by `T::try_from` per element.
-/
namespace AgdbCodec

inductive ConvKind
  | u64 | i64 | f64 | str | time
  deriving DecidableEq, Repr

/-- bit pattern of `f64::from(n)` for `0 ≤ n < 2^53` (exact conversion). -/
def f64BitsOfNat (n : Nat) : Nat :=
  if n = 0 then 0
  else
    let e := Nat.log2 n
    (1023 + e) * 4503599627370496 + (n * 2 ^ (52 - e) - 4503599627370496)

/-- `T::try_from(db_value)` for one element; `v` is a decoded `DbValue` (derived enum value). -/
def convElem (m : Mode) (k : ConvKind) (v : Val) : Outcome Val :=
  match k, v with
  -- to_u64
  | .u64, .enum 2 (.cons (.num n) .nil) => .ok (.num n)
  | .u64, .enum 1 (.cons (.num n) .nil) => if n < I63 then .ok (.num n) else .err .typeError
  -- to_i64
  | .i64, .enum 1 (.cons (.num n) .nil) => .ok (.num n)
  | .i64, .enum 2 (.cons (.num n) .nil) => if n < I63 then .ok (.num n) else .err .typeError
  -- to_f64: F64 as is; I64 via i32::try_from, U64 via u32::try_from
  | .f64, .enum 3 (.cons (.num n) .nil) => .ok (.num n)
  | .f64, .enum 1 (.cons (.num n) .nil) =>
      if n < 2147483648 then .ok (.num (f64BitsOfNat n))
      else if n ≥ U64 - 2147483648 then .ok (.num (I63 + f64BitsOfNat (U64 - n)))
      else .err .typeError
  | .f64, .enum 2 (.cons (.num n) .nil) =>
      if n < 4294967296 then .ok (.num (f64BitsOfNat n)) else .err .typeError
  -- string()
  | .str, .enum 4 (.cons (.blob bs) .nil) => .ok (.blob bs)
  -- SystemTime::deserialize(value.bytes()?)
  | .time, .enum 0 (.cons (.blob bs) .nil) => (deTime m bs).bind fun r => .ok r.1
  | _, _ => .err .typeError

def convAll (m : Mode) (k : ConvKind) : ValList → Outcome ValList
  | .nil => .ok .nil
  | .cons v t =>
    (convElem m k v).bind fun x => (convAll m k t).bind fun xs => .ok (.cons x xs)

/-- `Vec::<T>::try_from(DbValue::Bytes(b))` -/
def toVec (m : Mode) (k : ConvKind) (b : List Nat) : Outcome ValList :=
  match b with
  | [] => .ok .nil
  | _ :: _ =>
    (de m (.vec dbValueSchema) b).bind fun r =>
      match r.1 with
      | .vec vs => convAll m k vs
      | _ => .err .typeError

end AgdbCodec

namespace AgdbCodec

/-! ### Recursive derived types

`QueryCondition { …, data: QueryConditionData::Where(Vec<QueryCondition>) }` (hence `SearchQuery`,
`QueryIds`, `QueryType`) is outside the `Schema` universe.  Its derived `deserialize` recurses
once per nesting level of the INPUT with no depth limit, so — unlike every `Schema` decoder, whose
recursion depth is bounded by the type — the stack needed is chosen by the input.
Stack model: every level needs at least `MIN_FRAME` bytes of a `STACK`-byte stack. -/

def STACK : Nat := 8388608
def MIN_FRAME : Nat := 64

/-- decode a `QueryCondition` nested `depth` levels deep (`Where(vec![Where(vec![…])])`) -/
def deepDecode (depth : Nat) : Outcome Unit :=
  if depth * MIN_FRAME > STACK then .outOfFuel else .ok ()

end AgdbCodec
