import AgdbCodec.Model.Addr
/-
  The binary serialization (`agdb::AgdbSerialize`): a universe of type descriptors (`Schema`),
  untyped values (`Val`), and `ser` / `size` / `de` mirroring
  `agdb/src/utilities/serialize.rs` (built-in impls) and `agdb_derive/src/db_serialize.rs`
  (`serialize_struct`, `serialize_tuple`, `serialize_enum`).

  `de` is written over `Outcome` with Rust debug semantics: checked `usize`/`u64` additions,
  slicing `&b[off..]`, `Vec::with_capacity(len)` by an untrusted length, `Duration::new`.
  `Mode.fixed` mirrors the code with the proposed repairs (proposed_fixes/C21-*.diff),
  `Mode.legacy` the pinned commit.
-/
namespace AgdbCodec

mutual
  inductive Schema
    | u64 | i64 | f64 | usize | bool
    | str            -- String
    | bytes          -- Vec<u8>
    | time           -- SystemTime
    | path           -- PathBuf
    | sock           -- SocketAddr
    | ip             -- IpAddr
    | vec (s : Schema)                 -- Vec<T>, T ≠ u8
    | struct (fs : SchemaList)         -- derived named / tuple / unit struct
    | enum (vs : SchemaListList)       -- derived enum: variant i has tag byte i
  inductive SchemaList
    | nil
    | cons (s : Schema) (t : SchemaList)
  inductive SchemaListList
    | nil
    | cons (fs : SchemaList) (t : SchemaListList)
end

mutual
  inductive Val
    | num (n : Nat)                    -- u64 / usize / i64 (two's complement) / f64 (bit pattern)
    | bool (b : Bool)
    | blob (bs : List Nat)             -- String / Vec<u8> / PathBuf / address text
    | time (sec : Int) (nsec : Nat)    -- SystemTime as the Unix `Timespec {tv_sec, tv_nsec}`
    | vec (vs : ValList)
    | struct (vs : ValList)
    | enum (tag : Nat) (vs : ValList)
    deriving DecidableEq
  inductive ValList
    | nil
    | cons (v : Val) (t : ValList)
    deriving DecidableEq
end

def ValList.len : ValList → Nat
  | .nil => 0
  | .cons _ t => t.len + 1

def NSEC : Nat := 1000000000
/-- i64::MAX + 1 -/
def I63 : Nat := 9223372036854775808

/-- `SystemTime::serialize`: `duration_since(UNIX_EPOCH)` split into secs / subsec nanos / flag. -/
def serTime (sec : Int) (nsec : Nat) : List Nat :=
  if 0 ≤ sec then le8 sec.toNat ++ le4 nsec ++ [1]
  else if nsec = 0 then le8 (-sec).toNat ++ le4 0 ++ [0]
  else le8 (-sec - 1).toNat ++ le4 (NSEC - nsec) ++ [0]

mutual
  /-- `AgdbSerialize::serialize` -/
  def ser : Val → List Nat
    | .num n => le8 n
    | .bool b => [if b then 1 else 0]
    | .blob bs => le8 bs.length ++ bs
    | .time sec nsec => serTime sec nsec
    | .vec vs => le8 vs.len ++ serList vs
    | .struct vs => serList vs
    | .enum tag vs => tag :: serList vs
  def serList : ValList → List Nat
    | .nil => []
    | .cons v t => ser v ++ serList t
end

mutual
  /-- `AgdbSerialize::serialized_size` -/
  def size : Val → Nat
    | .num _ => 8
    | .bool _ => 1
    | .blob bs => 8 + bs.length
    | .time _ _ => 13
    | .vec vs => 8 + sizeList vs
    | .struct vs => sizeList vs
    | .enum _ vs => 1 + sizeList vs
  def sizeList : ValList → Nat
    | .nil => 0
    | .cons v t => size v + sizeList t
end

/-- `PathBuf::serialize`: `self.to_string_lossy().to_string().serialize()` on the path's OS bytes
    (on Unix any byte string is a path). -/
def serPath (osBytes : List Nat) : List Nat :=
  ser (.blob (if validUtf8 osBytes then osBytes else utf8Lossy osBytes))

/-! ### Decoders -/

/-- `String::deserialize` / `Vec<u8>::deserialize` up to the extracted payload.
    legacy: `let end = begin + len;` (overflow panics in debug);
    fixed:  `begin.checked_add(len).ok_or(OutOfBounds)?`. -/
def deBlobRaw (m : Mode) (site : String) (b : List Nat) : Outcome (List Nat) :=
  (readU64 b).bind fun len =>
    if 8 + len ≥ U64 then
      (match m with
       | .legacy => .panic site
       | .fixed => .err .outOfBounds)
    else if 8 + len ≤ b.length then .ok ((b.drop 8).take len)
    else .err .outOfBounds

/-- `String::deserialize` (adds `String::from_utf8`, whose error converts to `TypeError`). -/
def deStr (m : Mode) (b : List Nat) : Outcome (List Nat) :=
  (deBlobRaw m "String::deserialize" b).bind fun bs =>
    if validUtf8 bs then .ok bs else .err .typeError

/-- `Duration::new(secs, nanos)` on decoded fields.
    legacy: panics when `secs + nanos / 10^9` overflows `u64`;
    fixed: `nanos >= 10^9` is rejected as `OutOfBounds` before `Duration::new` is called. -/
def durationNew (m : Mode) (secs nanos : Nat) : Outcome (Nat × Nat) :=
  if nanos < NSEC then .ok (secs, nanos)
  else match m with
    | .fixed => .err .outOfBounds
    | .legacy =>
      if secs + nanos / NSEC ≥ U64 then .panic "SystemTime::deserialize"
      else .ok (secs + nanos / NSEC, nanos % NSEC)

/-- `UNIX_EPOCH.checked_sub(d)` / `checked_add(d)` on the Unix `Timespec`. -/
def epochOffset (before : Bool) (s n : Nat) : Outcome (Val × Nat) :=
  if before then
    -- tv_sec.checked_sub_unsigned(s), then borrow one second if n > 0
    if s > I63 then .err .outOfBounds
    else if n = 0 then .ok (.time (-(s : Int)) 0, 13)
    else if s + 1 > I63 then .err .outOfBounds
    else .ok (.time (-(s : Int) - 1) (NSEC - n), 13)
  else
    -- tv_sec.checked_add_unsigned(s)
    if s ≥ I63 then .err .outOfBounds
    else .ok (.time (s : Int) n, 13)

/-- `SystemTime::deserialize`. -/
def deTime (m : Mode) (b : List Nat) : Outcome (Val × Nat) :=
  if b.length < 13 then .err .notEnoughData
  else
    (durationNew m (unle8 b) (unle4 (b.drop 8))).bind fun d =>
      epochOffset ((b.drop 12).head? == some 0) d.1 d.2

/-- `&buffer[off..]`: legacy panics when `off > len`, fixed uses `.get(off..)` → `OutOfBounds`. -/
def sliceFail {α : Type} (m : Mode) (site : String) : Outcome α :=
  match m with
  | .legacy => .panic site
  | .fixed => .err .outOfBounds

/-- `offset += size` in `u64`/`usize` (debug build: overflow panics). -/
def addOff (site : String) (off n : Nat) : Outcome Nat :=
  if off + n ≥ U64 then .panic site else .ok (off + n)

/-- The loop of `Vec<T>::deserialize`: `k` elements left, `off` = `begin`.
    `f` is `T::deserialize`; any `Err` of an element is mapped to `OutOfBounds`. -/
def deRep (m : Mode) (f : List Nat → Outcome (Val × Nat)) :
    Nat → List Nat → Nat → Outcome (ValList × Nat)
  | 0, _, off => .ok (.nil, off)
  | k + 1, b, off =>
    if off > b.length then sliceFail m "Vec<T>::deserialize"
    else
      ((f (b.drop off)).mapErr .outOfBounds).bind fun vn =>
        (addOff "Vec<T>::deserialize" off vn.2).bind fun off1 =>
          (deRep m f k b off1).bind fun r => .ok (.cons vn.1 r.1, r.2)

/-- The element count handed to `Vec::with_capacity`: legacy `len` (untrusted),
    fixed `len.min(bytes.len())`. -/
def vecCap (m : Mode) (len blen : Nat) : Nat :=
  match m with
  | .legacy => len
  | .fixed => min len blen

/-- `Vec<T>::deserialize`.  `Vec::with_capacity(n)` is an *enormous allocation* when it asks for
    more elements than the input has bytes (no well-formed input needs that, except vectors of
    zero-sized elements, for which `with_capacity` does not allocate at all). -/
def deVec (m : Mode) (f : List Nat → Outcome (Val × Nat)) (b : List Nat) : Outcome (Val × Nat) :=
  (readU64 b).bind fun len =>
    if vecCap m len b.length > b.length then .hugeAlloc "Vec<T>::deserialize"
    else (deRep m f len b 8).bind fun r => .ok (.vec r.1, r.2)

mutual
  /-- `<T as AgdbSerialize>::deserialize(bytes)`; the `Nat` is `serialized_size()` of the decoded
      value, which is what the callers (`Vec<T>`, derived code) advance their offset by. -/
  def de (m : Mode) : Schema → List Nat → Outcome (Val × Nat)
    | .u64, b | .i64, b | .f64, b | .usize, b => (readU64 b).bind fun n => .ok (.num n, 8)
    | .bool, b =>
      (match b with
       | [] => .err .outOfBounds
       | x :: _ => .ok (.bool (x != 0), 1))
    | .str, b | .path, b => (deStr m b).bind fun bs => .ok (.blob bs, 8 + bs.length)
    | .bytes, b =>
      (deBlobRaw m "Vec<u8>::deserialize" b).bind fun bs => .ok (.blob bs, 8 + bs.length)
    | .time, b => deTime m b
    | .sock, b =>
      (deStr m b).bind fun bs =>
        (match canonAddr true bs with
         | some c => .ok (.blob c, 8 + c.length)
         | none => .err .typeError)
    | .ip, b =>
      (deStr m b).bind fun bs =>
        (match canonAddr false bs with
         | some c => .ok (.blob c, 8 + c.length)
         | none => .err .typeError)
    | .vec s, b => deVec m (de m s) b
    | .struct fs, b => (deList m fs b 0).bind fun r => .ok (.struct r.1, r.2)
    | .enum vss, b =>
      (match b with
       | [] => .err .typeError
       | t :: _ => deVariant m vss t t b)
  /-- the generated field sequence: `let f = <T>::deserialize(&buffer[__offset as usize..])?;
      __offset += serialized_size(&f);` -/
  def deList (m : Mode) : SchemaList → List Nat → Nat → Outcome (ValList × Nat)
    | .nil, _, off => .ok (.nil, off)
    | .cons s t, b, off =>
      if off > b.length then sliceFail m "derive::deserialize"
      else
        (de m s (b.drop off)).bind fun vn =>
          (addOff "derive::deserialize" off vn.2).bind fun off1 =>
            (deList m t b off1).bind fun r => .ok (.cons vn.1 r.1, r.2)
  /-- `match buffer.first() { Some(i) => variant i …, _ => Err(TypeError) }`;
      `k` counts down to the variant, `tag` is the byte read. -/
  def deVariant (m : Mode) : SchemaListList → Nat → Nat → List Nat → Outcome (Val × Nat)
    | .nil, _, _, _ => .err .typeError
    | .cons fs _, 0, tag, b => (deList m fs b 1).bind fun r => .ok (.enum tag r.1, r.2)
    | .cons _ t, k + 1, tag, b => deVariant m t k tag b
end

/-! ### Typing -/

def SchemaListList.get? : SchemaListList → Nat → Option SchemaList
  | .nil, _ => none
  | .cons fs _, 0 => some fs
  | .cons _ t, k + 1 => t.get? k

mutual
  /-- `WT σ v`: `v` is a value of the Rust type described by `σ`.  The side conditions are the
      ranges of the Rust types (`u64`, `usize` lengths, valid UTF-8 `String`, `Timespec`). -/
  inductive WT : Schema → Val → Prop
    | u64 {n : Nat} : n < U64 → WT .u64 (.num n)
    | i64 {n : Nat} : n < U64 → WT .i64 (.num n)
    | f64 {n : Nat} : n < U64 → WT .f64 (.num n)
    | usize {n : Nat} : n < U64 → WT .usize (.num n)
    | bool (b : Bool) : WT .bool (.bool b)
    | str {bs : List Nat} : validUtf8 bs = true → WT .str (.blob bs)
    | path {bs : List Nat} : validUtf8 bs = true → WT .path (.blob bs)
    | bytes (bs : List Nat) : WT .bytes (.blob bs)
    | time {sec : Int} {nsec : Nat} : -(I63 : Int) ≤ sec → sec < (I63 : Int) → nsec < NSEC →
        WT .time (.time sec nsec)
    | sock {bs : List Nat} : validUtf8 bs = true → canonAddr true bs = some bs → WT .sock (.blob bs)
    | ip {bs : List Nat} : validUtf8 bs = true → canonAddr false bs = some bs → WT .ip (.blob bs)
    | vec {s : Schema} {vs : ValList} : WTAll s vs → vs.len < U64 → WT (.vec s) (.vec vs)
    | struct {fs : SchemaList} {vs : ValList} : WTList fs vs → WT (.struct fs) (.struct vs)
    | enum {vss : SchemaListList} {fs : SchemaList} {tag : Nat} {vs : ValList} :
        tag < 256 → vss.get? tag = some fs → WTList fs vs → WT (.enum vss) (.enum tag vs)
  inductive WTList : SchemaList → ValList → Prop
    | nil : WTList .nil .nil
    | cons {s : Schema} {t : SchemaList} {v : Val} {vs : ValList} :
        WT s v → WTList t vs → WTList (.cons s t) (.cons v vs)
  inductive WTAll : Schema → ValList → Prop
    | nil {s : Schema} : WTAll s .nil
    | cons {s : Schema} {v : Val} {vs : ValList} : WT s v → WTAll s vs → WTAll s (.cons v vs)
end

end AgdbCodec

namespace AgdbCodec

/-! ### Instances: the database's own serializable types -/

def SchemaList.ofList : List Schema → SchemaList
  | [] => .nil
  | s :: t => .cons s (SchemaList.ofList t)

def SchemaListList.ofList : List (List Schema) → SchemaListList
  | [] => .nil
  | fs :: t => .cons (SchemaList.ofList fs) (SchemaListList.ofList t)

def ValList.ofList : List Val → ValList
  | [] => .nil
  | v :: t => .cons v (ValList.ofList t)

/-- `agdb::DbValue` (`#[derive(DbSerialize)]` enum, nine variants in declaration order). -/
def dbValueSchema : Schema :=
  .enum (SchemaListList.ofList
    [[.bytes], [.i64], [.u64], [.f64], [.str], [.vec .i64], [.vec .u64], [.vec .f64], [.vec .str]])

/-- `agdb::DbKeyValue { key: DbValue, value: DbValue }`. -/
def dbKeyValueSchema : Schema := .struct (SchemaList.ofList [dbValueSchema, dbValueSchema])

/-- `agdb::DbId(pub i64)`. -/
def dbIdSchema : Schema := .struct (SchemaList.ofList [.i64])

/-- `agdb::QueryId { Id(DbId), Alias(String) }`. -/
def queryIdSchema : Schema := .enum (SchemaListList.ofList [[dbIdSchema], [.str]])

end AgdbCodec
