/-
  Outcome type (Rust debug semantics made explicit) and byte-level helpers
  shared by the codec model.  Core only.
-/
namespace AgdbCodec

/-- `DbErrorType` values that the modelled decoders can return. -/
inductive ErrKind
  | outOfBounds
  | notEnoughData
  | typeError
  | notFound
  | invalidIndex
  deriving DecidableEq, Repr

def ErrKind.toStr : ErrKind → String
  | .outOfBounds => "OutOfBounds"
  | .notEnoughData => "NotEnoughData"
  | .typeError => "TypeError"
  | .notFound => "NotFound"
  | .invalidIndex => "InvalidIndex"

/-- Result of running a piece of Rust code under debug-build semantics. -/
inductive Outcome (α : Type)
  | ok (a : α)
  | err (k : ErrKind)
  | panic (site : String)
  | hugeAlloc (site : String)
  | outOfFuel
  deriving Repr

/-- `?`-style sequencing: everything except `ok` propagates unchanged. -/
def Outcome.bind {α β : Type} (o : Outcome α) (f : α → Outcome β) : Outcome β :=
  match o with
  | .ok a => f a
  | .err k => .err k
  | .panic s => .panic s
  | .hugeAlloc s => .hugeAlloc s
  | .outOfFuel => .outOfFuel

@[simp] theorem Outcome.bind_ok {α β : Type} (a : α) (f : α → Outcome β) :
    (Outcome.ok a).bind f = f a := rfl
@[simp] theorem Outcome.bind_err {α β : Type} (k : ErrKind) (f : α → Outcome β) :
    (Outcome.err k : Outcome α).bind f = .err k := rfl
@[simp] theorem Outcome.bind_panic {α β : Type} (s : String) (f : α → Outcome β) :
    (Outcome.panic s : Outcome α).bind f = .panic s := rfl
@[simp] theorem Outcome.bind_hugeAlloc {α β : Type} (s : String) (f : α → Outcome β) :
    (Outcome.hugeAlloc s : Outcome α).bind f = .hugeAlloc s := rfl
@[simp] theorem Outcome.bind_outOfFuel {α β : Type} (f : α → Outcome β) :
    (Outcome.outOfFuel : Outcome α).bind f = .outOfFuel := rfl

/-- `.map_err(|_| k)`: every `Err` becomes `Err(k)`. -/
def Outcome.mapErr {α : Type} (o : Outcome α) (k : ErrKind) : Outcome α :=
  match o with
  | .err _ => .err k
  | o => o

/-- "yields a value or returns an error": no panic, abort, enormous allocation or hang. -/
def Outcome.noCrash {α : Type} : Outcome α → Prop
  | .ok _ => True
  | .err _ => True
  | _ => False

def Outcome.isPanic {α : Type} : Outcome α → Bool
  | .panic _ => true
  | _ => false

def Outcome.isHugeAlloc {α : Type} : Outcome α → Bool
  | .hugeAlloc _ => true
  | _ => false

def Outcome.errKind? {α : Type} : Outcome α → Option ErrKind
  | .err k => some k
  | _ => none

def Outcome.isOk {α : Type} : Outcome α → Bool
  | .ok _ => true
  | _ => false

/-- Which tree is modelled: the repaired code (`fixed`) or the code as found at the pinned
    commit (`legacy`; kept only for the `_counterexample` theorems). -/
inductive Mode
  | fixed
  | legacy
  deriving DecidableEq, Repr

/-- 2^64 (`u64`/`usize` modulus on the 64-bit targets the project supports). -/
def U64 : Nat := 18446744073709551616

/-- `u64::to_le_bytes`. Bytes are naturals (`< 256` when produced by the model). -/
def le8 (n : Nat) : List Nat :=
  [n % 256, n / 256 % 256, n / 65536 % 256, n / 16777216 % 256,
   n / 4294967296 % 256, n / 1099511627776 % 256, n / 281474976710656 % 256,
   n / 72057594037927936 % 256]

/-- `u32::to_le_bytes`. -/
def le4 (n : Nat) : List Nat :=
  [n % 256, n / 256 % 256, n / 65536 % 256, n / 16777216 % 256]

/-- `u64::from_le_bytes(bytes[0..8])` (0 when fewer than 8 bytes; callers check the length). -/
def unle8 : List Nat → Nat
  | b0 :: b1 :: b2 :: b3 :: b4 :: b5 :: b6 :: b7 :: _ =>
      b0 + 256 * b1 + 65536 * b2 + 16777216 * b3 + 4294967296 * b4 +
        1099511627776 * b5 + 281474976710656 * b6 + 72057594037927936 * b7
  | _ => 0

/-- `u32::from_le_bytes(bytes[0..4])`. -/
def unle4 : List Nat → Nat
  | b0 :: b1 :: b2 :: b3 :: _ => b0 + 256 * b1 + 65536 * b2 + 16777216 * b3
  | _ => 0

/-- `bytes.get(0..8)` + `from_le_bytes`: the shared body of `u64/i64/f64/usize::deserialize`. -/
def readU64 (b : List Nat) : Outcome Nat :=
  if 8 ≤ b.length then .ok (unle8 b) else .err .outOfBounds

/-! ### UTF-8 validation (`String::from_utf8`), as a DFA over the byte list -/

/-- DFA state: number of continuation bytes still expected and the range allowed for the next one. -/
structure Utf8State where
  rem : Nat
  lo : Nat
  hi : Nat

def utf8Step (s : Utf8State) (b : Nat) : Option Utf8State :=
  match s.rem with
  | 0 =>
    if b < 0x80 then some ⟨0, 0x80, 0xBF⟩
    else if 0xC2 ≤ b && b ≤ 0xDF then some ⟨1, 0x80, 0xBF⟩
    else if b == 0xE0 then some ⟨2, 0xA0, 0xBF⟩
    else if b == 0xED then some ⟨2, 0x80, 0x9F⟩
    else if 0xE1 ≤ b && b ≤ 0xEF then some ⟨2, 0x80, 0xBF⟩
    else if b == 0xF0 then some ⟨3, 0x90, 0xBF⟩
    else if 0xF1 ≤ b && b ≤ 0xF3 then some ⟨3, 0x80, 0xBF⟩
    else if b == 0xF4 then some ⟨3, 0x80, 0x8F⟩
    else none
  | k + 1 => if s.lo ≤ b && b ≤ s.hi then some ⟨k, 0x80, 0xBF⟩ else none

def utf8Run : Utf8State → List Nat → Bool
  | s, [] => s.rem == 0
  | s, b :: t =>
    match utf8Step s b with
    | some s' => utf8Run s' t
    | none => false

/-- `String::from_utf8(bytes).is_ok()`. -/
def validUtf8 (b : List Nat) : Bool := utf8Run ⟨0, 0x80, 0xBF⟩ b

/-! ### `String::from_utf8_lossy` (`Utf8Chunks`): every maximal invalid sequence becomes U+FFFD -/

def isCont (b : Nat) : Bool := 0x80 ≤ b && b ≤ 0xBF

/-- at a non-empty input: `(true, w)` = a well-formed character of `w` bytes starts here,
    `(false, n)` = an invalid sequence of `n ≥ 1` bytes (the lead byte plus the continuation bytes
    accepted before the first mismatch) -/
def utf8Chunk : List Nat → Bool × Nat
  | [] => (true, 0)
  | b0 :: rest =>
    if b0 < 0x80 then (true, 1)
    else if 0xC2 ≤ b0 && b0 ≤ 0xDF then
      (match rest with
       | b1 :: _ => if isCont b1 then (true, 2) else (false, 1)
       | [] => (false, 1))
    else if 0xE0 ≤ b0 && b0 ≤ 0xEF then
      (match rest with
       | b1 :: r1 =>
         let ok2 :=
           (b0 == 0xE0 && 0xA0 ≤ b1 && b1 ≤ 0xBF) ||
           (0xE1 ≤ b0 && b0 ≤ 0xEC && isCont b1) ||
           (b0 == 0xED && 0x80 ≤ b1 && b1 ≤ 0x9F) ||
           (0xEE ≤ b0 && b0 ≤ 0xEF && isCont b1)
         if !ok2 then (false, 1)
         else (match r1 with
           | b2 :: _ => if isCont b2 then (true, 3) else (false, 2)
           | [] => (false, 2))
       | [] => (false, 1))
    else if 0xF0 ≤ b0 && b0 ≤ 0xF4 then
      (match rest with
       | b1 :: r1 =>
         let ok2 :=
           (b0 == 0xF0 && 0x90 ≤ b1 && b1 ≤ 0xBF) ||
           (0xF1 ≤ b0 && b0 ≤ 0xF3 && isCont b1) ||
           (b0 == 0xF4 && 0x80 ≤ b1 && b1 ≤ 0x8F)
         if !ok2 then (false, 1)
         else (match r1 with
           | b2 :: r2 =>
             if !isCont b2 then (false, 2)
             else (match r2 with
               | b3 :: _ => if isCont b3 then (true, 4) else (false, 3)
               | [] => (false, 3))
           | [] => (false, 2))
       | [] => (false, 1))
    else (false, 1)

def utf8LossyAux : Nat → List Nat → List Nat
  | 0, _ => []
  | _ + 1, [] => []
  | f + 1, b :: t =>
    let (ok, n) := utf8Chunk (b :: t)
    (if ok then (b :: t).take n else [0xEF, 0xBF, 0xBD]) ++ utf8LossyAux f ((b :: t).drop n)

/-- `String::from_utf8_lossy(bytes)` as bytes -/
def utf8Lossy (b : List Nat) : List Nat := utf8LossyAux b.length b

end AgdbCodec
