import AgdbCodec.Model.Basic
/-
  `IpAddr` / `SocketAddr` text form: a port of `core::net::parser` (`FromStr`) and of the
  `Display` impls, over byte lists.  The codec only ever uses the composition
  `canon = to_string ∘ parse`, because `serialized_size` of a decoded address is computed from
  `to_string()` of the parsed value, not from the bytes consumed.
  Trusted: that this port agrees with std (validated by the correspondence stream on every
  address string the generators produce).
-/
namespace AgdbCodec

abbrev PState := List Nat

def digitVal (radix : Nat) (c : Nat) : Option Nat :=
  let d :=
    if 48 ≤ c && c ≤ 57 then some (c - 48)
    else if 97 ≤ c && c ≤ 122 then some (c - 97 + 10)
    else if 65 ≤ c && c ≤ 90 then some (c - 65 + 10)
    else none
  match d with
  | some v => if v < radix then some v else none
  | none => none

/-- maximal run of digits: (value, count, rest) -/
def readDigits (radix : Nat) : List Nat → Nat → Nat → (Nat × Nat × List Nat)
  | [], acc, cnt => (acc, cnt, [])
  | c :: t, acc, cnt =>
    match digitVal radix c with
    | some d => readDigits radix t (acc * radix + d) (cnt + 1)
    | none => (acc, cnt, c :: t)

/-- `Parser::read_number(radix, max_digits, allow_zero_prefix)` for an unsigned type with
    maximum value `maxVal`. -/
def readNumber (radix : Nat) (maxDigits : Option Nat) (allowZeroPrefix : Bool) (maxVal : Nat)
    (s : PState) : Option (Nat × PState) :=
  let leadingZero := match s with | 48 :: _ => true | _ => false
  let (v, cnt, rest) := readDigits radix s 0 0
  if cnt == 0 then none
  else if (match maxDigits with | some m => decide (cnt > m) | none => false) then none
  else if v > maxVal then none
  else if !allowZeroPrefix && leadingZero && cnt > 1 then none
  else some (v, rest)

def readGiven (c : Nat) : PState → Option PState
  | x :: t => if x == c then some t else none
  | [] => none

/-- `read_separator(sep, index, inner)` -/
def readSep {α : Type} (sep : Nat) (index : Nat) (inner : PState → Option (α × PState))
    (s : PState) : Option (α × PState) :=
  if index > 0 then
    match readGiven sep s with
    | some s' => inner s'
    | none => none
  else inner s

def readIpv4Groups : Nat → Nat → PState → Option (List Nat × PState)
  | 0, _, s => some ([], s)
  | k + 1, i, s =>
    match readSep 46 i (readNumber 10 (some 3) false 255) s with
    | some (g, s') =>
      match readIpv4Groups k (i + 1) s' with
      | some (gs, s'') => some (g :: gs, s'')
      | none => none
    | none => none

/-- `read_ipv4_addr`: four octets -/
def readIpv4 (s : PState) : Option (List Nat × PState) := readIpv4Groups 4 0 s

/-- `read_groups`: returns (groups read, embedded-ipv4 flag, rest). `k` = slots left. -/
def readGroups (limit : Nat) : Nat → Nat → PState → (List Nat × Bool × PState)
  | 0, _, s => ([], false, s)
  | k + 1, i, s =>
    let v4 := if i + 1 < limit then readSep 58 i readIpv4 s else none
    match v4 with
    | some ([a, b, c, d], s') => ([a * 256 + b, c * 256 + d], true, s')
    | _ =>
      match readSep 58 i (readNumber 16 (some 4) true 65535) s with
      | some (g, s') =>
        let (gs, f, s'') := readGroups limit k (i + 1) s'
        (g :: gs, f, s'')
      | none => ([], false, s)

/-- `read_ipv6_addr`: eight 16-bit segments -/
def readIpv6 (s : PState) : Option (List Nat × PState) :=
  let (head, headV4, s1) := readGroups 8 8 0 s
  if head.length == 8 then some (head, s1)
  else if headV4 then none
  else
    match readGiven 58 s1 with
    | none => none
    | some s2 =>
      match readGiven 58 s2 with
      | none => none
      | some s3 =>
        let limit := 7 - head.length
        let (tail, _, s4) := readGroups limit limit 0 s3
        some (head ++ List.replicate (8 - head.length - tail.length) 0 ++ tail, s4)

/-- parsed address value -/
inductive Addr
  | v4 (octets : List Nat)
  | v6 (segs : List Nat)
  | sock4 (octets : List Nat) (port : Nat)
  | sock6 (segs : List Nat) (port : Nat) (scope : Nat)

def readPort (s : PState) : Option (Nat × PState) :=
  match readGiven 58 s with
  | some s' => readNumber 10 none true 65535 s'
  | none => none

def readScope (s : PState) : Option (Nat × PState) :=
  match readGiven 37 s with
  | some s' => readNumber 10 none true 4294967295 s'
  | none => none

/-- `IpAddr::from_str` -/
def parseIp (s : PState) : Option Addr :=
  match readIpv4 s with
  | some (o, []) => some (.v4 o)
  | some (_, _ :: _) => none
  | none =>
    match readIpv6 s with
    | some (g, []) => some (.v6 g)
    | _ => none

/-- `SocketAddr::from_str` -/
def parseSock (s : PState) : Option Addr :=
  let v4 : Option (Addr × PState) :=
    match readIpv4 s with
    | some (o, s1) =>
      match readPort s1 with
      | some (p, s2) => some (.sock4 o p, s2)
      | none => none
    | none => none
  match v4 with
  | some (a, []) => some a
  | some (_, _ :: _) => none
  | none =>
    match readGiven 91 s with
    | none => none
    | some s1 =>
      match readIpv6 s1 with
      | none => none
      | some (g, s2) =>
        let (scope, s3) := match readScope s2 with
          | some (sc, s') => (sc, s')
          | none => (0, s2)
        match readGiven 93 s3 with
        | none => none
        | some s4 =>
          match readPort s4 with
          | some (p, []) => some (.sock6 g p scope)
          | _ => none

/-! ### Display -/

/-- decimal digits, most significant first (`fuel` ≥ number of digits) -/
def decDigits : Nat → Nat → List Nat → List Nat
  | 0, _, acc => acc
  | f + 1, n, acc =>
    if n < 10 then (48 + n) :: acc else decDigits f (n / 10) ((48 + n % 10) :: acc)

/-- `n.to_string()` as bytes (all numbers printed here are `< 2^32`) -/
def decBytes (n : Nat) : List Nat := decDigits 24 n []

def hexDigit (d : Nat) : Nat := if d < 10 then 48 + d else 87 + d

def hexBytesOf (n : Nat) : List Nat :=
  if n < 16 then [hexDigit n]
  else if n < 256 then [hexDigit (n / 16), hexDigit (n % 16)]
  else if n < 4096 then [hexDigit (n / 256), hexDigit (n / 16 % 16), hexDigit (n % 16)]
  else [hexDigit (n / 4096 % 16), hexDigit (n / 256 % 16), hexDigit (n / 16 % 16), hexDigit (n % 16)]

def joinWith (sep : Nat) : List (List Nat) → List Nat
  | [] => []
  | [x] => x
  | x :: t => x ++ sep :: joinWith sep t

def showV4 (o : List Nat) : List Nat := joinWith 46 (o.map decBytes)

/-- first longest run of zero segments: (start, len) -/
def longestZeroRun : List Nat → Nat → (Nat × Nat) → (Nat × Nat) → (Nat × Nat)
  | [], _, _, longest => longest
  | seg :: t, i, cur, longest =>
    if seg == 0 then
      let cur' : Nat × Nat := if cur.2 == 0 then (i, 1) else (cur.1, cur.2 + 1)
      let longest' := if cur'.2 > longest.2 then cur' else longest
      longestZeroRun t (i + 1) cur' longest'
    else longestZeroRun t (i + 1) (0, 0) longest

def showV6 (g : List Nat) : List Nat :=
  match g with
  | [0, 0, 0, 0, 0, 65535, a, b] =>
    [58, 58, 102, 102, 102, 102, 58] ++ showV4 [a / 256, a % 256, b / 256, b % 256]
  | _ =>
    let (start, len) := longestZeroRun g 0 (0, 0) (0, 0)
    if len > 1 then
      joinWith 58 ((g.take start).map hexBytesOf) ++ [58, 58] ++
        joinWith 58 ((g.drop (start + len)).map hexBytesOf)
    else joinWith 58 (g.map hexBytesOf)

def showAddr : Addr → List Nat
  | .v4 o => showV4 o
  | .v6 g => showV6 g
  | .sock4 o p => showV4 o ++ 58 :: decBytes p
  | .sock6 g p sc =>
    if sc == 0 then 91 :: showV6 g ++ [93, 58] ++ decBytes p
    else 91 :: showV6 g ++ 37 :: decBytes sc ++ [93, 58] ++ decBytes p

/-- Upper bound on the length of `to_string()` of any `IpAddr`/`SocketAddr`
    (`[ffff:…:ffff%4294967295]:65535` is 58 bytes).  Made explicit in `canonAddr` so that the
    offset arithmetic of the decoders has a proved bound; the guard never fires. -/
def maxAddrLen : Nat := 58

/-- `s.parse::<IpAddr>().map(|a| a.to_string())` (`sock = false`) or the `SocketAddr` analogue. -/
def canonAddr (sock : Bool) (s : List Nat) : Option (List Nat) :=
  match (if sock then parseSock s else parseIp s) with
  | some a =>
    let c := showAddr a
    if c.length ≤ maxAddrLen then some c else none
  | none => none

end AgdbCodec
