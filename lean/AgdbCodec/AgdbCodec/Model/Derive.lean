import AgdbCodec.Model.Conv
import AgdbCodec.Model.ValueIndex
/-
  `#[derive(DbType)]` / `#[derive(DbElement)]` (`agdb_derive/src/db_type.rs`): the generated
  `to_db_values`, `db_keys`, `from_db_element`, the `Into<DbValue>` / `TryFrom<DbValue>`
  conversions they call (`agdb/src/db/db_value.rs`, `agdb_derive/src/db_value.rs`), and the part of
  the database they are composed with: `insert().element(&v)` (`InsertValuesQuery`: new node =
  push every key-value, existing id = `insert_or_replace` per key) and
  `select().elements::<T>().ids(id)` (`SelectValuesQuery` with `T::db_keys()`).
  Keys are UTF-8 byte lists; a `DbValue` is a `Val` of type `dbValueSchema`.
-/
namespace AgdbCodec

/-- how a field's Rust type maps to `DbValue` -/
inductive Kind
  | u64 | i64 | f64 | str | bool | i32 | u32 | bytes
  | vi64 | vu64 | vf64 | vstr | vbool
  | ip                       -- IpAddr (stored as its text)
  | custom (σ : Schema)      -- `#[derive(DbValue, DbSerialize)]` type (also SystemTime): Bytes(serialize)
  | vcustom (σ : Schema)     -- Vec of such a type (`DbTypeMarker`)

inductive IdForm
  | optDbId | optQueryId | dbId
  deriving DecidableEq

mutual
  inductive Field
    | plain (key : List Nat) (k : Kind)
    | opt (key : List Nat) (k : Kind)
    | flatten (t : FieldList)
    | skip (k : Kind)
    | skipOpt (k : Kind)
    | dbId (form : IdForm)
  inductive FieldList
    | nil
    | cons (f : Field) (t : FieldList)
end

/-- a derived type: its fields and, for `#[derive(DbElement)]`, the type name -/
structure TypeDesc where
  fields : FieldList
  elementId : Option (List Nat)

mutual
  /-- the value of one field of a user struct -/
  inductive UVal
    | val (v : Val)                 -- plain / skipped field
    | none
    | some (v : Val)                -- Option<T>
    | nested (vs : UValList)        -- #[agdb(flatten)] T   (`Option<T>` with flatten does not compile)
    | id (i : Option Int)           -- db_id
  inductive UValList
    | nil
    | cons (v : UVal) (t : UValList)
end

def dbStr (key : List Nat) : Val := wrap 4 (.blob key)

def boolsToNums : ValList → ValList
  | .nil => .nil
  | .cons (.bool b) t => .cons (.num (if b then 1 else 0)) (boolsToNums t)
  | .cons v t => .cons v (boolsToNums t)

def wrapBytesAll : ValList → ValList
  | .nil => .nil
  | .cons v t => .cons (wrap 0 (.blob (ser v))) (wrapBytesAll t)

/-- `Into<DbValue>` for a field value of kind `k` -/
def toDb (k : Kind) (v : Val) : Val :=
  match k, v with
  | .u64, v => wrap 2 v
  | .i64, v => wrap 1 v
  | .f64, v => wrap 3 v
  | .str, v => wrap 4 v
  | .ip, v => wrap 4 v
  | .bool, .bool b => wrap 2 (.num (if b then 1 else 0))
  | .bool, v => wrap 2 v
  | .i32, v => wrap 1 v
  | .u32, v => wrap 2 v
  | .bytes, v => wrap 0 v
  | .vi64, v => wrap 5 v
  | .vu64, v => wrap 6 v
  | .vf64, v => wrap 7 v
  | .vstr, v => wrap 8 v
  | .vbool, .vec vs => wrap 6 (.vec (boolsToNums vs))
  | .vbool, v => wrap 6 v
  | .custom _, v => wrap 0 (.blob (ser v))
  -- From<Vec<T: DbTypeMarker>>: empty → Bytes([]); first element Bytes → Bytes(serialize(Vec<DbValue>))
  | .vcustom _, .vec .nil => wrap 0 (.blob [])
  | .vcustom _, .vec vs => wrap 0 (.blob (ser (.vec (wrapBytesAll vs))))
  | .vcustom _, v => wrap 0 v

/-- `DbValue::to_u64` -/
def dbToU64 (d : Val) : Outcome Val :=
  match d with
  | .enum 2 (.cons (.num n) .nil) => .ok (.num n)
  | .enum 1 (.cons (.num n) .nil) => if n < I63 then .ok (.num n) else .err .typeError
  | _ => .err .typeError

/-- `DbValue::to_i64` -/
def dbToI64 (d : Val) : Outcome Val :=
  match d with
  | .enum 1 (.cons (.num n) .nil) => .ok (.num n)
  | .enum 2 (.cons (.num n) .nil) => if n < I63 then .ok (.num n) else .err .typeError
  | _ => .err .typeError

/-- `DbValue::to_bool` (floats compare with `total_cmp`: only `+0.0` is false) -/
def dbToBool (d : Val) : Outcome Val :=
  match d with
  | .enum 1 (.cons (.num n) .nil) => .ok (.bool (n != 0))
  | .enum 2 (.cons (.num n) .nil) => .ok (.bool (n != 0))
  | .enum 3 (.cons (.num n) .nil) => .ok (.bool (n != 0))
  | .enum 4 (.cons (.blob bs) .nil) => .ok (.bool (bs == [116, 114, 117, 101] || bs == [49]))
  | _ => .err .typeError

/-- scalar `TryFrom<DbValue>` -/
def fromDbScalar (m : Mode) (k : Kind) (d : Val) : Outcome Val :=
  match k with
  | .u64 => dbToU64 d
  | .i64 => dbToI64 d
  | .f64 => convElem m .f64 d
  | .str => convElem m .str d
  | .bool => dbToBool d
  | .i32 =>
    (dbToI64 d).bind fun v =>
      match v with
      | .num n => if n < 2147483648 || n ≥ U64 - 2147483648 then .ok (.num n) else .err .typeError
      | _ => .err .typeError
  | .u32 =>
    (dbToU64 d).bind fun v =>
      match v with
      | .num n => if n < 4294967296 then .ok (.num n) else .err .typeError
      | _ => .err .typeError
  | .bytes =>
    (match d with
     | .enum 0 (.cons (.blob bs) .nil) => .ok (.blob bs)
     | _ => .err .typeError)
  | .ip =>
    (match d with
     | .enum 4 (.cons (.blob bs) .nil) =>
       (match canonAddr false bs with
        | some c => .ok (.blob c)
        | none => .err .typeError)
     | _ => .err .typeError)
  | .custom σ =>
    (match d with
     | .enum 0 (.cons (.blob bs) .nil) => (de m σ bs).bind fun r => .ok r.1
     | _ => .err .typeError)
  | _ => .err .typeError

def mapOutcome (f : Val → Outcome Val) : ValList → Outcome ValList
  | .nil => .ok .nil
  | .cons v t => (f v).bind fun x => (mapOutcome f t).bind fun xs => .ok (.cons x xs)

def wrapAll (tag : Nat) : ValList → ValList
  | .nil => .nil
  | .cons v t => .cons (wrap tag v) (wrapAll tag t)

/-- `impl TryFrom<DbValue> for Vec<T>`: the element list as `Vec<DbValue>` -/
def dbToVecDb (m : Mode) (d : Val) : Outcome ValList :=
  match d with
  | .enum 5 (.cons (.vec vs) .nil) => .ok (wrapAll 1 vs)
  | .enum 6 (.cons (.vec vs) .nil) => .ok (wrapAll 2 vs)
  | .enum 7 (.cons (.vec vs) .nil) => .ok (wrapAll 3 vs)
  | .enum 8 (.cons (.vec vs) .nil) => .ok (wrapAll 4 vs)
  | .enum 0 (.cons (.blob []) .nil) => .ok .nil
  | .enum 0 (.cons (.blob (x :: t)) .nil) =>
    (de m (.vec dbValueSchema) (x :: t)).bind fun r =>
      match r.1 with
      | .vec vs => .ok vs
      | _ => .err .typeError
  | _ => .err .typeError

/-- `TryFrom<DbValue>` for a field of kind `k` -/
def fromDb (m : Mode) (k : Kind) (d : Val) : Outcome Val :=
  let vecOf (ek : Kind) : Outcome Val :=
    (dbToVecDb m d).bind fun ds => (mapOutcome (fromDbScalar m ek) ds).bind fun vs => .ok (.vec vs)
  match k with
  | .vi64 => vecOf .i64
  | .vu64 => vecOf .u64
  | .vf64 => vecOf .f64
  | .vstr => vecOf .str
  | .vbool => vecOf .bool
  | .vcustom σ => vecOf (.custom σ)
  | k => fromDbScalar m k d

/-- `Default::default()` of a skipped field -/
def defaultOf : Kind → Val
  | .u64 | .i64 | .f64 | .i32 | .u32 => .num 0
  | .bool => .bool false
  | .str | .bytes | .ip => .blob []
  | .vi64 | .vu64 | .vf64 | .vstr | .vbool | .vcustom _ => .vec .nil
  | .custom _ => .struct .nil

/-! ### generated code -/

mutual
  /-- `to_db_values` (without the `db_element_id` entry) -/
  def toDbValues : FieldList → UValList → List (Val × Val)
    | .cons f t, .cons v vs => fieldValues f v ++ toDbValues t vs
    | _, _ => []
  def fieldValues : Field → UVal → List (Val × Val)
    | .plain key k, .val v => [(dbStr key, toDb k v)]
    | .opt key k, .some v => [(dbStr key, toDb k v)]
    | .flatten t, .nested vs => toDbValues t vs
    | _, _ => []
end

/-- `DbType::db_id()`: the `db_id` field of a user value (top level) -/
def uvalId : UValList → Option Int
  | .nil => none
  | .cons (.id i) _ => i
  | .cons _ t => uvalId t

def DB_ELEMENT_ID : List Nat := [100, 98, 95, 101, 108, 101, 109, 101, 110, 116, 95, 105, 100]

def typeValues (τ : TypeDesc) (v : UValList) : List (Val × Val) :=
  toDbValues τ.fields v ++
    (match τ.elementId with
     | some name => [(dbStr DB_ELEMENT_ID, dbStr name)]
     | none => [])

/-- `has_option`: some named field other than `db_id` has an `Option<…>` type (top level only) -/
def hasOption : FieldList → Bool
  | .nil => false
  | .cons (.opt _ _) _ => true
  | .cons (.skipOpt _) _ => true
  | .cons _ t => hasOption t

/-- `db_keys`.  legacy: a flattened type contributes its own `db_keys()`, which is EMPTY when that
    type has an optional field (meaning "select everything") — the outer list then silently lacks
    the nested keys.  fixed (proposed_fixes/C22-flatten-db-keys.diff): an empty nested list makes
    the whole list empty. `none` stands for "select all values". -/
def dbKeys (m : Mode) : FieldList → Option (List Val)
  | fs =>
    if hasOption fs then none else go fs
where
  go : FieldList → Option (List Val)
    | .nil => some []
    | .cons (.plain key _) t => (go t).map fun r => dbStr key :: r
    | .cons (.flatten n) t =>
      (match (if hasOption n then none else go n) with
       | some ks =>
         if ks.isEmpty && m == .fixed then none else (go t).map fun r => ks ++ r
       | none =>
         (match m with
          | .legacy => go t
          | .fixed => none))
    | .cons _ t => go t

/-- `kv.key.string()` succeeds -/
def strKey? : Val → Option (List Nat)
  | .enum 4 (.cons (.blob bs) .nil) => some bs
  | _ => none

/-- `element.values.iter().find_map(|kv| if kv.key.string() == Ok(name) { Some(kv.value) } …)` -/
def lookupKey (kvs : List (Val × Val)) (name : List Nat) : Option Val :=
  match kvs with
  | [] => none
  | (k, v) :: t =>
    (match strKey? k with
     | some bs => if bs == name then some v else lookupKey t name
     | none => lookupKey t name)

def idVal (form : IdForm) (id : Int) : UVal :=
  match form with
  | _ => .id (some id)

mutual
  /-- `from_db_element`, as a function of the key lookup -/
  def fromLookup (m : Mode) (L : List Nat → Option Val) (id : Int) :
      FieldList → Outcome UValList
    | .nil => .ok .nil
    | .cons f t =>
      (fromField m L id f).bind fun x => (fromLookup m L id t).bind fun xs => .ok (.cons x xs)
  def fromField (m : Mode) (L : List Nat → Option Val) (id : Int) : Field → Outcome UVal
    | .plain key k =>
      (match L key with
       | none => .err .notFound
       | some d => ((fromDb m k d).mapErr .typeError).bind fun v => .ok (.val v))
    | .opt key k =>
      (match L key with
       | none => .ok .none
       | some d => ((fromDb m k d).mapErr .typeError).bind fun v => .ok (.some v))
    | .flatten t => (fromLookup m L id t).bind fun vs => .ok (.nested vs)
    | .skip k => .ok (.val (defaultOf k))
    | .skipOpt _ => .ok .none
    | .dbId form => .ok (idVal form id)
end

def fromDbElement (m : Mode) (fs : FieldList) (id : Int) (kvs : List (Val × Val)) :
    Outcome UValList :=
  fromLookup m (lookupKey kvs) id fs

/-! ### the database side: per-element ordered key-value lists -/

/-- `DbValue: PartialEq` (derived; `DbF64` compares with `total_cmp`, i.e. by bit pattern) -/
def valEq (a b : Val) : Bool := decide (a = b)

structure Db where
  next : Nat := 1
  elems : List (Nat × List (Val × Val)) := []

def Db.get (db : Db) (id : Int) : Option (List (Val × Val)) :=
  if id ≤ 0 then none
  else (db.elems.find? (fun e => e.1 == id.toNat)).map (·.2)

/-- `DbKeyValues::insert_or_replace` for one pair -/
def insertOrReplace (kvs : List (Val × Val)) (kv : Val × Val) : List (Val × Val) :=
  match kvs with
  | [] => [kv]
  | (k, v) :: t => if valEq k kv.1 then (k, kv.2) :: t else (k, v) :: insertOrReplace t kv

/-- `insert().element(&v)` → `InsertValuesQuery::process` for one id:
    id 0 / absent → new node with every pair pushed; existing id → `insert_or_replace` per pair;
    any other id → the error of `db.db_id`. Returns the element id. -/
def Db.insertElement (db : Db) (id : Option Int) (kvs : List (Val × Val)) : Outcome (Db × Int) :=
  match id with
  | none | some 0 =>
    .ok ({ next := db.next + 1, elems := db.elems ++ [(db.next, kvs)] }, (db.next : Int))
  | some i =>
    match db.get i with
    | some old =>
      let new := kvs.foldl insertOrReplace old
      .ok ({ db with elems := db.elems.map fun e => if e.1 == i.toNat then (e.1, new) else e }, i)
    | none => .err .notFound

/-- position of the first key equal to `k` -/
def keyPos (keys : List Val) (k : Val) : Option Nat :=
  match keys with
  | [] => none
  | x :: t => if valEq x k then some 0 else (keyPos t k).map (· + 1)

/-- `sort_by_key(|(pos, _)| pos)` (a stable sort), as insertion sort from the right -/
def sortByPos : List (Nat × (Val × Val)) → List (Nat × (Val × Val))
  | [] => []
  | x :: t => insertByPos' x (sortByPos t)
where
  /-- insert `x` (which precedes everything in the already sorted tail) before equal positions -/
  insertByPos' (x : Nat × (Val × Val)) : List (Nat × (Val × Val)) → List (Nat × (Val × Val))
    | [] => [x]
    | y :: t => if y.1 < x.1 then y :: insertByPos' x t else x :: y :: t

/-- `DbKeyValues::values_by_keys`: the pairs whose key is requested, stably sorted by the position
    of the key in `keys` -/
def valuesByKeys (kvs : List (Val × Val)) (keys : List Val) : List (Val × Val) :=
  let tagged := kvs.filterMap fun kv => (keyPos keys kv.1).map fun p => (p, kv)
  (sortByPos tagged).map (·.2)

/-- `SelectValuesQuery::process` for `QueryIds::Ids([id])` -/
def Db.select (db : Db) (keys : Option (List Val)) (id : Int) : Outcome (List (Val × Val)) :=
  match db.get id with
  | none => .err .notFound
  | some kvs =>
    match keys with
    | none | some [] => .ok kvs
    | some ks =>
      let vals := valuesByKeys kvs ks
      if vals.length != ks.length && ks.any (fun k => !(vals.any fun kv => valEq kv.1 k)) then
        .err .notFound
      else .ok vals

/-- `select().elements::<T>().ids(id)` + `try_into::<T>()` -/
def Db.selectAs (m : Mode) (db : Db) (τ : TypeDesc) (id : Int) : Outcome UValList :=
  (db.select (dbKeys m τ.fields) id).bind fun kvs => fromDbElement m τ.fields id kvs

end AgdbCodec
