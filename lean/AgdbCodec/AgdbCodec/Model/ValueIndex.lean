import AgdbCodec.Model.Schema
/-
  How a `DbValue` is stored as a property key or value:
  `agdb/src/db/db_value_index.rs` (`DbValueIndex`, 16 bytes: payload bytes 0..15, byte 15 =
  type nibble (high) | inline size nibble (low)), `agdb/src/db/db_value.rs`
  (`store_db_value` / `load_db_value`) and `agdb/src/db/db_key_value.rs`
  (`VecValue for DbKeyValue`: two indexes, 32 bytes), against an abstract `index ↦ bytes` store
  standing for `Storage<D>` (`insert_bytes`, `value_as_bytes`).

  A `DbValue` is a `Val` of type `dbValueSchema`: `.enum tag (.cons payload .nil)`, floats as
  their 64-bit patterns, strings as their UTF-8 bytes.
-/
namespace AgdbCodec

/-! ### DbValueIndex -/

def newIdx : List Nat := List.replicate 16 0

/-- `value[15]` -/
def idxMeta (i : List Nat) : Nat := i.getD 15 0

/-- `value[15] = m` -/
def setMeta (i : List Nat) (m : Nat) : List Nat := i.take 15 ++ [m]

/-- `get_type`: `value[15] >> 4` -/
def getType (i : List Nat) : Nat := idxMeta i / 16

/-- `size`: `value[15] & 0x0f` -/
def idxSize (i : List Nat) : Nat := idxMeta i % 16

/-- `index`: `u64::from_le_bytes(value[0..8])` -/
def idxIndex (i : List Nat) : Nat := unle8 i

/-- `is_value`: `size() != 0 || index() == 0` -/
def isValue (i : List Nat) : Bool := idxSize i != 0 || idxIndex i == 0

/-- `set_type`: `value[15] = (t << 4) | size()` (`u8` shift: bits above 255 are dropped) -/
def setType (i : List Nat) (t : Nat) : List Nat := setMeta i (t * 16 % 256 + idxSize i)

/-- `set_size`: `value[15] = (s & 0x0f) | (value[15] & 0xf0)` -/
def setSize (i : List Nat) (s : Nat) : List Nat := setMeta i (s % 16 + idxMeta i / 16 * 16)

/-- `set_index`: size nibble := 0, bytes 0..8 := index -/
def setIndex (i : List Nat) (ix : Nat) : List Nat := le8 ix ++ (setSize i 0).drop 8

/-- `set_value`: refuses more than 15 bytes; otherwise size nibble := len, bytes 0..len := value -/
def setValue (i : List Nat) (v : List Nat) : Option (List Nat) :=
  if v.length > 15 then none else some (v ++ (setSize i v.length).drop v.length)

/-- `value`: `&value[0..size]` -/
def idxValue (i : List Nat) : List Nat := i.take (idxSize i)

/-! ### Abstract storage -/

/-- `Storage<D>` seen through `insert_bytes` / `value_as_bytes`: a finite map from non-zero
    indexes to byte strings; `insert_bytes` returns an index that is not in use. -/
structure Store where
  next : Nat
  items : List (Nat × List Nat)

def Store.empty : Store := ⟨1, []⟩

def Store.insert (st : Store) (bs : List Nat) : Nat × Store :=
  (st.next, ⟨st.next + 1, (st.next, bs) :: st.items⟩)

def lookup (k : Nat) : List (Nat × List Nat) → Option (List Nat)
  | [] => none
  | (k', v) :: t => if k' == k then some v else lookup k t

def Store.get (st : Store) (ix : Nat) : Outcome (List Nat) :=
  match lookup ix st.items with
  | some bs => .ok bs
  | none => .err .notFound

/-- indexes in use are below `next`, and `next ≥ 1` (index 0 is never handed out) -/
def Store.Wf (st : Store) : Prop := 1 ≤ st.next ∧ ∀ p ∈ st.items, p.1 < st.next

/-! ### store_db_value / load_db_value -/

def BYTES_META : Nat := 1
def I64_META : Nat := 2
def U64_META : Nat := 3
def F64_META : Nat := 4
def STRING_META : Nat := 5
def VEC_I64_META : Nat := 6
def VEC_U64_META : Nat := 7
def VEC_F64_META : Nat := 8
def VEC_STRING_META : Nat := 9

/-- `index.set_type(t); if !index.set_value(inline) { index.set_index(storage.insert_bytes(out)) }` -/
def storeInlineOr (t : Nat) (inline out : List Nat) (st : Store) : List Nat × Store :=
  let i := setType newIdx t
  match setValue i inline with
  | some i' => (i', st)
  | none =>
    let (ix, st') := st.insert out
    (setIndex i ix, st')

/-- `index.set_type(t); index.set_index(storage.insert(v))` -/
def storeOut (t : Nat) (out : List Nat) (st : Store) : List Nat × Store :=
  let (ix, st') := st.insert out
  (setIndex (setType newIdx t) ix, st')

/-- `DbValue::store_db_value`; `none` when `v` is not a `DbValue`. -/
def storeValue (v : Val) (st : Store) : Option (List Nat × Store) :=
  match v with
  | .enum 0 (.cons (.blob bs) .nil) => some (storeInlineOr BYTES_META bs bs st)
  | .enum 1 (.cons (.num n) .nil) => some (storeInlineOr I64_META (le8 n) [] st)
  | .enum 2 (.cons (.num n) .nil) => some (storeInlineOr U64_META (le8 n) [] st)
  | .enum 3 (.cons (.num n) .nil) => some (storeInlineOr F64_META (le8 n) [] st)
  | .enum 4 (.cons (.blob bs) .nil) => some (storeInlineOr STRING_META bs (ser (.blob bs)) st)
  | .enum 5 (.cons (.vec vs) .nil) => some (storeOut VEC_I64_META (ser (.vec vs)) st)
  | .enum 6 (.cons (.vec vs) .nil) => some (storeOut VEC_U64_META (ser (.vec vs)) st)
  | .enum 7 (.cons (.vec vs) .nil) => some (storeOut VEC_F64_META (ser (.vec vs)) st)
  | .enum 8 (.cons (.vec vs) .nil) => some (storeOut VEC_STRING_META (ser (.vec vs)) st)
  | _ => none

def wrap (tag : Nat) (payload : Val) : Val := .enum tag (.cons payload .nil)

/-- `let mut bytes = [0_u8; 8]; bytes.copy_from_slice(value_index.value());` panics unless the
    inline size is exactly 8. -/
def loadNum (tag : Nat) (i : List Nat) : Outcome Val :=
  if (idxValue i).length = 8 then .ok (wrap tag (.num (unle8 (idxValue i))))
  else .panic "DbValue::load_db_value"

/-- `storage.value::<T>(StorageIndex(value_index.index()))` -/
def loadOut (m : Mode) (tag : Nat) (σ : Schema) (i : List Nat) (st : Store) : Outcome Val :=
  (st.get (idxIndex i)).bind fun bs => (de m σ bs).bind fun r => .ok (wrap tag r.1)

/-- `DbValue::load_db_value`.  Inline strings go through `String::from_utf8_lossy` (the identity on
    valid UTF-8 — the only thing `store_db_value` ever puts there; modelled in full for damaged
    indexes). -/
def loadValue (m : Mode) (i : List Nat) (st : Store) : Outcome Val :=
  let t := getType i
  if t = BYTES_META then
    if isValue i then .ok (wrap 0 (.blob (idxValue i)))
    else (st.get (idxIndex i)).bind fun bs => .ok (wrap 0 (.blob bs))
  else if t = I64_META then loadNum 1 i
  else if t = U64_META then loadNum 2 i
  else if t = F64_META then loadNum 3 i
  else if t = STRING_META then
    if isValue i then
      .ok (wrap 4 (.blob (if validUtf8 (idxValue i) then idxValue i else utf8Lossy (idxValue i))))
    else loadOut m 4 .str i st
  else if t = VEC_I64_META then loadOut m 5 (.vec .i64) i st
  else if t = VEC_U64_META then loadOut m 6 (.vec .u64) i st
  else if t = VEC_F64_META then loadOut m 7 (.vec .f64) i st
  else if t = VEC_STRING_META then loadOut m 8 (.vec .str) i st
  else .panic "DbValue::load_db_value"

/-- `<DbKeyValue as VecValue>::store`: `[key_index.data(), value_index.data()].concat()` -/
def storeKV (k v : Val) (st : Store) : Option (List Nat × Store) :=
  match storeValue k st with
  | some (ki, st1) =>
    match storeValue v st1 with
    | some (vi, st2) => some (ki ++ vi, st2)
    | none => none
  | none => none

/-- `<DbKeyValue as VecValue>::load` -/
def loadKV (m : Mode) (bytes : List Nat) (st : Store) : Outcome (Val × Val) :=
  if bytes.length < 16 then .err .notEnoughData
  else if (bytes.drop 16).length < 16 then .err .notEnoughData
  else
    (loadValue m (bytes.take 16) st).bind fun k =>
      (loadValue m ((bytes.drop 16).take 16) st).bind fun v => .ok (k, v)

end AgdbCodec
