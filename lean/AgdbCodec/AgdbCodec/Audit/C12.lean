import AgdbCodec.Props.C12
#print axioms AgdbCodec.C12_store_defined
#print axioms AgdbCodec.C12_roundtrip
#print axioms AgdbCodec.C12_stable
#print axioms AgdbCodec.C12_key_value_roundtrip
#print axioms AgdbCodec.C12_float_bits
