import AgdbCodec.Props.C20
#print axioms AgdbCodec.C20_roundtrip
#print axioms AgdbCodec.C20_size
#print axioms AgdbCodec.C20_roundtrip_and_size
#print axioms AgdbCodec.C20_decoded_size
#print axioms AgdbCodec.C20_dbKeyValue_roundtrip
#print axioms AgdbCodec.C20_path_lossy_counterexample
