import AgdbCodec.Props.C21
#print axioms AgdbCodec.C21_total
#print axioms AgdbCodec.C21_total_cases
#print axioms AgdbCodec.C21_advance_bounded
#print axioms AgdbCodec.C21_len_overflow_counterexample
#print axioms AgdbCodec.C21_bytes_len_overflow_counterexample
#print axioms AgdbCodec.C21_capacity_counterexample
#print axioms AgdbCodec.C21_duration_counterexample
#print axioms AgdbCodec.C21_vec_offset_counterexample
#print axioms AgdbCodec.C21_derive_offset_counterexample
#print axioms AgdbCodec.C21_tovec_total
#print axioms AgdbCodec.C21_tovec_duration_counterexample
