import AgdbCodec.Props.C22
#print axioms AgdbCodec.C22_roundtrip
#print axioms AgdbCodec.C22_from_to_db_values
#print axioms AgdbCodec.C22_update_by_id
#print axioms AgdbCodec.C22_update_readback
#print axioms AgdbCodec.C22_flatten_keys_counterexample
#print axioms AgdbCodec.kindOk_custom
#print axioms AgdbCodec.kindOk_vi64
#print axioms AgdbCodec.C22_update_roundtrip
