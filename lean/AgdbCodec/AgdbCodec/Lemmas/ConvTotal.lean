import AgdbCodec.Model.Conv
import AgdbCodec.Lemmas.Total
namespace AgdbCodec

theorem convElem_fixed_noCrash (k : ConvKind) (v : Val) : (convElem .fixed k v).noCrash := by
  unfold convElem
  split
  all_goals (first
    | trivial
    | (split <;> (first | trivial | (split <;> trivial)))
    | (apply noCrash_bind _ _ (deTime_fixed_noCrash _); intro _ _; trivial))

theorem convAll_fixed_noCrash (k : ConvKind) : ∀ vs : ValList, (convAll .fixed k vs).noCrash
  | .nil => by simp [convAll, Outcome.noCrash]
  | .cons v t => by
      simp only [convAll]
      apply noCrash_bind _ _ (convElem_fixed_noCrash k v)
      intro x _
      apply noCrash_bind _ _ (convAll_fixed_noCrash k t)
      intro _ _; trivial

theorem toVec_fixed_noCrash (k : ConvKind) (b : List Nat) (hb : b.length < I63) :
    (toVec .fixed k b).noCrash := by
  unfold toVec
  split
  · trivial
  · rename_i x t
    apply noCrash_bind _ _ (safe_de (.vec dbValueSchema) (x :: t) hb).1
    intro r _
    split
    · exact convAll_fixed_noCrash k _
    · trivial

end AgdbCodec
