import AgdbCodec.Lemmas.DeriveCore
import AgdbCodec.Lemmas.StoreLoad
namespace AgdbCodec

/-! `Into<DbValue>` followed by `TryFrom<DbValue>` is the identity, kind by kind -/

theorem kindOk_u64 (n : Nat) : KindOk .u64 (.num n) := by
  simp [KindOk, toDb, fromDb, fromDbScalar, dbToU64, wrap]

theorem kindOk_i64 (n : Nat) : KindOk .i64 (.num n) := by
  simp [KindOk, toDb, fromDb, fromDbScalar, dbToI64, wrap]

theorem kindOk_f64 (bits : Nat) : KindOk .f64 (.num bits) := by
  simp [KindOk, toDb, fromDb, fromDbScalar, convElem, wrap]

theorem kindOk_str (bs : List Nat) : KindOk .str (.blob bs) := by
  simp [KindOk, toDb, fromDb, fromDbScalar, convElem, wrap]

theorem kindOk_bytes (bs : List Nat) : KindOk .bytes (.blob bs) := by
  simp [KindOk, toDb, fromDb, fromDbScalar, wrap]

theorem kindOk_bool (b : Bool) : KindOk .bool (.bool b) := by
  cases b <;> simp [KindOk, toDb, fromDb, fromDbScalar, dbToBool, wrap]

/-- `i32` (carried sign-extended to 64 bits): `i64::from(x)` then `i32::try_from` -/
theorem kindOk_i32 (n : Nat) (h : n < 2147483648 ∨ (U64 - 2147483648 ≤ n)) :
    KindOk .i32 (.num n) := by
  simp only [KindOk, toDb, fromDb, fromDbScalar, dbToI64, wrap, Outcome.bind_ok]
  simp
  intro h2
  rcases h with h | h
  · omega
  · simp only [U64] at *; omega

theorem kindOk_u32 (n : Nat) (h : n < 4294967296) : KindOk .u32 (.num n) := by
  simp [KindOk, toDb, fromDb, fromDbScalar, dbToU64, wrap, h]

theorem kindOk_ip (bs : List Nat) (h : canonAddr false bs = some bs) : KindOk .ip (.blob bs) := by
  simp [KindOk, toDb, fromDb, fromDbScalar, wrap, h]

/-- a custom value type (`#[derive(DbValue, DbSerialize)]`, also `SystemTime`): stored as
    `Bytes(serialize(v))`, read with `deserialize` — the C20 round trip -/
theorem kindOk_custom (σ : Schema) (v : Val) (hw : WT σ v) (hs : (ser v).length < U64) :
    KindOk (.custom σ) v := by
  simp [KindOk, toDb, fromDb, fromDbScalar, wrap, de_ser_nil hw hs]

/-- every element is a number (`Vec<i64>`, `Vec<u64>`, `Vec<f64>` field values) -/
def AllNum : ValList → Prop
  | .nil => True
  | .cons (.num _) t => AllNum t
  | .cons _ _ => False

def AllBlob : ValList → Prop
  | .nil => True
  | .cons (.blob _) t => AllBlob t
  | .cons _ _ => False

theorem mapOutcome_nums (tag : Nat) (f : Val → Outcome Val)
    (hf : ∀ n, f (wrap tag (.num n)) = .ok (.num n)) : ∀ vs : ValList, AllNum vs →
      mapOutcome f (wrapAll tag vs) = .ok vs
  | .nil, _ => by simp [wrapAll, mapOutcome]
  | .cons (.num n) t, h => by
      simp only [AllNum] at h
      simp [wrapAll, mapOutcome, hf n, mapOutcome_nums tag f hf t h]
  | .cons (.bool _) _, h => by simp [AllNum] at h
  | .cons (.blob _) _, h => by simp [AllNum] at h
  | .cons (.time _ _) _, h => by simp [AllNum] at h
  | .cons (.vec _) _, h => by simp [AllNum] at h
  | .cons (.struct _) _, h => by simp [AllNum] at h
  | .cons (.enum _ _) _, h => by simp [AllNum] at h

theorem kindOk_vi64 (vs : ValList) (h : AllNum vs) : KindOk .vi64 (.vec vs) := by
  simp only [KindOk, toDb, fromDb, dbToVecDb, wrap, Outcome.bind_ok]
  rw [mapOutcome_nums 1 (fromDbScalar .fixed .i64) (by intro n; simp [fromDbScalar, dbToI64, wrap]) vs h]
  simp

theorem kindOk_vu64 (vs : ValList) (h : AllNum vs) : KindOk .vu64 (.vec vs) := by
  simp only [KindOk, toDb, fromDb, dbToVecDb, wrap, Outcome.bind_ok]
  rw [mapOutcome_nums 2 (fromDbScalar .fixed .u64) (by intro n; simp [fromDbScalar, dbToU64, wrap]) vs h]
  simp

theorem kindOk_vf64 (vs : ValList) (h : AllNum vs) : KindOk .vf64 (.vec vs) := by
  simp only [KindOk, toDb, fromDb, dbToVecDb, wrap, Outcome.bind_ok]
  rw [mapOutcome_nums 3 (fromDbScalar .fixed .f64) (by intro n; simp [fromDbScalar, convElem, wrap]) vs h]
  simp

theorem mapOutcome_blobs : ∀ vs : ValList, AllBlob vs →
      mapOutcome (fromDbScalar .fixed .str) (wrapAll 4 vs) = .ok vs
  | .nil, _ => by simp [wrapAll, mapOutcome]
  | .cons (.blob bs) t, h => by
      simp only [AllBlob] at h
      simp [wrapAll, mapOutcome, fromDbScalar, convElem, wrap, mapOutcome_blobs t h]
  | .cons (.bool _) _, h => by simp [AllBlob] at h
  | .cons (.num _) _, h => by simp [AllBlob] at h
  | .cons (.time _ _) _, h => by simp [AllBlob] at h
  | .cons (.vec _) _, h => by simp [AllBlob] at h
  | .cons (.struct _) _, h => by simp [AllBlob] at h
  | .cons (.enum _ _) _, h => by simp [AllBlob] at h

theorem kindOk_vstr (vs : ValList) (h : AllBlob vs) : KindOk .vstr (.vec vs) := by
  simp only [KindOk, toDb, fromDb, dbToVecDb, wrap, Outcome.bind_ok]
  rw [mapOutcome_blobs vs h]
  simp

end AgdbCodec
