import AgdbCodec.Lemmas.Bytes
namespace AgdbCodec

/-! size = length, for every value (no typing needed) -/
mutual
  theorem size_eq_length : ∀ v : Val, size v = (ser v).length
    | .num n => by simp [size, ser, le8_length]
    | .bool b => by simp [size, ser]
    | .blob bs => by simp [size, ser, le8_length]
    | .time sec nsec => by simp [size, ser, serTime_length]
    | .vec vs => by simp [size, ser, le8_length, sizeList_eq_length vs]
    | .struct vs => by simp [size, ser, sizeList_eq_length vs]
    | .enum t vs => by simp [size, ser, sizeList_eq_length vs]; omega
  theorem sizeList_eq_length : ∀ vs : ValList, sizeList vs = (serList vs).length
    | .nil => by simp [sizeList, serList]
    | .cons v t => by simp [sizeList, serList, size_eq_length v, sizeList_eq_length t]
end

theorem deBlobRaw_ser (m : Mode) (site : String) (bs rest : List Nat) (h : 8 + bs.length < U64) :
    deBlobRaw m site (le8 bs.length ++ (bs ++ rest)) = .ok bs := by
  have hl : bs.length < U64 := by omega
  unfold deBlobRaw
  rw [readU64_le8_append _ _ hl]
  simp only [Outcome.bind_ok]
  rw [if_neg (by omega)]
  rw [if_pos (by simp [le8_length])]
  congr 1
  simp [le8]

theorem deStr_ser (m : Mode) (bs rest : List Nat) (h : 8 + bs.length < U64)
    (hu : validUtf8 bs = true) : deStr m (le8 bs.length ++ (bs ++ rest)) = .ok bs := by
  unfold deStr
  rw [deBlobRaw_ser m _ bs rest h]
  simp [hu]

theorem deTime_fields (m : Mode) (s n flag : Nat) (rest : List Nat) (hs : s < U64) (hn : n < NSEC) :
    deTime m (le8 s ++ (le4 n ++ (flag :: rest))) = epochOffset (flag == 0) s n := by
  unfold deTime
  have hlen : ¬ (le8 s ++ (le4 n ++ (flag :: rest))).length < 13 := by
    simp [le8_length, le4_length]; omega
  rw [if_neg hlen]
  have h8 : unle8 (le8 s ++ (le4 n ++ (flag :: rest))) = s := unle8_le8_append _ _ hs
  have hd : List.drop 8 (le8 s ++ (le4 n ++ (flag :: rest))) = le4 n ++ (flag :: rest) := by
    simp [le8]
  have hd12 : List.drop 12 (le8 s ++ (le4 n ++ (flag :: rest))) = flag :: rest := by
    simp [le8, le4]
  have hn4 : n < 4294967296 := by simp only [NSEC] at hn; omega
  rw [h8, hd, hd12, unle4_le4_append _ _ hn4]
  simp only [durationNew, if_pos hn, Outcome.bind_ok, List.head?_cons]
  by_cases hf : flag = 0 <;> simp [hf]

theorem deTime_ser (m : Mode) (sec : Int) (nsec : Nat) (rest : List Nat)
    (h1 : -(I63 : Int) ≤ sec) (h2 : sec < (I63 : Int)) (h3 : nsec < NSEC) :
    deTime m (serTime sec nsec ++ rest) = .ok (.time sec nsec, 13) := by
  unfold serTime
  by_cases hpos : 0 ≤ sec
  · rw [if_pos hpos]
    have hs : sec.toNat < U64 := by simp only [U64, I63] at *; omega
    simp only [List.append_assoc, List.cons_append, List.nil_append]
    rw [deTime_fields m _ _ 1 rest hs h3]
    have : ¬ sec.toNat ≥ I63 := by simp only [I63] at *; omega
    simp [epochOffset, this]
    omega
  · rw [if_neg hpos]
    by_cases hz : nsec = 0
    · rw [if_pos hz]
      have hs : (-sec).toNat < U64 := by simp only [U64, I63] at *; omega
      simp only [List.append_assoc, List.cons_append, List.nil_append]
      rw [deTime_fields m _ _ 0 rest hs (by simp [NSEC])]
      have : ¬ (-sec).toNat > I63 := by simp only [I63] at *; omega
      simp [epochOffset, this, hz]
      omega
    · rw [if_neg hz]
      have hs : (-sec - 1).toNat < U64 := by simp only [U64, I63] at *; omega
      have hn : NSEC - nsec < NSEC := by simp only [NSEC] at *; omega
      simp only [List.append_assoc, List.cons_append, List.nil_append]
      rw [deTime_fields m _ _ 0 rest hs hn]
      have a1 : ¬ (-sec - 1).toNat > I63 := by simp only [I63] at *; omega
      have a2 : ¬ NSEC - nsec = 0 := by simp only [NSEC] at *; omega
      have a3 : ¬ (-sec - 1).toNat + 1 > I63 := by simp only [I63] at *; omega
      simp only [epochOffset, beq_self_eq_true, if_true, a1, a2, a3, if_false]
      congr 2
      · congr 1
        · omega
        · simp only [NSEC] at *; omega

end AgdbCodec
