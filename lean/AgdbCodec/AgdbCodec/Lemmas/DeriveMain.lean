import AgdbCodec.Lemmas.DeriveDb
namespace AgdbCodec

mutual
  theorem agrees_congr (L L' : List Nat → Option Val) : ∀ (fs : FieldList) (v : UValList),
      (∀ k ∈ keysOf fs, L k = L' k) → Agrees L fs v → Agrees L' fs v
    | .nil, _, _, _ => by simp [Agrees]
    | .cons f t, .nil, _, _ => by simp [Agrees]
    | .cons f t, .cons v vs, h, ha => by
        simp only [Agrees] at ha ⊢
        simp only [keysOf, List.mem_append] at h
        exact ⟨agreesF_congr L L' f v (fun k hk => h k (.inl hk)) ha.1,
          agrees_congr L L' t vs (fun k hk => h k (.inr hk)) ha.2⟩
  theorem agreesF_congr (L L' : List Nat → Option Val) : ∀ (f : Field) (v : UVal),
      (∀ k ∈ fieldKeys f, L k = L' k) → AgreesF L f v → AgreesF L' f v
    | .plain key k, v, h, ha => by
        cases v <;> simp only [AgreesF] at ha ⊢
        rw [← h key (by simp [fieldKeys])]; exact ha
    | .opt key k, v, h, ha => by
        cases v <;> simp only [AgreesF] at ha ⊢
        all_goals (rw [← h key (by simp [fieldKeys])]; exact ha)
    | .flatten t, v, h, ha => by
        cases v <;> simp only [AgreesF] at ha ⊢
        rename_i vs
        exact agrees_congr L L' t vs (by simpa [fieldKeys] using h) ha
    | .skip _, v, _, _ => by cases v <;> simp [AgreesF]
    | .skipOpt _, v, _, _ => by cases v <;> simp [AgreesF]
    | .dbId _, v, _, _ => by cases v <;> simp [AgreesF]
end

mutual
  theorem kvKeys_sublist : ∀ (fs : FieldList) (v : UValList),
      (kvKeys (toDbValues fs v)).Sublist (keysOf fs)
    | .nil, v => by cases v <;> simp [toDbValues]
    | .cons f t, .nil => by simp [toDbValues]
    | .cons f t, .cons v vs => by
        simp only [toDbValues, kvKeys_append, keysOf]
        exact List.Sublist.append (kvKeys_sublist_field f v) (kvKeys_sublist t vs)
  theorem kvKeys_sublist_field : ∀ (f : Field) (v : UVal),
      (kvKeys (fieldValues f v)).Sublist (fieldKeys f)
    | .plain key k, v => by cases v <;> simp [fieldValues, fieldKeys, kvKeys_single_dbStr]
    | .opt key k, v => by cases v <;> simp [fieldValues, fieldKeys, kvKeys_single_dbStr]
    | .flatten t, v => by
        cases v <;> simp only [fieldValues, fieldKeys, kvKeys_nil, List.nil_sublist]
        rename_i vs
        exact kvKeys_sublist t vs
    | .skip _, v => by cases v <;> simp [fieldValues, fieldKeys]
    | .skipOpt _, v => by cases v <;> simp [fieldValues, fieldKeys]
    | .dbId _, v => by cases v <;> simp [fieldValues, fieldKeys]
end

/-! ### the database side -/

/-- ids in use are positive and below `next` (what `DbImpl::insert_node` maintains when no element
    is ever removed; removal/reuse of ids is C08's concern) -/
def Db.Wf (db : Db) : Prop := 1 ≤ db.next ∧ ∀ e ∈ db.elems, e.1 < db.next

/-- no two fields (transitively through flattened types) share a key, and none is called
    `db_element_id` when the type derives `DbElement` -/
def DistinctKeys (τ : TypeDesc) : Prop :=
  (keysOf τ.fields).Nodup ∧ (τ.elementId.isSome → DB_ELEMENT_ID ∉ keysOf τ.fields)

def elementIdPairs (τ : TypeDesc) : List (Val × Val) :=
  match τ.elementId with
  | some name => [(dbStr DB_ELEMENT_ID, dbStr name)]
  | none => []

theorem typeValues_eq (τ : TypeDesc) (v : UValList) :
    typeValues τ v = toDbValues τ.fields v ++ elementIdPairs τ := by
  unfold typeValues elementIdPairs; cases τ.elementId <;> rfl

theorem extra_disjoint (τ : TypeDesc) (hd : DistinctKeys τ) :
    ∀ k ∈ keysOf τ.fields, k ∉ kvKeys (elementIdPairs τ) := by
  intro k hk
  unfold elementIdPairs
  cases he : τ.elementId with
  | none => simp
  | some name =>
    simp only [kvKeys_single_dbStr, List.mem_singleton]
    intro e; subst e
    exact hd.2 (by simp [he]) hk

theorem kvKeys_typeValues_nodup (τ : TypeDesc) (v : UValList) (hd : DistinctKeys τ) :
    (kvKeys (typeValues τ v)).Nodup := by
  rw [typeValues_eq, kvKeys_append]
  rw [List.nodup_append]
  refine ⟨List.Nodup.sublist (kvKeys_sublist _ _) hd.1, ?_, ?_⟩
  · unfold elementIdPairs
    cases τ.elementId with
    | none => simp
    | some name => simp [kvKeys_single_dbStr]
  · intro a ha b hb e
    subst e
    exact extra_disjoint τ hd a (kvKeys_toDbValues _ _ a ha) hb

theorem get_new (db : Db) (hw : db.Wf) (kvs : List (Val × Val)) :
    Db.get { next := db.next + 1, elems := db.elems ++ [(db.next, kvs)] } (db.next : Int) =
      some kvs := by
  unfold Db.get
  have h1 : ¬ ((db.next : Int) ≤ 0) := by have := hw.1; omega
  simp only [h1, if_false, Int.toNat_natCast]
  rw [List.find?_append]
  have : List.find? (fun e => e.1 == db.next) db.elems = none := by
    rw [List.find?_eq_none]
    intro e he
    have := hw.2 e he
    simp; omega
  simp [this]

/-- `select().elements::<T>()` with the repaired `db_keys()` returns pairs on which every key of
    the type looks up exactly as in the stored list -/
theorem select_lookup (τ : TypeDesc) (v : UValList) (hv : WTU τ.fields v) (hd : DistinctKeys τ)
    (db : Db) (id : Int) (hg : db.get id = some (typeValues τ v)) :
    ∃ sel, db.select (dbKeys .fixed τ.fields) id = .ok sel ∧
      ∀ k ∈ keysOf τ.fields, lookupKey sel k = lookupKey (typeValues τ v) k := by
  unfold Db.select
  rw [hg]
  cases hk : dbKeys .fixed τ.fields with
  | none => exact ⟨_, rfl, fun _ _ => rfl⟩
  | some ks =>
    cases ks with
    | nil => exact ⟨_, rfl, fun _ _ => rfl⟩
    | cons k0 ks' =>
      simp only
      have hho : hasOption τ.fields = false ∧ dbKeys.go .fixed τ.fields = some (k0 :: ks') := by
        unfold dbKeys at hk
        by_cases h : hasOption τ.fields = true
        · simp [h] at hk
        · exact ⟨by simpa using h, by simpa [h] using hk⟩
      obtain ⟨eks, hpushed⟩ := go_spec hv (k0 :: ks') hho.1 hho.2
      have hnd := kvKeys_typeValues_nodup τ v hd
      have hmem : ∀ k ∈ keysOf τ.fields, dbStr k ∈ k0 :: ks' := by
        intro k hkk; rw [eks]; exact List.mem_map_of_mem hkk
      -- every requested key is present, so the NotFound branch is not taken
      have hall : (List.any (k0 :: ks') fun k =>
          !(List.any (valuesByKeys (typeValues τ v) (k0 :: ks')) fun kv => valEq kv.1 k)) = false := by
        rw [List.any_eq_false]
        intro k hkm
        rw [eks, List.mem_map] at hkm
        obtain ⟨kk, hkk, rfl⟩ := hkm
        obtain ⟨d, hmd⟩ := mem_of_kvKeys _ _ (hpushed kk hkk)
        have hin : (dbStr kk, d) ∈ typeValues τ v := by
          rw [typeValues_eq]; exact List.mem_append_left _ hmd
        have hfil : (dbStr kk, d) ∈
            (typeValues τ v).filter fun kv => (keyPos (k0 :: ks') kv.1).isSome := by
          rw [List.mem_filter]
          exact ⟨hin, (keyPos_isSome _ _).mpr (hmem kk hkk)⟩
        have hvals := (valuesByKeys_perm (typeValues τ v) (k0 :: ks')).mem_iff.mpr hfil
        have hany : (List.any (valuesByKeys (typeValues τ v) (k0 :: ks'))
            fun kv => valEq kv.1 (dbStr kk)) = true :=
          List.any_eq_true.mpr ⟨_, hvals, by simp [valEq]⟩
        simp [hany]
      rw [hall]
      simp only [Bool.and_false, Bool.false_eq_true, if_false]
      exact ⟨_, rfl, fun k hkk => lookup_valuesByKeys _ _ k hnd (hmem k hkk)⟩

/-- insert as a new element, select back as the same type -/
theorem roundtrip_new (τ : TypeDesc) (v : UValList) (db : Db) (hw : db.Wf)
    (hv : WTU τ.fields v) (hd : DistinctKeys τ) (hid : uvalId v = none ∨ uvalId v = some 0) :
    ∃ db', db.insertElement (uvalId v) (typeValues τ v) = .ok (db', (db.next : Int)) ∧
      db'.selectAs .fixed τ (db.next : Int) = .ok (normalize (db.next : Int) τ.fields v) := by
  refine ⟨{ next := db.next + 1, elems := db.elems ++ [(db.next, typeValues τ v)] }, ?_, ?_⟩
  · rcases hid with h | h <;> simp [Db.insertElement, h]
  · have hg := get_new db hw (typeValues τ v)
    obtain ⟨sel, hs, hl⟩ := select_lookup τ v hv hd _ _ hg
    unfold Db.selectAs
    rw [hs]
    simp only [Outcome.bind_ok]
    unfold fromDbElement
    apply fromLookup_agrees _ _ hv
    apply agrees_congr (lookupKey (typeValues τ v)) _ _ _ (fun k hk => (hl k hk).symm)
    have := agrees_pushed hv [] (elementIdPairs τ) hd.1 (by simp) (extra_disjoint τ hd)
    rw [typeValues_eq]
    simpa using this

end AgdbCodec
