import AgdbCodec.Lemmas.Bytes
namespace AgdbCodec

theorem noCrash_bind {α β : Type} (o : Outcome α) (f : α → Outcome β)
    (h1 : o.noCrash) (h2 : ∀ a, o = .ok a → (f a).noCrash) : (o.bind f).noCrash := by
  cases o with
  | ok a => exact h2 a rfl
  | err k => trivial
  | panic s => exact h1
  | hugeAlloc s => exact h1
  | outOfFuel => exact h1

theorem bind_eq_ok {α β : Type} (o : Outcome α) (f : α → Outcome β) (r : β)
    (h : o.bind f = .ok r) : ∃ a, o = .ok a ∧ f a = .ok r := by
  cases o with
  | ok a => exact ⟨a, rfl, h⟩
  | err k => simp [Outcome.bind] at h
  | panic s => simp [Outcome.bind] at h
  | hugeAlloc s => simp [Outcome.bind] at h
  | outOfFuel => simp [Outcome.bind] at h

theorem noCrash_mapErr {α : Type} (o : Outcome α) (k : ErrKind) (h : o.noCrash) :
    (o.mapErr k).noCrash := by
  cases o <;> simp_all [Outcome.mapErr, Outcome.noCrash]

theorem mapErr_eq_ok {α : Type} (o : Outcome α) (k : ErrKind) (a : α)
    (h : o.mapErr k = .ok a) : o = .ok a := by
  cases o <;> simp_all [Outcome.mapErr]

theorem readU64_noCrash (b : List Nat) : (readU64 b).noCrash := by
  unfold readU64; split <;> trivial

theorem readU64_ok_len (b : List Nat) (n : Nat) (h : readU64 b = .ok n) : 8 ≤ b.length := by
  unfold readU64 at h; split at h
  · assumption
  · simp at h

theorem deBlobRaw_fixed_noCrash (site : String) (b : List Nat) :
    (deBlobRaw .fixed site b).noCrash := by
  unfold deBlobRaw
  apply noCrash_bind _ _ (readU64_noCrash b)
  intro len _
  split
  · trivial
  · split <;> trivial

theorem deBlobRaw_ok_len (m : Mode) (site : String) (b bs : List Nat)
    (h : deBlobRaw m site b = .ok bs) : 8 + bs.length ≤ b.length := by
  unfold deBlobRaw at h
  obtain ⟨len, _, h2⟩ := bind_eq_ok _ _ _ h
  split at h2
  · cases m <;> simp at h2
  · split at h2
    · simp at h2; subst h2; simp; omega
    · simp at h2

theorem deStr_fixed_noCrash (b : List Nat) : (deStr .fixed b).noCrash := by
  unfold deStr
  apply noCrash_bind _ _ (deBlobRaw_fixed_noCrash _ b)
  intro bs _
  split <;> trivial

theorem deStr_ok_len (m : Mode) (b bs : List Nat) (h : deStr m b = .ok bs) :
    8 + bs.length ≤ b.length := by
  unfold deStr at h
  obtain ⟨bs', h1, h2⟩ := bind_eq_ok _ _ _ h
  split at h2
  · simp at h2; subst h2; exact deBlobRaw_ok_len m _ b bs' h1
  · simp at h2

theorem epochOffset_noCrash (before : Bool) (s n : Nat) : (epochOffset before s n).noCrash := by
  unfold epochOffset
  repeat' split
  all_goals trivial

theorem epochOffset_ok_adv (before : Bool) (s n : Nat) (v : Val) (k : Nat)
    (h : epochOffset before s n = .ok (v, k)) : k = 13 := by
  unfold epochOffset at h
  repeat' split at h
  all_goals simp at h
  all_goals omega

theorem deTime_fixed_noCrash (b : List Nat) : (deTime .fixed b).noCrash := by
  unfold deTime
  split
  · trivial
  · apply noCrash_bind
    · unfold durationNew; split <;> trivial
    · intro d _; exact epochOffset_noCrash _ _ _

theorem deTime_ok_adv (m : Mode) (b : List Nat) (v : Val) (k : Nat)
    (h : deTime m b = .ok (v, k)) : k = 13 ∧ 13 ≤ b.length := by
  unfold deTime at h
  split at h
  · simp at h
  · obtain ⟨d, _, h2⟩ := bind_eq_ok _ _ _ h
    exact ⟨epochOffset_ok_adv _ _ _ _ _ h2, by omega⟩

theorem canonAddr_len (sock : Bool) (s c : List Nat) (h : canonAddr sock s = some c) :
    c.length ≤ maxAddrLen := by
  unfold canonAddr at h
  split at h
  · simp only at h
    split at h
    · simp at h; subst h; assumption
    · simp at h
  · simp at h

/-- slack by which a decoded value's re-serialized size may exceed the bytes it was read from -/
def SLACK : Nat := maxAddrLen

/-- A decoder is *safe*: on every (physically possible) input it neither panics, nor asks for an
    enormous allocation, nor runs out of fuel, and the offset advance it reports is bounded. -/
def Safe (f : List Nat → Outcome (Val × Nat)) : Prop :=
  ∀ b : List Nat, b.length < I63 →
    (f b).noCrash ∧ ∀ v n, f b = .ok (v, n) → n ≤ b.length + SLACK

theorem addOff_small (site : String) (off n : Nat) (h : off + n < U64) :
    addOff site off n = .ok (off + n) := by
  unfold addOff; rw [if_neg (by omega)]

theorem deRep_fixed_safe (f : List Nat → Outcome (Val × Nat)) (hf : Safe f) :
    ∀ (k : Nat) (b : List Nat) (off : Nat), b.length < I63 → off ≤ b.length + SLACK →
      (deRep .fixed f k b off).noCrash ∧
        ∀ vs n, deRep .fixed f k b off = .ok (vs, n) → n ≤ b.length + SLACK
  | 0, b, off, _, ho => by
      simp only [deRep]
      exact ⟨trivial, by intro vs n h; simp at h; omega⟩
  | k + 1, b, off, hb, ho => by
      simp only [deRep]
      by_cases hoff : off > b.length
      · rw [if_pos hoff]
        exact ⟨trivial, by intro vs n h; simp [sliceFail] at h⟩
      · rw [if_neg hoff]
        have hdl : (b.drop off).length < I63 := by simp; omega
        obtain ⟨hnc, hadv⟩ := hf (b.drop off) hdl
        have key : ∀ vn, (f (b.drop off)).mapErr .outOfBounds = .ok vn →
            off + vn.2 ≤ b.length + SLACK := by
          intro vn hvn
          have := hadv vn.1 vn.2 (mapErr_eq_ok _ _ _ hvn)
          simp at this; omega
        have hsmall : ∀ vn, (f (b.drop off)).mapErr .outOfBounds = .ok vn →
            off + vn.2 < U64 := by
          intro vn hvn
          have := key vn hvn
          simp only [I63, SLACK, maxAddrLen, U64] at *; omega
        constructor
        · apply noCrash_bind _ _ (noCrash_mapErr _ _ hnc)
          intro vn hvn
          rw [addOff_small _ _ _ (hsmall vn hvn)]
          simp only [Outcome.bind_ok]
          apply noCrash_bind _ _ (deRep_fixed_safe f hf k b _ hb (key vn hvn)).1
          intro r _; trivial
        · intro vs n h
          obtain ⟨vn, hvn, h2⟩ := bind_eq_ok _ _ _ h
          rw [addOff_small _ _ _ (hsmall vn hvn)] at h2
          simp only [Outcome.bind_ok] at h2
          obtain ⟨r, hr, h3⟩ := bind_eq_ok _ _ _ h2
          simp at h3
          have := (deRep_fixed_safe f hf k b _ hb (key vn hvn)).2 r.1 r.2 hr
          omega

theorem deVec_fixed_safe (f : List Nat → Outcome (Val × Nat)) (hf : Safe f) : Safe (deVec .fixed f) := by
  intro b hb
  unfold deVec
  constructor
  · apply noCrash_bind _ _ (readU64_noCrash b)
    intro len hlen
    have h8 := readU64_ok_len b len hlen
    rw [if_neg (by have := vecCap_fixed_le len b.length; omega)]
    apply noCrash_bind _ _ (deRep_fixed_safe f hf len b 8 hb (by omega)).1
    intro r _; trivial
  · intro v n h
    obtain ⟨len, hlen, h2⟩ := bind_eq_ok _ _ _ h
    have h8 := readU64_ok_len b len hlen
    rw [if_neg (by have := vecCap_fixed_le len b.length; omega)] at h2
    obtain ⟨r, hr, h3⟩ := bind_eq_ok _ _ _ h2
    simp at h3
    have := (deRep_fixed_safe f hf len b 8 hb (by omega)).2 r.1 r.2 hr
    omega

theorem safe_num (b : List Nat) :
    ((readU64 b).bind fun n => (Outcome.ok (Val.num n, 8) : Outcome (Val × Nat))).noCrash ∧
    ∀ v n, ((readU64 b).bind fun n => (Outcome.ok (Val.num n, 8) : Outcome (Val × Nat))) = .ok (v, n) →
      n ≤ b.length + SLACK := by
  constructor
  · apply noCrash_bind _ _ (readU64_noCrash b); intro _ _; trivial
  · intro v n h
    obtain ⟨x, hx, h2⟩ := bind_eq_ok _ _ _ h
    have := readU64_ok_len b x hx
    simp at h2; omega

theorem safe_strlike (b : List Nat) :
    ((deStr .fixed b).bind fun bs => (Outcome.ok (Val.blob bs, 8 + bs.length) : Outcome (Val × Nat))).noCrash ∧
    ∀ v n, ((deStr .fixed b).bind fun bs => (Outcome.ok (Val.blob bs, 8 + bs.length) : Outcome (Val × Nat))) = .ok (v, n) →
      n ≤ b.length + SLACK := by
  constructor
  · apply noCrash_bind _ _ (deStr_fixed_noCrash b); intro _ _; trivial
  · intro v n h
    obtain ⟨x, hx, h2⟩ := bind_eq_ok _ _ _ h
    have := deStr_ok_len _ b x hx
    simp at h2; omega

theorem safe_addr (sock : Bool) (b : List Nat) :
    ((deStr .fixed b).bind fun bs =>
      (match canonAddr sock bs with
       | some c => (Outcome.ok (Val.blob c, 8 + c.length) : Outcome (Val × Nat))
       | none => .err .typeError)).noCrash ∧
    ∀ v n, ((deStr .fixed b).bind fun bs =>
      (match canonAddr sock bs with
       | some c => (Outcome.ok (Val.blob c, 8 + c.length) : Outcome (Val × Nat))
       | none => .err .typeError)) = .ok (v, n) → n ≤ b.length + SLACK := by
  constructor
  · apply noCrash_bind _ _ (deStr_fixed_noCrash b)
    intro bs _; split <;> trivial
  · intro v n h
    obtain ⟨x, hx, h2⟩ := bind_eq_ok _ _ _ h
    have h8 := deStr_ok_len _ b x hx
    split at h2
    · rename_i c hc
      have := canonAddr_len sock x c hc
      simp at h2
      simp only [SLACK]; omega
    · simp at h2

mutual
  theorem safe_de : ∀ σ : Schema, Safe (de .fixed σ)
    | .u64 => by intro b _; simp only [de]; exact safe_num b
    | .i64 => by intro b _; simp only [de]; exact safe_num b
    | .f64 => by intro b _; simp only [de]; exact safe_num b
    | .usize => by intro b _; simp only [de]; exact safe_num b
    | .bool => by
        intro b _
        cases b with
        | nil => simp [de, Outcome.noCrash]
        | cons x t => simp [de, Outcome.noCrash]; omega
    | .str => by intro b _; simp only [de]; exact safe_strlike b
    | .path => by intro b _; simp only [de]; exact safe_strlike b
    | .bytes => by
        intro b _
        simp only [de]
        constructor
        · apply noCrash_bind _ _ (deBlobRaw_fixed_noCrash _ b); intro _ _; trivial
        · intro v n h
          obtain ⟨x, hx, h2⟩ := bind_eq_ok _ _ _ h
          have := deBlobRaw_ok_len _ _ b x hx
          simp at h2; omega
    | .time => by
        intro b _
        simp only [de]
        refine ⟨deTime_fixed_noCrash b, ?_⟩
        intro v n h
        have := deTime_ok_adv _ b v n h
        omega
    | .sock => by intro b _; simp only [de]; exact safe_addr true b
    | .ip => by intro b _; simp only [de]; exact safe_addr false b
    | .vec s => by
        have := deVec_fixed_safe (de .fixed s) (safe_de s)
        intro b hb; simp only [de]; exact this b hb
    | .struct fs => by
        intro b hb
        simp only [de]
        have h := safe_deList fs b 0 hb (by omega)
        constructor
        · apply noCrash_bind _ _ h.1; intro _ _; trivial
        · intro v n hh
          obtain ⟨r, hr, h2⟩ := bind_eq_ok _ _ _ hh
          simp at h2
          have := h.2 r.1 r.2 hr
          omega
    | .enum vss => by
        intro b hb
        cases b with
        | nil => simp [de, Outcome.noCrash]
        | cons t rest =>
          simp only [de]
          exact safe_deVariant vss t t (t :: rest) hb (by simp)
  theorem safe_deList : ∀ (fs : SchemaList) (b : List Nat) (off : Nat), b.length < I63 →
      off ≤ b.length + SLACK →
      (deList .fixed fs b off).noCrash ∧
        ∀ vs n, deList .fixed fs b off = .ok (vs, n) → n ≤ b.length + SLACK
    | .nil, b, off, _, ho => by
        simp only [deList]
        exact ⟨trivial, by intro vs n h; simp at h; omega⟩
    | .cons s t, b, off, hb, ho => by
        simp only [deList]
        by_cases hoff : off > b.length
        · rw [if_pos hoff]
          exact ⟨trivial, by intro vs n h; simp [sliceFail] at h⟩
        · rw [if_neg hoff]
          have hdl : (b.drop off).length < I63 := by simp; omega
          obtain ⟨hnc, hadv⟩ := safe_de s (b.drop off) hdl
          have key : ∀ vn, de .fixed s (b.drop off) = .ok vn →
              off + vn.2 ≤ b.length + SLACK := by
            intro vn hvn
            have := hadv vn.1 vn.2 hvn
            simp at this; omega
          have hsmall : ∀ vn, de .fixed s (b.drop off) = .ok vn → off + vn.2 < U64 := by
            intro vn hvn
            have := key vn hvn
            simp only [I63, SLACK, maxAddrLen, U64] at *; omega
          constructor
          · apply noCrash_bind _ _ hnc
            intro vn hvn
            rw [addOff_small _ _ _ (hsmall vn hvn)]
            simp only [Outcome.bind_ok]
            apply noCrash_bind _ _ (safe_deList t b _ hb (key vn hvn)).1
            intro r _; trivial
          · intro vs n h
            obtain ⟨vn, hvn, h2⟩ := bind_eq_ok _ _ _ h
            rw [addOff_small _ _ _ (hsmall vn hvn)] at h2
            simp only [Outcome.bind_ok] at h2
            obtain ⟨r, hr, h3⟩ := bind_eq_ok _ _ _ h2
            simp at h3
            have := (safe_deList t b _ hb (key vn hvn)).2 r.1 r.2 hr
            omega
  theorem safe_deVariant : ∀ (vss : SchemaListList) (k tag : Nat) (b : List Nat), b.length < I63 →
      1 ≤ b.length →
      (deVariant .fixed vss k tag b).noCrash ∧
        ∀ v n, deVariant .fixed vss k tag b = .ok (v, n) → n ≤ b.length + SLACK
    | .nil, _, _, _, _, _ => by simp [deVariant, Outcome.noCrash]
    | .cons fs _, 0, tag, b, hb, h1 => by
        simp only [deVariant]
        have h := safe_deList fs b 1 hb (by omega)
        constructor
        · apply noCrash_bind _ _ h.1; intro _ _; trivial
        · intro v n hh
          obtain ⟨r, hr, h2⟩ := bind_eq_ok _ _ _ hh
          simp at h2
          have := h.2 r.1 r.2 hr
          omega
    | .cons _ t, k + 1, tag, b, hb, h1 => by
        simp only [deVariant]
        exact safe_deVariant t k tag b hb h1
end

end AgdbCodec
