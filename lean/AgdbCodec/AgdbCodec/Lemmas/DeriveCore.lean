import AgdbCodec.Model.Derive
import AgdbCodec.Lemmas.Total
namespace AgdbCodec

/-! ### vocabulary for the C22 statements -/

mutual
  /-- all keys a type can write, transitively through flattened fields, in declaration order -/
  def keysOf : FieldList → List (List Nat)
    | .nil => []
    | .cons f t => fieldKeys f ++ keysOf t
  def fieldKeys : Field → List (List Nat)
    | .plain k _ => [k]
    | .opt k _ => [k]
    | .flatten t => keysOf t
    | _ => []
end

/-- the conversion pair of a field kind is an inverse on `v`:
    `T::try_from(DbValue::from(v)) == Ok(v)` -/
def KindOk (k : Kind) (v : Val) : Prop := fromDb .fixed k (toDb k v) = .ok v

mutual
  /-- `v` is a value of the struct described by the field list -/
  inductive WTU : FieldList → UValList → Prop
    | nil : WTU .nil .nil
    | cons {f : Field} {t : FieldList} {v : UVal} {vs : UValList} :
        WTF f v → WTU t vs → WTU (.cons f t) (.cons v vs)
  inductive WTF : Field → UVal → Prop
    | plain {key : List Nat} {k : Kind} {v : Val} : KindOk k v → WTF (.plain key k) (.val v)
    | optNone {key : List Nat} {k : Kind} : WTF (.opt key k) .none
    | optSome {key : List Nat} {k : Kind} {v : Val} : KindOk k v → WTF (.opt key k) (.some v)
    | flatten {t : FieldList} {vs : UValList} : WTU t vs → WTF (.flatten t) (.nested vs)
    | skip {k : Kind} {v : Val} : WTF (.skip k) (.val v)
    | skipOptNone {k : Kind} : WTF (.skipOpt k) .none
    | skipOptSome {k : Kind} {v : Val} : WTF (.skipOpt k) (.some v)
    | dbId {form : IdForm} {i : Option Int} : WTF (.dbId form) (.id i)
end

mutual
  /-- what reading back is expected to give: the value itself with `db_id := Some(id)` and
      skipped fields reset to `Default` -/
  def normalize (id : Int) : FieldList → UValList → UValList
    | .cons f t, .cons v vs => .cons (normField id f v) (normalize id t vs)
    | _, _ => .nil
  def normField (id : Int) : Field → UVal → UVal
    | .skip k, _ => .val (defaultOf k)
    | .skipOpt _, _ => .none
    | .dbId _, _ => .id (some id)
    | .flatten t, .nested vs => .nested (normalize id t vs)
    | _, v => v
end

mutual
  /-- the lookup function `L` returns, for every key of the type, what `to_db_values` wrote for
      it (and nothing for `None` fields) -/
  def Agrees (L : List Nat → Option Val) : FieldList → UValList → Prop
    | .cons f t, .cons v vs => AgreesF L f v ∧ Agrees L t vs
    | _, _ => True
  def AgreesF (L : List Nat → Option Val) : Field → UVal → Prop
    | .plain key k, .val v => L key = some (toDb k v)
    | .opt key _, .none => L key = none
    | .opt key k, .some v => L key = some (toDb k v)
    | .flatten t, .nested vs => Agrees L t vs
    | _, _ => True
end

-- `from_db_element` inverts `to_db_values` whenever the lookups agree with what was written.
mutual
  theorem fromLookup_agrees (L : List Nat → Option Val) (id : Int) :
      ∀ {fs : FieldList} {v : UValList}, WTU fs v → Agrees L fs v →
        fromLookup .fixed L id fs = .ok (normalize id fs v)
    | _, _, .nil, _ => by simp [fromLookup, normalize]
    | _, _, .cons hf ht, ha => by
        simp only [Agrees] at ha
        simp [fromLookup, normalize, fromField_agrees L id hf ha.1, fromLookup_agrees L id ht ha.2]
  theorem fromField_agrees (L : List Nat → Option Val) (id : Int) :
      ∀ {f : Field} {v : UVal}, WTF f v → AgreesF L f v →
        fromField .fixed L id f = .ok (normField id f v)
    | _, _, .plain hk, ha => by
        simp only [AgreesF] at ha
        simp only [KindOk] at hk
        simp [fromField, ha, hk, Outcome.mapErr, normField]
    | _, _, .optNone, ha => by
        simp only [AgreesF] at ha
        simp [fromField, ha, normField]
    | _, _, .optSome hk, ha => by
        simp only [AgreesF] at ha
        simp only [KindOk] at hk
        simp [fromField, ha, hk, Outcome.mapErr, normField]
    | _, _, .flatten ht, ha => by
        simp only [AgreesF] at ha
        simp [fromField, fromLookup_agrees L id ht ha, normField]
    | _, _, .skip, _ => by simp [fromField, normField]
    | _, _, .skipOptNone, _ => by simp [fromField, normField]
    | _, _, .skipOptSome, _ => by simp [fromField, normField]
    | _, _, .dbId, _ => by simp [fromField, normField, idVal]
end

end AgdbCodec
