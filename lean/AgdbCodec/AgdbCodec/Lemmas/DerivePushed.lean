import AgdbCodec.Lemmas.DeriveCore
namespace AgdbCodec

/-- the string keys present in a key-value list -/
def kvKeys (l : List (Val × Val)) : List (List Nat) := l.filterMap fun kv => strKey? kv.1

theorem strKey_dbStr (key : List Nat) : strKey? (dbStr key) = some key := rfl

theorem kvKeys_cons (k v : Val) (t : List (Val × Val)) :
    kvKeys ((k, v) :: t) = (match strKey? k with | some bs => bs :: kvKeys t | none => kvKeys t) := by
  simp only [kvKeys, List.filterMap_cons]
  cases strKey? k <;> rfl

@[simp] theorem kvKeys_nil : kvKeys [] = [] := rfl

theorem kvKeys_single_dbStr (key : List Nat) (d : Val) : kvKeys [(dbStr key, d)] = [key] := by
  rw [kvKeys_cons]; simp [strKey_dbStr]

theorem kvKeys_append (a b : List (Val × Val)) : kvKeys (a ++ b) = kvKeys a ++ kvKeys b := by
  simp [kvKeys, List.filterMap_append]

theorem lookup_append_not_mem (a b : List (Val × Val)) (key : List Nat) (h : key ∉ kvKeys a) :
    lookupKey (a ++ b) key = lookupKey b key := by
  induction a with
  | nil => rfl
  | cons p t ih =>
    obtain ⟨k, v⟩ := p
    simp only [List.cons_append, lookupKey]
    rw [kvKeys_cons] at h
    cases hk : strKey? k with
    | none => simp only [hk] at h; exact ih h
    | some bs =>
      simp only [hk] at h
      have hne : bs ≠ key := fun e => h (by simp [e])
      have : (bs == key) = false := by simpa using hne
      simp only [this]
      exact ih (fun hm => h (by simp [hm]))

theorem lookup_not_mem (a : List (Val × Val)) (key : List Nat) (h : key ∉ kvKeys a) :
    lookupKey a key = none := by
  have := lookup_append_not_mem a [] key h
  simpa [lookupKey] using this

theorem lookup_cons_dbStr (key : List Nat) (d : Val) (b : List (Val × Val)) :
    lookupKey ((dbStr key, d) :: b) key = some d := by
  simp [lookupKey, strKey_dbStr]

mutual
  theorem kvKeys_toDbValues : ∀ (fs : FieldList) (v : UValList) (k : List Nat),
      k ∈ kvKeys (toDbValues fs v) → k ∈ keysOf fs
    | .nil, v, k, h => by cases v <;> simp [toDbValues] at h
    | .cons f t, .nil, k, h => by simp [toDbValues] at h
    | .cons f t, .cons v vs, k, h => by
        simp only [toDbValues, kvKeys_append, List.mem_append] at h
        simp only [keysOf, List.mem_append]
        rcases h with h | h
        · exact .inl (kvKeys_fieldValues f v k h)
        · exact .inr (kvKeys_toDbValues t vs k h)
  theorem kvKeys_fieldValues : ∀ (f : Field) (v : UVal) (k : List Nat),
      k ∈ kvKeys (fieldValues f v) → k ∈ fieldKeys f
    | .plain key kd, v, k, h => by
        cases v <;> simp [fieldValues, kvKeys_single_dbStr] at h
        simp [fieldKeys, h]
    | .opt key kd, v, k, h => by
        cases v <;> simp [fieldValues, kvKeys_single_dbStr] at h
        simp [fieldKeys, h]
    | .flatten t, v, k, h => by
        cases v <;> simp only [fieldValues, kvKeys_nil, List.not_mem_nil] at h
        rename_i vs
        simp only [fieldKeys]
        exact kvKeys_toDbValues t vs k h
    | .skip _, v, k, h => by cases v <;> simp [fieldValues] at h
    | .skipOpt _, v, k, h => by cases v <;> simp [fieldValues] at h
    | .dbId _, v, k, h => by cases v <;> simp [fieldValues] at h
end

mutual
  theorem agrees_pushed : ∀ {fs : FieldList} {v : UValList}, WTU fs v →
      ∀ (pre post : List (Val × Val)), (keysOf fs).Nodup →
        (∀ k ∈ keysOf fs, k ∉ kvKeys pre) → (∀ k ∈ keysOf fs, k ∉ kvKeys post) →
        Agrees (lookupKey (pre ++ (toDbValues fs v ++ post))) fs v
    | _, _, .nil, _, _, _, _, _ => by simp [Agrees]
    | _, _, .cons (f := f) (t := t) (v := v) (vs := vs) hf ht, pre, post, hnd, hpre, hpost => by
        simp only [keysOf] at hnd hpre hpost
        obtain ⟨nd1, nd2, disj⟩ := List.nodup_append.mp hnd
        simp only [Agrees, toDbValues]
        constructor
        · have := agreesF_pushed hf pre (toDbValues t vs ++ post) nd1
            (fun k hk => hpre k (List.mem_append.mpr (.inl hk)))
            (fun k hk => by
              rw [kvKeys_append, List.mem_append]
              rintro (h | h)
              · exact disj k hk k (kvKeys_toDbValues t vs k h) rfl
              · exact hpost k (List.mem_append.mpr (.inl hk)) h)
          simpa [List.append_assoc] using this
        · have := agrees_pushed ht (pre ++ fieldValues f v) post nd2
            (fun k hk => by
              rw [kvKeys_append, List.mem_append]
              rintro (h | h)
              · exact hpre k (List.mem_append.mpr (.inr hk)) h
              · exact disj k (kvKeys_fieldValues f v k h) k hk rfl)
            (fun k hk => hpost k (List.mem_append.mpr (.inr hk)))
          simpa [List.append_assoc] using this
  theorem agreesF_pushed : ∀ {f : Field} {v : UVal}, WTF f v →
      ∀ (pre post : List (Val × Val)), (fieldKeys f).Nodup →
        (∀ k ∈ fieldKeys f, k ∉ kvKeys pre) → (∀ k ∈ fieldKeys f, k ∉ kvKeys post) →
        AgreesF (lookupKey (pre ++ (fieldValues f v ++ post))) f v
    | _, _, .plain (key := key) _, pre, post, _, hpre, _ => by
        simp only [AgreesF, fieldValues]
        rw [lookup_append_not_mem _ _ _ (hpre key (by simp [fieldKeys]))]
        exact lookup_cons_dbStr _ _ _
    | _, _, .optNone (key := key), pre, post, _, hpre, hpost => by
        simp only [AgreesF, fieldValues, List.nil_append]
        rw [lookup_append_not_mem _ _ _ (hpre key (by simp [fieldKeys]))]
        exact lookup_not_mem _ _ (hpost key (by simp [fieldKeys]))
    | _, _, .optSome (key := key) _, pre, post, _, hpre, _ => by
        simp only [AgreesF, fieldValues]
        rw [lookup_append_not_mem _ _ _ (hpre key (by simp [fieldKeys]))]
        exact lookup_cons_dbStr _ _ _
    | _, _, .flatten ht, pre, post, hnd, hpre, hpost => by
        simp only [AgreesF, fieldValues]
        exact agrees_pushed ht pre post (by simpa [fieldKeys] using hnd)
          (by simpa [fieldKeys] using hpre) (by simpa [fieldKeys] using hpost)
    | _, _, .skip, _, _, _, _, _ => by simp [AgreesF]
    | _, _, .skipOptNone, _, _, _, _, _ => by simp [AgreesF]
    | _, _, .skipOptSome, _, _, _, _, _ => by simp [AgreesF]
    | _, _, .dbId, _, _, _, _, _ => by simp [AgreesF]
end

/-- `T::from_db_element` applied to an element that holds `T::to_db_values(v)` (plus any other
    pairs under other keys, e.g. `db_element_id`) gives `v` back. -/
theorem from_to_values (fs : FieldList) (v : UValList) (id : Int) (extra : List (Val × Val))
    (hw : WTU fs v) (hnd : (keysOf fs).Nodup) (hex : ∀ k ∈ keysOf fs, k ∉ kvKeys extra) :
    fromDbElement .fixed fs id (toDbValues fs v ++ extra) = .ok (normalize id fs v) := by
  unfold fromDbElement
  apply fromLookup_agrees _ id hw
  have := agrees_pushed hw [] extra hnd (by simp) hex
  simpa using this

end AgdbCodec
