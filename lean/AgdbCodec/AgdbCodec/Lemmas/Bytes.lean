import AgdbCodec.Model.Schema
namespace AgdbCodec

theorem le8_length (n : Nat) : (le8 n).length = 8 := rfl
theorem le4_length (n : Nat) : (le4 n).length = 4 := rfl

theorem unle8_le8_append (n : Nat) (r : List Nat) (h : n < U64) : unle8 (le8 n ++ r) = n := by
  simp only [le8, unle8, U64, List.cons_append, List.nil_append] at *
  omega

theorem unle4_le4_append (n : Nat) (r : List Nat) (h : n < 4294967296) :
    unle4 (le4 n ++ r) = n := by
  simp only [le4, unle4, List.cons_append, List.nil_append] at *
  omega

theorem readU64_le8_append (n : Nat) (r : List Nat) (h : n < U64) :
    readU64 (le8 n ++ r) = .ok n := by
  simp [readU64, le8_length, unle8_le8_append n r h]

theorem vecCap_fixed_le (len blen : Nat) : vecCap .fixed len blen ≤ blen := by
  simp only [vecCap]; omega

theorem serTime_length (sec : Int) (nsec : Nat) : (serTime sec nsec).length = 13 := by
  unfold serTime
  split
  · simp [le8_length, le4_length]
  · split <;> simp [le8_length, le4_length]

end AgdbCodec
