import AgdbCodec.Lemmas.DerivePushed
namespace AgdbCodec

/-! ### lookups are stable under filtering and permutation (keys distinct) -/

theorem strKey_eq_some (x : Val) (k : List Nat) (hs : strKey? x = some k) : x = dbStr k := by
  unfold strKey? at hs
  split at hs
  · rename_i bs
    simp at hs; subst hs; rfl
  · simp at hs

theorem lookup_filter (P : Val × Val → Bool) (l : List (Val × Val)) (k : List Nat)
    (h : ∀ kv ∈ l, strKey? kv.1 = some k → P kv = true) :
    lookupKey (l.filter P) k = lookupKey l k := by
  induction l with
  | nil => rfl
  | cons p t ih =>
    obtain ⟨a, b⟩ := p
    have ih' := ih (fun kv hkv => h kv (List.mem_cons_of_mem _ hkv))
    simp only [List.filter_cons]
    cases hs : strKey? a with
    | none =>
      split
      · simp only [lookupKey, hs]; exact ih'
      · simp only [lookupKey, hs]; exact ih'
    | some bs =>
      by_cases hb : bs = k
      · subst hb
        have := h (a, b) (by simp) hs
        simp only [this, if_true, lookupKey, hs]
        simp
      · have hne : (bs == k) = false := by simpa using hb
        split
        · simp only [lookupKey, hs, hne]; exact ih'
        · simp only [lookupKey, hs, hne]; exact ih'

theorem lookup_perm {l l' : List (Val × Val)} (h : l.Perm l') :
    (kvKeys l).Nodup → ∀ k, lookupKey l k = lookupKey l' k := by
  induction h with
  | nil => intro _ _; rfl
  | cons x hp ih =>
    intro hn k
    obtain ⟨a, b⟩ := x
    rw [kvKeys_cons] at hn
    simp only [lookupKey]
    cases hs : strKey? a with
    | none => simp only [hs] at hn; exact ih hn k
    | some bs =>
      simp only [hs] at hn
      have hn' := (List.nodup_cons.mp hn).2
      rw [ih hn' k]
  | swap x y l =>
    intro hn k
    obtain ⟨a, b⟩ := x
    obtain ⟨c, d⟩ := y
    rw [kvKeys_cons, kvKeys_cons] at hn
    simp only [lookupKey]
    cases hs : strKey? a with
    | none => rfl
    | some bs =>
      cases hs2 : strKey? c with
      | none => rfl
      | some cs =>
        simp only [hs, hs2] at hn
        have hne : cs ≠ bs := by
          intro e; subst e
          exact (List.nodup_cons.mp hn).1 (by simp)
        by_cases h1 : bs = k
        · subst h1
          have : (cs == bs) = false := by simpa using hne
          simp [this]
        · have h1' : (bs == k) = false := by simpa using h1
          simp [h1']
  | trans h1 h2 ih1 ih2 =>
    intro hn k
    have hn2 : (kvKeys _).Nodup := (List.Perm.nodup_iff (h1.filterMap _)).mp hn
    rw [ih1 hn k, ih2 hn2 k]

theorem keyPos_isSome (ks : List Val) (x : Val) : (keyPos ks x).isSome = true ↔ x ∈ ks := by
  induction ks with
  | nil => simp [keyPos]
  | cons y t ih =>
    simp only [keyPos, valEq]
    by_cases h : y = x
    · simp [h]
    · simp only [h, decide_false, Bool.false_eq_true, if_false, Option.isSome_map, List.mem_cons]
      rw [ih]
      constructor
      · exact .inr
      · rintro (e | e)
        · exact absurd e.symm h
        · exact e

theorem tagged_map_snd (kvs : List (Val × Val)) (ks : List Val) :
    (kvs.filterMap fun kv => (keyPos ks kv.1).map fun p => (p, kv)).map (·.2) =
      kvs.filter fun kv => (keyPos ks kv.1).isSome := by
  induction kvs with
  | nil => rfl
  | cons p t ih =>
    simp only [List.filterMap_cons, List.filter_cons]
    cases keyPos ks p.1 with
    | none => simpa using ih
    | some n => simpa using ih

theorem insertByPos'_perm (x : Nat × (Val × Val)) : ∀ l : List (Nat × (Val × Val)),
    (sortByPos.insertByPos' x l).Perm (x :: l)
  | [] => by simp [sortByPos.insertByPos']
  | y :: t => by
      simp only [sortByPos.insertByPos']
      split
      · exact ((insertByPos'_perm x t).cons y).trans (List.Perm.swap x y t)
      · exact List.Perm.refl _

theorem sortByPos_perm : ∀ l : List (Nat × (Val × Val)), (sortByPos l).Perm l
  | [] => by simp [sortByPos]
  | x :: t => by
      simp only [sortByPos]
      exact (insertByPos'_perm x _).trans ((sortByPos_perm t).cons x)

theorem valuesByKeys_perm (kvs : List (Val × Val)) (ks : List Val) :
    (valuesByKeys kvs ks).Perm (kvs.filter fun kv => (keyPos ks kv.1).isSome) := by
  unfold valuesByKeys
  rw [← tagged_map_snd]
  exact (sortByPos_perm _).map _

theorem kvKeys_sublist_filter (P : Val × Val → Bool) (l : List (Val × Val)) :
    (kvKeys (l.filter P)).Sublist (kvKeys l) := by
  unfold kvKeys
  exact List.Sublist.filterMap _ List.filter_sublist

/-- selecting by keys does not change what any selected key looks up to -/
theorem lookup_valuesByKeys (kvs : List (Val × Val)) (ks : List Val) (k : List Nat)
    (hn : (kvKeys kvs).Nodup) (hk : dbStr k ∈ ks) :
    lookupKey (valuesByKeys kvs ks) k = lookupKey kvs k := by
  have hp := valuesByKeys_perm kvs ks
  have hn2 : (kvKeys (kvs.filter fun kv => (keyPos ks kv.1).isSome)).Nodup :=
    List.Nodup.sublist (kvKeys_sublist_filter _ _) hn
  have hn1 : (kvKeys (valuesByKeys kvs ks)).Nodup :=
    (List.Perm.nodup_iff (hp.filterMap _)).mpr hn2
  rw [lookup_perm hp hn1 k]
  apply lookup_filter
  intro kv _ hs
  rw [strKey_eq_some _ _ hs]
  exact (keyPos_isSome ks _).mpr hk

theorem mem_of_kvKeys (l : List (Val × Val)) (k : List Nat) (h : k ∈ kvKeys l) :
    ∃ d, (dbStr k, d) ∈ l := by
  unfold kvKeys at h
  rw [List.mem_filterMap] at h
  obtain ⟨kv, hm, hs⟩ := h
  have := strKey_eq_some _ _ hs
  exact ⟨kv.2, by rw [← this]; exact hm⟩

end AgdbCodec

namespace AgdbCodec

/-! ### what `db_keys()` (repaired) returns -/

/-- `db_keys()` of a nested (flattened) type as the enclosing type sees it -/
def nestedKeys (n : FieldList) : Option (List Val) :=
  if hasOption n then none else dbKeys.go .fixed n

theorem go_flatten_fixed (n t : FieldList) :
    dbKeys.go .fixed (.cons (.flatten n) t) =
      (match nestedKeys n with
       | some ks => if ks.isEmpty then none else (dbKeys.go .fixed t).map fun r => ks ++ r
       | none => none) := by
  simp only [dbKeys.go, nestedKeys]
  split <;> simp_all

/-- one step of `db_keys()`: what a field adds in front of the keys of the remaining fields -/
def goField (f : Field) (rest : Option (List Val)) : Option (List Val) :=
  match f with
  | .plain key _ => rest.map fun r => dbStr key :: r
  | .flatten n =>
    (match nestedKeys n with
     | some ks => if ks.isEmpty then none else rest.map fun r => ks ++ r
     | none => none)
  | _ => rest

theorem go_cons (f : Field) (t : FieldList) :
    dbKeys.go .fixed (.cons f t) = goField f (dbKeys.go .fixed t) := by
  cases f with
  | flatten n => rw [go_flatten_fixed]; rfl
  | _ => rfl

theorem goField_none (f : Field) : goField f none = none := by
  cases f with
  | flatten n => simp only [goField]; split <;> (try split) <;> simp
  | _ => simp [goField]

def fieldHasOption : Field → Bool
  | .opt _ _ => true
  | .skipOpt _ => true
  | _ => false

theorem hasOption_cons (f : Field) (t : FieldList) :
    hasOption (.cons f t) = (fieldHasOption f || hasOption t) := by
  cases f <;> simp [hasOption, fieldHasOption]

mutual
  theorem go_spec : ∀ {fs : FieldList} {v : UValList}, WTU fs v → ∀ ks : List Val,
      hasOption fs = false → dbKeys.go .fixed fs = some ks →
        ks = (keysOf fs).map dbStr ∧ ∀ k ∈ keysOf fs, k ∈ kvKeys (toDbValues fs v)
    | _, _, .nil, ks, _, hg => by
        simp [dbKeys.go] at hg; subst hg; simp [keysOf]
    | _, _, .cons (f := f) (t := t) (v := v) (vs := vs) hf ht, ks, ho, hg => by
        rw [hasOption_cons] at ho
        simp only [Bool.or_eq_false_iff] at ho
        rw [go_cons] at hg
        cases hr : dbKeys.go .fixed t with
        | none => rw [hr, goField_none] at hg; simp at hg
        | some r =>
          rw [hr] at hg
          obtain ⟨e1, e2⟩ := go_spec ht r ho.2 hr
          obtain ⟨e3, e4⟩ := go_spec_field hf r ks ho.1 hg
          subst e1
          refine ⟨by simp [keysOf, e3], ?_⟩
          intro k hk
          simp only [keysOf, List.mem_append] at hk
          simp only [toDbValues, kvKeys_append, List.mem_append]
          rcases hk with hk | hk
          · exact .inl (e4 k hk)
          · exact .inr (e2 k hk)
  theorem go_spec_field : ∀ {f : Field} {v : UVal}, WTF f v → ∀ (r ks : List Val),
      fieldHasOption f = false → goField f (some r) = some ks →
        ks = (fieldKeys f).map dbStr ++ r ∧ ∀ k ∈ fieldKeys f, k ∈ kvKeys (fieldValues f v)
    | _, _, .plain (key := key) _, r, ks, _, hg => by
        simp [goField] at hg; subst hg
        simp [fieldKeys, fieldValues, kvKeys_single_dbStr]
    | _, _, .optNone, _, _, ho, _ => by simp [fieldHasOption] at ho
    | _, _, .optSome _, _, _, ho, _ => by simp [fieldHasOption] at ho
    | _, _, .skipOptNone, _, _, ho, _ => by simp [fieldHasOption] at ho
    | _, _, .skipOptSome, _, _, ho, _ => by simp [fieldHasOption] at ho
    | _, _, .flatten (t := n) (vs := ws) hn, r, ks, _, hg => by
        simp only [goField] at hg
        cases hnk : nestedKeys n with
        | none => simp [hnk] at hg
        | some ksn =>
          simp only [hnk] at hg
          by_cases hem : ksn.isEmpty = true
          · simp [hem] at hg
          · simp only [hem, Bool.false_eq_true, if_false, Option.map_some, Option.some.injEq] at hg
            have hon : hasOption n = false := by
              unfold nestedKeys at hnk
              by_cases h : hasOption n = true
              · simp [h] at hnk
              · simpa using h
            have hgn : dbKeys.go .fixed n = some ksn := by
              unfold nestedKeys at hnk
              simpa [hon] using hnk
            obtain ⟨e1, e2⟩ := go_spec hn ksn hon hgn
            subst e1 hg
            exact ⟨by simp [fieldKeys], by simpa [fieldKeys, fieldValues] using e2⟩
    | _, _, .skip, r, ks, _, hg => by
        simp [goField] at hg; subst hg; simp [fieldKeys]
    | _, _, .dbId, r, ks, _, hg => by
        simp [goField] at hg; subst hg; simp [fieldKeys]
end

end AgdbCodec
