import AgdbCodec.Lemmas.Index
import AgdbCodec.Lemmas.RoundTripMain
import AgdbCodec.Lemmas.Total
namespace AgdbCodec

theorem setValue_none (i v : List Nat) (h : v.length > 15) : setValue i v = none := by
  simp [setValue, h]

theorem loadValue_insert (m : Mode) (i : List Nat) (st : Store) (hw : st.Wf) (bs : List Nat)
    (v : Val) (h : loadValue m i st = .ok v) : loadValue m i (st.insert bs).2 = .ok v := by
  have key : ∀ {α : Type} (f : List Nat → Outcome α) (r : α),
      (st.get (idxIndex i)).bind f = .ok r → ((st.insert bs).2.get (idxIndex i)).bind f = .ok r := by
    intro α f r hb
    obtain ⟨old, ho, hf⟩ := bind_eq_ok _ _ _ hb
    rw [Store.get_insert_old st hw bs _ old ho]
    exact hf
  unfold loadValue at h ⊢
  simp only [loadOut] at h ⊢
  repeat' split at h
  all_goals simp_all
  all_goals (first | exact key _ _ h | skip)

/-- one inline/out-of-line store followed by the matching load -/
theorem storeInlineOr_inline (t : Nat) (ht : t < 16) (inl out : List Nat) (st : Store)
    (h : inl.length ≤ 15) :
    ∃ i', storeInlineOr t inl out st = (i', st) ∧ getType i' = t ∧ idxValue i' = inl ∧
      isValue i' = true := by
  obtain ⟨i', h1, h2, h3, h4, _⟩ := setValue_spec t ht inl h
  exact ⟨i', by simp [storeInlineOr, h1], h2, h3, h4⟩

theorem storeInlineOr_out (t : Nat) (ht : t < 16) (inl out : List Nat) (st : Store)
    (h : inl.length > 15) (hw : st.Wf) (hn : st.next < U64) :
    ∃ i', storeInlineOr t inl out st = (i', (st.insert out).2) ∧ getType i' = t ∧
      isValue i' = false ∧ (st.insert out).2.get (idxIndex i') = .ok out := by
  obtain ⟨h2, h3, h4, _⟩ := setIndex_spec t ht st.next hw.1 hn
  refine ⟨setIndex (setType newIdx t) st.next, ?_, h2, h4, ?_⟩
  · simp [storeInlineOr, setValue_none _ _ h, Store.insert]
  · rw [h3]; exact Store.get_insert_self st out

theorem storeOut_spec (t : Nat) (ht : t < 16) (out : List Nat) (st : Store)
    (hw : st.Wf) (hn : st.next < U64) :
    ∃ i', storeOut t out st = (i', (st.insert out).2) ∧ getType i' = t ∧
      (st.insert out).2.get (idxIndex i') = .ok out := by
  obtain ⟨h2, h3, _, _⟩ := setIndex_spec t ht st.next hw.1 hn
  refine ⟨setIndex (setType newIdx t) st.next, ?_, h2, ?_⟩
  · simp [storeOut, Store.insert]
  · rw [h3]; exact Store.get_insert_self st out

theorem loadNum_inline (tag : Nat) (i' : List Nat) (n : Nat) (hn : n < U64)
    (hv : idxValue i' = le8 n) : loadNum tag i' = .ok (wrap tag (.num n)) := by
  unfold loadNum
  rw [hv]
  have : unle8 (le8 n) = n := by
    have := unle8_le8_append n [] hn
    simpa using this
  simp [le8_length, this]

/-- storing one `DbValue` never invalidates the store invariant -/
theorem storeValue_wf (v : Val) (st : Store) (hw : st.Wf) (i : List Nat) (st' : Store)
    (h : storeValue v st = some (i, st')) : st'.Wf ∧ (st' = st ∨ ∃ bs, st' = (st.insert bs).2) := by
  unfold storeValue at h
  split at h
  all_goals (first
    | (simp only [Option.some.injEq, storeInlineOr, storeOut] at h
       split at h
       · simp at h; obtain ⟨_, rfl⟩ := h; exact ⟨hw, .inl rfl⟩
       · simp at h; obtain ⟨_, rfl⟩ := h; exact ⟨Store.insert_wf _ _ hw, .inr ⟨_, rfl⟩⟩)
    | (simp only [Option.some.injEq, storeOut] at h
       simp at h; obtain ⟨_, rfl⟩ := h; exact ⟨Store.insert_wf _ _ hw, .inr ⟨_, rfl⟩⟩)
    | simp at h)

end AgdbCodec

namespace AgdbCodec

theorem de_ser_nil {σ : Schema} {v : Val} (h : WT σ v) (hs : (ser v).length < U64) :
    de .fixed σ (ser v) = .ok (v, (ser v).length) := by
  have := rt h [] hs
  simpa using this

theorem loadValue_type (m : Mode) (i : List Nat) (st : Store) (t : Nat) (ht : getType i = t) :
    loadValue m i st =
      (if t = BYTES_META then
        if isValue i then .ok (wrap 0 (.blob (idxValue i)))
        else (st.get (idxIndex i)).bind fun bs => .ok (wrap 0 (.blob bs))
      else if t = I64_META then loadNum 1 i
      else if t = U64_META then loadNum 2 i
      else if t = F64_META then loadNum 3 i
      else if t = STRING_META then
        if isValue i then
          .ok (wrap 4 (.blob (if validUtf8 (idxValue i) then idxValue i else utf8Lossy (idxValue i))))
        else loadOut m 4 .str i st
      else if t = VEC_I64_META then loadOut m 5 (.vec .i64) i st
      else if t = VEC_U64_META then loadOut m 6 (.vec .u64) i st
      else if t = VEC_F64_META then loadOut m 7 (.vec .f64) i st
      else if t = VEC_STRING_META then loadOut m 8 (.vec .str) i st
      else .panic "DbValue::load_db_value") := by
  subst ht; rfl

theorem store_load_out (tag t : Nat) (ht : t < 16) (σ : Schema) (p : Val) (st : Store)
    (hw : st.Wf) (hn : st.next < U64) (hp : WT σ p) (hs : (ser p).length < U64) :
    ∃ i', storeOut t (ser p) st = (i', (st.insert (ser p)).2) ∧ getType i' = t ∧
      loadOut .fixed tag σ i' (st.insert (ser p)).2 = .ok (wrap tag p) := by
  obtain ⟨i', h1, h2, h3⟩ := storeOut_spec t ht (ser p) st hw hn
  refine ⟨i', h1, h2, ?_⟩
  simp [loadOut, h3, de_ser_nil hp hs]

/-- `load_db_value(store_db_value(v)) == v` for every `DbValue`. -/
theorem store_load (v : Val) (st : Store) (hw : st.Wf) (hn : st.next < U64)
    (hv : WT dbValueSchema v) (hs : (ser v).length < U64) (i : List Nat) (st' : Store)
    (h : storeValue v st = some (i, st')) : loadValue .fixed i st' = .ok v := by
  cases hv with
  | enum htag hget hl =>
    rename_i fs tag vs
    have hsz : (serList vs).length < U64 := by simp [ser] at hs; omega
    match tag, hget, h with
    | 0, hget, h =>
      simp [SchemaListList.ofList, SchemaList.ofList, SchemaListList.get?] at hget
      subst hget
      cases hl with
      | cons hp hnil =>
        cases hnil
        cases hp with
        | bytes bs =>
        simp only [storeValue, Option.some.injEq] at h
        by_cases hb : bs.length ≤ 15
        · obtain ⟨i', e1, e2, e3, e4⟩ := storeInlineOr_inline BYTES_META (by decide) bs bs st hb
          rw [e1] at h; simp at h; obtain ⟨rfl, rfl⟩ := h
          rw [loadValue_type _ _ _ _ e2]
          simp [e3, e4, wrap]
        · obtain ⟨i', e1, e2, e3, e4⟩ :=
            storeInlineOr_out BYTES_META (by decide) bs bs st (by omega) hw hn
          rw [e1] at h; simp at h; obtain ⟨rfl, rfl⟩ := h
          rw [loadValue_type _ _ _ _ e2]
          simp [e3, e4, wrap]
    | 1, hget, h =>
      simp [SchemaListList.ofList, SchemaList.ofList, SchemaListList.get?] at hget
      subst hget
      cases hl with
      | cons hp hnil =>
        cases hnil
        cases hp with
        | @i64 n hnn =>
        simp only [storeValue, Option.some.injEq] at h
        obtain ⟨i', e1, e2, e3, e4⟩ :=
          storeInlineOr_inline I64_META (by decide) (le8 n) [] st (by simp [le8_length])
        rw [e1] at h; simp at h; obtain ⟨rfl, rfl⟩ := h
        rw [loadValue_type _ _ _ _ e2]
        simp [I64_META, BYTES_META, loadNum_inline 1 _ n hnn e3, wrap]
    | 2, hget, h =>
      simp [SchemaListList.ofList, SchemaList.ofList, SchemaListList.get?] at hget
      subst hget
      cases hl with
      | cons hp hnil =>
        cases hnil
        cases hp with
        | @u64 n hnn =>
        simp only [storeValue, Option.some.injEq] at h
        obtain ⟨i', e1, e2, e3, e4⟩ :=
          storeInlineOr_inline U64_META (by decide) (le8 n) [] st (by simp [le8_length])
        rw [e1] at h; simp at h; obtain ⟨rfl, rfl⟩ := h
        rw [loadValue_type _ _ _ _ e2]
        simp [U64_META, I64_META, BYTES_META, loadNum_inline 2 _ n hnn e3, wrap]
    | 3, hget, h =>
      simp [SchemaListList.ofList, SchemaList.ofList, SchemaListList.get?] at hget
      subst hget
      cases hl with
      | cons hp hnil =>
        cases hnil
        cases hp with
        | @f64 n hnn =>
        simp only [storeValue, Option.some.injEq] at h
        obtain ⟨i', e1, e2, e3, e4⟩ :=
          storeInlineOr_inline F64_META (by decide) (le8 n) [] st (by simp [le8_length])
        rw [e1] at h; simp at h; obtain ⟨rfl, rfl⟩ := h
        rw [loadValue_type _ _ _ _ e2]
        simp [F64_META, U64_META, I64_META, BYTES_META, loadNum_inline 3 _ n hnn e3, wrap]
    | 4, hget, h =>
      simp [SchemaListList.ofList, SchemaList.ofList, SchemaListList.get?] at hget
      subst hget
      cases hl with
      | cons hp hnil =>
        cases hnil
        have hp' := hp
        cases hp with
        | @str bs hu =>
        simp only [storeValue, Option.some.injEq] at h
        by_cases hb : bs.length ≤ 15
        · obtain ⟨i', e1, e2, e3, e4⟩ :=
            storeInlineOr_inline STRING_META (by decide) bs (ser (.blob bs)) st hb
          rw [e1] at h; simp at h; obtain ⟨rfl, rfl⟩ := h
          rw [loadValue_type _ _ _ _ e2]
          simp [STRING_META, F64_META, U64_META, I64_META, BYTES_META, e3, e4, wrap, hu]
        · obtain ⟨i', e1, e2, e3, e4⟩ :=
            storeInlineOr_out STRING_META (by decide) bs (ser (.blob bs)) st (by omega) hw hn
          rw [e1] at h; simp at h; obtain ⟨rfl, rfl⟩ := h
          rw [loadValue_type _ _ _ _ e2]
          have hsb : (ser (Val.blob bs)).length < U64 := by
            simp [serList] at hsz; exact hsz
          simp [STRING_META, F64_META, U64_META, I64_META, BYTES_META, e3, loadOut, e4,
            de_ser_nil hp' hsb, wrap]
    | 5, hget, h =>
      simp [SchemaListList.ofList, SchemaList.ofList, SchemaListList.get?] at hget
      subst hget
      cases hl with
      | cons hp hnil =>
        cases hnil
        have hp' := hp
        cases hp with
        | @vec s ws hall hlen =>
        simp only [storeValue, Option.some.injEq] at h
        have hsb : (ser (Val.vec ws)).length < U64 := by simp [serList] at hsz; exact hsz
        obtain ⟨i', e1, e2, e3⟩ := store_load_out 5 VEC_I64_META (by decide) _ _ st hw hn hp' hsb
        rw [e1] at h; simp at h; obtain ⟨rfl, rfl⟩ := h
        rw [loadValue_type _ _ _ _ e2]
        simp [VEC_I64_META, STRING_META, F64_META, U64_META, I64_META, BYTES_META, e3, wrap]
    | 6, hget, h =>
      simp [SchemaListList.ofList, SchemaList.ofList, SchemaListList.get?] at hget
      subst hget
      cases hl with
      | cons hp hnil =>
        cases hnil
        have hp' := hp
        cases hp with
        | @vec s ws hall hlen =>
        simp only [storeValue, Option.some.injEq] at h
        have hsb : (ser (Val.vec ws)).length < U64 := by simp [serList] at hsz; exact hsz
        obtain ⟨i', e1, e2, e3⟩ := store_load_out 6 VEC_U64_META (by decide) _ _ st hw hn hp' hsb
        rw [e1] at h; simp at h; obtain ⟨rfl, rfl⟩ := h
        rw [loadValue_type _ _ _ _ e2]
        simp [VEC_U64_META, VEC_I64_META, STRING_META, F64_META, U64_META, I64_META, BYTES_META, e3, wrap]
    | 7, hget, h =>
      simp [SchemaListList.ofList, SchemaList.ofList, SchemaListList.get?] at hget
      subst hget
      cases hl with
      | cons hp hnil =>
        cases hnil
        have hp' := hp
        cases hp with
        | @vec s ws hall hlen =>
        simp only [storeValue, Option.some.injEq] at h
        have hsb : (ser (Val.vec ws)).length < U64 := by simp [serList] at hsz; exact hsz
        obtain ⟨i', e1, e2, e3⟩ := store_load_out 7 VEC_F64_META (by decide) _ _ st hw hn hp' hsb
        rw [e1] at h; simp at h; obtain ⟨rfl, rfl⟩ := h
        rw [loadValue_type _ _ _ _ e2]
        simp [VEC_F64_META, VEC_U64_META, VEC_I64_META, STRING_META, F64_META, U64_META, I64_META,
          BYTES_META, e3, wrap]
    | 8, hget, h =>
      simp [SchemaListList.ofList, SchemaList.ofList, SchemaListList.get?] at hget
      subst hget
      cases hl with
      | cons hp hnil =>
        cases hnil
        have hp' := hp
        cases hp with
        | @vec s ws hall hlen =>
        simp only [storeValue, Option.some.injEq] at h
        have hsb : (ser (Val.vec ws)).length < U64 := by simp [serList] at hsz; exact hsz
        obtain ⟨i', e1, e2, e3⟩ :=
          store_load_out 8 VEC_STRING_META (by decide) _ _ st hw hn hp' hsb
        rw [e1] at h; simp at h; obtain ⟨rfl, rfl⟩ := h
        rw [loadValue_type _ _ _ _ e2]
        simp [VEC_STRING_META, VEC_F64_META, VEC_U64_META, VEC_I64_META, STRING_META, F64_META,
          U64_META, I64_META, BYTES_META, e3, wrap]
    | n + 9, hget, _ =>
      simp [SchemaListList.ofList, SchemaList.ofList, SchemaListList.get?] at hget

/-- every stored index is exactly 16 bytes -/
theorem setMeta_length (i : List Nat) (m : Nat) (h : 15 ≤ i.length) : (setMeta i m).length = 16 := by
  simp [setMeta, List.length_take]; omega

theorem setType_new_length (t : Nat) : (setType newIdx t).length = 16 :=
  setMeta_length _ _ (by simp [newIdx])

theorem setSize_length (i : List Nat) (s : Nat) (h : 15 ≤ i.length) : (setSize i s).length = 16 :=
  setMeta_length _ _ h

theorem storeInlineOr_length (t : Nat) (inl out : List Nat) (st : Store) :
    (storeInlineOr t inl out st).1.length = 16 ∧ (storeInlineOr t inl out st).2.next ≤ st.next + 1 := by
  have h16 := setType_new_length t
  unfold storeInlineOr
  simp only [setValue]
  by_cases h : inl.length > 15
  · simp only [if_pos h, Store.insert, setIndex]
    simp [le8_length, setSize_length _ _ (by omega : 15 ≤ (setType newIdx t).length)]
  · simp only [if_neg h]
    simp [setSize_length _ _ (by omega : 15 ≤ (setType newIdx t).length)]; omega

theorem storeOut_length (t : Nat) (out : List Nat) (st : Store) :
    (storeOut t out st).1.length = 16 ∧ (storeOut t out st).2.next ≤ st.next + 1 := by
  have h16 := setType_new_length t
  simp [storeOut, Store.insert, setIndex, le8_length,
    setSize_length _ _ (by omega : 15 ≤ (setType newIdx t).length)]

theorem storeValue_length (v : Val) (st : Store) (i : List Nat)
    (st' : Store) (h : storeValue v st = some (i, st')) : i.length = 16 ∧ st'.next ≤ st.next + 1 := by
  unfold storeValue at h
  split at h
  all_goals (first
    | (simp only [Option.some.injEq] at h
       have hi := congrArg Prod.fst h
       have hs := congrArg Prod.snd h
       simp only at hi hs
       rw [← hi, ← hs]
       first | exact storeInlineOr_length _ _ _ st | exact storeOut_length _ _ st)
    | (exfalso; simp at h))

/-- a value that loads from `st` still loads after any further `store_db_value` -/
theorem loadValue_stable (m : Mode) (i : List Nat) (st : Store) (hw : st.Wf) (v w : Val)
    (j : List Nat) (st' : Store) (hl : loadValue m i st = .ok v)
    (hs : storeValue w st = some (j, st')) : loadValue m i st' = .ok v := by
  rcases (storeValue_wf w st hw j st' hs).2 with rfl | ⟨bs, rfl⟩
  · exact hl
  · exact loadValue_insert m i st hw bs v hl

theorem store_load_kv (k v : Val) (st : Store) (hw : st.Wf) (hn : st.next + 1 < U64)
    (hk : WT dbValueSchema k) (hv : WT dbValueSchema v)
    (hsk : (ser k).length < U64) (hsv : (ser v).length < U64)
    (bytes : List Nat) (st2 : Store) (h : storeKV k v st = some (bytes, st2)) :
    loadKV .fixed bytes st2 = .ok (k, v) := by
  unfold storeKV at h
  split at h
  · rename_i ki st1 hk1
    split at h
    · rename_i vi st2' hv1
      simp at h; obtain ⟨rfl, rfl⟩ := h
      have ⟨lk, nk⟩ := storeValue_length k st ki st1 hk1
      have hw1 := (storeValue_wf k st hw ki st1 hk1).1
      have ⟨lv, _⟩ := storeValue_length v st1 vi st2' hv1
      have e1 := store_load k st hw (by omega) hk hsk ki st1 hk1
      have e1' := loadValue_stable .fixed ki st1 hw1 k v vi st2' e1 hv1
      have e2 := store_load v st1 hw1 (by omega) hv hsv vi st2' hv1
      unfold loadKV
      have t1 : (ki ++ vi).take 16 = ki := by simp [← lk]
      have d : (ki ++ vi).drop 16 = vi := by rw [← lk]; simp
      have t2 : ((ki ++ vi).drop 16).take 16 = vi := by
        rw [d]; exact List.take_of_length_le (by omega)
      rw [if_neg (by simp [lk]), if_neg (by simp [lk, lv])]
      rw [t1, t2, e1', e2]
      simp
    · simp at h
  · simp at h

end AgdbCodec
