import AgdbCodec.Lemmas.RoundTrip
namespace AgdbCodec

theorem deVariant_get (m : Mode) : ∀ (vss : SchemaListList) (k : Nat) (fs : SchemaList) (tag : Nat)
    (b : List Nat), vss.get? k = some fs →
    deVariant m vss k tag b = (deList m fs b 1).bind fun r => .ok (.enum tag r.1, r.2)
  | .nil, _, _, _, _, h => by simp [SchemaListList.get?] at h
  | .cons fs' t, 0, fs, tag, b, h => by
      simp [SchemaListList.get?] at h; subst h; simp [deVariant]
  | .cons fs' t, k + 1, fs, tag, b, h => by
      simp [SchemaListList.get?] at h
      simp only [deVariant]
      exact deVariant_get m t k fs tag b h

theorem drop_step (b : List Nat) (off : Nat) (x y : List Nat) (h : b.drop off = x ++ y) :
    b.drop (off + x.length) = y := by
  rw [← List.drop_drop, h]; simp

theorem drop_len_le (b : List Nat) (off : Nat) (x : List Nat) (hle : off ≤ b.length)
    (h : b.drop off = x) : off + x.length = b.length := by
  have := congrArg List.length h
  simp at this; omega

mutual
  theorem rt : ∀ {σ : Schema} {v : Val}, WT σ v → ∀ (rest : List Nat), (ser v).length < U64 →
      de .fixed σ (ser v ++ rest) = .ok (v, (ser v).length)
    | _, _, .u64 hn, rest, _ => by simp [ser, de, readU64_le8_append _ _ hn, le8_length]
    | _, _, .i64 hn, rest, _ => by simp [ser, de, readU64_le8_append _ _ hn, le8_length]
    | _, _, .f64 hn, rest, _ => by simp [ser, de, readU64_le8_append _ _ hn, le8_length]
    | _, _, .usize hn, rest, _ => by simp [ser, de, readU64_le8_append _ _ hn, le8_length]
    | _, _, .bool b, rest, _ => by cases b <;> simp [ser, de]
    | _, _, .str (bs := bs) hu, rest, hs => by
        have h8 : 8 + bs.length < U64 := by simpa [ser, le8_length] using hs
        simp [ser, de, deStr_ser .fixed bs rest h8 hu, le8_length]
    | _, _, .path (bs := bs) hu, rest, hs => by
        have h8 : 8 + bs.length < U64 := by simpa [ser, le8_length] using hs
        simp [ser, de, deStr_ser .fixed bs rest h8 hu, le8_length]
    | _, _, .bytes bs, rest, hs => by
        have h8 : 8 + bs.length < U64 := by simpa [ser, le8_length] using hs
        simp [ser, de, deBlobRaw_ser .fixed _ bs rest h8, le8_length]
    | _, _, .time h1 h2 h3, rest, _ => by
        simp [ser, de, deTime_ser .fixed _ _ rest h1 h2 h3, serTime_length]
    | _, _, .sock (bs := bs) hu hc, rest, hs => by
        have h8 : 8 + bs.length < U64 := by simpa [ser, le8_length] using hs
        simp [ser, de, deStr_ser .fixed bs rest h8 hu, hc, le8_length]
    | _, _, .ip (bs := bs) hu hc, rest, hs => by
        have h8 : 8 + bs.length < U64 := by simpa [ser, le8_length] using hs
        simp [ser, de, deStr_ser .fixed bs rest h8 hu, hc, le8_length]
    | _, _, .vec (s := s) (vs := vs) hall hlen, rest, hs => by
        have hs' : 8 + (serList vs).length < U64 := by simpa [ser, le8_length] using hs
        have hb : (le8 vs.len ++ (serList vs ++ rest)).drop 8 = serList vs ++ rest := by
          simp [le8]
        have h := rtAll hall (le8 vs.len ++ (serList vs ++ rest)) rest 8 hb
          (by simp [le8_length]) hs'
        simp only [ser, de, deVec, List.append_assoc]
        rw [readU64_le8_append _ _ hlen]
        simp only [Outcome.bind_ok]
        rw [if_neg (by have := vecCap_fixed_le vs.len (le8 vs.len ++ (serList vs ++ rest)).length; omega), h]
        simp [le8_length]
    | _, _, .struct (fs := fs) (vs := vs) hl, rest, hs => by
        have hs' : 0 + (serList vs).length < U64 := by simpa [ser] using hs
        have h := rtList hl (serList vs ++ rest) rest 0 (by simp) (by simp) hs'
        simp [ser, de, h]
    | _, _, .enum (vss := vss) (fs := fs) (tag := tag) (vs := vs) ht hg hl, rest, hs => by
        have hs' : 1 + (serList vs).length < U64 := by simp [ser] at hs; omega
        have h := rtList hl (tag :: (serList vs ++ rest)) rest 1 (by simp) (by simp) hs'
        simp only [ser, de, List.cons_append]
        rw [deVariant_get .fixed vss tag fs tag _ hg, h]
        simp; omega
  theorem rtList : ∀ {fs : SchemaList} {vs : ValList}, WTList fs vs →
      ∀ (b rest : List Nat) (off : Nat), b.drop off = serList vs ++ rest → off ≤ b.length →
      off + (serList vs).length < U64 →
      deList .fixed fs b off = .ok (vs, off + (serList vs).length)
    | _, _, .nil, b, rest, off, _, _, _ => by simp [deList, serList]
    | _, _, .cons (s := s) (t := t) (v := v) (vs := vs) hv hl, b, rest, off, hd, hle, hs => by
        simp only [serList, List.length_append] at hs
        have hd' : b.drop off = ser v ++ (serList vs ++ rest) := by
          simpa [serList, List.append_assoc] using hd
        have h1 := rt hv (serList vs ++ rest) (by omega)
        have hstep := drop_step b off _ _ hd'
        have hlen := congrArg List.length hd'
        simp at hlen
        have h2 := rtList hl b rest (off + (ser v).length) hstep (by omega) (by omega)
        simp only [deList]
        rw [if_neg (by omega), hd', h1]
        simp only [Outcome.bind_ok, addOff]
        rw [if_neg (by omega)]
        simp only [Outcome.bind_ok]
        rw [h2]
        simp [serList]; omega
  theorem rtAll : ∀ {s : Schema} {vs : ValList}, WTAll s vs →
      ∀ (b rest : List Nat) (off : Nat), b.drop off = serList vs ++ rest → off ≤ b.length →
      off + (serList vs).length < U64 →
      deRep .fixed (de .fixed s) vs.len b off = .ok (vs, off + (serList vs).length)
    | _, _, .nil, b, rest, off, _, _, _ => by simp [deRep, serList, ValList.len]
    | _, _, .cons (s := s) (v := v) (vs := vs) hv hl, b, rest, off, hd, hle, hs => by
        simp only [serList, List.length_append] at hs
        have hd' : b.drop off = ser v ++ (serList vs ++ rest) := by
          simpa [serList, List.append_assoc] using hd
        have h1 := rt hv (serList vs ++ rest) (by omega)
        have hstep := drop_step b off _ _ hd'
        have hlen := congrArg List.length hd'
        simp at hlen
        have h2 := rtAll hl b rest (off + (ser v).length) hstep (by omega) (by omega)
        simp only [deRep, ValList.len]
        rw [if_neg (by omega), hd', h1]
        simp only [Outcome.mapErr, Outcome.bind_ok, addOff]
        rw [if_neg (by omega)]
        simp only [Outcome.bind_ok]
        rw [h2]
        simp [serList]; omega
end

end AgdbCodec
