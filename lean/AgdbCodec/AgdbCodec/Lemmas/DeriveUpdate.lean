import AgdbCodec.Lemmas.DeriveMain
namespace AgdbCodec

/-- `insert_or_replace` of one pair, seen through string-key lookups -/
theorem lookup_insertOrReplace (l : List (Val × Val)) (k d : Val) (key : List Nat) :
    lookupKey (insertOrReplace l (k, d)) key =
      if strKey? k = some key then some d else lookupKey l key := by
  induction l with
  | nil =>
    simp only [insertOrReplace, lookupKey]
    cases hs : strKey? k with
    | none => simp
    | some bs => by_cases hb : bs = key <;> simp [hb]
  | cons p t ih =>
    obtain ⟨a, b⟩ := p
    simp only [insertOrReplace, valEq]
    by_cases hak : a = k
    · subst hak
      simp only [decide_true, if_true, lookupKey]
      cases hs : strKey? a with
      | none => simp
      | some bs => by_cases hb : bs = key <;> simp [hb]
    · simp only [hak, decide_false, Bool.false_eq_true, if_false, lookupKey]
      cases hs : strKey? a with
      | none => simp only [ih]
      | some bs =>
        by_cases hb : bs = key
        · subst hb
          have : ¬ strKey? k = some bs := by
            intro hk
            exact hak ((strKey_eq_some a bs hs).trans (strKey_eq_some k bs hk).symm)
          simp [this]
        · have hne : (bs == key) = false := by simpa using hb
          simp only [hne, Bool.false_eq_true, if_false, ih]

/-- writing a list of pairs with distinct keys: written keys read the new value, all other keys
    keep the old one -/
theorem lookup_foldl_insertOrReplace : ∀ (kvs old : List (Val × Val)) (key : List Nat),
    (kvKeys kvs).Nodup →
    lookupKey (kvs.foldl insertOrReplace old) key =
      (match lookupKey kvs key with
       | some d => some d
       | none => lookupKey old key)
  | [], old, key, _ => by simp [lookupKey]
  | (k, d) :: t, old, key, hn => by
      rw [kvKeys_cons] at hn
      simp only [List.foldl_cons]
      cases hs : strKey? k with
      | none =>
        simp only [hs] at hn
        rw [lookup_foldl_insertOrReplace t _ key hn, lookup_insertOrReplace]
        simp [lookupKey, hs]
      | some bs =>
        simp only [hs] at hn
        obtain ⟨hnot, hn'⟩ := List.nodup_cons.mp hn
        rw [lookup_foldl_insertOrReplace t _ key hn', lookup_insertOrReplace]
        simp only [lookupKey, hs]
        by_cases hb : bs = key
        · subst hb
          simp [lookup_not_mem t bs hnot]
        · have hne : (bs == key) = false := by simpa using hb
          have hne2 : ¬ (some bs = some key) := by simpa using hb
          simp [hne, hne2]

theorem find_map_snd (l : List (Nat × List (Val × Val))) (a b : Nat) (new : List (Val × Val)) :
    ((l.map fun e => if e.1 == a then (e.1, new) else e).find? (fun e => e.1 == b)).map (·.2) =
      if a = b then ((l.find? (fun e => e.1 == b)).map fun _ => new)
      else (l.find? (fun e => e.1 == b)).map (·.2) := by
  induction l with
  | nil => simp
  | cons e t ih =>
    obtain ⟨x, y⟩ := e
    by_cases hxa : x = a
    · subst hxa
      by_cases hxb : x = b
      · subst hxb
        simp
      · have hf : (x == b) = false := by simpa using hxb
        simp only [List.map_cons, beq_self_eq_true, if_true, List.find?_cons, hf, hxb, if_false]
        simpa [hxb] using ih
    · have hfa : (x == a) = false := by simpa using hxa
      by_cases hxb : x = b
      · subst hxb
        have hab : ¬ a = x := fun h => hxa h.symm
        simp only [List.map_cons, hfa, Bool.false_eq_true, if_false, List.find?_cons,
          beq_self_eq_true, hab]
      · have hf : (x == b) = false := by simpa using hxb
        simp only [List.map_cons, hfa, Bool.false_eq_true, if_false, List.find?_cons, hf]
        exact ih

theorem get_map_other (db : Db) (i j : Int) (new : List (Val × Val)) (hi : 0 < i) (hj : j ≠ i) :
    Db.get { db with elems := db.elems.map fun e => if e.1 == i.toNat then (e.1, new) else e } j =
      db.get j := by
  unfold Db.get
  by_cases hj0 : j ≤ 0
  · simp [hj0]
  · simp only [hj0, if_false]
    have hne : ¬ i.toNat = j.toNat := by omega
    rw [find_map_snd]
    simp [hne]

theorem get_map_self (db : Db) (i : Int) (old new : List (Val × Val))
    (hg : db.get i = some old) :
    Db.get { db with elems := db.elems.map fun e => if e.1 == i.toNat then (e.1, new) else e } i =
      some new := by
  unfold Db.get at hg ⊢
  by_cases hi0 : i ≤ 0
  · simp [hi0] at hg
  · simp only [hi0, if_false] at hg ⊢
    rw [find_map_snd]
    simp only [if_true]
    cases hf : List.find? (fun e => e.1 == i.toNat) db.elems with
    | none => simp [hf] at hg
    | some e => simp

/-- `insert().element(&v)` with `db_id = Some(i)` of an existing element: only element `i`
    changes; in it every written key now holds the written value and every other key is
    untouched -/
theorem update_exact (db : Db) (i : Int) (old kvs : List (Val × Val))
    (hg : db.get i = some old) (hn : (kvKeys kvs).Nodup) :
    ∃ db', db.insertElement (some i) kvs = .ok (db', i) ∧ db'.next = db.next ∧
      (∀ j, j ≠ i → db'.get j = db.get j) ∧
      db'.get i = some (kvs.foldl insertOrReplace old) ∧
      ∀ key, lookupKey (kvs.foldl insertOrReplace old) key =
        (match lookupKey kvs key with
         | some d => some d
         | none => lookupKey old key) := by
  have hi : 0 < i := by
    unfold Db.get at hg
    by_cases h : i ≤ 0
    · simp [h] at hg
    · omega
  have hi0 : i ≠ 0 := by omega
  refine ⟨{ db with elems := db.elems.map fun e =>
      if e.1 == i.toNat then (e.1, kvs.foldl insertOrReplace old) else e },
    ?_, rfl, ?_, ?_, ?_⟩
  · unfold Db.insertElement
    split
    · rename_i h; cases h
    · rename_i h; simp at h; exact absurd h hi0
    · rename_i j h1 h2
      simp at h2
      subst h2
      simp [hg]
  · intro j hj; exact get_map_other db i j _ hi hj
  · exact get_map_self db i old _ hg
  · intro key; exact lookup_foldl_insertOrReplace kvs old key hn

end AgdbCodec
