import AgdbCodec.Model.ValueIndex
import AgdbCodec.Lemmas.Bytes
namespace AgdbCodec

/-- what `set_type(t); set_value(v)` leaves in a fresh index, for every `v` of at most 15 bytes -/
theorem setValue_spec (t : Nat) (ht : t < 16) : ∀ (v : List Nat), v.length ≤ 15 →
    ∃ i', setValue (setType newIdx t) v = some i' ∧ getType i' = t ∧ idxValue i' = v ∧
      isValue i' = true ∧ i'.length = 16
  | [], _ => by
      simp only [setValue, setType, setSize, setMeta, newIdx, idxMeta, idxSize, getType, idxValue, idxIndex, isValue, unle8, List.replicate, List.take, List.drop, List.length, List.getD, List.cons_append, List.nil_append]
      simp
      omega
  | [a0], _ => by
      simp only [setValue, setType, setSize, setMeta, newIdx, idxMeta, idxSize, getType, idxValue, idxIndex, isValue, unle8, List.replicate, List.take, List.drop, List.length, List.getD, List.cons_append, List.nil_append]
      simp
      omega
  | [a0, a1], _ => by
      simp only [setValue, setType, setSize, setMeta, newIdx, idxMeta, idxSize, getType, idxValue, idxIndex, isValue, unle8, List.replicate, List.take, List.drop, List.length, List.getD, List.cons_append, List.nil_append]
      simp
      omega
  | [a0, a1, a2], _ => by
      simp only [setValue, setType, setSize, setMeta, newIdx, idxMeta, idxSize, getType, idxValue, idxIndex, isValue, unle8, List.replicate, List.take, List.drop, List.length, List.getD, List.cons_append, List.nil_append]
      simp
      omega
  | [a0, a1, a2, a3], _ => by
      simp only [setValue, setType, setSize, setMeta, newIdx, idxMeta, idxSize, getType, idxValue, idxIndex, isValue, unle8, List.replicate, List.take, List.drop, List.length, List.getD, List.cons_append, List.nil_append]
      simp
      omega
  | [a0, a1, a2, a3, a4], _ => by
      simp only [setValue, setType, setSize, setMeta, newIdx, idxMeta, idxSize, getType, idxValue, idxIndex, isValue, unle8, List.replicate, List.take, List.drop, List.length, List.getD, List.cons_append, List.nil_append]
      simp
      omega
  | [a0, a1, a2, a3, a4, a5], _ => by
      simp only [setValue, setType, setSize, setMeta, newIdx, idxMeta, idxSize, getType, idxValue, idxIndex, isValue, unle8, List.replicate, List.take, List.drop, List.length, List.getD, List.cons_append, List.nil_append]
      simp
      omega
  | [a0, a1, a2, a3, a4, a5, a6], _ => by
      simp only [setValue, setType, setSize, setMeta, newIdx, idxMeta, idxSize, getType, idxValue, idxIndex, isValue, unle8, List.replicate, List.take, List.drop, List.length, List.getD, List.cons_append, List.nil_append]
      simp
      omega
  | [a0, a1, a2, a3, a4, a5, a6, a7], _ => by
      simp only [setValue, setType, setSize, setMeta, newIdx, idxMeta, idxSize, getType, idxValue, idxIndex, isValue, unle8, List.replicate, List.take, List.drop, List.length, List.getD, List.cons_append, List.nil_append]
      simp
      omega
  | [a0, a1, a2, a3, a4, a5, a6, a7, a8], _ => by
      simp only [setValue, setType, setSize, setMeta, newIdx, idxMeta, idxSize, getType, idxValue, idxIndex, isValue, unle8, List.replicate, List.take, List.drop, List.length, List.getD, List.cons_append, List.nil_append]
      simp
      omega
  | [a0, a1, a2, a3, a4, a5, a6, a7, a8, a9], _ => by
      simp only [setValue, setType, setSize, setMeta, newIdx, idxMeta, idxSize, getType, idxValue, idxIndex, isValue, unle8, List.replicate, List.take, List.drop, List.length, List.getD, List.cons_append, List.nil_append]
      simp
      omega
  | [a0, a1, a2, a3, a4, a5, a6, a7, a8, a9, a10], _ => by
      simp only [setValue, setType, setSize, setMeta, newIdx, idxMeta, idxSize, getType, idxValue, idxIndex, isValue, unle8, List.replicate, List.take, List.drop, List.length, List.getD, List.cons_append, List.nil_append]
      simp
      omega
  | [a0, a1, a2, a3, a4, a5, a6, a7, a8, a9, a10, a11], _ => by
      simp only [setValue, setType, setSize, setMeta, newIdx, idxMeta, idxSize, getType, idxValue, idxIndex, isValue, unle8, List.replicate, List.take, List.drop, List.length, List.getD, List.cons_append, List.nil_append]
      simp
      omega
  | [a0, a1, a2, a3, a4, a5, a6, a7, a8, a9, a10, a11, a12], _ => by
      simp only [setValue, setType, setSize, setMeta, newIdx, idxMeta, idxSize, getType, idxValue, idxIndex, isValue, unle8, List.replicate, List.take, List.drop, List.length, List.getD, List.cons_append, List.nil_append]
      simp
      omega
  | [a0, a1, a2, a3, a4, a5, a6, a7, a8, a9, a10, a11, a12, a13], _ => by
      simp only [setValue, setType, setSize, setMeta, newIdx, idxMeta, idxSize, getType, idxValue, idxIndex, isValue, unle8, List.replicate, List.take, List.drop, List.length, List.getD, List.cons_append, List.nil_append]
      simp
      omega
  | [a0, a1, a2, a3, a4, a5, a6, a7, a8, a9, a10, a11, a12, a13, a14], _ => by
      simp only [setValue, setType, setSize, setMeta, newIdx, idxMeta, idxSize, getType, idxValue, idxIndex, isValue, unle8, List.replicate, List.take, List.drop, List.length, List.getD, List.cons_append, List.nil_append]
      simp
      omega
  | a0 :: a1 :: a2 :: a3 :: a4 :: a5 :: a6 :: a7 :: a8 :: a9 :: a10 :: a11 :: a12 :: a13 :: a14 :: a15 :: t, h => by simp at h

/-- what `set_type(t); set_index(ix)` leaves in a fresh index -/
theorem setIndex_spec (t : Nat) (ht : t < 16) (ix : Nat) (h1 : 1 ≤ ix) (h2 : ix < U64) :
    getType (setIndex (setType newIdx t) ix) = t ∧
      idxIndex (setIndex (setType newIdx t) ix) = ix ∧
      isValue (setIndex (setType newIdx t) ix) = false ∧
      (setIndex (setType newIdx t) ix).length = 16 := by
  have hix : idxIndex (setIndex (setType newIdx t) ix) = ix := by
    simp only [idxIndex, setIndex]
    exact unle8_le8_append ix _ h2
  refine ⟨?_, hix, ?_, ?_⟩
  rotate_left 2
  · simp [setIndex, setType, setSize, setMeta, newIdx, le8]
  · simp only [setIndex, setType, setSize, setMeta, newIdx, idxMeta, idxSize, getType, le8,
      List.replicate, List.take, List.drop, List.getD, List.cons_append, List.nil_append]
    simp
    omega
  · have hs : idxSize (setIndex (setType newIdx t) ix) = 0 := by
      simp only [setIndex, setType, setSize, setMeta, newIdx, idxMeta, idxSize, le8,
        List.replicate, List.take, List.drop, List.getD, List.cons_append, List.nil_append]
      simp
    simp only [isValue, hs, hix]
    simp
    omega

/-! ### the abstract store -/

theorem lookup_lt (items : List (Nat × List Nat)) (n : Nat) (h : ∀ p ∈ items, p.1 < n) (ix : Nat)
    (bs : List Nat) (hl : lookup ix items = some bs) : ix < n := by
  induction items with
  | nil => simp [lookup] at hl
  | cons p t ih =>
    obtain ⟨k, v⟩ := p
    simp only [lookup] at hl
    split at hl
    · rename_i hk
      have := h (k, v) (by simp)
      simp at hk; subst hk; exact this
    · exact ih (fun q hq => h q (by simp [hq])) hl

theorem Store.insert_wf (st : Store) (bs : List Nat) (h : st.Wf) : (st.insert bs).2.Wf := by
  obtain ⟨h1, h2⟩ := h
  refine ⟨by simp [Store.insert], ?_⟩
  intro p hp
  simp [Store.insert] at hp ⊢
  rcases hp with rfl | hp
  · simp
  · have := h2 p hp; omega

theorem Store.get_insert_self (st : Store) (bs : List Nat) :
    (st.insert bs).2.get (st.insert bs).1 = .ok bs := by
  simp [Store.insert, Store.get, lookup]

/-- values already stored are not disturbed by a later insert -/
theorem Store.get_insert_old (st : Store) (h : st.Wf) (bs : List Nat) (ix : Nat) (old : List Nat)
    (hg : st.get ix = .ok old) : (st.insert bs).2.get ix = .ok old := by
  unfold Store.get at hg
  split at hg
  · rename_i b hb
    have hlt := lookup_lt st.items st.next h.2 ix b hb
    simp only [Store.insert, Store.get, lookup]
    have : (st.next == ix) = false := by simp; omega
    simp [this, hb]
    simpa using hg
  · simp at hg

end AgdbCodec
