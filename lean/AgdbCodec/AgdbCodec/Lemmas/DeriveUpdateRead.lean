import AgdbCodec.Lemmas.DeriveUpdate
namespace AgdbCodec

/-! ### reading an updated element back as `T` -/

theorem mem_of_lookup (l : List (Val × Val)) (k : List Nat) (d : Val)
    (h : lookupKey l k = some d) : (dbStr k, d) ∈ l := by
  induction l with
  | nil => simp [lookupKey] at h
  | cons p t ih =>
    obtain ⟨a, b⟩ := p
    simp only [lookupKey] at h
    cases hs : strKey? a with
    | none => simp only [hs] at h; exact List.mem_cons_of_mem _ (ih h)
    | some bs =>
      simp only [hs] at h
      by_cases hb : bs = k
      · subst hb
        simp at h; subst h
        rw [strKey_eq_some a bs hs]; simp
      · have hne : (bs == k) = false := by simpa using hb
        simp only [hne, Bool.false_eq_true, if_false] at h
        exact List.mem_cons_of_mem _ (ih h)

theorem lookup_ne_none_of_mem (l : List (Val × Val)) (k : List Nat) (d : Val)
    (hm : (dbStr k, d) ∈ l) : lookupKey l k ≠ none := by
  induction l with
  | nil => cases hm
  | cons p t ih =>
    obtain ⟨a, b⟩ := p
    simp only [lookupKey]
    rcases List.mem_cons.mp hm with e | hm'
    · cases e; simp [strKey_dbStr]
    · cases hs : strKey? a with
      | none => exact ih hm'
      | some bs =>
        by_cases hb : bs = k
        · simp [hb]
        · have hne : (bs == k) = false := by simpa using hb
          simp only [hne, Bool.false_eq_true, if_false]; exact ih hm'

/-- string keys stay distinct under `insert_or_replace` -/
theorem kvKeys_insertOrReplace (l : List (Val × Val)) (k d : Val) :
    kvKeys (insertOrReplace l (k, d)) = kvKeys l ∨
      ((∀ kv ∈ l, kv.1 ≠ k) ∧ kvKeys (insertOrReplace l (k, d)) = kvKeys l ++ kvKeys [(k, d)]) := by
  induction l with
  | nil => right; exact ⟨by simp, by simp [insertOrReplace]⟩
  | cons p t ih =>
    obtain ⟨a, b⟩ := p
    simp only [insertOrReplace, valEq]
    by_cases hak : a = k
    · left
      simp only [hak, decide_true, if_true]
      rw [kvKeys_cons, kvKeys_cons]
    · simp only [hak, decide_false, Bool.false_eq_true, if_false]
      rcases ih with h | ⟨h1, h2⟩
      · left; rw [kvKeys_cons, kvKeys_cons, h]
      · right
        refine ⟨?_, ?_⟩
        · intro kv hkv
          rcases List.mem_cons.mp hkv with rfl | hkv
          · exact hak
          · exact h1 kv hkv
        · rw [kvKeys_cons, kvKeys_cons, h2]
          cases strKey? a <;> simp

theorem nodup_insertOrReplace (l : List (Val × Val)) (k d : Val) (hn : (kvKeys l).Nodup) :
    (kvKeys (insertOrReplace l (k, d))).Nodup := by
  rcases kvKeys_insertOrReplace l k d with h | ⟨h1, h2⟩
  · rw [h]; exact hn
  · rw [h2, kvKeys_cons]
    cases hs : strKey? k with
    | none => simpa using hn
    | some bs =>
      simp only [kvKeys_nil]
      rw [List.nodup_append]
      refine ⟨hn, by simp, ?_⟩
      intro x hx y hy e
      simp at hy; subst hy; subst e
      obtain ⟨d', hm⟩ := mem_of_kvKeys l x hx
      exact h1 _ hm (strKey_eq_some k x hs).symm

theorem nodup_foldl_insertOrReplace : ∀ (kvs old : List (Val × Val)), (kvKeys old).Nodup →
    (kvKeys (kvs.foldl insertOrReplace old)).Nodup
  | [], _, h => h
  | (k, d) :: t, old, h => by
      simp only [List.foldl_cons]
      exact nodup_foldl_insertOrReplace t _ (nodup_insertOrReplace old k d h)

mutual
  /-- no `None` anywhere: the update writes every key of the type -/
  def AllSome : FieldList → UValList → Prop
    | .cons f t, .cons v vs => AllSomeF f v ∧ AllSome t vs
    | _, _ => True
  def AllSomeF : Field → UVal → Prop
    | .opt _ _, .none => False
    | .flatten t, .nested vs => AllSome t vs
    | _, _ => True
end

mutual
  theorem agrees_mono (L L' : List Nat → Option Val) : ∀ (fs : FieldList) (v : UValList),
      (∀ k d, L k = some d → L' k = some d) → AllSome fs v → Agrees L fs v → Agrees L' fs v
    | .nil, _, _, _, _ => by simp [Agrees]
    | .cons f t, .nil, _, _, _ => by simp [Agrees]
    | .cons f t, .cons v vs, h, hs, ha => by
        simp only [Agrees, AllSome] at ha hs ⊢
        exact ⟨agreesF_mono L L' f v h hs.1 ha.1, agrees_mono L L' t vs h hs.2 ha.2⟩
  theorem agreesF_mono (L L' : List Nat → Option Val) : ∀ (f : Field) (v : UVal),
      (∀ k d, L k = some d → L' k = some d) → AllSomeF f v → AgreesF L f v → AgreesF L' f v
    | .plain key k, v, h, _, ha => by
        cases v <;> simp only [AgreesF] at ha ⊢
        exact h _ _ ha
    | .opt key k, v, h, hs, ha => by
        cases v <;> simp only [AgreesF, AllSomeF] at ha hs ⊢
        exact h _ _ ha
    | .flatten t, v, h, hs, ha => by
        cases v <;> simp only [AgreesF, AllSomeF] at ha hs ⊢
        rename_i vs
        exact agrees_mono L L' t vs h hs ha
    | .skip _, v, _, _, _ => by cases v <;> simp [AgreesF]
    | .skipOpt _, v, _, _, _ => by cases v <;> simp [AgreesF]
    | .dbId _, v, _, _, _ => by cases v <;> simp [AgreesF]
end

/-- `select().elements::<T>()` on any stored list with distinct string keys in which every key of
    the type is present (needed only when `db_keys()` is non-empty) -/
theorem select_lookup_gen (fs : FieldList) (v : UValList) (hv : WTU fs v)
    (db : Db) (id : Int) (l : List (Val × Val)) (hg : db.get id = some l)
    (hnd : (kvKeys l).Nodup) (hpres : ∀ k ∈ kvKeys (toDbValues fs v), ∃ d, (dbStr k, d) ∈ l) :
    ∃ sel, db.select (dbKeys .fixed fs) id = .ok sel ∧
      ∀ k ∈ keysOf fs, lookupKey sel k = lookupKey l k := by
  unfold Db.select
  rw [hg]
  cases hk : dbKeys .fixed fs with
  | none => exact ⟨_, rfl, fun _ _ => rfl⟩
  | some ks =>
    cases ks with
    | nil => exact ⟨_, rfl, fun _ _ => rfl⟩
    | cons k0 ks' =>
      simp only
      have hho : hasOption fs = false ∧ dbKeys.go .fixed fs = some (k0 :: ks') := by
        unfold dbKeys at hk
        by_cases h : hasOption fs = true
        · simp [h] at hk
        · exact ⟨by simpa using h, by simpa [h] using hk⟩
      obtain ⟨eks, hpushed⟩ := go_spec hv (k0 :: ks') hho.1 hho.2
      have hmem : ∀ k ∈ keysOf fs, dbStr k ∈ k0 :: ks' := by
        intro k hkk; rw [eks]; exact List.mem_map_of_mem hkk
      have hall : (List.any (k0 :: ks') fun k =>
          !(List.any (valuesByKeys l (k0 :: ks')) fun kv => valEq kv.1 k)) = false := by
        rw [List.any_eq_false]
        intro k hkm
        rw [eks, List.mem_map] at hkm
        obtain ⟨kk, hkk, rfl⟩ := hkm
        obtain ⟨d, hin⟩ := hpres kk (hpushed kk hkk)
        have hfil : (dbStr kk, d) ∈ l.filter fun kv => (keyPos (k0 :: ks') kv.1).isSome := by
          rw [List.mem_filter]
          exact ⟨hin, (keyPos_isSome _ _).mpr (hmem kk hkk)⟩
        have hvals := (valuesByKeys_perm l (k0 :: ks')).mem_iff.mpr hfil
        have hany : (List.any (valuesByKeys l (k0 :: ks'))
            fun kv => valEq kv.1 (dbStr kk)) = true :=
          List.any_eq_true.mpr ⟨_, hvals, by simp [valEq]⟩
        simp [hany]
      rw [hall]
      simp only [Bool.and_false, Bool.false_eq_true, if_false]
      exact ⟨_, rfl, fun k hkk => lookup_valuesByKeys _ _ k hnd (hmem k hkk)⟩

/-- update an existing element through its id with a value that has no `None`, then select it as
    `T`: the new value comes back -/
theorem update_roundtrip (τ : TypeDesc) (v : UValList) (db : Db) (i : Int)
    (old : List (Val × Val)) (hg : db.get i = some old) (hno : (kvKeys old).Nodup)
    (hv : WTU τ.fields v) (hd : DistinctKeys τ) (hid : uvalId v = some i)
    (hsome : AllSome τ.fields v) :
    ∃ db', db.insertElement (uvalId v) (typeValues τ v) = .ok (db', i) ∧
      (∀ j, j ≠ i → db'.get j = db.get j) ∧
      db'.selectAs .fixed τ i = .ok (normalize i τ.fields v) := by
  rw [hid]
  obtain ⟨db', h1, _, h3, h4, h5⟩ :=
    update_exact db i old (typeValues τ v) hg (kvKeys_typeValues_nodup τ v hd)
  generalize hnew : (typeValues τ v).foldl insertOrReplace old = new at h4 h5
  have hnd : (kvKeys new).Nodup := by
    rw [← hnew]; exact nodup_foldl_insertOrReplace _ _ hno
  refine ⟨db', h1, h3, ?_⟩
  have hwritten : ∀ k d, lookupKey (typeValues τ v) k = some d → lookupKey new k = some d := by
    intro k d hk; rw [h5 k, hk]
  have hpres : ∀ k ∈ kvKeys (toDbValues τ.fields v), ∃ d, (dbStr k, d) ∈ new := by
    intro k hk
    have hk' : k ∈ kvKeys (typeValues τ v) := by
      rw [typeValues_eq, kvKeys_append]; exact List.mem_append_left _ hk
    cases hl : lookupKey (typeValues τ v) k with
    | none =>
      exfalso
      obtain ⟨d, hm⟩ := mem_of_kvKeys _ _ hk'
      exact lookup_ne_none_of_mem _ _ _ hm hl
    | some d => exact ⟨d, mem_of_lookup new k d (hwritten k d hl)⟩
  obtain ⟨sel, hs, hl⟩ := select_lookup_gen τ.fields v hv db' i new h4 hnd hpres
  unfold Db.selectAs
  rw [hs]
  simp only [Outcome.bind_ok]
  unfold fromDbElement
  apply fromLookup_agrees _ _ hv
  have ha : Agrees (lookupKey (typeValues τ v)) τ.fields v := by
    have := agrees_pushed hv [] (elementIdPairs τ) hd.1 (by simp) (extra_disjoint τ hd)
    rw [typeValues_eq]; simpa using this
  have ha2 : Agrees (lookupKey new) τ.fields v :=
    agrees_mono _ _ _ _ hwritten hsome ha
  exact agrees_congr (lookupKey new) _ _ _ (fun k hk => (hl k hk).symm) ha2

end AgdbCodec
