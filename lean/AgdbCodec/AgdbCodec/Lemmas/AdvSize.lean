import AgdbCodec.Lemmas.Total
namespace AgdbCodec

/-- the advance reported by a decoder is `serialized_size()` of the value it returned -/
def AdvOk (f : List Nat → Outcome (Val × Nat)) : Prop :=
  ∀ b v n, f b = .ok (v, n) → n = size v

theorem deRep_adv (m : Mode) (f : List Nat → Outcome (Val × Nat)) (hf : AdvOk f) :
    ∀ (k : Nat) (b : List Nat) (off : Nat) (vs : ValList) (n : Nat),
      deRep m f k b off = .ok (vs, n) → n = off + sizeList vs
  | 0, b, off, vs, n, h => by
      simp [deRep] at h; obtain ⟨h1, h2⟩ := h; subst h1 h2; simp [sizeList]
  | k + 1, b, off, vs, n, h => by
      simp only [deRep] at h
      split at h
      · cases m <;> simp [sliceFail] at h
      · obtain ⟨vn, hvn, h2⟩ := bind_eq_ok _ _ _ h
        obtain ⟨off1, ho, h3⟩ := bind_eq_ok _ _ _ h2
        obtain ⟨r, hr, h4⟩ := bind_eq_ok _ _ _ h3
        have e1 := hf _ vn.1 vn.2 (mapErr_eq_ok _ _ _ hvn)
        unfold addOff at ho
        split at ho
        · simp at ho
        · simp at ho
          have e2 := deRep_adv m f hf k b off1 r.1 r.2 hr
          simp at h4; obtain ⟨h5, h6⟩ := h4; subst h5 h6
          simp [sizeList]; omega

mutual
  theorem de_adv (m : Mode) : ∀ σ : Schema, AdvOk (de m σ)
    | .u64 => by
        intro b v n h; simp only [de] at h
        obtain ⟨x, _, h2⟩ := bind_eq_ok _ _ _ h; simp at h2; obtain ⟨a, c⟩ := h2; subst a c; simp [size]
    | .i64 => by
        intro b v n h; simp only [de] at h
        obtain ⟨x, _, h2⟩ := bind_eq_ok _ _ _ h; simp at h2; obtain ⟨a, c⟩ := h2; subst a c; simp [size]
    | .f64 => by
        intro b v n h; simp only [de] at h
        obtain ⟨x, _, h2⟩ := bind_eq_ok _ _ _ h; simp at h2; obtain ⟨a, c⟩ := h2; subst a c; simp [size]
    | .usize => by
        intro b v n h; simp only [de] at h
        obtain ⟨x, _, h2⟩ := bind_eq_ok _ _ _ h; simp at h2; obtain ⟨a, c⟩ := h2; subst a c; simp [size]
    | .bool => by
        intro b v n h
        cases b with
        | nil => simp [de] at h
        | cons x t => simp [de] at h; obtain ⟨a, c⟩ := h; subst a c; simp [size]
    | .str => by
        intro b v n h; simp only [de] at h
        obtain ⟨x, _, h2⟩ := bind_eq_ok _ _ _ h; simp at h2; obtain ⟨a, c⟩ := h2; subst a c; simp [size]
    | .path => by
        intro b v n h; simp only [de] at h
        obtain ⟨x, _, h2⟩ := bind_eq_ok _ _ _ h; simp at h2; obtain ⟨a, c⟩ := h2; subst a c; simp [size]
    | .bytes => by
        intro b v n h; simp only [de] at h
        obtain ⟨x, _, h2⟩ := bind_eq_ok _ _ _ h; simp at h2; obtain ⟨a, c⟩ := h2; subst a c; simp [size]
    | .time => by
        intro b v n h; simp only [de] at h
        have h13 := (deTime_ok_adv m b v n h).1
        unfold deTime at h
        split at h
        · simp at h
        · obtain ⟨d, _, h2⟩ := bind_eq_ok _ _ _ h
          unfold epochOffset at h2
          repeat' split at h2
          all_goals simp at h2
          all_goals (obtain ⟨a, c⟩ := h2; subst a; simp [size]; omega)
    | .sock => by
        intro b v n h; simp only [de] at h
        obtain ⟨x, _, h2⟩ := bind_eq_ok _ _ _ h
        split at h2
        · simp at h2; obtain ⟨a, c⟩ := h2; subst a c; simp [size]
        · simp at h2
    | .ip => by
        intro b v n h; simp only [de] at h
        obtain ⟨x, _, h2⟩ := bind_eq_ok _ _ _ h
        split at h2
        · simp at h2; obtain ⟨a, c⟩ := h2; subst a c; simp [size]
        · simp at h2
    | .vec s => by
        intro b v n h; simp only [de, deVec] at h
        obtain ⟨len, _, h2⟩ := bind_eq_ok _ _ _ h
        by_cases hc : vecCap m len b.length > b.length
        · rw [if_pos hc] at h2; simp at h2
        · rw [if_neg hc] at h2
          obtain ⟨r, hr, h3⟩ := bind_eq_ok _ _ _ h2
          have := deRep_adv m (de m s) (de_adv m s) len b 8 r.1 r.2 hr
          simp at h3; obtain ⟨a, c⟩ := h3; subst a c; simp [size]; omega
    | .struct fs => by
        intro b v n h; simp only [de] at h
        obtain ⟨r, hr, h3⟩ := bind_eq_ok _ _ _ h
        have := deList_adv m fs b 0 r.1 r.2 hr
        simp at h3; obtain ⟨a, c⟩ := h3; subst a c; simp [size]; omega
    | .enum vss => by
        intro b v n h
        cases b with
        | nil => simp [de] at h
        | cons t rest =>
          simp only [de] at h
          exact deVariant_adv m vss t t (t :: rest) v n h
  theorem deList_adv (m : Mode) : ∀ (fs : SchemaList) (b : List Nat) (off : Nat) (vs : ValList) (n : Nat),
      deList m fs b off = .ok (vs, n) → n = off + sizeList vs
    | .nil, b, off, vs, n, h => by
        simp [deList] at h; obtain ⟨h1, h2⟩ := h; subst h1 h2; simp [sizeList]
    | .cons s t, b, off, vs, n, h => by
        simp only [deList] at h
        split at h
        · cases m <;> simp [sliceFail] at h
        · obtain ⟨vn, hvn, h2⟩ := bind_eq_ok _ _ _ h
          obtain ⟨off1, ho, h3⟩ := bind_eq_ok _ _ _ h2
          obtain ⟨r, hr, h4⟩ := bind_eq_ok _ _ _ h3
          have e1 := de_adv m s _ vn.1 vn.2 hvn
          unfold addOff at ho
          split at ho
          · simp at ho
          · simp at ho
            have e2 := deList_adv m t b off1 r.1 r.2 hr
            simp at h4; obtain ⟨h5, h6⟩ := h4; subst h5 h6
            simp [sizeList]; omega
  theorem deVariant_adv (m : Mode) : ∀ (vss : SchemaListList) (k tag : Nat) (b : List Nat) (v : Val) (n : Nat),
      deVariant m vss k tag b = .ok (v, n) → n = size v
    | .nil, _, _, _, _, _, h => by simp [deVariant] at h
    | .cons fs _, 0, tag, b, v, n, h => by
        simp only [deVariant] at h
        obtain ⟨r, hr, h3⟩ := bind_eq_ok _ _ _ h
        have := deList_adv m fs b 1 r.1 r.2 hr
        simp at h3; obtain ⟨a, c⟩ := h3; subst a c; simp [size]; omega
    | .cons _ t, k + 1, tag, b, v, n, h => by
        simp only [deVariant] at h
        exact deVariant_adv m t k tag b v n h
end

end AgdbCodec
