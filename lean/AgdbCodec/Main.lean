import AgdbCodec.Model.Conv
import AgdbCodec.Model.ValueIndex
import AgdbCodec.Model.Derive
/-
  Line-protocol driver (`codecmodel`).  One output line per input line.
  Streams: `enc` / `dec` / `tovec` (C20, C21), `vst` / `vld` / `kv` (C12), `tdv` / `fde` / `rt` /
  `upd` (C22).  Unknown or malformed lines print `bad-op`.
-/
open AgdbCodec

def hexVal (c : Char) : Option Nat :=
  if '0' ≤ c && c ≤ '9' then some (c.toNat - 48)
  else if 'a' ≤ c && c ≤ 'f' then some (c.toNat - 87)
  else none

def parseHexChars : List Char → Option (List Nat)
  | [] => some []
  | a :: b :: t =>
    match hexVal a, hexVal b, parseHexChars t with
    | some x, some y, some r => some ((x * 16 + y) :: r)
    | _, _, _ => none
  | _ => none

def parseHex (s : String) : Option (List Nat) :=
  if s == "-" then some [] else parseHexChars s.toList

def hexChar (n : Nat) : Char := Char.ofNat (if n < 10 then 48 + n else 87 + n)

def toHex (b : List Nat) : String :=
  if b.isEmpty then "-"
  else String.ofList (b.foldr (fun x acc => hexChar (x / 16 % 16) :: hexChar (x % 16) :: acc) [])

/-! schema / value text -/

def takeWhileC (p : Char → Bool) : List Char → List Char × List Char
  | [] => ([], [])
  | c :: t => if p c then let (a, b) := takeWhileC p t; (c :: a, b) else ([], c :: t)

mutual
  partial def pSchema (cs : List Char) : Option (Schema × List Char) :=
    let (w, rest) := takeWhileC (fun c => c.isAlphanum) cs
    let name := String.ofList w
    match rest with
    | '(' :: r =>
      if name == "v" then
        match pSchema r with
        | some (s, ')' :: r') => some (.vec s, r')
        | _ => none
      else if name == "s" then
        match pFields r with
        | some (fs, ')' :: r') => some (.struct fs, r')
        | _ => none
      else if name == "e" then
        match pVariants r with
        | some (vs, ')' :: r') => some (.enum vs, r')
        | _ => none
      else none
    | _ =>
      let leaf : Option Schema :=
        if name == "u64" then some .u64 else if name == "i64" then some .i64
        else if name == "f64" then some .f64 else if name == "usize" then some .usize
        else if name == "bool" then some .bool else if name == "str" then some .str
        else if name == "bytes" then some .bytes else if name == "time" then some .time
        else if name == "path" then some .path else if name == "sock" then some .sock
        else if name == "ip" then some .ip else none
      leaf.map fun s => (s, rest)
  /-- comma separated, possibly empty; stops before `)` or `|` -/
  partial def pFields (cs : List Char) : Option (SchemaList × List Char) :=
    match cs with
    | ')' :: _ => some (.nil, cs)
    | '|' :: _ => some (.nil, cs)
    | _ =>
      match pSchema cs with
      | some (s, ',' :: r) =>
        match pFields r with
        | some (t, r') => some (.cons s t, r')
        | none => none
      | some (s, r) => some (.cons s .nil, r)
      | none => none
  partial def pVariants (cs : List Char) : Option (SchemaListList × List Char) :=
    match pFields cs with
    | some (fs, '|' :: r) =>
      match pVariants r with
      | some (t, r') => some (.cons fs t, r')
      | none => none
    | some (fs, r) => some (.cons fs .nil, r)
    | none => none
end

def parseSchema (s : String) : Option Schema :=
  match pSchema s.toList with
  | some (σ, []) => some σ
  | _ => none

def parseNatChars (cs : List Char) : Option Nat :=
  if cs.isEmpty then none
  else cs.foldl (fun acc c => match acc with
    | some n => if c.isDigit then some (n * 10 + (c.toNat - 48)) else none
    | none => none) (some 0)

mutual
  partial def pVal (cs : List Char) : Option (Val × List Char) :=
    match cs with
    | 'n' :: r =>
      let (d, r') := takeWhileC Char.isDigit r
      (parseNatChars d).map fun n => (.num n, r')
    | 'b' :: '0' :: r => some (.bool false, r)
    | 'b' :: '1' :: r => some (.bool true, r)
    | 'x' :: '-' :: r => some (.blob [], r)
    | 'x' :: r =>
      let (h, r') := takeWhileC (fun c => (hexVal c).isSome) r
      (parseHexChars h).map fun b => (.blob b, r')
    | 't' :: r =>
      let (neg, r1) := match r with | '-' :: q => (true, q) | q => (false, q)
      let (d, r2) := takeWhileC Char.isDigit r1
      match r2 with
      | ':' :: r3 =>
        let (d2, r4) := takeWhileC Char.isDigit r3
        match parseNatChars d, parseNatChars d2 with
        | some s, some ns => some (.time (if neg then -(s : Int) else (s : Int)) ns, r4)
        | _, _ => none
      | _ => none
    | '[' :: r =>
      match pVals r ']' with
      | some (vs, r') => some (.vec vs, r')
      | none => none
    | '{' :: r =>
      match pVals r '}' with
      | some (vs, r') => some (.struct vs, r')
      | none => none
    | '#' :: r =>
      let (d, r1) := takeWhileC Char.isDigit r
      match parseNatChars d, r1 with
      | some tag, '{' :: r2 =>
        match pVals r2 '}' with
        | some (vs, r') => some (.enum tag vs, r')
        | none => none
      | _, _ => none
    | _ => none
  /-- comma separated values up to and including the closing bracket -/
  partial def pVals (cs : List Char) (close : Char) : Option (ValList × List Char) :=
    match cs with
    | c :: r =>
      if c == close then some (.nil, r)
      else
        match pVal cs with
        | some (v, ',' :: r') =>
          match pVals r' close with
          | some (t, r'') => some (.cons v t, r'')
          | none => none
        | some (v, c' :: r') => if c' == close then some (.cons v .nil, r') else none
        | _ => none
    | [] => none
end

def parseVal (s : String) : Option Val :=
  match pVal s.toList with
  | some (v, []) => some v
  | _ => none

mutual
  partial def showVal : Val → String
    | .num n => "n" ++ toString n
    | .bool b => if b then "b1" else "b0"
    | .blob bs => "x" ++ toHex bs
    | .time s ns => "t" ++ toString s ++ ":" ++ toString ns
    | .vec vs => "[" ++ showVals vs ++ "]"
    | .struct vs => "{" ++ showVals vs ++ "}"
    | .enum t vs => "#" ++ toString t ++ "{" ++ showVals vs ++ "}"
  partial def showVals : ValList → String
    | .nil => ""
    | .cons v .nil => showVal v
    | .cons v t => showVal v ++ "," ++ showVals t
end

def showOutcome {α : Type} (f : α → String) : Outcome α → String
  | .ok a => "ok " ++ f a
  | .err k => "err:" ++ k.toStr
  | .panic s => "panic:" ++ s
  | .hugeAlloc s => "hugealloc:" ++ s
  | .outOfFuel => "timeout"

def parseConvKind (s : String) : Option ConvKind :=
  if s == "u64" then some .u64 else if s == "i64" then some .i64 else if s == "f64" then some .f64
  else if s == "str" then some .str else if s == "time" then some .time else none

def stepSer (m : Mode) (toks : List String) : String :=
  match toks with
  | ["enc", _, _, v] =>
    match parseVal v with
    | some v => toHex (ser v) ++ " " ++ toString (size v)
    | none => "bad-op"
  | ["dec", _, sch, hex] =>
    match parseSchema sch, parseHex hex with
    | some σ, some b => showOutcome (fun (r : Val × Nat) => showVal r.1 ++ " " ++ toString r.2) (de m σ b)
    | _, _ => "bad-op"
  | ["deep", "QueryCondition", d] =>
    match parseNatChars d.toList with
    | some n =>
      if n > 4000000 || (d.length > 1 && d.startsWith "0") then "bad-op"
      else match deepDecode n with
        | .ok _ => "ok"
        | _ => "abort:stack-overflow"
    | none => "bad-op"
  | ["tovec", k, hex] =>
    match parseConvKind k, parseHex hex with
    | some k, some b => showOutcome (fun vs => "[" ++ showVals vs ++ "]") (toVec m k b)
    | _, _ => "bad-op"
  | _ => "bad-op"

/-- per-case state of the `kv` stream (C12): the abstract store and the 32-byte records written -/
structure KvState where
  store : Store := Store.empty
  recs : List (List Nat) := []
  /-- the store behind the `vrt` / `vld` ops (hook-level `VStorage`) -/
  vstore : Store := Store.empty

def showKV (m : Mode) (st : Store) (bytes : List Nat) (sep : String) : Option String :=
  match loadKV m bytes st with
  | .ok (k, v) => some (showVal k ++ sep ++ showVal v)
  | _ => none

def stepKv (m : Mode) (s : KvState) (toks : List String) : KvState × String :=
  match toks with
  | ["kv", k, v] =>
    match parseVal k, parseVal v with
    | some k, some v =>
      match storeKV k v s.store with
      | some (bytes, st') =>
        let s' : KvState := { store := st', recs := s.recs ++ [bytes] }
        (s', showOutcome (fun (r : Val × Val) => showVal r.1 ++ " " ++ showVal r.2) (loadKV m bytes st'))
      | none => (s, "bad-op")
    | _, _ => (s, "bad-op")
  | ["vrt", v] =>
    -- store through `store_db_value`, show the 16 index bytes, the out-of-line bytes, and the load
    match parseVal v with
    | some v =>
      match storeValue v s.vstore with
      | some (idx, st') =>
        let raw := if isValue idx then "-" else
          (match st'.get (idxIndex idx) with | .ok bs => "x" ++ toHex bs | _ => "?")
        ({ s with vstore := st' },
          toHex idx ++ " " ++ raw ++ " " ++ showOutcome showVal (loadValue m idx st'))
      | none => (s, "bad-op")
    | none => (s, "bad-op")
  | ["vld", hex] =>
    match parseHex hex with
    | some idx =>
      if idx.length == 16 then (s, showOutcome showVal (loadValue m idx s.vstore)) else (s, "bad-op")
    | none => (s, "bad-op")
  | ["reopen"] =>
    let parts := s.recs.map fun b => showKV m s.store b "="
    if parts.all Option.isSome then
      (s, String.intercalate " " ("ok" :: parts.filterMap id))
    else (s, "err:NotFound")
  | _ => (s, "bad-op")

/-! ### C22 stream: type descriptors, user values -/

def takeUntil (stop : Char → Bool) : List Char → List Char × List Char
  | [] => ([], [])
  | c :: t => if stop c then ([], c :: t) else let (a, b) := takeUntil stop t; (c :: a, b)

def keyBytes (cs : List Char) : List Nat := (String.ofList cs).toUTF8.toList.map UInt8.toNat

def pKind (cs : List Char) : Option (Kind × List Char) :=
  let (w, rest) := takeWhileC (fun c => c.isAlphanum) cs
  let name := String.ofList w
  match rest with
  | '[' :: r =>
    match pSchema r with
    | some (σ, ']' :: r') =>
      if name == "c" then some (.custom σ, r') else if name == "vc" then some (.vcustom σ, r') else none
    | _ => none
  | _ =>
    let k : Option Kind :=
      if name == "u64" then some .u64 else if name == "i64" then some .i64
      else if name == "f64" then some .f64 else if name == "str" then some .str
      else if name == "bool" then some .bool else if name == "i32" then some .i32
      else if name == "u32" then some .u32 else if name == "bytes" then some .bytes
      else if name == "vi64" then some .vi64 else if name == "vu64" then some .vu64
      else if name == "vf64" then some .vf64 else if name == "vstr" then some .vstr
      else if name == "vbool" then some .vbool else if name == "ip" then some .ip else none
    k.map fun k => (k, rest)

mutual
  /-- `T(<f>;<f>;…)` -/
  partial def pType (cs : List Char) : Option (FieldList × List Char) :=
    match cs with
    | 'T' :: '(' :: ')' :: r => some (.nil, r)
    | 'T' :: '(' :: r => pFieldsT r
    | _ => none
  partial def pFieldsT (cs : List Char) : Option (FieldList × List Char) :=
    match pFieldT cs with
    | some (f, ';' :: r) =>
      match pFieldsT r with
      | some (t, r') => some (.cons f t, r')
      | none => none
    | some (f, ')' :: r) => some (.cons f .nil, r)
    | _ => none
  partial def pFieldT (cs : List Char) : Option (Field × List Char) :=
    let (tag, rest) := takeUntil (· == ':') cs
    match String.ofList tag, rest with
    | "p", ':' :: r =>
      let (key, r1) := takeUntil (· == ':') r
      (match r1 with
       | ':' :: r2 => (pKind r2).map fun (k, r3) => (.plain (keyBytes key) k, r3)
       | _ => none)
    | "o", ':' :: r =>
      let (key, r1) := takeUntil (· == ':') r
      (match r1 with
       | ':' :: r2 => (pKind r2).map fun (k, r3) => (.opt (keyBytes key) k, r3)
       | _ => none)
    | "f", ':' :: r => (pType r).map fun (t, r') => (.flatten t, r')
    | "s", ':' :: r => (pKind r).map fun (k, r') => (.skip k, r')
    | "so", ':' :: r => (pKind r).map fun (k, r') => (.skipOpt k, r')
    | "i", ':' :: 'o' :: r => some (.dbId .optDbId, r)
    | "i", ':' :: 'q' :: r => some (.dbId .optQueryId, r)
    | "i", ':' :: 'd' :: r => some (.dbId .dbId, r)
    | _, _ => none
end

def parseTypeDesc (s : String) : Option TypeDesc :=
  match pType s.toList with
  | some (fs, []) => some ⟨fs, none⟩
  | some (fs, '@' :: name) => if name.isEmpty then none else some ⟨fs, some (keyBytes name)⟩
  | _ => none

def pInt (cs : List Char) : Option (Int × List Char) :=
  let (neg, r) := match cs with | '-' :: q => (true, q) | q => (false, q)
  let (d, r') := takeWhileC Char.isDigit r
  (parseNatChars d).map fun n => (if neg then -(n : Int) else (n : Int), r')

mutual
  /-- `{<fv>,<fv>,…}` directed by the field list -/
  partial def pUVals (fs : FieldList) (cs : List Char) : Option (UValList × List Char) :=
    match cs with
    | '{' :: r => pUValsIn fs r true
    | _ => none
  partial def pUValsIn (fs : FieldList) (cs : List Char) (first : Bool) :
      Option (UValList × List Char) :=
    match fs with
    | .nil => (match cs with | '}' :: r => some (.nil, r) | _ => none)
    | .cons f t =>
      let cs' := if first then some cs else (match cs with | ',' :: r => some r | _ => none)
      match cs' with
      | none => none
      | some cs1 =>
        match pUVal f cs1 with
        | some (v, r) => (pUValsIn t r false).map fun (vs, r') => (.cons v vs, r')
        | none => none
  partial def pUVal (f : Field) (cs : List Char) : Option (UVal × List Char) :=
    match f with
    | .plain _ _ | .skip _ => (pVal cs).map fun (v, r) => (.val v, r)
    | .opt _ _ | .skipOpt _ =>
      (match cs with
       | 'N' :: r => some (.none, r)
       | 'S' :: r => (pVal r).map fun (v, r') => (.some v, r')
       | _ => none)
    | .flatten t => (pUVals t cs).map fun (vs, r) => (.nested vs, r)
    | .dbId _ =>
      (match cs with
       | 'N' :: r => some (.id none, r)
       | 'S' :: r => (pInt r).map fun (i, r') => (.id (some i), r')
       | _ => none)
end

def parseUVal (fs : FieldList) (s : List Char) : Option UValList :=
  match pUVals fs s with
  | some (v, []) => some v
  | _ => none

mutual
  partial def showUVals : UValList → String
    | vs => "{" ++ showUValsIn vs ++ "}"
  partial def showUValsIn : UValList → String
    | .nil => ""
    | .cons v .nil => showUVal v
    | .cons v t => showUVal v ++ "," ++ showUValsIn t
  partial def showUVal : UVal → String
    | .val v => showVal v
    | .none => "N"
    | .some v => "S" ++ showVal v
    | .nested vs => showUVals vs
    | .id none => "N"
    | .id (some i) => "S" ++ toString i
end

def showKvs (kvs : List (Val × Val)) : String :=
  "[" ++ String.intercalate "," (kvs.map fun kv => showVal kv.1 ++ "=" ++ showVal kv.2) ++ "]"

partial def pKvsIn (cs : List Char) (first : Bool) : Option (List (Val × Val) × List Char) :=
  match cs with
  | ']' :: r => some ([], r)
  | _ =>
    let cs' := if first then some cs else (match cs with | ',' :: r => some r | _ => none)
    match cs' with
    | none => none
    | some c1 =>
      match pVal c1 with
      | some (k, '=' :: r) =>
        (match pVal r with
         | some (v, r') => (pKvsIn r' false).map fun (t, r'') => ((k, v) :: t, r'')
         | none => none)
      | _ => none

def parseKvs (s : String) : Option (List (Val × Val)) :=
  match s.toList with
  | '[' :: r => (match pKvsIn r true with | some (k, []) => some k | _ => none)
  | _ => none

structure DeriveState where
  db : Db := {}
  types : List (Int × TypeDesc) := []

def DeriveState.setType (s : DeriveState) (id : Int) (τ : TypeDesc) : DeriveState :=
  { s with types := (s.types.filter (·.1 != id)) ++ [(id, τ)] }

def insertionSortIds (l : List (Int × TypeDesc)) : List (Int × TypeDesc) :=
  l.mergeSort fun a b => a.1 ≤ b.1

def insOne (m : Mode) (db : Db) (τ : TypeDesc) (v : UValList) : Outcome (Db × Int) :=
  db.insertElement (uvalId v) (typeValues τ v)

def splitOnBar (cs : List Char) : List (List Char) :=
  (String.ofList cs).splitOn "|" |>.map String.toList

def stepDerive (m : Mode) (s : DeriveState) (toks : List String) : DeriveState × String :=
  match toks with
  | ["tdv", _, td, uv] =>
    (match parseTypeDesc td with
     | some τ =>
       (match parseUVal τ.fields uv.toList with
        | some v => (s, showKvs (typeValues τ v))
        | none => (s, "bad-op"))
     | none => (s, "bad-op"))
  | ["keys", _, td] =>
    (match parseTypeDesc td with
     | some τ => (s, "[" ++ String.intercalate "," (((dbKeys m τ.fields).getD []).map showVal) ++ "]")
     | none => (s, "bad-op"))
  | ["fde", _, td, id, kvs] =>
    (match parseTypeDesc td, pInt id.toList, parseKvs kvs with
     | some τ, some (i, []), some kvs =>
       (s, showOutcome showUVals (fromDbElement m τ.fields i kvs))
     | _, _, _ => (s, "bad-op"))
  | ["ins", _, td, uv] =>
    (match parseTypeDesc td with
     | some τ =>
       (match parseUVal τ.fields uv.toList with
        | some v =>
          (match insOne m s.db τ v with
           | .ok (db', id) =>
             let s' := ({ s with db := db' }).setType id τ
             (s', showOutcome (fun r => toString id ++ " " ++ showUVals r) (db'.selectAs m τ id))
           | .err k => (s, "err:" ++ k.toStr)
           | _ => (s, "bad-op"))
        | none => (s, "bad-op"))
     | none => (s, "bad-op"))
  | ["insb", _, td, uvs] =>
    (match parseTypeDesc td with
     | some τ =>
       let parts := (splitOnBar uvs.toList).map (parseUVal τ.fields)
       if parts.all Option.isSome then
         let vs := parts.filterMap id
         -- one query: all-or-nothing
         let r : Outcome (Db × List Int) := vs.foldl (fun acc v =>
           acc.bind fun (db, ids) => (insOne m db τ v).bind fun (db', id) => .ok (db', ids ++ [id]))
           (.ok (s.db, []))
         (match r with
          | .ok (db', ids) =>
            let s' := ids.foldl (fun st id => st.setType id τ) { s with db := db' }
            let outs := ids.map fun id => (id, db'.selectAs m τ id)
            (match outs.find? (fun o => !o.2.isOk) with
             | some (_, .err k) => (s', "err:" ++ k.toStr)
             | some _ => (s', "bad-op")
             | none =>
               (s', String.intercalate " " ("ok" :: outs.map fun o =>
                 toString o.1 ++ ":" ++ (match o.2 with | .ok r => showUVals r | _ => "?"))))
          | .err k => (s, "err:" ++ k.toStr)
          | _ => (s, "bad-op"))
       else (s, "bad-op")
     | none => (s, "bad-op"))
  | ["all"] =>
    let outs := (insertionSortIds s.types).map fun (id, τ) =>
      toString id ++ ":" ++
        (match s.db.selectAs m τ id with
         | .ok r => showUVals r
         | .err k => "err:" ++ k.toStr
         | _ => "?")
    (s, String.intercalate " " ("ok" :: outs))
  | _ => (s, "bad-op")

structure DriverState where
  kv : KvState := {}
  dv : DeriveState := {}

partial def loop (m : Mode) (hin hout : IO.FS.Stream) (st : DriverState) : IO Unit := do
  let line ← hin.getLine
  if line.isEmpty then
    hout.flush
  else
    let toks := (line.trimAscii.toString.splitOn " ").filter (· ≠ "")
    let (st', out) :=
      match toks with
      | ["case", n] => (({} : DriverState), "case " ++ n)
      | "enc" :: _ | "dec" :: _ | "tovec" :: _ | "deep" :: _ => (st, stepSer m toks)
      | "kv" :: _ | "reopen" :: _ | "vrt" :: _ | "vld" :: _ =>
        let (kv', o) := stepKv m st.kv toks
        ({ st with kv := kv' }, o)
      | "tdv" :: _ | "keys" :: _ | "fde" :: _ | "ins" :: _ | "insb" :: _ | "all" :: _ =>
        let (dv', o) := stepDerive m st.dv toks
        ({ st with dv := dv' }, o)
      | _ => (st, "bad-op")
    hout.putStrLn out
    loop m hin hout st'

def main (args : List String) : IO Unit := do
  let m := if args.contains "--legacy" then Mode.legacy else Mode.fixed
  let hin ← IO.getStdin
  let hout ← IO.getStdout
  loop m hin hout {}
