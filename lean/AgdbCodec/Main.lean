import AgdbCodec.Model.Conv
import AgdbCodec.Model.ValueIndex
/-
  Line-protocol driver (`codecmodel`).  One output line per input line.
  Streams: `enc` / `dec` / `tovec` (C20, C21), `vst` / `vld` / `kv` (C12), `tdv` / `fde` / `rt` /
  `upd` (C22).  Unknown or malformed lines print `bad-op`.
-/
open AgdbCodec

def hexVal (c : Char) : Option Nat :=
  if '0' ≤ c && c ≤ '9' then some (c.toNat - 48)
  else if 'a' ≤ c && c ≤ 'f' then some (c.toNat - 87)
  else none

def parseHexChars : List Char → Option (List Nat)
  | [] => some []
  | a :: b :: t =>
    match hexVal a, hexVal b, parseHexChars t with
    | some x, some y, some r => some ((x * 16 + y) :: r)
    | _, _, _ => none
  | _ => none

def parseHex (s : String) : Option (List Nat) :=
  if s == "-" then some [] else parseHexChars s.toList

def hexChar (n : Nat) : Char := Char.ofNat (if n < 10 then 48 + n else 87 + n)

def toHex (b : List Nat) : String :=
  if b.isEmpty then "-"
  else String.ofList (b.foldr (fun x acc => hexChar (x / 16 % 16) :: hexChar (x % 16) :: acc) [])

/-! schema / value text -/

def takeWhileC (p : Char → Bool) : List Char → List Char × List Char
  | [] => ([], [])
  | c :: t => if p c then let (a, b) := takeWhileC p t; (c :: a, b) else ([], c :: t)

mutual
  partial def pSchema (cs : List Char) : Option (Schema × List Char) :=
    let (w, rest) := takeWhileC (fun c => c.isAlphanum) cs
    let name := String.ofList w
    match rest with
    | '(' :: r =>
      if name == "v" then
        match pSchema r with
        | some (s, ')' :: r') => some (.vec s, r')
        | _ => none
      else if name == "s" then
        match pFields r with
        | some (fs, ')' :: r') => some (.struct fs, r')
        | _ => none
      else if name == "e" then
        match pVariants r with
        | some (vs, ')' :: r') => some (.enum vs, r')
        | _ => none
      else none
    | _ =>
      let leaf : Option Schema :=
        if name == "u64" then some .u64 else if name == "i64" then some .i64
        else if name == "f64" then some .f64 else if name == "usize" then some .usize
        else if name == "bool" then some .bool else if name == "str" then some .str
        else if name == "bytes" then some .bytes else if name == "time" then some .time
        else if name == "path" then some .path else if name == "sock" then some .sock
        else if name == "ip" then some .ip else none
      leaf.map fun s => (s, rest)
  /-- comma separated, possibly empty; stops before `)` or `|` -/
  partial def pFields (cs : List Char) : Option (SchemaList × List Char) :=
    match cs with
    | ')' :: _ => some (.nil, cs)
    | '|' :: _ => some (.nil, cs)
    | _ =>
      match pSchema cs with
      | some (s, ',' :: r) =>
        match pFields r with
        | some (t, r') => some (.cons s t, r')
        | none => none
      | some (s, r) => some (.cons s .nil, r)
      | none => none
  partial def pVariants (cs : List Char) : Option (SchemaListList × List Char) :=
    match pFields cs with
    | some (fs, '|' :: r) =>
      match pVariants r with
      | some (t, r') => some (.cons fs t, r')
      | none => none
    | some (fs, r) => some (.cons fs .nil, r)
    | none => none
end

def parseSchema (s : String) : Option Schema :=
  match pSchema s.toList with
  | some (σ, []) => some σ
  | _ => none

def parseNatChars (cs : List Char) : Option Nat :=
  if cs.isEmpty then none
  else cs.foldl (fun acc c => match acc with
    | some n => if c.isDigit then some (n * 10 + (c.toNat - 48)) else none
    | none => none) (some 0)

mutual
  partial def pVal (cs : List Char) : Option (Val × List Char) :=
    match cs with
    | 'n' :: r =>
      let (d, r') := takeWhileC Char.isDigit r
      (parseNatChars d).map fun n => (.num n, r')
    | 'b' :: '0' :: r => some (.bool false, r)
    | 'b' :: '1' :: r => some (.bool true, r)
    | 'x' :: '-' :: r => some (.blob [], r)
    | 'x' :: r =>
      let (h, r') := takeWhileC (fun c => (hexVal c).isSome) r
      (parseHexChars h).map fun b => (.blob b, r')
    | 't' :: r =>
      let (neg, r1) := match r with | '-' :: q => (true, q) | q => (false, q)
      let (d, r2) := takeWhileC Char.isDigit r1
      match r2 with
      | ':' :: r3 =>
        let (d2, r4) := takeWhileC Char.isDigit r3
        match parseNatChars d, parseNatChars d2 with
        | some s, some ns => some (.time (if neg then -(s : Int) else (s : Int)) ns, r4)
        | _, _ => none
      | _ => none
    | '[' :: r =>
      match pVals r ']' with
      | some (vs, r') => some (.vec vs, r')
      | none => none
    | '{' :: r =>
      match pVals r '}' with
      | some (vs, r') => some (.struct vs, r')
      | none => none
    | '#' :: r =>
      let (d, r1) := takeWhileC Char.isDigit r
      match parseNatChars d, r1 with
      | some tag, '{' :: r2 =>
        match pVals r2 '}' with
        | some (vs, r') => some (.enum tag vs, r')
        | none => none
      | _, _ => none
    | _ => none
  /-- comma separated values up to and including the closing bracket -/
  partial def pVals (cs : List Char) (close : Char) : Option (ValList × List Char) :=
    match cs with
    | c :: r =>
      if c == close then some (.nil, r)
      else
        match pVal cs with
        | some (v, ',' :: r') =>
          match pVals r' close with
          | some (t, r'') => some (.cons v t, r'')
          | none => none
        | some (v, c' :: r') => if c' == close then some (.cons v .nil, r') else none
        | _ => none
    | [] => none
end

def parseVal (s : String) : Option Val :=
  match pVal s.toList with
  | some (v, []) => some v
  | _ => none

mutual
  partial def showVal : Val → String
    | .num n => "n" ++ toString n
    | .bool b => if b then "b1" else "b0"
    | .blob bs => "x" ++ toHex bs
    | .time s ns => "t" ++ toString s ++ ":" ++ toString ns
    | .vec vs => "[" ++ showVals vs ++ "]"
    | .struct vs => "{" ++ showVals vs ++ "}"
    | .enum t vs => "#" ++ toString t ++ "{" ++ showVals vs ++ "}"
  partial def showVals : ValList → String
    | .nil => ""
    | .cons v .nil => showVal v
    | .cons v t => showVal v ++ "," ++ showVals t
end

def showOutcome {α : Type} (f : α → String) : Outcome α → String
  | .ok a => "ok " ++ f a
  | .err k => "err:" ++ k.toStr
  | .panic s => "panic:" ++ s
  | .hugeAlloc s => "hugealloc:" ++ s
  | .outOfFuel => "timeout"

def parseConvKind (s : String) : Option ConvKind :=
  if s == "u64" then some .u64 else if s == "i64" then some .i64 else if s == "f64" then some .f64
  else if s == "str" then some .str else if s == "time" then some .time else none

def stepSer (m : Mode) (toks : List String) : String :=
  match toks with
  | ["enc", _, _, v] =>
    match parseVal v with
    | some v => toHex (ser v) ++ " " ++ toString (size v)
    | none => "bad-op"
  | ["dec", _, sch, hex] =>
    match parseSchema sch, parseHex hex with
    | some σ, some b => showOutcome (fun (r : Val × Nat) => showVal r.1 ++ " " ++ toString r.2) (de m σ b)
    | _, _ => "bad-op"
  | ["tovec", k, hex] =>
    match parseConvKind k, parseHex hex with
    | some k, some b => showOutcome (fun vs => "[" ++ showVals vs ++ "]") (toVec m k b)
    | _, _ => "bad-op"
  | _ => "bad-op"

/-- per-case state of the `kv` stream (C12): the abstract store and the 32-byte records written -/
structure KvState where
  store : Store := Store.empty
  recs : List (List Nat) := []

def showKV (m : Mode) (st : Store) (bytes : List Nat) (sep : String) : Option String :=
  match loadKV m bytes st with
  | .ok (k, v) => some (showVal k ++ sep ++ showVal v)
  | _ => none

def stepKv (m : Mode) (s : KvState) (toks : List String) : KvState × String :=
  match toks with
  | ["kv", k, v] =>
    match parseVal k, parseVal v with
    | some k, some v =>
      match storeKV k v s.store with
      | some (bytes, st') =>
        let s' : KvState := { store := st', recs := s.recs ++ [bytes] }
        (s', showOutcome (fun (r : Val × Val) => showVal r.1 ++ " " ++ showVal r.2) (loadKV m bytes st'))
      | none => (s, "bad-op")
    | _, _ => (s, "bad-op")
  | ["reopen"] =>
    let parts := s.recs.map fun b => showKV m s.store b "="
    if parts.all Option.isSome then
      (s, String.intercalate " " ("ok" :: parts.filterMap id))
    else (s, "err:InvalidIndex")
  | _ => (s, "bad-op")

partial def loop (m : Mode) (hin hout : IO.FS.Stream) (kv : KvState) : IO Unit := do
  let line ← hin.getLine
  if line.isEmpty then
    hout.flush
  else
    let toks := (line.trimAscii.toString.splitOn " ").filter (· ≠ "")
    let (kv', out) :=
      match toks with
      | ["case", n] => (({} : KvState), "case " ++ n)
      | "enc" :: _ | "dec" :: _ | "tovec" :: _ => (kv, stepSer m toks)
      | "kv" :: _ | "reopen" :: _ => stepKv m kv toks
      | _ => (kv, "bad-op")
    hout.putStrLn out
    loop m hin hout kv'

def main (args : List String) : IO Unit := do
  let m := if args.contains "--legacy" then Mode.legacy else Mode.fixed
  let hin ← IO.getStdin
  let hout ← IO.getStdout
  loop m hin hout {}
