-- This module serves as the root of the `AgdbCodec` library.
-- Import modules here that should be built as part of the library.
import AgdbCodec.Basic
