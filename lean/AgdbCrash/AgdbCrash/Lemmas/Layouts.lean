import AgdbCrash.Model.Layouts
import AgdbCrash.Lemmas.Frame
namespace AgdbCrash.Frame
open AgdbCrash.Open

theorem flatten_chunk (w : Nat) (elems : List (List Nat)) (rest : List Nat)
    (hw : ∀ e ∈ elems, e.length = w) :
    ∀ i (hi : i < elems.length), ((elems.flatten ++ rest).drop (w * i)).take w = elems[i] := by
  induction elems with
  | nil => intro i hi; simp at hi
  | cons a as ih =>
    intro i hi
    have ha : a.length = w := hw a (by simp)
    cases i with
    | zero =>
      simp only [List.flatten_cons, List.append_assoc, Nat.mul_zero, List.drop_zero, List.getElem_cons_zero]
      rw [List.take_append_of_le_length (by omega)]
      rw [← ha]; simp
    | succ i =>
      simp only [List.flatten_cons, List.append_assoc, List.getElem_cons_succ]
      have : w * (i + 1) = a.length + w * i := by rw [ha]; rw [Nat.mul_succ]; omega
      rw [this, List.drop_append]
      have hd : a.drop (a.length + w * i) = [] := List.drop_eq_nil_of_le (by omega)
      rw [hd, List.nil_append]
      have : a.length + w * i - a.length = w * i := by omega
      rw [this]
      exact ih (fun e he => hw e (by simp [he])) i (by simpa using hi)

theorem chunkAt_vecBytesW (w : Nat) (elems : List (List Nat)) (cap : Nat)
    (hw : ∀ e ∈ elems, e.length = w) (i : Nat) (hi : i < elems.length) :
    chunkAt (vecBytesW w elems cap) w (8 + w * i) = some elems[i] := by
  unfold chunkAt vecBytesW
  have h8 : 8 + w * i = (le64 elems.length).length + w * i := by rw [le64_length]
  have hdrop : (le64 elems.length ++ (elems.flatten ++ List.replicate (w * (cap - elems.length)) 0)).drop (8 + w * i)
      = (elems.flatten ++ List.replicate (w * (cap - elems.length)) 0).drop (w * i) := by
    rw [h8, List.drop_append]
    have : (le64 elems.length).drop ((le64 elems.length).length + w * i) = [] :=
      List.drop_eq_nil_of_le (by omega)
    rw [this, List.nil_append]
    congr 1; omega
  rw [hdrop, flatten_chunk w elems _ hw i hi]
  have : (elems[i]).length = w := hw _ (List.getElem_mem hi)
  simp [this]

/-- `open_image` for a vector of fixed-size elements of any width -/
theorem vecW_open_image (w : Nat) (elems : List (List Nat)) (cap : Nat) (h : okVec w elems) :
    vecObserveW w (vecBytesW w elems cap) = some (vecObsOf elems) := by
  obtain ⟨hw, hl⟩ := h
  have h0 : u64At (vecBytesW w elems cap) 0 = some elems.length := u64At_le64 _ _ hl
  unfold vecObserveW vecObsOf
  rw [h0]
  simp only
  congr 2
  apply List.ext_getElem
  · simp
  · intro i h1 h2
    have hi : i < elems.length := by simpa using h1
    simp only [List.getElem_map, List.getElem_range]
    unfold vecValueW
    simp only [hi, if_true]
    exact chunkAt_vecBytesW w elems cap hw i hi

theorem u64At_le64_at8 (a b : Nat) (rest : List Nat) (hb : b < 2 ^ 64) :
    u64At (le64 a ++ (le64 b ++ rest)) 8 = some b := by
  have : (8 : Nat) = (le64 a).length + 0 := by rw [le64_length]
  rw [this, u64At_append_left]
  exact u64At_le64 b rest hb

theorem u64At_le64_at16 (a b c : Nat) (rest : List Nat) (hc : c < 2 ^ 64) :
    u64At (le64 a ++ (le64 b ++ (le64 c ++ rest))) 16 = some c := by
  have : (16 : Nat) = (le64 a).length + 8 := by rw [le64_length]
  rw [this, u64At_append_left]
  exact u64At_le64_at8 b c rest hc

theorem u64At_le64_at24 (a b c d : Nat) (hd : d < 2 ^ 64) :
    u64At (le64 a ++ (le64 b ++ (le64 c ++ le64 d))) 24 = some d := by
  have : (24 : Nat) = (le64 a).length + 16 := by rw [le64_length]
  rw [this, u64At_append_left]
  have h := u64At_le64_at16 b c d [] hd
  simpa using h

end AgdbCrash.Frame
