import AgdbCrash.Model.Open
/-! Totality lemmas for the open path with the proposed bound checks (`fixed = true`). -/
namespace AgdbCrash.Open

theorem skipRecord_fixed_progress (wal : List Nat) (pos n : Nat)
    (h : skipRecord true wal pos = .ok n) : pos + 16 ≤ n := by
  unfold skipRecord at h
  split at h
  · cases h
  · simp only [if_true] at h
    split at h
    · cases h
    · injection h with h; omega

theorem skipRecord_fixed_total (wal : List Nat) (pos : Nat) :
    (∃ n, skipRecord true wal pos = .ok n) ∨ (∃ k, skipRecord true wal pos = .err k) := by
  unfold skipRecord
  split
  · exact Or.inr ⟨_, rfl⟩
  · simp only [if_true]
    split
    · exact Or.inr ⟨_, rfl⟩
    · exact Or.inl ⟨_, rfl⟩

theorem repairLoop_total (wal : List Nat) :
    ∀ (fuel pos : Nat), wal.length ≤ pos + fuel →
      ∃ n, repairLoop true wal (fuel + 1) pos = .ok n := by
  intro fuel
  induction fuel with
  | zero =>
    intro pos h
    have : ¬ pos < wal.length := by omega
    exact ⟨wal.length, by simp [repairLoop, this]⟩
  | succ fuel ih =>
    intro pos h
    unfold repairLoop
    by_cases hp : pos < wal.length
    · simp only [hp, if_true]
      rcases skipRecord_fixed_total wal pos with ⟨n, hn⟩ | ⟨k, hk⟩
      · rw [hn]
        by_cases hg : n > wal.length
        · exact ⟨pos, by simp [hg]⟩
        · simp only [hg, if_false]
          have := skipRecord_fixed_progress wal pos n hn
          exact ih n (by omega)
      · rw [hk]; exact ⟨pos, rfl⟩
    · exact ⟨wal.length, by simp [hp]⟩

theorem repair_fixed_total (wal : List Nat) : ∃ w, repair true wal = .ok w := by
  obtain ⟨n, hn⟩ := repairLoop_total wal wal.length 0 (by omega)
  exact ⟨wal.take n, by simp [repair, hn]⟩

theorem recordsLoop_total (wal : List Nat) :
    ∀ (fuel pos : Nat), wal.length ≤ pos + fuel → Total (recordsLoop true wal (fuel + 1) pos) := by
  intro fuel
  induction fuel with
  | zero =>
    intro pos h
    have : ¬ pos < wal.length := by omega
    simp [recordsLoop, this, Total]
  | succ fuel ih =>
    intro pos h
    unfold recordsLoop
    by_cases hp : pos < wal.length
    · simp only [hp, if_true]
      split
      · rename_i p v _ _
        by_cases hb : wal.length - (pos + 16) < v
        · simp [hb, Total]
        · simp only [Bool.true_and, hb, decide_false, Bool.false_eq_true, if_false, Bool.not_true,
            Bool.false_and]
          have hrec := ih (pos + 16 + v) (by omega)
          revert hrec
          generalize recordsLoop true wal (fuel + 1) (pos + 16 + v) = r
          intro hrec
          cases r <;> simp_all [Total]
      · simp [Total]
    · simp [hp, Total]

theorem readCheck_fixed_total (mem : Bool) (len pos n : Nat) :
    readCheck true mem len pos n = .ok () ∨ ∃ k, readCheck true mem len pos n = .err k := by
  unfold readCheck
  by_cases h1 : pos + n ≥ u64Max
  · simp [h1]
  · by_cases h2 : pos + n ≤ len
    · simp [h1, h2]
    · simp [h1, h2]

theorem setRecordCheck_acceptable (t : Nat × Nat) (i : Nat) : Acceptable (setRecordCheck t i) := by
  unfold setRecordCheck
  split
  · trivial
  · split
    · split
      · rfl
      · split
        · trivial
        · simp only
          split
          · rfl
          · split
            · rfl
            · split
              · trivial
              · trivial
    · trivial

theorem readRecordsLoop_acceptable (mem : Bool) (data : List Nat) :
    ∀ (fuel pos : Nat) (table : Nat × Nat) (count : Nat), data.length ≤ pos + fuel →
      Acceptable (readRecordsLoop true mem data (fuel + 1) pos table count) := by
  intro fuel
  induction fuel with
  | zero =>
    intro pos table count h
    have : ¬ pos < data.length := by omega
    simp [readRecordsLoop, this, Acceptable]
  | succ fuel ih =>
    intro pos table count h
    unfold readRecordsLoop
    by_cases hp : pos < data.length
    · simp only [hp, if_true]
      rcases readCheck_fixed_total mem data.length pos 16 with hk | ⟨k, hk⟩
      · rw [hk]
        simp only
        split
        · rename_i index size _ _
          by_cases hb : data.length - pos + 16 < size
          · simp [hb, Acceptable]
          · simp only [hb, if_false]
            have hs := setRecordCheck_acceptable table index
            revert hs
            generalize setRecordCheck table index = sr
            intro hs
            cases sr with
            | ok t' => exact ih (pos + 16 + size) t' (count + 1) (by omega)
            | panic s => exact hs
            | hugeAlloc s => exact hs
            | err k => trivial
            | outOfFuel => trivial
            | beyond => trivial
        · trivial
      · rw [hk]; trivial
    · simp [hp, Acceptable]

theorem readRecords_acceptable (mem : Bool) (data : List Nat) :
    Acceptable (readRecords true mem data) := by
  unfold readRecords
  split
  · trivial
  · split
    · split
      · trivial
      · split
        · trivial
        · rename_i index size _ _ _ _
          rcases readCheck_fixed_total mem data.length 16 size with hk | ⟨k, hk⟩
          · rw [hk]
            simp only
            split
            · split
              · trivial
              · split
                · trivial
                · exact readRecordsLoop_acceptable mem data data.length 24 (1, 1) 0 (by omega)
            · trivial
          · rw [hk]; trivial
    · trivial

end AgdbCrash.Open
