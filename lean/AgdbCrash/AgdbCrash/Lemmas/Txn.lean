import AgdbCrash.Lemmas.Tx
/-! The single-commit-point lemma for `txnFixed`. -/
namespace AgdbCrash

/-- A quiescent storage: no transaction open, log empty, ghost image up to date. -/
def Clean (s : St) : Prop := s.depth = 0 ∧ s.log = [] ∧ s.committed = s.data

theorem clean_init : Clean St.init := ⟨rfl, rfl, rfl⟩

theorem clean_recover (s : St) (h : Clean s) : recover s = s.data := by
  simp [recover, h.2.1]

theorem clean_inv (s : St) (h : Clean s) : Inv s := by
  unfold Inv; rw [clean_recover s h, h.2.2]

/-- `commit_outermost(1)` on a state at depth ≥ 1 closes everything and flushes. -/
theorem commitOutermost_flush (s : St) (h : 1 ≤ s.depth) :
    s.commitOutermost 1 = { s with depth := 0, log := [], committed := s.data } := by
  unfold St.commitOutermost
  by_cases h1 : s.depth > 1
  · simp [h1, St.commit, St.flush]
  · have h2 : s.depth = 1 := by omega
    simp [h2, St.commit, St.flush]

theorem finish_inside (ok : Bool) (undo : List Ev) (s1 : St) (hu : wellNested 0 undo = true)
    (hd : 1 ≤ s1.depth) (hi : Inv s1) :
    (∀ p ∈ (finish ok undo s1).points, recover p = s1.committed) ∧ Inv (finish ok undo s1).final ∧
      (finish ok undo s1).final.committed = s1.committed ∧ 1 ≤ (finish ok undo s1).final.depth := by
  cases ok with
  | true =>
    refine ⟨?_, hi, rfl, hd⟩
    intro p hp
    simp [finish] at hp
  | false =>
    have h := run_inside undo s1 s1.depth 0 hd (by omega) hu hi
    obtain ⟨hp2, hf2, hc2, hd2⟩ := h
    refine ⟨?_, hf2, hc2, ?_⟩
    · intro p hp
      have := hp2 p hp
      rw [this.1, this.2.1]
    · show 1 ≤ (run undo s1).final.depth
      omega

theorem txnFixed_single_commit (closure undo : List Ev) (closureOk : Bool) (s : St)
    (hs : Clean s) (hc : wellNested 0 closure = true) (hu : wellNested 0 undo = true) :
    (∀ p ∈ (txnFixed closure undo closureOk s).points, recover p = s.data) ∧
    Clean (txnFixed closure undo closureOk s).final ∧
    (txnFixed closure undo closureOk s).final.data =
      (finish ((run closure s.begin).ok && closureOk) undo (run closure s.begin).final).final.data := by
  obtain ⟨hd, hl, hcm⟩ := hs
  have hclean : Clean s := ⟨hd, hl, hcm⟩
  have hinv : Inv s := clean_inv s hclean
  have h1 := run_inside closure s.begin 1 0 (Nat.le_refl 1) (by simp [St.begin, hd]) hc
    (inv_begin s hinv)
  obtain ⟨hp1, hf1, hc1, hd1⟩ := h1
  have hcomm1 : (run closure s.begin).final.committed = s.data := by
    rw [hc1]; simp [St.begin, hcm]
  have h2 := finish_inside ((run closure s.begin).ok && closureOk) undo (run closure s.begin).final
    hu hd1 hf1
  obtain ⟨hp2, hf2, hc2, hd2⟩ := h2
  refine ⟨?_, ?_, ?_⟩
  · intro p hp
    have hp' : p = s ∨ p ∈ (run closure s.begin).points ∨
        p ∈ (finish ((run closure s.begin).ok && closureOk) undo (run closure s.begin).final).points ∨
        p = (finish ((run closure s.begin).ok && closureOk) undo (run closure s.begin).final).final := by
      simpa [txnFixed, or_assoc] using hp
    rcases hp' with hp | hp | hp | hp
    · rw [hp]; exact clean_recover s hclean
    · have := hp1 p hp
      rw [this.1, this.2.1]; simp [St.begin, hcm]
    · rw [hp2 p hp]; exact hcomm1
    · rw [hp, hf2, hc2]; exact hcomm1
  · show Clean ((finish ((run closure s.begin).ok && closureOk) undo
        (run closure s.begin).final).final.commitOutermost (s.depth + 1))
    rw [hd, commitOutermost_flush _ hd2]
    exact ⟨rfl, rfl, rfl⟩
  · show ((finish ((run closure s.begin).ok && closureOk) undo
        (run closure s.begin).final).final.commitOutermost (s.depth + 1)).data = _
    rw [hd, commitOutermost_flush _ hd2]

/-- Every piece of code built from brackets is well nested (what `WF` asks for). -/
theorem wellNested_br (body : List Ev) (h : wellNested 1 body = true) (hn : netDepth 1 body = 1) :
    wellNested 0 (br body) = true := by
  show wellNested 1 (body ++ [Ev.commit]) = true
  apply wellNested_append
  · exact h
  · rw [hn]; rfl


theorem histFinal_clean (steps : List TxnStep) :
    ∀ (s : St), Clean s → (∀ t ∈ steps, t.WF) → Clean (histFinal steps s) := by
  induction steps with
  | nil => intro s hs _; exact hs
  | cons t ts ih =>
    intro s hs hwf
    have ht : t.WF := hwf t (by simp)
    exact ih _ (txnFixed_single_commit t.closure t.undo t.closureOk s hs ht.1 ht.2).2.1
      (fun t' ht' => hwf t' (by simp [ht']))


theorem run_noWrite_data (es : List Ev) :
    ∀ s, noWriteBeforeFail es = true → (run es s).final.data = s.data := by
  induction es with
  | nil => intro s _; rfl
  | cons e es ih =>
    intro s h
    cases e with
    | fail => rfl
    | write k v => simp [noWriteBeforeFail] at h
    | begin =>
      have := ih s.begin (by simpa [noWriteBeforeFail] using h)
      have hb : s.begin.data = s.data := rfl
      rw [hb] at this
      simpa [run, step] using this
    | nop =>
      have := ih s (by simpa [noWriteBeforeFail] using h)
      simpa [run, step] using this
    | commit =>
      have h1 := ih s.commit (by simpa [noWriteBeforeFail] using h)
      have h2 : s.commit.data = s.data := by
        unfold St.commit St.flush
        by_cases a : s.depth = 0
        · simp [a]
        · by_cases b : s.depth - 1 = 0 <;> simp [a, b]
      simp only [run, step]
      rw [h1, h2]


end AgdbCrash
