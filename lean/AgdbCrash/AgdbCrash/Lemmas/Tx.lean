import AgdbCrash.Model.Tx
/-! Invariants of the transaction-depth model. -/
namespace AgdbCrash

theorem Img.set_set_same (m : Img) (k v : Nat) : (m.set k v).set k (m k) = m := by
  funext i
  simp only [Img.set]
  by_cases h : i = k
  · simp [h]
  · simp [h]

/-- The abstract C01: undoing the log yields the image at the last outermost commit. -/
def Inv (s : St) : Prop := recover s = s.committed

theorem inv_write (s : St) (k v : Nat) (h : Inv s) : Inv (s.write k v) := by
  unfold Inv recover St.write at *
  simp only [List.foldl_cons]
  rw [Img.set_set_same]
  exact h

theorem recover_flush (s : St) : recover s.flush = s.data := by
  simp [recover, St.flush]

theorem inv_flush (s : St) : Inv s.flush := by
  simp [Inv, recover, St.flush]

theorem inv_begin (s : St) (h : Inv s) : Inv s.begin := h

theorem inv_commit (s : St) (h : Inv s) : Inv s.commit := by
  unfold St.commit
  by_cases h0 : s.depth = 0
  · simp [h0]; exact h
  · simp only [h0, if_false]
    by_cases h1 : s.depth - 1 = 0
    · simp only [h1, if_true]; exact inv_flush _
    · simp only [h1, if_false]; exact h

theorem inv_step (e : Ev) (s : St) (h : Inv s) : Inv (step e s) := by
  cases e with
  | begin => exact inv_begin s h
  | commit => exact inv_commit s h
  | write k v => exact inv_write s k v h
  | nop => exact h
  | fail => exact h

/-- A commit strictly inside an open transaction neither flushes nor touches data. -/
theorem commit_inner (s : St) (h : 2 ≤ s.depth) :
    s.commit = { s with depth := s.depth - 1 } := by
  unfold St.commit
  have h0 : s.depth ≠ 0 := by omega
  have h1 : s.depth - 1 ≠ 0 := by omega
  simp [h0, h1]

/-- Code that runs inside an open storage transaction (`b ≥ 1` levels below it, `r` levels of its
own) never changes the committed image, keeps the invariant, and stays at depth ≥ `b`. -/
theorem run_inside (es : List Ev) :
    ∀ (s : St) (b r : Nat), 1 ≤ b → s.depth = b + r → wellNested r es = true → Inv s →
      (∀ p ∈ (run es s).points, Inv p ∧ p.committed = s.committed ∧ b ≤ p.depth) ∧
      Inv (run es s).final ∧ (run es s).final.committed = s.committed ∧
      b ≤ (run es s).final.depth := by
  induction es with
  | nil =>
    intro s b r hb hd _ hi
    refine ⟨?_, hi, rfl, by simp only [run]; omega⟩
    intro p hp
    simp [run] at hp
  | cons e es ih =>
    intro s b r hb hd hw hi
    cases e with
    | fail =>
      have hrun : run (Ev.fail :: es) s = ⟨[s], s, false⟩ := rfl
      rw [hrun]
      refine ⟨?_, hi, rfl, by show b ≤ s.depth; omega⟩
      intro p hp
      have hp' : p = s := by simpa using hp
      rw [hp']
      exact ⟨hi, rfl, by omega⟩
    | begin =>
      simp only [run, step]
      have hw' : wellNested (r + 1) es = true := by simpa [wellNested] using hw
      have hd' : s.begin.depth = b + (r + 1) := by simp [St.begin]; omega
      have := ih s.begin b (r + 1) hb hd' hw' (inv_begin s hi)
      obtain ⟨hp, hf, hc, hdpt⟩ := this
      refine ⟨?_, hf, hc, hdpt⟩
      intro p hpm
      simp only [List.mem_cons] at hpm
      rcases hpm with rfl | hpm
      · exact ⟨hi, rfl, by omega⟩
      · exact hp p hpm
    | write k v =>
      simp only [run, step]
      have hw' : wellNested r es = true := by simpa [wellNested] using hw
      have hd' : (s.write k v).depth = b + r := by simp [St.write]; omega
      have := ih (s.write k v) b r hb hd' hw' (inv_write s k v hi)
      obtain ⟨hp, hf, hc, hdpt⟩ := this
      refine ⟨?_, hf, hc, hdpt⟩
      intro p hpm
      simp only [List.mem_cons] at hpm
      rcases hpm with rfl | hpm
      · exact ⟨hi, rfl, by omega⟩
      · exact hp p hpm
    | nop =>
      simp only [run, step]
      have hw' : wellNested r es = true := by simpa [wellNested] using hw
      have := ih s b r hb hd hw' hi
      obtain ⟨hp, hf, hc, hdpt⟩ := this
      refine ⟨?_, hf, hc, hdpt⟩
      intro p hpm
      simp only [List.mem_cons] at hpm
      rcases hpm with rfl | hpm
      · exact ⟨hi, rfl, by omega⟩
      · exact hp p hpm
    | commit =>
      cases r with
      | zero => simp [wellNested] at hw
      | succ r =>
        simp only [run, step]
        have hw' : wellNested r es = true := by simpa [wellNested] using hw
        have h2 : 2 ≤ s.depth := by omega
        rw [commit_inner s h2]
        have hd' : ({ s with depth := s.depth - 1 } : St).depth = b + r := by simp; omega
        have hi' : Inv ({ s with depth := s.depth - 1 } : St) := hi
        have := ih { s with depth := s.depth - 1 } b r hb hd' hw' hi'
        obtain ⟨hp, hf, hc, hdpt⟩ := this
        refine ⟨?_, hf, hc, hdpt⟩
        intro p hpm
        simp only [List.mem_cons] at hpm
        rcases hpm with rfl | hpm
        · exact ⟨hi, rfl, by omega⟩
        · exact hp p hpm

theorem wellNested_mono (es : List Ev) : ∀ r, wellNested r es = true → wellNested (r + 1) es = true := by
  induction es with
  | nil => intro r _; rfl
  | cons e es ih =>
    intro r h
    cases e with
    | begin => simpa [wellNested] using ih (r + 1) (by simpa [wellNested] using h)
    | write k v => simpa [wellNested] using ih r (by simpa [wellNested] using h)
    | nop => simpa [wellNested] using ih r (by simpa [wellNested] using h)
    | fail => simpa [wellNested] using ih r (by simpa [wellNested] using h)
    | commit =>
      cases r with
      | zero => simp [wellNested] at h
      | succ r => simpa [wellNested] using ih r (by simpa [wellNested] using h)

/-- relative depth after running a well nested piece of code completely -/
def netDepth : Nat → List Ev → Nat
  | r, [] => r
  | r, .begin :: es => netDepth (r + 1) es
  | r, .commit :: es => netDepth (r - 1) es
  | r, _ :: es => netDepth r es

theorem wellNested_append (xs ys : List Ev) :
    ∀ r, wellNested r xs = true → wellNested (netDepth r xs) ys = true →
      wellNested r (xs ++ ys) = true := by
  induction xs with
  | nil => intro r _ h; simpa [netDepth] using h
  | cons e xs ih =>
    intro r h1 h2
    cases e with
    | begin =>
      simp only [List.cons_append, wellNested]
      exact ih (r + 1) (by simpa [wellNested] using h1) (by simpa [netDepth] using h2)
    | write k v =>
      simp only [List.cons_append, wellNested]
      exact ih r (by simpa [wellNested] using h1) (by simpa [netDepth] using h2)
    | fail =>
      simp only [List.cons_append, wellNested]
      exact ih r (by simpa [wellNested] using h1) (by simpa [netDepth] using h2)
    | nop =>
      simp only [List.cons_append, wellNested]
      exact ih r (by simpa [wellNested] using h1) (by simpa [netDepth] using h2)
    | commit =>
      cases r with
      | zero => simp [wellNested] at h1
      | succ r =>
        simp only [List.cons_append, wellNested]
        exact ih r (by simpa [wellNested] using h1) (by simpa [netDepth] using h2)

end AgdbCrash
