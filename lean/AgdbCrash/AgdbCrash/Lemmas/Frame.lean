import AgdbCrash.Model.Frame
namespace AgdbCrash.Frame
open AgdbCrash.Open

theorem abs_optimizeFrom (c : List Rec) : ∀ p i, abs (optimizeFrom p c) i = abs c i := by
  induction c with
  | nil => intro p i; rfl
  | cons r rs ih =>
    intro p i
    simp only [optimizeFrom, abs]
    by_cases h : r.index = i
    · simp [h]
    · simp [h, ih]

theorem u64At_take (bs : List Nat) (pos k : Nat) (h : pos + 8 ≤ k) :
    u64At (bs.take k) pos = u64At bs pos := by
  unfold u64At
  have : ((bs.take k).drop pos).take 8 = (bs.drop pos).take 8 := by
    rw [List.drop_take, List.take_take]
    congr 1
    omega
  simp only [this]

theorem le64_length (n : Nat) : (le64 n).length = 8 := by simp [le64]
theorem u64At_le64 (n : Nat) (rest : List Nat) (h : n < 2 ^ 64) : u64At (le64 n ++ rest) 0 = some n := by
  unfold u64At
  have h8 : ((le64 n ++ rest).drop 0).take 8 = le64 n := by
    simp [le64_length]
  rw [h8]
  simp only [le64_length, if_true]
  have hr : List.range 8 = [0,1,2,3,4,5,6,7] := by decide
  simp only [le64, hr, List.map, List.foldr]
  congr 1
  omega

theorem u64At_append_left (xs ys : List Nat) (p : Nat) :
    u64At (xs ++ ys) (xs.length + p) = u64At ys p := by
  unfold u64At
  have : (xs ++ ys).drop (xs.length + p) = ys.drop p := by
    rw [List.drop_append]
    simp [List.drop_eq_nil_of_le]
  rw [this]

theorem u64At_flatMap (elems : List Nat) (rest : List Nat) (hb : ∀ e ∈ elems, e < 2 ^ 64) :
    ∀ i, i < elems.length → u64At (elems.flatMap le64 ++ rest) (8 * i) = elems[i]? := by
  induction elems with
  | nil => intro i hi; simp at hi
  | cons a as ih =>
    intro i hi
    cases i with
    | zero =>
      simp only [List.flatMap_cons, List.append_assoc, Nat.mul_zero]
      rw [u64At_le64 a _ (hb a (by simp))]
      simp
    | succ i =>
      simp only [List.flatMap_cons, List.append_assoc]
      have : 8 * (i + 1) = (le64 a).length + 8 * i := by rw [le64_length]; omega
      rw [this, u64At_append_left]
      rw [ih (fun e he => hb e (by simp [he])) i (by simpa using hi)]
      simp

end AgdbCrash.Frame
