import AgdbCrash.Model.Frame
/-
C05 (ii), composite structures: what `from_storage` of `DbVec<T>` (any fixed-size `T`), of
`GraphDataStorage` (graph.rs: an index record naming four `DbVec<i64>`) and of `DbMapData`
(collections/map.rs: `MapDataIndex` = len + three vector indexes; states are 1-byte `MapValueState`,
keys/values any fixed-size type) rebuilds from the storage `index ↦ bytes`.

Elements are kept as opaque `w`-byte chunks: the element codec (i64, DbId, DbValueIndex, state byte) is
the codec group's business (C12/C20); here only the LAYOUT matters — which bytes of which record each
observation is read from.
-/
namespace AgdbCrash.Frame
open AgdbCrash.Open

/-- bytes written for a `DbVec<T>` whose elements serialise to `w` bytes each (`DbVecData::reallocate`
zero-fills the unused capacity through `resize_value`) -/
def vecBytesW (w : Nat) (elems : List (List Nat)) (cap : Nat) : List Nat :=
  le64 elems.length ++ (elems.flatten ++ List.replicate (w * (cap - elems.length)) 0)

/-- `Storage::value_as_bytes_at_size(index, pos, w)`: exactly `w` bytes or an error -/
def chunkAt (bytes : List Nat) (w pos : Nat) : Option (List Nat) :=
  if ((bytes.drop pos).take w).length = w then some ((bytes.drop pos).take w) else none

/-- `DbVecData::value(i)` after `validate_index` -/
def vecValueW (w : Nat) (bytes : List Nat) (len i : Nat) : Option (List Nat) :=
  if i < len then chunkAt bytes w (8 + w * i) else none

/-- `DbVec::from_storage` (length = first 8 bytes) followed by every `value(i)` -/
def vecObserveW (w : Nat) (bytes : List Nat) : Option (Nat × List (Option (List Nat))) :=
  match u64At bytes 0 with
  | some len => some (len, (List.range len).map (vecValueW w bytes len))
  | none => none

-- graph.rs ---------------------------------------------------------------------------------------

/-- a live `GraphDataStorage`: its own storage index, the four vector indexes, the four slot vectors
(8-byte `i64` elements) and their capacities -/
structure GraphSt where
  root : Nat
  iFrom : Nat
  iTo : Nat
  iFromMeta : Nat
  iToMeta : Nat
  from_ : List (List Nat)
  to_ : List (List Nat)
  fromMeta : List (List Nat)
  toMeta : List (List Nat)
  cFrom : Nat
  cTo : Nat
  cFromMeta : Nat
  cToMeta : Nat

/-- the five records a graph owns (`GraphDataStorageIndexes::serialize`: from, to, from_meta, to_meta);
positions are irrelevant to `abs` -/
def graphStore (g : GraphSt) (ps : Nat → Nat) : List Rec :=
  [ ⟨g.root, ps 0, le64 g.iFrom ++ (le64 g.iTo ++ (le64 g.iFromMeta ++ le64 g.iToMeta))⟩,
    ⟨g.iFrom, ps 1, vecBytesW 8 g.from_ g.cFrom⟩,
    ⟨g.iTo, ps 2, vecBytesW 8 g.to_ g.cTo⟩,
    ⟨g.iFromMeta, ps 3, vecBytesW 8 g.fromMeta g.cFromMeta⟩,
    ⟨g.iToMeta, ps 4, vecBytesW 8 g.toMeta g.cToMeta⟩ ]

abbrev VecObs := Nat × List (Option (List Nat))

/-- `GraphDataStorage::from_storage(storage, root)` + reading every slot -/
def graphRebuild (st : Nat → Option (List Nat)) (root : Nat) : Option (VecObs × VecObs × VecObs × VecObs) :=
  match st root with
  | none => none
  | some r =>
    match u64At r 0, u64At r 8, u64At r 16, u64At r 24 with
    | some a, some b, some c, some d =>
      match (st a).bind (vecObserveW 8), (st b).bind (vecObserveW 8),
            (st c).bind (vecObserveW 8), (st d).bind (vecObserveW 8) with
      | some f, some t, some fm, some tm => some (f, t, fm, tm)
      | _, _, _, _ => none
    | _, _, _, _ => none

def vecObsOf (elems : List (List Nat)) : VecObs := (elems.length, elems.map some)

def graphObserve (g : GraphSt) : VecObs × VecObs × VecObs × VecObs :=
  (vecObsOf g.from_, vecObsOf g.to_, vecObsOf g.fromMeta, vecObsOf g.toMeta)

def okVec (w : Nat) (elems : List (List Nat)) : Prop :=
  (∀ e ∈ elems, e.length = w) ∧ elems.length < 2 ^ 64

def GraphSt.valid (g : GraphSt) : Prop :=
  [g.root, g.iFrom, g.iTo, g.iFromMeta, g.iToMeta].Nodup ∧
  g.iFrom < 2 ^ 64 ∧ g.iTo < 2 ^ 64 ∧ g.iFromMeta < 2 ^ 64 ∧ g.iToMeta < 2 ^ 64 ∧
  okVec 8 g.from_ ∧ okVec 8 g.to_ ∧ okVec 8 g.fromMeta ∧ okVec 8 g.toMeta

-- collections/map.rs -----------------------------------------------------------------------------

/-- a live `DbMapData<K, T>`: `MapDataIndex` (len + three vector indexes) and the three slot vectors -/
structure MapSt where
  root : Nat
  len : Nat
  iStates : Nat
  iKeys : Nat
  iValues : Nat
  wk : Nat
  wv : Nat
  states : List (List Nat)
  keys : List (List Nat)
  values : List (List Nat)
  cStates : Nat
  cKeys : Nat
  cValues : Nat

def mapStore (m : MapSt) (ps : Nat → Nat) : List Rec :=
  [ ⟨m.root, ps 0, le64 m.len ++ (le64 m.iStates ++ (le64 m.iKeys ++ le64 m.iValues))⟩,
    ⟨m.iStates, ps 1, vecBytesW 1 m.states m.cStates⟩,
    ⟨m.iKeys, ps 2, vecBytesW m.wk m.keys m.cKeys⟩,
    ⟨m.iValues, ps 3, vecBytesW m.wv m.values m.cValues⟩ ]

/-- `DbMapData::from_storage(storage, root)` + reading `len`, every state, key and value slot -/
def mapRebuild (wk wv : Nat) (st : Nat → Option (List Nat)) (root : Nat) :
    Option (Nat × VecObs × VecObs × VecObs) :=
  match st root with
  | none => none
  | some r =>
    if r.length < 32 then none else
    match u64At r 0, u64At r 8, u64At r 16, u64At r 24 with
    | some len, some a, some b, some c =>
      match (st a).bind (vecObserveW 1), (st b).bind (vecObserveW wk), (st c).bind (vecObserveW wv) with
      | some s, some k, some v => some (len, s, k, v)
      | _, _, _ => none
    | _, _, _, _ => none

def mapObserve (m : MapSt) : Nat × VecObs × VecObs × VecObs :=
  (m.len, vecObsOf m.states, vecObsOf m.keys, vecObsOf m.values)

def MapSt.valid (m : MapSt) : Prop :=
  [m.root, m.iStates, m.iKeys, m.iValues].Nodup ∧
  m.len < 2 ^ 64 ∧ m.iStates < 2 ^ 64 ∧ m.iKeys < 2 ^ 64 ∧ m.iValues < 2 ^ 64 ∧
  okVec 1 m.states ∧ okVec m.wk m.keys ∧ okVec m.wv m.values

/-- a structure's storage layout at the level of the whole store: live state ↦ records,
`index ↦ bytes` ↦ rebuilt observations -/
structure StoreLayout where
  State : Type
  Obs : Type
  toStore : State → (Nat → Nat) → List Rec
  root : State → Nat
  rebuild : State → (Nat → Option (List Nat)) → Nat → Option Obs
  observe : State → Obs
  valid : State → Prop

def graphLayout : StoreLayout where
  State := GraphSt
  Obs := VecObs × VecObs × VecObs × VecObs
  toStore := graphStore
  root := fun g => g.root
  rebuild := fun _ => graphRebuild
  observe := graphObserve
  valid := GraphSt.valid

def mapLayout : StoreLayout where
  State := MapSt
  Obs := Nat × VecObs × VecObs × VecObs
  toStore := mapStore
  root := fun m => m.root
  rebuild := fun m => mapRebuild m.wk m.wv
  observe := mapObserve
  valid := MapSt.valid

end AgdbCrash.Frame
