import AgdbCrash.Model.Tx
/-
Bracket structure of the storage-level operations of L1–L4, function for function.
Payloads are abstract (`write k v`); only the `transaction()/commit()` structure matters here.
Each definition names the Rust function it mirrors.
-/
namespace AgdbCrash.Code
open AgdbCrash

/-- a run of `n` successful `data.write` calls on cells `k, k+1, …` -/
def writes : Nat → Nat → List Ev
  | _, 0 => []
  | k, n + 1 => Ev.write k 1 :: writes (k + 1) n

-- storage.rs -------------------------------------------------------------------------------
/-- `Storage::insert_bytes`: header write, value write, optional free-region header -/
def insertBytes (k : Nat) (split : Bool) : List Ev := br (writes k (if split then 3 else 2))
/-- `Storage::resize_value` (enlarge / shrink / move: `n` calls) -/
def resizeValue (k n : Nat) : List Ev := br (writes k n)
/-- `Storage::insert_bytes_at`: `ensure_size` (`n` calls) then the value write -/
def insertBytesAt (k n : Nat) : List Ev := br (writes k n ++ [Ev.write (k + n) 1])
/-- `Storage::replace_with_bytes` = `insert_bytes_at` + `resize_value` -/
def replaceWithBytes (k n m : Nat) : List Ev := br (insertBytesAt k n ++ resizeValue (k + n + 1) m)
/-- `Storage::move_at` = `insert_bytes_at` + `erase_bytes` -/
def moveAt (k n : Nat) (erase : Bool) : List Ev :=
  br (insertBytesAt k n ++ (if erase then [Ev.write (k + n + 1) 0] else []))
/-- `Storage::remove`: truncate or free-region header -/
def remove (k : Nat) : List Ev := br [Ev.write k 0]
/-- `Storage::optimize_storage`: `n` record moves and the final truncate -/
def optimizeStorage (n : Nat) : List Ev := br (writes 0 (2 * n) ++ [Ev.write (2 * n) 0])

-- collections/vec.rs ---------------------------------------------------------------------------
/-- `DbVecData::resize` growing by one (the `push` path): element write + length write -/
def vecResize (k : Nat) : List Ev := br (insertBytesAt k 0 ++ insertBytesAt (k + 1) 0)
/-- `VecImpl::push` = optional `reallocate` (`resize_value`) then `resize` -/
def vecPush (k : Nat) (grow : Bool) : List Ev :=
  (if grow then resizeValue k 2 else []) ++ vecResize (k + 2)
/-- `DbVecData::remove`: `move_at` + length write -/
def vecRemove (k : Nat) : List Ev := br (moveAt k 0 true ++ insertBytesAt (k + 2) 0)
/-- `DbVecData::replace` -/
def vecReplace (k : Nat) : List Ev := br (insertBytesAt k 0)
/-- `DbVecData::swap` -/
def vecSwap (k : Nat) : List Ev := br (moveAt k 0 true ++ insertBytesAt (k + 2) 0)

-- graph.rs -------------------------------------------------------------------------------------
/-- `GraphImpl::insert_node`: one bracket around the four vector operations
(from, to, from_meta, to_meta) and the node-count / free-list update -/
def graphInsertNode (k : Nat) : List Ev :=
  br (vecPush k true ++ vecPush (k + 10) true ++ vecPush (k + 20) true ++ vecPush (k + 30) true
      ++ vecReplace (k + 40))
/-- `GraphImpl::insert_edge`: one bracket around the edge record and both endpoints' list heads -/
def graphInsertEdge (k : Nat) : List Ev :=
  br (vecReplace k ++ vecReplace (k + 1) ++ vecReplace (k + 2) ++ vecReplace (k + 3))
/-- `GraphImpl::remove_node` -/
def graphRemoveNode (k : Nat) : List Ev := br (vecReplace k ++ vecReplace (k + 1))

-- db/db_key_value.rs ---------------------------------------------------------------------------
/-- `DbKeyValues::remove`: frees the element's value vector, then clears the pointer to it in a
second storage transaction -/
def keyValuesRemove (k : Nat) : List Ev := remove k ++ vecReplace (k + 1)

/-- `DbKeyValues::insert_value`: value bytes stored (`DbValue::store_db_value`), then pushed onto the
element's vector, whose index is (re)written into the outer vector — separate storage transactions -/
def keyValuesInsert (k : Nat) : List Ev := insertBytes k false ++ vecPush (k + 2) true ++ vecReplace (k + 6)

-- db.rs ----------------------------------------------------------------------------------------
/-- storage events of `insert().nodes().count(1).values(..)` with one value: `DbImpl::insert_node`
then `DbImpl::insert_key_value` -/
def insertNodeWithValue : List Ev := graphInsertNode 0 ++ keyValuesInsert 50

/-- storage events of `remove().ids(n)` for a node with one edge carrying one value:
`remove_edge`, `remove_all_values(edge)`, `remove_node`, `remove_all_values(node)` -/
def removeNodeWithEdge : List Ev :=
  graphInsertEdge 0 ++ keyValuesRemove 10 ++ graphRemoveNode 20 ++ keyValuesRemove 30

/-- two storage-level operations, each with its own bracket -/
def cexClosure : List Ev := br [Ev.write 1 1] ++ br [Ev.write 2 1]


/-- a failing header write inside `insert_bytes`, then a later successful insert -/
def stuckHistory : List TxnStep :=
  [⟨br [Ev.fail], [], true⟩, ⟨br [Ev.write 5 1], [], true⟩]


/-- a consistency notion for the two-cell example: cell 1 (a pointer) and cell 2 (its target) agree -/
def cexConsistent (i : Img) : Prop := i 1 = i 2


end AgdbCrash.Code
