import AgdbCrash.Model.Tx
/-
Line-protocol side of the transaction model (streams C03, C02, C32).
A step line is `<query text> | <res> <chg> <body> [<stride> <offset>]` where the part after ` | ` is
the observation hint written by the harness: result (`ok:<n>` / `err`), whether the observable state
changed (0/1) and the run-length encoded kinds of the storage calls the step issued, WITHOUT the
flushes (`w` write, `o` zero-length write, `z` resize, `p` a call that panicked before doing anything,
`!` a failed call, `F` a failed flush).  From that the model predicts
where the flushes are, the log-empty flag of every crash point and the class of every (sampled)
crash point.
-/
namespace AgdbCrash.Driver
open AgdbCrash

/-- "w12z1" -> "wwwwwwwwwwwwz" ; "-" -> "" -/
def rleDecode (s : String) : Option (List Char) :=
  if s = "-" then some [] else
  let rec go (cs : List Char) (cur : Option Char) (num : Nat) (seen : Bool) (acc : List Char)
      : Option (List Char) :=
    match cs with
    | [] =>
      match cur with
      | none => some acc.reverse
      | some c => if seen then some ((List.replicate num c ++ acc).reverse) else none
    | c :: rest =>
      if c.isDigit then
        match cur with
        | none => none
        | some _ => go rest cur (num * 10 + (c.toNat - '0'.toNat)) true acc
      else
        match cur with
        | none => go rest (some c) 0 false acc
        | some p => if seen then go rest (some c) 0 false (List.replicate num p ++ acc) else none
  go s.toList none 0 false []

def rleEncode (cs : List Char) : String :=
  let rec go (cs : List Char) (cur : Char) (n : Nat) (acc : String) (fuel : Nat) : String :=
    match fuel, cs with
    | 0, _ => acc
    | _, [] => acc ++ String.singleton cur ++ toString n
    | fuel + 1, c :: rest =>
      if c = cur then go rest cur (n + 1) acc fuel
      else go rest c 1 (acc ++ String.singleton cur ++ toString n) fuel
  match cs with
  | [] => "-"
  | c :: rest => go rest c 1 "" (rest.length + 1)

/-- sampling rule shared with the harness (`crash.rs::sampled`) -/
def sampled (k points stride offset : Nat) : Bool :=
  k < 6 || k + 6 ≥ points || (stride ≠ 0 && k % stride = offset)

inductive FaultMode where
  | none
  | once (k : Nat)
  | persist (k : Nat)

def FaultMode.fails (f : FaultMode) (call : Nat) : Bool :=
  match f with
  | .none => false
  | .once k => call = k
  | .persist k => call ≥ k

structure DState where
  prop : String := ""
  st : St := St.init
  /-- next fresh cell -/
  cell : Nat := 0
  fault : FaultMode := .none
  fired : Bool := false

structure Hint where
  res : String
  chg : Bool
  body : List Char
  stride : Nat
  offset : Nat

def parseHint (h : String) : Option Hint :=
  match h.trimAscii.toString.splitOn " " with
  | [res, chg, body] =>
    match rleDecode body with
    | some b => some ⟨res, chg = "1", b, 1, 0⟩
    | none => none
  | [res, chg, body, stride, offset] =>
    match rleDecode body, stride.toNat?, offset.toNat? with
    | some b, some s, some o => some ⟨res, chg = "1", b, s, o⟩
    | _, _, _ => none
  | _ => none

/-- events of the calls of the hint; the model decides which call fails from the armed fault -/
def buildEvents (body : List Char) (cell : Nat) (fault : FaultMode) : List Ev × List Char :=
  let rec go (cs : List Char) (i : Nat) (evs : List Ev) (kinds : List Char) : List Ev × List Char :=
    match cs with
    | [] => (evs.reverse, kinds.reverse)
    | c :: rest =>
      if c = 'F' then go rest (i + 1) evs kinds
      else if fault.fails (i + 1) then go rest (i + 1) (Ev.fail :: evs) ('!' :: kinds)
      else if c = 'o' || c = 'p' then go rest (i + 1) (Ev.nop :: evs) (c :: kinds)
      else go rest (i + 1) (Ev.write (cell + i) 1 :: evs) ((if c = '!' then '?' else c) :: kinds)
  go body 0 [] []

def splitAtFail : List Ev → List Ev × List Ev
  | [] => ([], [])
  | .fail :: rest => ([Ev.fail], rest)
  | e :: rest => let (a, b) := splitAtFail rest; (e :: a, b)

/-- Between steps only the nesting depth and whether the log is empty matter for what the driver
prints; the image itself is reset so that evaluation cost does not grow along a history. -/
def compact (s : St) : St :=
  if s.log.isEmpty then { depth := s.depth, data := Img.zero, log := [], committed := Img.zero }
  else { depth := s.depth, data := Img.zero, log := [(0, 0)], committed := Img.zero }

structure StepOut where
  line : String
  st : St
  fired : Bool

/-- crash points of a step as the harness sees them: before every body call, before the flush call
(if one is issued), after the last call -/
structure Shape where
  callPts : List St
  flushPt : List St
  final : St

/-- `DbImpl::transaction_mut` (fixed) -/
def shapeTxn (closure undo : List Ev) (closureOk : Bool) (s : St) (flushOk : Bool) : Shape :=
  let r := txnFixed closure undo closureOk s flushOk
  let inner := r.points.drop 1
  -- `end_transaction` calls `flush` only when the counter returns to 0
  ⟨inner.dropLast, if s.depth = 0 then inner.drop (inner.length - 1) else [], r.final⟩

/-- a panic inside the closure unwinds through `transaction_mut`: the storage transaction opened at
its start is never closed -/
def shapePanic (closure undo : List Ev) (s : St) : Shape :=
  let r1 := run closure s.begin
  let r2 := finish r1.ok undo r1.final
  ⟨r1.points ++ r2.points, [], r2.final⟩

/-- `Drop for DbImpl`: `Storage::optimize_storage`, a bracket of its own (`commit(id)`, which flushes
only when the depth returns to 0) -/
def shapeClose (evs : List Ev) (s : St) (flushOk : Bool) : Shape :=
  let r := run evs s.begin
  if r.final.depth = 1 then ⟨r.points, [r.final], r.final.commit flushOk⟩
  else ⟨r.points, [], r.final.commit flushOk⟩

/-- one `exec_mut` / `transaction_mut` / close step -/
def stepLine (d : DState) (h : Hint) (isClose : Bool) : StepOut :=
  let nBody := (h.body.filter (· ≠ 'F')).length
  let (evs, kinds) := buildEvents h.body d.cell d.fault
  let flushOk := !(d.fault.fails (nBody + 1))
  let (closure, undo) := splitAtFail evs
  let anyFail := evs.any (· == Ev.fail)
  let okRes := h.res.startsWith "ok"
  let isPanic := h.res.startsWith "panic"
  let sh : Shape :=
    if isPanic then shapePanic closure undo d.st
    else if isClose then shapeClose evs d.st flushOk
    else shapeTxn closure undo (okRes && !anyFail) d.st flushOk
  let pts := sh.callPts ++ sh.flushPt ++ [sh.final]
  let traceKinds := kinds.take sh.callPts.length ++ sh.flushPt.map (fun _ => if flushOk then 'f' else 'F')
  let wal := pts.map (fun p => if p.log.isEmpty then 'e' else 'n')
  let pre := recover d.st
  let post := sh.final.data
  let cells := (List.range (nBody + 1)).map (· + d.cell)
  let classOf := fun (p : St) =>
    if !h.chg then 'a'
    else
      let rp := recover p
      if cells.all (fun i => rp i == pre i) then 'a'
      else if cells.all (fun i => rp i == post i) then 'b' else 'x'
  let n := pts.length
  let keep := (List.range n).filter (fun k => sampled k n h.stride h.offset)
  let clsS := if d.prop = "C03" then keep.filterMap (fun k => (pts[k]?).map classOf) else []
  let opn := keep.map (fun _ => 'o')
  let fired := anyFail || (!flushOk && !sh.flushPt.isEmpty)
  let res := if fired && !isClose && !isPanic then "err" else h.res
  let walend := if sh.final.log.isEmpty then "e" else "n"
  let line :=
    if d.prop = "C32" then
      if isClose then
        if d.fired || fired then s!"{res} trace=* walend=* reopen=*"
        else s!"{res} trace={rleEncode traceKinds} walend={walend} reopen=o1"
      else
        s!"{res} trace={rleEncode traceKinds} walend={walend} eff={if fired && h.chg then 1 else 0}"
    else if d.prop = "C02" then
      s!"{res} trace={rleEncode traceKinds} wal={rleEncode wal} open={rleEncode opn}"
    else
      s!"{res} trace={rleEncode traceKinds} wal={rleEncode wal} cls={rleEncode clsS}"
  ⟨line, sh.final, fired⟩

def handle (d : DState) (line : String) : DState × String :=
  let line := line.trimAscii.toString
  match line.splitOn " | " with
  | [cmd] =>
    match cmd.splitOn " " with
    | ["fault", k, mode] =>
      match k.toNat?, mode with
      | some k, "once" => if k = 0 then (d, "bad-op") else ({ d with fault := .once k }, "armed")
      | some k, "persist" => if k = 0 then (d, "bad-op") else ({ d with fault := .persist k }, "armed")
      | _, _ => (d, "bad-op")
    | _ => (d, "bad-op")
  | [cmd, hint] =>
    let first := (cmd.splitOn " ").headD ""
    -- a case abandoned by the harness watchdog: nothing was observed, nothing is predicted
    if hint = "timeout" then (d, "timeout") else
    if first = "q" || first = "t" || first = "close" then
      match parseHint hint with
      | none => (d, "bad-op")
      | some h =>
        let o := stepLine d h (first = "close")
        ({ d with st := compact o.st, cell := 0, fault := .none,
                  fired := d.fired || o.fired }, o.line)
    else (d, "bad-op")
  | _ => (d, "bad-op")

end AgdbCrash.Driver
