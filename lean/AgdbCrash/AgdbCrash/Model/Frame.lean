import AgdbCrash.Model.Open
/-
C05: maintenance operations at the record-table level (`Storage`, storage.rs) and what the L2–L4
structures can observe.

`CStore` is the concrete storage: the records of the data file with their index, position and
value bytes.  `abs` is the C04 abstraction `index ↦ bytes`, the only interface through which
`DbVec`, `MultiMapStorage`, `DbGraph`, `DbIndexes`, `DbKeyValues` read (`Storage::value*`).
-/
namespace AgdbCrash.Frame
open AgdbCrash.Open

structure Rec where
  index : Nat
  pos : Nat
  bytes : List Nat

def CStore := List Rec

/-- `Storage::value_as_bytes(index)` -/
def abs (c : List Rec) (i : Nat) : Option (List Nat) :=
  match c with
  | [] => none
  | r :: rs => if r.index = i then some r.bytes else abs rs i

/-- `Storage::optimize_storage` (`shrink_index` per record, in position order): every record is moved
to the lowest free position; indexes and values are untouched. -/
def optimizeFrom : Nat → List Rec → List Rec
  | _, [] => []
  | p, r :: rs => { r with pos := p } :: optimizeFrom (p + 16 + r.bytes.length) rs

def optimize (c : List Rec) : List Rec := optimizeFrom 24 c

/-- `StorageData::backup` / `copy`: the bytes of the file are copied; `rename`: only the name changes. -/
def backup (c : List Rec) : List Rec := c
def copy (c : List Rec) : List Rec := c
def rename (c : List Rec) : List Rec := c

/-- the maintenance operations that do not touch any value -/
inductive Maint where
  | optimize | backup | copy | rename
  deriving DecidableEq, Repr

def Maint.apply : Maint → List Rec → List Rec
  | .optimize => Frame.optimize
  | .backup => Frame.backup
  | .copy => Frame.copy
  | .rename => Frame.rename

-- collections/vec.rs -----------------------------------------------------------------------------

/-- bytes written for a `DbVec<u64>` with the given elements and capacity -/
def vecBytes (elems : List Nat) (cap : Nat) : List Nat :=
  le64 elems.length ++ (elems.flatMap le64 ++ List.replicate (8 * (cap - elems.length)) 0)

/-- `DbVec<u64>::from_storage`: length from the first 8 bytes, capacity over-estimated from the size -/
def vecFromStorage (bytes : List Nat) : Option (Nat × Nat) :=
  match u64At bytes 0 with
  | some len => some (len, bytes.length / 8)
  | none => none

/-- `DbVecData::value(index)` after `validate_index` -/
def vecValue (bytes : List Nat) (len i : Nat) : Option Nat :=
  if i < len then u64At bytes (8 + 8 * i) else none

/-- everything a query can observe of a stored vector: its length and its elements -/
def vecObserve (bytes : List Nat) : Option (Nat × List (Option Nat)) :=
  match vecFromStorage bytes with
  | some (len, _) => some (len, (List.range len).map (vecValue bytes len))
  | none => none

/-- `DbVecData::reallocate(len)` through `shrink_to_fit`: the value is cut to `8 + 8 * len` bytes -/
def vecShrink (bytes : List Nat) : List Nat :=
  match u64At bytes 0 with
  | some len => bytes.take (8 + 8 * len)
  | none => bytes

/-- a structure's storage layout: live state ↦ bytes, bytes ↦ rebuilt observations -/
structure Layout where
  State : Type
  Obs : Type
  toBytes : State → List Nat
  rebuild : List Nat → Option Obs
  observe : State → Obs
  valid : State → Prop


/-- the vector layout (graph slot vectors, map state/key/value arrays, index id lists, value lists) -/
def vecLayout : Layout where
  State := List Nat × Nat
  Obs := Nat × List (Option Nat)
  toBytes := fun s => vecBytes s.1 s.2
  rebuild := vecObserve
  observe := fun s => (s.1.length, s.1.map some)
  valid := fun s => (∀ e ∈ s.1, e < 2 ^ 64) ∧ s.1.length < 2 ^ 64

/-- line-protocol side: which `m` operations apply to which variant -/
def applicable (memory : Bool) (op : String) : Option Bool :=
  if op = "reopen" || op = "optimize" || op = "shrink" || op = "backup" || op = "copy" || op = "rename"
  then some true
  else if op = "as_mmap" || op = "as_file" || op = "as_any_file" || op = "as_any_mmap" then some (!memory)
  else none

end AgdbCrash.Frame
