/-
Transaction-depth model of `agdb::storage::Storage` (storage.rs) and of
`DbImpl::transaction_mut` / `exec_mut` (db.rs), one level above the byte-level WAL.

Abstractions (trusted, see notes/crash.md):
* C04: the record allocator behaves as a map `index ↦ bytes`; here a storage image is `Img = Nat → Nat`
  (cell ↦ content) and every mutating `StorageData` call (`write`, `resize`) is a cell update.
* C01: the byte-level log of `FileStorage` refines the abstract undo log below (`recover`), i.e.
  recovery after a crash yields the data image at the last outermost commit (`flush`).
-/
namespace AgdbCrash

/-- Storage image: cell ↦ content (C04 abstraction of the data file). -/
def Img := Nat → Nat

def Img.set (m : Img) (k v : Nat) : Img := fun i => if i = k then v else m i

def Img.zero : Img := fun _ => 0

/-- Storage-level events of one query, in program order.
`begin`/`commit` = `Storage::transaction()` / `Storage::commit(id)`;
`write k v` = a successful `StorageData::write/resize`; `nop` = a zero-length `write` (not logged, no
effect: `FileStorage::write` returns early); `fail` = a call that returns `Err`
(the `?` after it unwinds to the `transaction_mut` boundary). -/
inductive Ev where
  | begin
  | commit
  | write (k v : Nat)
  | nop
  | fail
  deriving DecidableEq, Repr

/-- `Storage<D>` + its `FileStorage`: nesting counter, data image, undo log (newest first)
and the ghost image at the last outermost commit. -/
structure St where
  depth : Nat
  data : Img
  log : List (Nat × Nat)
  committed : Img

def St.init : St := { depth := 0, data := Img.zero, log := [], committed := Img.zero }

/-- What a reopen after a crash sees: the undo log applied newest-first (`FileStorage::apply_wal`). -/
def recover (s : St) : Img := s.log.foldl (fun m r => m.set r.1 r.2) s.data

/-- `Storage::begin_transaction` -/
def St.begin (s : St) : St := { s with depth := s.depth + 1 }

/-- `StorageData::flush` of `FileStorage` (clears the log). -/
def St.flush (s : St) : St := { s with log := [], committed := s.data }

/-- `Storage::end_transaction(id)` with a matching id. `flushOk = false` models a failing `flush`
call: the counter is already decremented, the log stays. -/
def St.commit (s : St) (flushOk : Bool := true) : St :=
  if s.depth = 0 then s
  else
    let s' := { s with depth := s.depth - 1 }
    if s'.depth = 0 then (if flushOk then s'.flush else s') else s'

/-- `FileStorage::write` / `resize`: log the old content, then update. -/
def St.write (s : St) (k v : Nat) : St :=
  { s with data := s.data.set k v, log := (k, s.data k) :: s.log }

def step (e : Ev) (s : St) : St :=
  match e with
  | .begin => s.begin
  | .commit => s.commit
  | .write k v => s.write k v
  | .nop => s
  | .fail => s

/-- Result of running a piece of code: crash points visited (state before every call, in order),
final state, and whether it ran to its end (`false` = an error return). -/
structure Run where
  points : List St
  final : St
  ok : Bool

/-- Runs events until the first failing call; everything after it is skipped (`?`). -/
def run : List Ev → St → Run
  | [], s => ⟨[], s, true⟩
  | .fail :: _, s => ⟨[s], s, false⟩
  | e :: es, s =>
    let r := run es (step e s)
    ⟨s :: r.points, r.final, r.ok⟩

/-- A bracketed operation: `let id = storage.transaction(); body…?; storage.commit(id)?` -/
def br (body : List Ev) : List Ev := Ev.begin :: body ++ [Ev.commit]

/-- No `commit` without a matching earlier `begin` (relative nesting `r`). Every piece of code that
is built from `br` satisfies it; an early error return only cuts a suffix off. -/
def wellNested : Nat → List Ev → Bool
  | _, [] => true
  | r, .begin :: es => wellNested (r + 1) es
  | 0, .commit :: _ => false
  | r + 1, .commit :: es => wellNested r es
  | r, .write _ _ :: es => wellNested r es
  | r, .nop :: es => wellNested r es
  | r, .fail :: es => wellNested r es

/-- `Storage::commit_outermost(id)` (proposed fix): close every transaction nested in `id`
that an early error return left open, then `end_transaction(id)`. -/
def St.commitOutermost (s : St) (id : Nat) (flushOk : Bool := true) : St :=
  let s' := if s.depth > id then { s with depth := id } else s
  if s'.depth ≠ id then s' else s'.commit flushOk

/-- `transaction.commit()` (no storage events) if the closure succeeded, else `transaction.rollback()`
(the storage events `undo` of `DbImpl::rollback`). -/
def finish (ok : Bool) (undo : List Ev) (s : St) : Run :=
  match ok with
  | true => ⟨[], s, true⟩
  | false => run undo s

/-- A closure that TOLERATES failing queries (`let _ = t.exec_mut(q);` instead of `t.exec_mut(q)?`): each
query's storage events run until its first failing call (the `?` inside the query unwinds to the closure,
leaving that query's brackets open), the closure then goes on with the next query and returns `Ok`. -/
def runTol : List (List Ev) → St → St
  | [], s => s
  | q :: qs, s => runTol qs (run q s).final

/-- `transaction_mut` (with the fix) around a tolerant closure that returns `Ok`: `commit_outermost` on the
Ok path as well. -/
def txnFixedTol (queries : List (List Ev)) (s : St) : St :=
  (runTol queries s.begin).commitOutermost (s.depth + 1)

/-- the variant "plain `Storage::commit(id)` on the Ok path, `commit_outermost` only on the Err path"
(seeded change C32/s1) -/
def txnPlainCommitTol (queries : List (List Ev)) (s : St) : St :=
  (runTol queries s.begin).commit

/-- `DbImpl::transaction_mut` with the proposed fix: one storage transaction around the closure and
the commit/rollback of the undo stack. `closure` = storage events of the closure, `undo` = storage
events of `DbImpl::rollback`, `closureOk` = the closure's own result. -/
def txnFixed (closure undo : List Ev) (closureOk : Bool) (s : St) (flushOk : Bool := true) : Run :=
  let id := s.depth + 1
  let r1 := run closure s.begin
  let ok := r1.ok && closureOk
  let r2 := finish ok undo r1.final
  let s4 := r2.final.commitOutermost id flushOk
  ⟨s :: r1.points ++ r2.points ++ [r2.final], s4, ok⟩

/-- `DbImpl::transaction_mut` as in the unchanged code: no storage transaction of its own, so every
storage-level operation of the closure commits by itself. -/
def txnLegacy (closure undo : List Ev) (closureOk : Bool) (s : St) : Run :=
  let r1 := run closure s
  let ok := r1.ok && closureOk
  let r2 := finish ok undo r1.final
  ⟨r1.points ++ r2.points, r2.final, ok⟩

/-- All states a crash can leave behind during a step: the visited crash points and the final state. -/
def Run.crashStates (r : Run) : List St := r.points ++ [r.final]

/-- Positions (indexes into `crashStates`) at which the log is empty. -/
def Run.walFlags (r : Run) : List Bool := r.crashStates.map (fun s => s.log.isEmpty)

/-- number of commit points among consecutive crash states: the log goes from non-empty to empty -/
def countCommits : List St → Nat
  | a :: b :: rest => (if !a.log.isEmpty && b.log.isEmpty then 1 else 0) + countCommits (b :: rest)
  | _ => 0

def Run.commitPoints (r : Run) : Nat := countCommits r.crashStates

/-- no successful `write` is executed before the first failing call (or before the end) -/
def noWriteBeforeFail : List Ev → Bool
  | [] => true
  | .fail :: _ => true
  | .write _ _ :: _ => false
  | _ :: es => noWriteBeforeFail es

/-- One `exec_mut` / `transaction_mut` call of a history. -/
structure TxnStep where
  closure : List Ev
  undo : List Ev
  closureOk : Bool

/-- Well-formedness of a step: closure and rollback are built from bracketed operations. -/
def TxnStep.WF (t : TxnStep) : Prop := wellNested 0 t.closure = true ∧ wellNested 0 t.undo = true

/-- `(image before the step, image after the step, crash state)` for every crash point of every
step of a history run with the fixed `transaction_mut`. -/
def histCrash : List TxnStep → St → List (Img × Img × St)
  | [], _ => []
  | t :: ts, s =>
    let r := txnFixed t.closure t.undo t.closureOk s
    r.crashStates.map (fun p => (s.data, r.final.data, p)) ++ histCrash ts r.final

/-- final state of a history -/
def histFinal : List TxnStep → St → St
  | [], s => s
  | t :: ts, s => histFinal ts (txnFixed t.closure t.undo t.closureOk s).final

/-- The same history on the unchanged code. -/
def histFinalLegacy : List TxnStep → St → St
  | [], s => s
  | t :: ts, s => histFinalLegacy ts (txnLegacy t.closure t.undo t.closureOk s).final

end AgdbCrash
