/-
C07: the open path over ARBITRARY bytes, with explicit outcomes (Rust debug semantics).

Modelled (function for function): `WriteAheadLog::{skip_record, repair, read_record, records}`
(write_ahead_log.rs), `FileStorage::{apply_wal, read}` (file_storage.rs), `MemoryStorage::read`
(memory_storage.rs), `FileStorageMemoryMapped::new`, `Storage::{read_record, extract_version,
validate_or_update_version (version check only), read_records}` (storage.rs) and
`StorageRecords::set_record` (storage_records.rs: growth of the record table by an untrusted index).
Bytes are modelled as natural numbers (the driver feeds values < 256).
NOT modelled (the model answers `beyond`): the version-0 upgrade path / creation of a new database,
`DbImpl::try_new_with_storage` and everything after it, files grown by the log beyond 64 KiB.

`fixed = true` mirrors the code with `proposed_fixes/C07-open-path-bounds.diff`;
`fixed = false` is the unchanged code (kept for the counterexample theorems).
-/
namespace AgdbCrash.Open

inductive ErrKind where
  | io | outOfBounds | notEnoughData | notAllowed
  deriving DecidableEq, Repr

inductive Outcome (α : Type) where
  | ok (a : α)
  | err (k : ErrKind)
  | panic (site : String)
  | hugeAlloc (site : String)
  | outOfFuel
  /-- the run left the modelled part of the code -/
  | beyond
  deriving Repr, DecidableEq

/-- allocations above this are reported instead of performed (harness: 256 MiB) -/
def allocLimit : Nat := 256 * 1024 * 1024

def u64Max : Nat := 2 ^ 64

/-- little-endian u64 at `pos`; `none` if fewer than 8 bytes are available -/
def u64At (bs : List Nat) (pos : Nat) : Option Nat :=
  let s := (bs.drop pos).take 8
  if s.length = 8 then some (s.foldr (fun b acc => b + 256 * acc) 0) else none

inductive Variant where
  | file | mmap | memory
  deriving DecidableEq, Repr

-- write_ahead_log.rs ---------------------------------------------------------------------------

/-- `WriteAheadLog::skip_record` at cursor `pos`: the new cursor position, or an error.
Unchanged code: `seek(Current(value_size as i64))` — a size ≥ 2^63 is a NEGATIVE offset. -/
def skipRecord (fixed : Bool) (wal : List Nat) (pos : Nat) : Outcome Nat :=
  match u64At wal (pos + 8) with
  | none => .err .io
  | some v =>
    if fixed then
      if wal.length - (pos + 16) < v then .err .outOfBounds else .ok (pos + 16 + v)
    else if v < 2 ^ 63 then .ok (pos + 16 + v)
    else if pos + 16 + v < u64Max then .err .io      -- seek before the start of the file
    else .ok (pos + 16 + v - u64Max)

/-- `WriteAheadLog::repair`: the length the log is truncated to. -/
def repairLoop (fixed : Bool) (wal : List Nat) : Nat → Nat → Outcome Nat
  | 0, _ => .outOfFuel
  | fuel + 1, pos =>
    if pos < wal.length then
      match skipRecord fixed wal pos with
      | .ok newPos => if newPos > wal.length then .ok pos else repairLoop fixed wal fuel newPos
      | _ => .ok pos
    else .ok wal.length

def repair (fixed : Bool) (wal : List Nat) : Outcome (List Nat) :=
  match repairLoop fixed wal (wal.length + 1) 0 with
  | .ok n => .ok (wal.take n)
  | .outOfFuel => .outOfFuel
  | .err k => .err k
  | .panic s => .panic s
  | .hugeAlloc s => .hugeAlloc s
  | .beyond => .beyond

/-- `WriteAheadLog::records` (`read_record` per record). Unchanged code: `vec![0; size]` before
the bytes are known to exist. -/
def recordsLoop (fixed : Bool) (wal : List Nat) : Nat → Nat → Outcome (List (Nat × List Nat))
  | 0, _ => .outOfFuel
  | fuel + 1, pos =>
    if pos < wal.length then
      match u64At wal pos, u64At wal (pos + 8) with
      | some p, some v =>
        if fixed && wal.length - (pos + 16) < v then .err .outOfBounds
        else if !fixed && v ≥ 2 ^ 63 then .panic "agdb::storage::write_ahead_log::WriteAheadLog::read_exact"   -- capacity overflow
        else if !fixed && v > allocLimit then .hugeAlloc "agdb::storage::write_ahead_log::WriteAheadLog::read_exact"
        else if wal.length - (pos + 16) < v then .err .io
        else
          match recordsLoop fixed wal fuel (pos + 16 + v) with
          | .ok rs => .ok ((p, (wal.drop (pos + 16)).take v) :: rs)
          | o => o
      | _, _ => .err .io
    else .ok []

def records (fixed : Bool) (wal : List Nat) : Outcome (List (Nat × List Nat)) :=
  recordsLoop fixed wal (wal.length + 1) 0

/-- files the model is willing to materialise -/
def sparseLimit : Nat := 64 * 1024

/-- `FileStorage::apply_wal_record` -/
def applyRecord (data : List Nat) (r : Nat × List Nat) : Option (List Nat) :=
  if r.2.isEmpty then
    if r.1 ≤ data.length then some (data.take r.1)
    else if r.1 > sparseLimit then none
    else some (data ++ List.replicate (r.1 - data.length) 0)
  else if r.1 + r.2.length > sparseLimit then none
  else
    let padded := if r.1 > data.length then data ++ List.replicate (r.1 - data.length) 0 else data
    some (padded.take r.1 ++ r.2 ++ padded.drop (r.1 + r.2.length))

/-- `FileStorage::apply_wal`: newest first -/
def applyWal (data : List Nat) : List (Nat × List Nat) → Option (List Nat)
  | [] => some data
  | r :: older =>
    match applyWal data older with     -- list is oldest-first; apply the newer ones first
    | some d => applyRecord d r
    | none => none

/-- newest-first application of an oldest-first list -/
def applyWalNewestFirst (data : List Nat) (rs : List (Nat × List Nat)) : Option (List Nat) :=
  rs.reverse.foldl (fun acc r => match acc with | some d => applyRecord d r | none => none) (some data)

-- storage.rs -----------------------------------------------------------------------------------

/-- `StorageData::read(pos, len)` bounds behaviour of the back-end that serves reads -/
def readCheck (fixed : Bool) (mem : Bool) (len pos n : Nat) : Outcome Unit :=
  if pos + n ≥ u64Max then
    (if fixed then .err .outOfBounds
     else if mem then .panic "agdb::storage::memory_storage::MemoryStorage::read" else .panic "agdb::storage::file_storage::FileStorage::read")
  else if pos + n ≤ len then .ok ()
  else if fixed then .err .outOfBounds
  else if mem then .panic "agdb::storage::memory_storage::MemoryStorage::read"
  else if n > allocLimit then .hugeAlloc "agdb::storage::file_storage::FileStorage::read"
  else .err .io

/-- tables above this many entries (24 MiB) are not followed by the model: zero-filling and
`rebuild_free_index` over them take seconds, the outcome is left to the implementation (`beyond`) -/
def slowTable : Nat := 2 ^ 20

/-- `StorageRecords::set_record`: the table (`Vec<StorageRecord>`, 24-byte entries, state = length and
capacity) is resized to `index + 1` entries; `Vec` grows to `max(2 * cap, required, 4)`. -/
def setRecordCheck (table : Nat × Nat) (index : Nat) : Outcome (Nat × Nat) :=
  if index = 0 then .ok table
  else if table.1 ≤ index then
    if index + 1 ≥ u64Max then .panic "agdb::storage::storage_records::StorageRecords::set_record"
    else if index + 1 ≤ table.2 then .ok (index + 1, table.2)
    else
      let newCap := max (max (2 * table.2) (index + 1)) 4
      if newCap * 24 ≥ 2 ^ 63 then .panic "agdb::storage::storage_records::StorageRecords::set_record"
      else if newCap * 24 > allocLimit then
        .hugeAlloc "agdb::storage::storage_records::StorageRecords::set_record"
      else if newCap > slowTable then .beyond
      else .ok (index + 1, newCap)
  else .ok table

/-- the `while current_pos < end` loop of `Storage::read_records`; returns the number of records -/
def readRecordsLoop (fixed mem : Bool) (data : List Nat) : Nat → Nat → Nat × Nat → Nat → Outcome Nat
  | 0, _, _, _ => .outOfFuel
  | fuel + 1, pos, table, count =>
    if pos < data.length then
      match readCheck fixed mem data.length pos 16 with
      | .ok () =>
        match u64At data pos, u64At data (pos + 8) with
        | some index, some size =>
          if data.length - pos + 16 < size then .err .outOfBounds
          else
            match setRecordCheck table index with
            | .ok table' => readRecordsLoop fixed mem data fuel (pos + 16 + size) table' (count + 1)
            | .panic s => .panic s
            | .hugeAlloc s => .hugeAlloc s
            | _ => .beyond
        | _, _ => .err .io
      | .err k => .err k
      | .panic s => .panic s
      | .hugeAlloc s => .hugeAlloc s
      | _ => .beyond
    else .ok count

/-- `Storage::read_records` (version check + record scan) -/
def readRecords (fixed mem : Bool) (data : List Nat) : Outcome Nat :=
  if data.length < 16 then .beyond        -- version 0: upgrade / new database
  else
    match u64At data 0, u64At data 8 with
    | some index, some size =>
      if index ≠ 0 then .beyond           -- version 0: upgrade path
      else if size < 8 then .err .notEnoughData
      else
        match readCheck fixed mem data.length 16 size with
        | .ok () =>
          match u64At data 16 with
          | some version =>
            if version > 1 then .err .notAllowed
            else if version = 0 then .beyond
            else readRecordsLoop fixed mem data (data.length + 1) 24 (1, 1) 0
          | none => .err .io
        | .err k => .err k
        | .panic s => .panic s
        | .hugeAlloc s => .hugeAlloc s
        | _ => .beyond
    | _, _ => .err .io

/-- `FileStorage::new` / `FileStorageMemoryMapped::new` / `MemoryStorage::new` followed by
`Storage::with_data` -/
def openStorage (fixed : Bool) (v : Variant) (data wal : List Nat) : Outcome Nat :=
  match v with
  | .memory => readRecords fixed true data      -- no log for the in-memory variant
  | _ =>
    match repair fixed wal with
    | .ok wal' =>
      match records fixed wal' with
      | .ok rs =>
        match applyWalNewestFirst data rs with
        | some data' => readRecords fixed (v == .mmap) data'
        | none => .beyond
      | .err k => .err k
      | .panic s => .panic s
      | .hugeAlloc s => .hugeAlloc s
      | .outOfFuel => .outOfFuel
      | .beyond => .beyond
    | .err k => .err k
    | .panic s => .panic s
    | .hugeAlloc s => .hugeAlloc s
    | .outOfFuel => .outOfFuel
    | .beyond => .beyond

/-- 8 little-endian bytes of `n` -/
def le64 (n : Nat) : List Nat :=
  (List.range 8).map (fun i => (n / 256 ^ i) % 256)

/-- a valid 24-byte file prefix: version record (index 0, size 8, version 1) -/
def versionHeader : List Nat := le64 0 ++ le64 8 ++ le64 1

/-- the only site that stays after the proposed bound checks -/
def setRecordSite : String := "agdb::storage::storage_records::StorageRecords::set_record"

/-- acceptable outcome of the modelled prefix: ok / err / beyond, or a bad outcome at `set_record` -/
def Acceptable {α : Type} (o : Outcome α) : Prop :=
  match o with
  | .panic s => s = setRecordSite
  | .hugeAlloc s => s = setRecordSite
  | .outOfFuel => False
  | _ => True

/-- no panic, no huge allocation, no hang -/
def Total {α : Type} (o : Outcome α) : Prop :=
  match o with
  | .panic _ => False
  | .hugeAlloc _ => False
  | .outOfFuel => False
  | _ => True

/-- the line the driver prints -/
def Outcome.line : Outcome Nat → String
  | .ok _ => "beyond"          -- storage opened: the rest of the open path is not modelled
  | .err _ => "err"
  | .panic s => "panic:" ++ s
  | .hugeAlloc s => "hugealloc:" ++ s
  | .outOfFuel => "timeout"
  | .beyond => "beyond"

end AgdbCrash.Open
