import AgdbCrash.Props.C07
#print axioms AgdbCrash.Open.C07_open_total_partial
#print axioms AgdbCrash.Open.C07_wal_repair_total
#print axioms AgdbCrash.Open.C07_wal_records_total
#print axioms AgdbCrash.Open.C07_set_record_counterexample
#print axioms AgdbCrash.Open.C07_open_total_counterexample
#print axioms AgdbCrash.Open.C07_memory_read_panic_counterexample
#print axioms AgdbCrash.Open.C07_file_read_hugealloc_counterexample
#print axioms AgdbCrash.Open.C07_wal_repair_hang_counterexample
#print axioms AgdbCrash.Open.C07_wal_records_alloc_counterexample
