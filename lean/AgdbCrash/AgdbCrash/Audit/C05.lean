import AgdbCrash.Props.C05
#print axioms AgdbCrash.Frame.C05_frame
#print axioms AgdbCrash.Frame.C05_optimize_compact
#print axioms AgdbCrash.Frame.C05_vec_shrink_preserves
#print axioms AgdbCrash.Frame.C05_vec_from_storage_capacity_irrelevant
#print axioms AgdbCrash.Frame.C05_vec_open_image
#print axioms AgdbCrash.Frame.C05_open_image_partial
#print axioms AgdbCrash.Frame.C05_vecW_open_image
#print axioms AgdbCrash.Frame.C05_graph_open_image
#print axioms AgdbCrash.Frame.C05_map_open_image
#print axioms AgdbCrash.Frame.C05_store_open_image_partial
