import AgdbCrash.Props.C02
#print axioms AgdbCrash.C02_reopen_after_crash
#print axioms AgdbCrash.C02_counterexample
#print axioms AgdbCrash.C02_legacy_between_steps_partial
