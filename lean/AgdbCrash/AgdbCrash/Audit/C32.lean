import AgdbCrash.Props.C32
#print axioms AgdbCrash.C32_depth_restored
#print axioms AgdbCrash.C32_later_work_durable
#print axioms AgdbCrash.C32_stuck_transaction_counterexample
#print axioms AgdbCrash.C32_no_effect_counterexample
#print axioms AgdbCrash.C32_no_effect_partial
