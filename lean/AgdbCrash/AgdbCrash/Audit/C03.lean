import AgdbCrash.Props.C03
#print axioms AgdbCrash.C03_single_commit_point
#print axioms AgdbCrash.C03_atomic
#print axioms AgdbCrash.C03_history
#print axioms AgdbCrash.C03_counterexample
#print axioms AgdbCrash.C03_legacy_not_atomic_counterexample
