import AgdbCrash.Lemmas.Open
/-!
# C07 — opening or reading a damaged database file never crashes the process

Model: `Model/Open.lean` — the open path over ARBITRARY data and log bytes up to and including
`Storage::read_records`, for the three back-ends, with the outcome made explicit.
`fixed = true` is the code with `proposed_fixes/C07-open-path-bounds.diff`.
The part of the open path after `Storage::with_data` (`DbImpl::try_new_with_storage`, the
`from_storage` loaders, `DbValue::load_db_value`) and every read query are outside the model
(outcome `beyond`); the harness stream covers them and reports their sites as findings.
-/
namespace AgdbCrash.Open

/-- Full statement: the modelled open path never panics, never attempts a huge allocation and
always terminates, for every variant and every content of the data file and the log. -/
def C07_open_total_statement : Prop :=
  ∀ (v : Variant) (data wal : List Nat), Total (openStorage true v data wal)

/-- It is false even with the proposed bound checks: a record header with a huge index makes
`StorageRecords::set_record` resize the table to `index + 1` entries (the confirmed 103 GB
allocation).  40 bytes suffice. -/
theorem C07_set_record_counterexample :
    openStorage true .file (versionHeader ++ le64 (2 ^ 32) ++ le64 0) [] =
      .hugeAlloc "agdb::storage::storage_records::StorageRecords::set_record" := by
  decide +kernel

theorem C07_open_total_counterexample : ¬ C07_open_total_statement := by
  intro h
  have h1 : Total (openStorage true Variant.file (versionHeader ++ le64 (2 ^ 32) ++ le64 0) []) :=
    h _ _ _
  rw [C07_set_record_counterexample] at h1
  exact h1

/-- Proved part: with the bound checks, for every variant and ALL bytes, the modelled open path ends in
ok / err (or leaves the model), and the ONLY place where it can still panic or over-allocate is
`StorageRecords::set_record`; it never hangs. -/
theorem C07_open_total_partial (v : Variant) (data wal : List Nat) :
    Acceptable (openStorage true v data wal) := by
  unfold openStorage
  cases v with
  | memory => exact readRecords_acceptable true data
  | file =>
    obtain ⟨w, hw⟩ := repair_fixed_total wal
    rw [hw]
    simp only
    have hr := recordsLoop_total w w.length 0 (by omega)
    unfold records
    revert hr
    generalize recordsLoop true w (w.length + 1) 0 = r
    intro hr
    cases r with
    | ok rs =>
      simp only
      split
      · exact readRecords_acceptable _ _
      · trivial
    | err k => trivial
    | panic s => exact False.elim hr
    | hugeAlloc s => exact False.elim hr
    | outOfFuel => exact False.elim hr
    | beyond => trivial
  | mmap =>
    obtain ⟨w, hw⟩ := repair_fixed_total wal
    rw [hw]
    simp only
    have hr := recordsLoop_total w w.length 0 (by omega)
    unfold records
    revert hr
    generalize recordsLoop true w (w.length + 1) 0 = r
    intro hr
    cases r with
    | ok rs =>
      simp only
      split
      · exact readRecords_acceptable _ _
      · trivial
    | err k => trivial
    | panic s => exact False.elim hr
    | hugeAlloc s => exact False.elim hr
    | outOfFuel => exact False.elim hr
    | beyond => trivial

/-- The log is always repaired in finitely many steps and without allocation by untrusted length. -/
theorem C07_wal_repair_total (wal : List Nat) : ∃ w, repair true wal = .ok w :=
  repair_fixed_total wal

/-- Reading the repaired log back never panics, over-allocates or hangs. -/
theorem C07_wal_records_total (wal : List Nat) : Total (records true wal) :=
  recordsLoop_total wal wal.length 0 (by omega)

-- non-vacuity: a well-formed file and log pass through the modelled prefix
example : openStorage true .file (versionHeader ++ le64 1 ++ le64 8 ++ le64 7)
    (le64 24 ++ le64 8 ++ le64 1) = .ok 1 := by decide
example : openStorage true .memory (versionHeader ++ le64 1 ++ le64 8 ++ le64 7) [] = .ok 1 := by
  decide

/-! ## The unchanged code (`fixed = false`), one witness per site -/

/-- `MemoryStorage::read` slices without a bounds check: a file cut inside a record header panics
`DbMemory::new` / `Db::new`. -/
theorem C07_memory_read_panic_counterexample :
    openStorage false .memory (versionHeader ++ [1, 0, 0]) [] = .panic "agdb::storage::memory_storage::MemoryStorage::read" := by
  decide

/-- `FileStorage::read` allocates the untrusted size of the version record before reading. -/
theorem C07_file_read_hugealloc_counterexample :
    openStorage false .file (le64 0 ++ le64 (2 ^ 40) ++ le64 1) [] =
      .hugeAlloc "agdb::storage::file_storage::FileStorage::read" := by
  decide

/-- `WriteAheadLog::repair`: a record size of 2^64 − 16 is a seek back to the start of the record:
the loop never advances. -/
theorem C07_wal_repair_hang_counterexample :
    repair false (le64 0 ++ le64 (2 ^ 64 - 16)) = .outOfFuel := by
  decide

/-- `WriteAheadLog::records`: a size of 2^64 − 8 survives `repair` (negative seek lands inside the
file and the next 16 bytes parse as an empty record) and is then allocated by `read_exact`. -/
theorem C07_wal_records_alloc_counterexample :
    openStorage false .file versionHeader (le64 0 ++ le64 (2 ^ 64 - 8) ++ le64 0) =
      .panic "agdb::storage::write_ahead_log::WriteAheadLog::read_exact" := by
  decide

end AgdbCrash.Open
