import AgdbCrash.Lemmas.Frame
import AgdbCrash.Lemmas.Layouts
/-!
# C05 — reopening and maintenance operations preserve the database

Proof structure (DESIGN §6 C05): (i) frame lemma — every structure reads storage only through
`index ↦ bytes` (`abs`), and `optimize_storage`, `backup`, `copy`, `rename` do not change `abs`;
(ii) per-structure `from_storage` / `shrink_to_fit` lemmas: what is rebuilt from the bytes gives the
same observations.  (ii) is staged: proved here for `DbVec<u64>`-shaped values (length + fixed-size
elements: the layout of the graph vectors, of the map state/key/value arrays and of the index lists);
and, at the level of the whole store, for vectors of ANY fixed element width, for `GraphDataStorage`
(index record + four slot vectors) and for `DbMapData` (`MapDataIndex` + states/keys/values vectors), each
composed with the frame lemma (`C05_graph_open_image`, `C05_map_open_image`, `C05_store_open_image_partial`).
What the structures compute FROM those slot vectors is the business of C08 (graph arrays) and C19
(`MultiMap_refines`); `DbIndexes`, `DbKeyValues` (vectors of variable-size elements) and the byte-level
`read_records` (C04_reopen, group storage) are validated by the stream only.
-/
namespace AgdbCrash.Frame
open AgdbCrash.Open

/-- Frame lemma: whatever a structure computes from the storage (any function of `index ↦ bytes`),
it computes the same after optimize / backup / copy / rename. -/
theorem C05_frame {α : Type} (observe : (Nat → Option (List Nat)) → α) (m : Maint) (c : List Rec) :
    observe (abs (m.apply c)) = observe (abs c) := by
  cases m with
  | optimize =>
    have : abs (optimize c) = abs c := by
      funext i; exact abs_optimizeFrom c 24 i
    show observe (abs (optimize c)) = _
    rw [this]
  | backup => rfl
  | copy => rfl
  | rename => rfl

/-- `optimize_storage` leaves no gaps: records are laid out back to back from offset 24. -/
theorem C05_optimize_compact (r : Rec) (rs : List Rec) (p : Nat) :
    optimizeFrom p (r :: rs) = { r with pos := p } :: optimizeFrom (p + 16 + r.bytes.length) rs := rfl

/-- `shrink_to_fit` on a vector: cutting the unused capacity changes neither the length nor any
element a query can read. -/
theorem C05_vec_shrink_preserves (bytes : List Nat) : vecObserve (vecShrink bytes) = vecObserve bytes := by
  unfold vecObserve vecFromStorage vecShrink
  cases h : u64At bytes 0 with
  | none => simp [h]
  | some len =>
    have h0 : u64At (bytes.take (8 + 8 * len)) 0 = some len := by
      rw [u64At_take bytes 0 (8 + 8 * len) (by omega)]; exact h
    simp only [h0]
    congr 2
    apply List.map_congr_left
    intro i hi
    have hi' : i < len := by simpa using hi
    unfold vecValue
    simp only [hi', if_true]
    exact u64At_take bytes (8 + 8 * i) (8 + 8 * len) (by omega)

/-- `from_storage` rebuild: the cached capacity may differ (it is over-estimated from the value size),
the observations do not depend on it. -/
theorem C05_vec_from_storage_capacity_irrelevant (bytes : List Nat) (len cap : Nat)
    (h : vecFromStorage bytes = some (len, cap)) :
    vecObserve bytes = some (len, (List.range len).map (vecValue bytes len)) := by
  unfold vecObserve
  rw [h]

/-- `open_image` for the vector layout: what `from_storage` + `value(i)` rebuild from the bytes a live
vector (elements `elems`, any capacity ≥ its length) has written is exactly its length and elements. -/
theorem C05_vec_open_image (elems : List Nat) (cap : Nat) (hb : ∀ e ∈ elems, e < 2 ^ 64)
    (hl : elems.length < 2 ^ 64) :
    vecObserve (vecBytes elems cap) = some (elems.length, elems.map some) := by
  have h0 : u64At (vecBytes elems cap) 0 = some elems.length := u64At_le64 _ _ hl
  unfold vecObserve vecFromStorage
  rw [h0]
  simp only
  congr 2
  apply List.ext_getElem
  · simp
  · intro i h1 h2
    have hi : i < elems.length := by simpa using h1
    simp only [List.getElem_map, List.getElem_range]
    unfold vecValue vecBytes
    simp only [hi, if_true]
    have : 8 + 8 * i = (le64 elems.length).length + 8 * i := by rw [le64_length]
    rw [this, u64At_append_left, u64At_flatMap elems _ hb i hi]
    simp [hi]

/-- Full statement of (ii): EVERY structure's layout (`Layout`: live state ↦ bytes, bytes ↦ rebuilt
observations, live observations) rebuilds to the same observations. -/
def C05_open_image_statement (layouts : List Layout) : Prop :=
  ∀ L ∈ layouts, ∀ s : L.State, L.valid s → L.rebuild (L.toBytes s) = some (L.observe s)

/-- Proved part: the statement for the vector layout. Missing (validated by the stream only): the
open-addressing table of `MultiMapStorage` on top of its three vectors, `DbGraph`'s free list and
counts, `DbIndexes`, `DbKeyValues`, and the byte-level `read_records` (C04_reopen). -/
theorem C05_open_image_partial : C05_open_image_statement [vecLayout] := by
  intro L hL s hv
  simp only [List.mem_singleton] at hL
  subst hL
  exact C05_vec_open_image s.1 s.2 hv.1 hv.2

-- composite layouts at the level of the whole store ----------------------------------------------

/-- `open_image` for a vector of fixed-size elements of any width `w` (i64 slots, `DbId`s, 16-byte
`DbValueIndex`es, 1-byte map states), any content, any capacity. -/
theorem C05_vecW_open_image (w : Nat) (elems : List (List Nat)) (cap : Nat) (h : okVec w elems) :
    vecObserveW w (vecBytesW w elems cap) = some (vecObsOf elems) :=
  vecW_open_image w elems cap h

/-- `GraphDataStorage::from_storage` after any maintenance operation: from the five records a live
graph owns (wherever they lie in the file, whatever else the store holds in FRONT of them is excluded by
`Nodup` only for the graph's own indexes), the four slot vectors are rebuilt exactly — every length and
every slot. -/
theorem C05_graph_open_image (g : GraphSt) (ps : Nat → Nat) (m : Maint) (hv : g.valid) :
    graphRebuild (abs (m.apply (graphStore g ps))) g.root = some (graphObserve g) := by
  rw [C05_frame (fun st => graphRebuild st g.root) m]
  obtain ⟨hn, h1, h2, h3, h4, hf, ht, hfm, htm⟩ := hv
  simp only [List.nodup_cons, List.mem_cons, List.not_mem_nil, or_false, not_or, List.nodup_nil,
    and_true] at hn
  obtain ⟨⟨r1, r2, r3, r4⟩, ⟨a1, a2, a3⟩, ⟨b1, b2⟩, c1⟩ := hn
  have e0 : abs (graphStore g ps) g.root
      = some (le64 g.iFrom ++ (le64 g.iTo ++ (le64 g.iFromMeta ++ le64 g.iToMeta))) := by
    simp [abs, graphStore]
  have e1 : abs (graphStore g ps) g.iFrom = some (vecBytesW 8 g.from_ g.cFrom) := by
    simp [abs, graphStore, r1]
  have e2 : abs (graphStore g ps) g.iTo = some (vecBytesW 8 g.to_ g.cTo) := by
    simp [abs, graphStore, r2, a1]
  have e3 : abs (graphStore g ps) g.iFromMeta = some (vecBytesW 8 g.fromMeta g.cFromMeta) := by
    simp [abs, graphStore, r3, a2, b1]
  have e4 : abs (graphStore g ps) g.iToMeta = some (vecBytesW 8 g.toMeta g.cToMeta) := by
    simp [abs, graphStore, r4, a3, b2, c1]
  unfold graphRebuild
  rw [e0]
  simp only [u64At_le64 _ _ h1, u64At_le64_at8 _ _ _ h2, u64At_le64_at16 _ _ _ _ h3,
    u64At_le64_at24 _ _ _ _ h4, e1, e2, e3, e4, Option.bind_some,
    vecW_open_image 8 _ _ hf, vecW_open_image 8 _ _ ht, vecW_open_image 8 _ _ hfm,
    vecW_open_image 8 _ _ htm]
  rfl

/-- `DbMapData::from_storage` after any maintenance operation: `len` and the three slot vectors
(states, keys, values — element widths `wk`, `wv` arbitrary) are rebuilt exactly. -/
theorem C05_map_open_image (s : MapSt) (ps : Nat → Nat) (m : Maint) (hv : s.valid) :
    mapRebuild s.wk s.wv (abs (m.apply (mapStore s ps))) s.root = some (mapObserve s) := by
  rw [C05_frame (fun st => mapRebuild s.wk s.wv st s.root) m]
  obtain ⟨hn, hl, h1, h2, h3, hs, hk, hvv⟩ := hv
  simp only [List.nodup_cons, List.mem_cons, List.not_mem_nil, or_false, not_or, List.nodup_nil,
    and_true] at hn
  obtain ⟨⟨r1, r2, r3⟩, ⟨a1, a2⟩, b1⟩ := hn
  have e0 : abs (mapStore s ps) s.root
      = some (le64 s.len ++ (le64 s.iStates ++ (le64 s.iKeys ++ le64 s.iValues))) := by
    simp [abs, mapStore]
  have e1 : abs (mapStore s ps) s.iStates = some (vecBytesW 1 s.states s.cStates) := by
    simp [abs, mapStore, r1]
  have e2 : abs (mapStore s ps) s.iKeys = some (vecBytesW s.wk s.keys s.cKeys) := by
    simp [abs, mapStore, r2, a1]
  have e3 : abs (mapStore s ps) s.iValues = some (vecBytesW s.wv s.values s.cValues) := by
    simp [abs, mapStore, r3, a2, b1]
  have hlen : ¬ (le64 s.len ++ (le64 s.iStates ++ (le64 s.iKeys ++ le64 s.iValues))).length < 32 := by
    simp [le64_length]
  unfold mapRebuild
  rw [e0]
  simp only [hlen, if_false, u64At_le64 _ _ hl, u64At_le64_at8 _ _ _ h1, u64At_le64_at16 _ _ _ _ h2,
    u64At_le64_at24 _ _ _ _ h3, e1, e2, e3, Option.bind_some,
    vecW_open_image 1 _ _ hs, vecW_open_image s.wk _ _ hk, vecW_open_image s.wv _ _ hvv]
  rfl

/-- Full statement of (ii) at store level: every structure's records, after any maintenance operation,
rebuild to the live observations. -/
def C05_store_open_image_statement (layouts : List StoreLayout) : Prop :=
  ∀ L ∈ layouts, ∀ (s : L.State) (ps : Nat → Nat) (m : Maint), L.valid s →
    L.rebuild s (abs (m.apply (L.toStore s ps))) (L.root s) = some (L.observe s)

/-- Proved part: graph data and map data. Missing: `DbIndexes` / `DbKeyValues` (vectors whose elements
are themselves storage indexes of variable-size values) and the database root `DbStorageIndex`. -/
theorem C05_store_open_image_partial : C05_store_open_image_statement [graphLayout, mapLayout] := by
  intro L hL s ps m hv
  simp only [List.mem_cons, List.not_mem_nil, or_false] at hL
  rcases hL with rfl | rfl
  · exact C05_graph_open_image s ps m hv
  · exact C05_map_open_image s ps m hv

-- non-vacuity: a graph with one node (slot 0 + slot 1) meets the hypotheses
example : (⟨2, 3, 4, 5, 6, [le64 0, le64 0], [le64 0, le64 0], [le64 0, le64 0], [le64 1, le64 0], 2, 2, 2, 2⟩ : GraphSt).valid := by
  simp [GraphSt.valid, okVec, le64_length]
example : (⟨2, 1, 3, 4, 5, 8, 8, [[1], [0]], [le64 7, le64 0], [le64 9, le64 0], 2, 2, 2⟩ : MapSt).valid := by
  simp [MapSt.valid, okVec, le64_length]

-- non-vacuity
example : abs (optimize [⟨1, 100, [1, 2]⟩, ⟨2, 500, [3]⟩]) 2 = some [3] := by decide
example : (optimize [⟨1, 100, [1, 2]⟩, ⟨2, 500, [3]⟩]).map (·.pos) = [24, 42] := by decide
example : vecObserve (le64 2 ++ le64 7 ++ le64 9 ++ le64 0 ++ le64 0) = some (2, [some 7, some 9]) := by
  decide
example : (vecShrink (le64 2 ++ le64 7 ++ le64 9 ++ le64 0 ++ le64 0)).length = 24 := by decide

end AgdbCrash.Frame
