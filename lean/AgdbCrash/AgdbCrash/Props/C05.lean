import AgdbCrash.Lemmas.Frame
/-!
# C05 — reopening and maintenance operations preserve the database

Proof structure (DESIGN §6 C05): (i) frame lemma — every structure reads storage only through
`index ↦ bytes` (`abs`), and `optimize_storage`, `backup`, `copy`, `rename` do not change `abs`;
(ii) per-structure `from_storage` / `shrink_to_fit` lemmas: what is rebuilt from the bytes gives the
same observations.  (ii) is staged: proved here for `DbVec<u64>`-shaped values (length + fixed-size
elements: the layout of the graph vectors, of the map state/key/value arrays and of the index lists);
the hash-table level (`MultiMapStorage`), `DbGraph`, `DbIndexes`, `DbKeyValues` and the byte-level
`read_records` (C04_reopen, group storage) are validated by the stream only.
-/
namespace AgdbCrash.Frame
open AgdbCrash.Open

/-- Frame lemma: whatever a structure computes from the storage (any function of `index ↦ bytes`),
it computes the same after optimize / backup / copy / rename. -/
theorem C05_frame {α : Type} (observe : (Nat → Option (List Nat)) → α) (m : Maint) (c : List Rec) :
    observe (abs (m.apply c)) = observe (abs c) := by
  cases m with
  | optimize =>
    have : abs (optimize c) = abs c := by
      funext i; exact abs_optimizeFrom c 24 i
    show observe (abs (optimize c)) = _
    rw [this]
  | backup => rfl
  | copy => rfl
  | rename => rfl

/-- `optimize_storage` leaves no gaps: records are laid out back to back from offset 24. -/
theorem C05_optimize_compact (r : Rec) (rs : List Rec) (p : Nat) :
    optimizeFrom p (r :: rs) = { r with pos := p } :: optimizeFrom (p + 16 + r.bytes.length) rs := rfl

/-- `shrink_to_fit` on a vector: cutting the unused capacity changes neither the length nor any
element a query can read. -/
theorem C05_vec_shrink_preserves (bytes : List Nat) : vecObserve (vecShrink bytes) = vecObserve bytes := by
  unfold vecObserve vecFromStorage vecShrink
  cases h : u64At bytes 0 with
  | none => simp [h]
  | some len =>
    have h0 : u64At (bytes.take (8 + 8 * len)) 0 = some len := by
      rw [u64At_take bytes 0 (8 + 8 * len) (by omega)]; exact h
    simp only [h0]
    congr 2
    apply List.map_congr_left
    intro i hi
    have hi' : i < len := by simpa using hi
    unfold vecValue
    simp only [hi', if_true]
    exact u64At_take bytes (8 + 8 * i) (8 + 8 * len) (by omega)

/-- `from_storage` rebuild: the cached capacity may differ (it is over-estimated from the value size),
the observations do not depend on it. -/
theorem C05_vec_from_storage_capacity_irrelevant (bytes : List Nat) (len cap : Nat)
    (h : vecFromStorage bytes = some (len, cap)) :
    vecObserve bytes = some (len, (List.range len).map (vecValue bytes len)) := by
  unfold vecObserve
  rw [h]

/-- `open_image` for the vector layout: what `from_storage` + `value(i)` rebuild from the bytes a live
vector (elements `elems`, any capacity ≥ its length) has written is exactly its length and elements. -/
theorem C05_vec_open_image (elems : List Nat) (cap : Nat) (hb : ∀ e ∈ elems, e < 2 ^ 64)
    (hl : elems.length < 2 ^ 64) :
    vecObserve (vecBytes elems cap) = some (elems.length, elems.map some) := by
  have h0 : u64At (vecBytes elems cap) 0 = some elems.length := u64At_le64 _ _ hl
  unfold vecObserve vecFromStorage
  rw [h0]
  simp only
  congr 2
  apply List.ext_getElem
  · simp
  · intro i h1 h2
    have hi : i < elems.length := by simpa using h1
    simp only [List.getElem_map, List.getElem_range]
    unfold vecValue vecBytes
    simp only [hi, if_true]
    have : 8 + 8 * i = (le64 elems.length).length + 8 * i := by rw [le64_length]
    rw [this, u64At_append_left, u64At_flatMap elems _ hb i hi]
    simp [hi]

/-- Full statement of (ii): EVERY structure's layout (`Layout`: live state ↦ bytes, bytes ↦ rebuilt
observations, live observations) rebuilds to the same observations. -/
def C05_open_image_statement (layouts : List Layout) : Prop :=
  ∀ L ∈ layouts, ∀ s : L.State, L.valid s → L.rebuild (L.toBytes s) = some (L.observe s)

/-- Proved part: the statement for the vector layout. Missing (validated by the stream only): the
open-addressing table of `MultiMapStorage` on top of its three vectors, `DbGraph`'s free list and
counts, `DbIndexes`, `DbKeyValues`, and the byte-level `read_records` (C04_reopen). -/
theorem C05_open_image_partial : C05_open_image_statement [vecLayout] := by
  intro L hL s hv
  simp only [List.mem_singleton] at hL
  subst hL
  exact C05_vec_open_image s.1 s.2 hv.1 hv.2

-- non-vacuity
example : abs (optimize [⟨1, 100, [1, 2]⟩, ⟨2, 500, [3]⟩]) 2 = some [3] := by decide
example : (optimize [⟨1, 100, [1, 2]⟩, ⟨2, 500, [3]⟩]).map (·.pos) = [24, 42] := by decide
example : vecObserve (le64 2 ++ le64 7 ++ le64 9 ++ le64 0 ++ le64 0) = some (2, [some 7, some 9]) := by
  decide
example : (vecShrink (le64 2 ++ le64 7 ++ le64 9 ++ le64 0 ++ le64 0)).length = 24 := by decide

end AgdbCrash.Frame
