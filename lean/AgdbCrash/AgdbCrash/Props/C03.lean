import AgdbCrash.Model.Code
import AgdbCrash.Lemmas.Txn
/-!
# C03 — every mutating query and transaction is atomic across crashes

Model: `Model/Tx.lean` (transaction-depth semantics of `Storage` + `DbImpl::transaction_mut`),
`Model/Code.lean` (bracket structure of the storage-level operations).
Assumptions (not hypotheses of the theorems, but abstractions of the model): C04 — storage is a map
`cell ↦ content`; C01 — the byte-level log of `FileStorage` refines the abstract undo log, so that
`recover` is what a reopen after a crash sees.  Observational identity of equal images is C05.

The theorems are about the code WITH the proposed fix `proposed_fixes/C03-single-storage-transaction.diff`
(`txnFixed`); the unchanged code is `txnLegacy`, for which the property is false (`C03_counterexample`).
-/
namespace AgdbCrash

/-- Single commit point: with one storage transaction around `transaction_mut`, whatever the closure
and the rollback do (any number of nested storage operations, any early error return, closure
verdict `Ok` or `Err`), every crash point before the final commit recovers to the image before the
step, and the step ends quiescent (depth 0, log cleared, everything committed). -/
theorem C03_single_commit_point (closure undo : List Ev) (closureOk : Bool) (s : St)
    (hs : Clean s) (hc : wellNested 0 closure = true) (hu : wellNested 0 undo = true) :
    (∀ p ∈ (txnFixed closure undo closureOk s).points, recover p = s.data) ∧
    Clean (txnFixed closure undo closureOk s).final :=
  ⟨(txnFixed_single_commit closure undo closureOk s hs hc hu).1,
   (txnFixed_single_commit closure undo closureOk s hs hc hu).2.1⟩

/-- Atomicity: the image a reopen sees after a crash at ANY point of a mutating query / mutable
transaction (committed or rolled back) is the image before it or the image after it. -/
theorem C03_atomic (closure undo : List Ev) (closureOk : Bool) (s : St)
    (hs : Clean s) (hc : wellNested 0 closure = true) (hu : wellNested 0 undo = true) :
    ∀ p ∈ (txnFixed closure undo closureOk s).crashStates,
      recover p = s.data ∨ recover p = (txnFixed closure undo closureOk s).final.data := by
  intro p hp
  have h := C03_single_commit_point closure undo closureOk s hs hc hu
  simp only [Run.crashStates, List.mem_append, List.mem_singleton] at hp
  rcases hp with hp | hp
  · exact Or.inl (h.1 p hp)
  · right; rw [hp]; exact clean_recover _ h.2

/-- Whole histories: at every crash point of every step of any history the reopened image is the
image before or after THAT step — in particular everything completed before the interrupted step is
preserved. -/
theorem C03_history (steps : List TxnStep) :
    ∀ (s : St), Clean s → (∀ t ∈ steps, t.WF) →
      ∀ x ∈ histCrash steps s, recover x.2.2 = x.1 ∨ recover x.2.2 = x.2.1 := by
  induction steps with
  | nil => intro s _ _ x hx; simp [histCrash] at hx
  | cons t ts ih =>
    intro s hs hwf x hx
    have ht : t.WF := hwf t (by simp)
    simp only [histCrash, List.mem_append, List.mem_map] at hx
    rcases hx with ⟨p, hp, rfl⟩ | hx
    · exact C03_atomic t.closure t.undo t.closureOk s hs ht.1 ht.2 p hp
    · have hclean := (C03_single_commit_point t.closure t.undo t.closureOk s hs ht.1 ht.2).2
      exact ih _ hclean (fun t' ht' => hwf t' (by simp [ht'])) x hx

-- Non-vacuity: the storage events of `remove().ids(1)` on {1, 2, 1→2 with one value} and of an
-- insert of a node with a value are well nested, start from a reachable clean state, and really
-- contain several storage-level transactions.
example : wellNested 0 Code.removeNodeWithEdge = true := by decide
example : wellNested 0 Code.insertNodeWithValue = true := by decide
example : Clean St.init := clean_init
example : (txnFixed Code.removeNodeWithEdge [] true St.init).crashStates.length = 53 := by decide
example : (txnFixed Code.removeNodeWithEdge [] true St.init).final.data 0 = 1 := by decide

/-! ## The unchanged code -/

/-- On the unchanged code (`transaction_mut` opens no storage transaction) a crash between the two
operations of one query reopens to an image that is neither the one before (cell 1 differs) nor the
one after (cell 2 differs). -/
theorem C03_counterexample :
    ∃ p ∈ (txnLegacy Code.cexClosure [] true St.init).crashStates,
      recover p 1 ≠ St.init.data 1 ∧
      recover p 2 ≠ (txnLegacy Code.cexClosure [] true St.init).final.data 2 := by
  decide

/-- Hence the atomicity statement is false for `txnLegacy`. -/
theorem C03_legacy_not_atomic_counterexample :
    ¬ (∀ (closure undo : List Ev) (closureOk : Bool) (s : St), Clean s →
        wellNested 0 closure = true → wellNested 0 undo = true →
        ∀ p ∈ (txnLegacy closure undo closureOk s).crashStates,
          recover p = s.data ∨ recover p = (txnLegacy closure undo closureOk s).final.data) := by
  intro h
  obtain ⟨p, hp, h1, h2⟩ := C03_counterexample
  rcases h Code.cexClosure [] true St.init clean_init (by decide) (by decide) p hp with h' | h'
  · exact h1 (congrFun h' 1)
  · exact h2 (congrFun h' 2)

/-- The concrete shape behind the confirmed defect: the events of `remove().ids(1)` commit six
times on the unchanged code and once with the fix. -/
example : (txnLegacy Code.removeNodeWithEdge [] true St.init).commitPoints = 6 := by decide
example : (txnFixed Code.removeNodeWithEdge [] true St.init).commitPoints = 1 := by decide

end AgdbCrash
