import AgdbCrash.Model.Code
import AgdbCrash.Lemmas.Txn
import AgdbCrash.Props.C03
/-!
# C02 — a database interrupted by a crash always reopens and is fully readable

C02 = C01 (a crash recovers the image at the last outermost commit — built into `recover`, proved at byte
level by group `storage`) + C03 (the only commit point of a step is its end, so that image is the one
before or after the interrupted step) + "the image before/after a completed step is the image of a
consistent database" (L4 correctness of queries and of rollback: C08–C13) + C05 (`open_image`: a
consistent image opens and reads).  The last two are explicit hypotheses here.
-/
namespace AgdbCrash

/-- With the fixed `transaction_mut`: at every crash point of every history the recovered image opens
and is fully readable, provided (i) the starting image is consistent, (ii) every COMPLETED step
(committed or rolled back) maps a consistent image to a consistent image, (iii) consistent images
open and read (C05_open_image). -/
theorem C02_reopen_after_crash (Consistent opens : Img → Prop)
    (hopen : ∀ i, Consistent i → opens i) (steps : List TxnStep) :
    ∀ (s : St), Clean s → (∀ t ∈ steps, t.WF) → Consistent s.data →
      (∀ t ∈ steps, ∀ s', Clean s' → Consistent s'.data →
        Consistent (txnFixed t.closure t.undo t.closureOk s').final.data) →
      ∀ x ∈ histCrash steps s, opens (recover x.2.2) := by
  induction steps with
  | nil => intro s _ _ _ _ x hx; simp [histCrash] at hx
  | cons t ts ih =>
    intro s hs hwf h0 hstep x hx
    have ht : t.WF := hwf t (by simp)
    have hpost := hstep t (by simp) s hs h0
    simp only [histCrash, List.mem_append, List.mem_map] at hx
    rcases hx with ⟨p, hp, rfl⟩ | hx
    · rcases C03_atomic t.closure t.undo t.closureOk s hs ht.1 ht.2 p hp with h | h
      · show opens (recover p); rw [h]; exact hopen _ h0
      · show opens (recover p); rw [h]; exact hopen _ hpost
    · have hclean := (C03_single_commit_point t.closure t.undo t.closureOk s hs ht.1 ht.2).2
      exact ih _ hclean (fun t' ht' => hwf t' (by simp [ht'])) hpost
        (fun t' ht' => hstep t' (by simp [ht'])) x hx

-- non-vacuity: the hypotheses are satisfiable on a history that changes the image
example : Code.cexConsistent St.init.data := rfl
example : Code.cexConsistent (txnFixed Code.cexClosure [] true St.init).final.data := by
  show (txnFixed Code.cexClosure [] true St.init).final.data 1 = _
  decide

/-- Full statement for the unchanged code (false): the same conclusion for `txnLegacy`, single step. -/
def C02_legacy_statement : Prop :=
  ∀ (Consistent : Img → Prop) (closure : List Ev) (s : St), Clean s → wellNested 0 closure = true →
    Consistent s.data → Consistent (txnLegacy closure [] true s).final.data →
    ∀ p ∈ (txnLegacy closure [] true s).crashStates, Consistent (recover p)

/-- On the unchanged code a crash between the two storage transactions of one query recovers an image
that belongs to no consistent database (pointer written, target not). -/
theorem C02_counterexample : ¬ C02_legacy_statement := by
  intro h
  have h' := h Code.cexConsistent Code.cexClosure St.init clean_init (by decide) rfl (by
    show (txnLegacy Code.cexClosure [] true St.init).final.data 1 = _
    decide)
  -- the decided witness: some crash state recovers cell 1 ≠ cell 2
  have hw : ∃ q ∈ (txnLegacy Code.cexClosure [] true St.init).crashStates,
      recover q 1 ≠ recover q 2 := by decide
  obtain ⟨q, hq, hne⟩ := hw
  exact hne (h' q hq)

/-- Proved part for the unchanged code: crash points that fall between steps (quiescent states) and
inside a step that consists of a single bracketed storage operation recover a consistent image. The
general case is false (`C02_counterexample`). -/
theorem C02_legacy_between_steps_partial (Consistent : Img → Prop) (s : St) (hs : Clean s)
    (h0 : Consistent s.data) : Consistent (recover s) := by
  rw [clean_recover s hs]; exact h0

end AgdbCrash
