import AgdbCrash.Model.Code
import AgdbCrash.Lemmas.Txn
import AgdbCrash.Props.C03
/-!
# C32 — a failed write never corrupts or loses later committed work

Same model as C03 (`Model/Tx.lean`): a failing storage call is the event `fail`; the `?` after it
skips the rest of the closure (in particular the `commit`s of the brackets it is nested in), then
`transaction_mut` runs the logical rollback and — with the proposed fix
`C03-single-storage-transaction` — `Storage::commit_outermost`.

What is proved for the fixed code: the nesting depth is restored and the log cleared after EVERY step,
whatever fails where (`C32_depth_restored`), hence everything later steps write is committed and is
what a reopen sees (`C32_later_work_durable`).  What stays false (known findings
`C32/failed-query-has-effect/…`, `C32/unusable-after-failed-write/…`): "the failed query has no
effect" — the partial effect of the interrupted operation is neither in the undo stack nor undone
physically, and the in-memory caches are not reloaded (`C32_no_effect_counterexample`).
-/
namespace AgdbCrash

/-- After a step in which any storage call failed at any place (closure or rollback, any nesting
depth), `Storage::transactions` is back to 0 and the log is cleared. -/
theorem C32_depth_restored (closure undo : List Ev) (closureOk : Bool) (s : St)
    (hs : Clean s) (hc : wellNested 0 closure = true) (hu : wellNested 0 undo = true) :
    (txnFixed closure undo closureOk s).final.depth = 0 ∧
    (txnFixed closure undo closureOk s).final.log = [] := by
  have h := (C03_single_commit_point closure undo closureOk s hs hc hu).2
  exact ⟨h.1, h.2.1⟩

/-- Later work is durable: after any history — with failing calls in any of its steps — what a reopen
after close sees is exactly the final in-process image (nothing later is lost, nothing is torn). -/
theorem C32_later_work_durable (steps : List TxnStep) (s : St) (hs : Clean s)
    (hwf : ∀ t ∈ steps, t.WF) :
    recover (histFinal steps s) = (histFinal steps s).data ∧ (histFinal steps s).depth = 0 := by
  have h := histFinal_clean steps s hs hwf
  exact ⟨clean_recover _ h, h.1⟩

-- non-vacuity: a history whose first step fails inside a nested bracket, followed by a successful one
example : (∀ t ∈ [(⟨br (br [Ev.write 1 1, Ev.fail]), [], true⟩ : TxnStep), ⟨br [Ev.write 5 1], [], true⟩],
    t.WF) := by
  intro t ht
  simp only [List.mem_cons, List.mem_nil_iff, or_false] at ht
  rcases ht with rfl | rfl <;> exact ⟨by decide, by decide⟩
example : (histFinal [(⟨br (br [Ev.write 1 1, Ev.fail]), [], true⟩ : TxnStep), ⟨br [Ev.write 5 1], [], true⟩]
    St.init).data 5 = 1 := by decide

/-! ## The unchanged code -/

/-- On the unchanged code the early `?` return leaves the depth at 1; the later, successful step never
flushes: its work is in the data image but a reopen (log replay) does not see it. -/
theorem C32_stuck_transaction_counterexample :
    (histFinalLegacy Code.stuckHistory St.init).depth = 1 ∧
    (histFinalLegacy Code.stuckHistory St.init).log ≠ [] ∧
    (histFinalLegacy Code.stuckHistory St.init).data 5 = 1 ∧
    recover (histFinalLegacy Code.stuckHistory St.init) 5 = 0 := by
  decide

/-- Full statement of "a failed query has no effect" (at the level of the storage image). -/
def C32_no_effect_statement : Prop :=
  ∀ (closure undo : List Ev) (s : St), Clean s → wellNested 0 closure = true →
    wellNested 0 undo = true → (run closure s.begin).ok = false →
    (txnFixed closure undo true s).final.data = s.data

/-- It is false of the code even with the fix: the writes of the interrupted operation that preceded
the failing call are not part of the undo stack (`DbImpl::rollback` only reverts completed commands). -/
theorem C32_no_effect_counterexample : ¬ C32_no_effect_statement := by
  intro h
  have := h (br [Ev.write 1 1, Ev.fail]) [] St.init clean_init (by decide) (by decide) (by decide)
  exact absurd (congrFun this 1) (by decide)

/-- Proved part: a failure that hits before any write of the query took place (first storage call of
the first operation, or a failing read) and whose rollback writes nothing leaves the image unchanged. -/
theorem C32_no_effect_partial (closure undo : List Ev) (closureOk : Bool) (s : St) (hs : Clean s)
    (hc : wellNested 0 closure = true) (hu : wellNested 0 undo = true)
    (h1 : noWriteBeforeFail closure = true) (h2 : noWriteBeforeFail undo = true) :
    (txnFixed closure undo closureOk s).final.data = s.data := by
  rw [(txnFixed_single_commit closure undo closureOk s hs hc hu).2.2]
  have e1 : (run closure s.begin).final.data = s.data := by
    rw [run_noWrite_data closure s.begin h1]; rfl
  cases hok : ((run closure s.begin).ok && closureOk) with
  | true => simpa [finish] using e1
  | false =>
    show (run undo (run closure s.begin).final).final.data = s.data
    rw [run_noWrite_data undo _ h2, e1]

example : noWriteBeforeFail (br (br [Ev.fail, Ev.write 1 1])) = true := by decide

-- tolerant closures (a failed query's error is swallowed by the closure, which returns Ok) -------------

theorem wellNested_zero_any (es : List Ev) (h : wellNested 0 es = true) : ∀ r, wellNested r es = true := by
  intro r
  induction r with
  | zero => exact h
  | succ r ih => exact wellNested_mono es r ih

theorem runTol_inside (qs : List (List Ev)) :
    ∀ s : St, 1 ≤ s.depth → (∀ q ∈ qs, wellNested 0 q = true) → Inv s →
      1 ≤ (runTol qs s).depth ∧ Inv (runTol qs s) ∧ (runTol qs s).committed = s.committed := by
  induction qs with
  | nil => intro s hd _ hi; exact ⟨hd, hi, rfl⟩
  | cons q qs ih =>
    intro s hd hq hi
    have hw : wellNested (s.depth - 1) q = true := wellNested_zero_any q (hq q (by simp)) _
    have h := run_inside q s 1 (s.depth - 1) (by omega) (by omega) hw hi
    obtain ⟨_, hi', hc', hd'⟩ := h
    have h2 := ih (run q s).final hd' (fun q' hq' => hq q' (by simp [hq'])) hi'
    simp only [runTol]
    exact ⟨h2.1, h2.2.1, by rw [h2.2.2, hc']⟩

/-- `C32_depth_restored` for closures that swallow the error of a failed query and return Ok: whatever
brackets the failed queries left open (any number of queries, any failing call in each), the step ends
with `Storage::transactions = 0`, the log cleared and the in-process image committed — because
`transaction_mut` closes with `commit_outermost` on the Ok path too. -/
theorem C32_depth_restored_tolerant (qs : List (List Ev)) (s : St) (hs : Clean s)
    (hq : ∀ q ∈ qs, wellNested 0 q = true) :
    (txnFixedTol qs s).depth = 0 ∧ (txnFixedTol qs s).log = [] ∧
    (txnFixedTol qs s).committed = (txnFixedTol qs s).data := by
  have hb : 1 ≤ s.begin.depth := by simp [St.begin]
  have h := runTol_inside qs s.begin hb hq (inv_begin s (clean_inv s hs))
  unfold txnFixedTol
  rw [hs.1, Nat.zero_add, commitOutermost_flush _ h.1]
  exact ⟨rfl, rfl, rfl⟩

/-- Without `commit_outermost` on the Ok path (seeded change C32/s1) the counter stays up: one query that
fails inside its bracket, swallowed by the closure. Every later query then runs nested and is never
flushed. -/
theorem C32_plain_commit_tolerant_counterexample :
    (txnPlainCommitTol [[Ev.begin, Ev.write 1 1, Ev.fail, Ev.commit]] St.init).depth = 1 := by decide

example : (txnFixedTol [[Ev.begin, Ev.write 1 1, Ev.fail, Ev.commit], br [Ev.write 2 2]] St.init).depth = 0 := by decide

end AgdbCrash
