import AgdbCrash.Model.Driver
open AgdbCrash

structure MState where
  prop : String := ""
  tx : Driver.DState := {}

def processLine (m : MState) (line : String) : MState × String :=
  let l := line.trimAscii.toString
  match l.splitOn " " with
  | ["case", n] =>
    match n.toNat? with
    | some _ => ({ prop := m.prop, tx := { prop := m.prop } }, l)
    | none => (m, "bad-op")
  | ["prop", p] =>
    if p = "C03" || p = "C02" || p = "C32" || p = "C07" || p = "C05" then
      ({ prop := p, tx := { m.tx with prop := p } }, l)
    else (m, "bad-op")
  | _ =>
    if m.prop = "C03" || m.prop = "C02" || m.prop = "C32" then
      let (tx, out) := Driver.handle m.tx l
      ({ m with tx := tx }, out)
    else (m, "bad-op")

partial def loop (h : IO.FS.Stream) (out : IO.FS.Stream) (m : MState) : IO Unit := do
  let line ← h.getLine
  if line.isEmpty then
    return ()
  let (m', o) := processLine m line
  out.putStrLn o
  loop h out m'

def main : IO Unit := do
  let stdin ← IO.getStdin
  let stdout ← IO.getStdout
  loop stdin stdout {}
