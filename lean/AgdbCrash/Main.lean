import AgdbCrash.Model.Driver
import AgdbCrash.Model.Open
import AgdbCrash.Model.Frame
open AgdbCrash

def hexVal (c : Char) : Option Nat :=
  if c.isDigit then some (c.toNat - '0'.toNat)
  else if 'a' ≤ c && c ≤ 'f' then some (c.toNat - 'a'.toNat + 10)
  else none

def unhex (s : String) : Option (List Nat) :=
  if s = "-" then some [] else
  let rec go (cs : List Char) (acc : List Nat) : Option (List Nat) :=
    match cs with
    | [] => some acc.reverse
    | [_] => none
    | a :: b :: rest =>
      match hexVal a, hexVal b with
      | some x, some y => go rest ((x * 16 + y) :: acc)
      | _, _ => none
  go s.toList []

/-- `open <variant> <data hex> <log hex>` -/
def handleOpen (l : String) : String :=
  match l.splitOn " " with
  | ["open", v, d, w] =>
    let variant : Option Open.Variant :=
      if v = "file" then some .file else if v = "mmap" then some .mmap
      else if v = "memory" then some .memory else none
    match variant, unhex d, unhex w with
    | some v, some d, some w => (Open.openStorage true v d w).line
    | _, _, _ => "bad-op"
  | _ => "bad-op"

structure MState where
  prop : String := ""
  /-- C05: the current variant is an in-memory one -/
  memory : Bool := false
  tx : Driver.DState := {}

/-- C05 lines: `new <variant>`, `q|t … | <res>`, `m <op>` -/
def handleMaint (m : MState) (l : String) : MState × String :=
  match l.splitOn " | " with
  | [cmd, hint] =>
    let first := (cmd.splitOn " ").headD ""
    if first = "q" || first = "t" then (m, hint.trimAscii.toString) else (m, "bad-op")
  | [cmd] =>
    match cmd.splitOn " " with
    | ["new", v] =>
      if v = "mmap" || v = "file" || v = "any_mmap" || v = "any_file" then ({ m with memory := false }, "ok")
      else if v = "memory" || v = "any_memory" then ({ m with memory := true }, "ok")
      else (m, "bad-op")
    | ["m", op] =>
      -- C05_frame / C05_open_image: every applicable operation preserves all observations
      match Frame.applicable m.memory op with
      | some true => (m, "same")
      | some false => (m, "n/a")
      | none => (m, "bad-op")
    | _ => (m, "bad-op")
  | _ => (m, "bad-op")

def processLine (m : MState) (line : String) : MState × String :=
  let l := line.trimAscii.toString
  match l.splitOn " " with
  | ["case", n] =>
    match n.toNat? with
    | some _ => ({ prop := m.prop, memory := false, tx := { prop := m.prop } }, l)
    | none => (m, "bad-op")
  | ["prop", p] =>
    if p = "C03" || p = "C02" || p = "C32" || p = "C07" || p = "C05" then
      ({ m with prop := p, tx := { m.tx with prop := p } }, l)
    else (m, "bad-op")
  | _ =>
    if m.prop = "C03" || m.prop = "C02" || m.prop = "C32" then
      let (tx, out) := Driver.handle m.tx l
      ({ m with tx := tx }, out)
    else if m.prop = "C07" then (m, handleOpen l)
    else if m.prop = "C05" then handleMaint m l
    else (m, "bad-op")

partial def loop (h : IO.FS.Stream) (out : IO.FS.Stream) (m : MState) : IO Unit := do
  let line ← h.getLine
  if line.isEmpty then
    return ()
  let (m', o) := processLine m line
  out.putStrLn o
  loop h out m'

def main : IO Unit := do
  let stdin ← IO.getStdin
  let stdout ← IO.getStdout
  loop stdin stdout {}
