import AgdbCrash.Model.Tx
import AgdbCrash.Model.Code
import AgdbCrash.Lemmas.Tx
