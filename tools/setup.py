#!/usr/bin/env python3
"""MANIFEST.setup_cmd: build every Lean project and every harness crate from files on disk (offline)."""
import glob, os, subprocess, sys
sys.path.insert(0, os.path.dirname(os.path.abspath(__file__)))
import vlib
V = vlib.VERIF
rc = 0
import importlib.util, json
CLAIMED = set(json.load(open(os.path.join(V, "tools", "claimed.json"))))
seen = set()
for f in sorted(glob.glob(os.path.join(V, "tools", "props", "C*.py"))):
    sp = importlib.util.spec_from_file_location("m", f)
    m = importlib.util.module_from_spec(sp); sp.loader.exec_module(m)
    s = m.SPEC
    if s["id"] not in CLAIMED:
        continue
    proj = os.path.join(V, "lean", s["lean_project"])
    t = [s["props_module"], s["audit_file"][:-5].replace("/", ".")] + ([s["driver"]] if s.get("driver") else [])
    r = subprocess.run(["lake", "build"] + t, cwd=proj, stdout=subprocess.PIPE, stderr=subprocess.STDOUT, text=True)
    if r.returncode != 0:
        print("lake build %s failed:\n%s" % (t, r.stdout[-1500:])); rc = 1
    if s["group"] not in seen:
        seen.add(s["group"])
        os.makedirs(os.path.join(V, ".work", "setup"), exist_ok=True)
        ok, binp, tail = vlib.build_harness(s, os.path.join(V, ".work", "setup"))
        print("harness %s -> %s" % (s["group"], "ok" if ok else "FAILED"))
        if not ok:
            print(tail); rc = 1
    sfn = getattr(m, "setup", None)
    if sfn:
        try:
            sfn()
        except Exception as e:
            print("setup hook of %s failed: %s" % (s["id"], e)); rc = 1
sys.exit(rc)
