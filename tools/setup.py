#!/usr/bin/env python3
"""MANIFEST.setup_cmd: build every claimed check's Lean targets and harness crate from files on disk (offline).
Groups are built in parallel (separate lake projects / cargo target dirs)."""
import glob, importlib.util, json, os, subprocess, sys, threading
sys.path.insert(0, os.path.dirname(os.path.abspath(__file__)))
import vlib
V = vlib.VERIF
CLAIMED = set(json.load(open(os.path.join(V, "tools", "claimed.json"))))
specs = []
for f in sorted(glob.glob(os.path.join(V, "tools", "props", "C*.py"))):
    sp = importlib.util.spec_from_file_location("m", f)
    m = importlib.util.module_from_spec(sp); sp.loader.exec_module(m)
    if m.SPEC["id"] in CLAIMED:
        specs.append((m.SPEC, m))
        for ex in m.SPEC.get("extra_runs", []):
            sub = dict(m.SPEC); sub.update(ex); sub["id"] = m.SPEC["id"] + "-" + ex.get("name", "x")
            specs.append((sub, None))
rc = [0]
lock = threading.Lock()
def say(s):
    with lock:
        print(s, flush=True)
# constants first (they are inputs of the Lean builds)
for ext in glob.glob(os.path.join(V, "tools", "extract_consts_*.py")):
    subprocess.run([sys.executable, ext, vlib.REPO], cwd=V)
by_proj, by_group = {}, {}
for s, m in specs:
    t = [s["props_module"], s["audit_file"][:-5].replace("/", ".")] + list(s.get("extra_lean_targets", [])) + ([s["driver"]] if s.get("driver") else [])
    by_proj.setdefault(s["lean_project"], [])
    for x in t:
        if x not in by_proj[s["lean_project"]]:
            by_proj[s["lean_project"]].append(x)
    by_group.setdefault(s["group"], s)
def lean_job(proj, targets):
    r = subprocess.run(["lake", "build"] + targets, cwd=os.path.join(V, "lean", proj), stdout=subprocess.PIPE, stderr=subprocess.STDOUT, text=True)
    say("lake build %s (%d targets) -> %d" % (proj, len(targets), r.returncode))
    if r.returncode != 0:
        say(r.stdout[-2000:]); rc[0] = 1
def cargo_job(group, s):
    w = os.path.join(V, ".work", "setup-" + group)
    os.makedirs(w, exist_ok=True)
    ok, binp, tail = vlib.build_harness(s, w)
    say("harness %s -> %s" % (group, "ok" if ok else "FAILED"))
    if not ok:
        say(tail); rc[0] = 1
ths = [threading.Thread(target=lean_job, args=(p, t)) for p, t in by_proj.items()]
ths += [threading.Thread(target=cargo_job, args=(g, s)) for g, s in by_group.items()]
def server_bin_job():
    r = subprocess.run(["cargo", "build", "-p", "agdb_server", "--offline", "--target-dir", os.path.join(V, ".target", "server_bin")],
                       cwd=vlib.REPO, env=dict(os.environ, RUSTFLAGS="--cfg agdb_verif", CARGO_NET_OFFLINE="true"),
                       stdout=subprocess.PIPE, stderr=subprocess.STDOUT, text=True)
    say("agdb_server binary (cfg agdb_verif) -> %d" % r.returncode)
    if r.returncode != 0:
        say(r.stdout[-2000:]); rc[0] = 1
if "server" in by_group:
    ths.append(threading.Thread(target=server_bin_job))
for t in ths: t.start()
for t in ths: t.join()
for s, m in specs:
    fn = getattr(m, "setup", None) if m else None
    if fn:
        try:
            fn()
        except Exception as e:
            say("setup hook of %s failed: %s" % (s["id"], e)); rc[0] = 1
sys.exit(rc[0])
