#!/bin/bash
# tools/confirm_seed_diff.sh <prop> <name> <test filter>   -- for seeds whose demonstration is a unit-test diff (demo.diff) on the agdb_server binary.
# In ONE scratch worktree: demo passes on HEAD, fails with patch.diff; the unit tests of the binary (demo excluded) pass with the patch.
# The integration tests (agdb_server/tests) were run by the seeding agent (see meta.json "ran"); here only `--bin agdb_server` unless FULL=1.
set -u
PROP=$1; NAME=$2; FILTER=$3
DST=/verif/seeded/$PROP/$NAME
WT=/tmp/confirm_wt_srv; TGT=${TGT:-/tmp/confirm_target_srv}
git -C /repo worktree remove --force $WT 2>/dev/null
git -C /repo worktree add --detach $WT HEAD -q || exit 2
cd $WT
export CARGO_NET_OFFLINE=true
git apply $DST/demo.diff || { echo "demo.diff does not apply"; exit 2; }
run_demo() { timeout 3000 cargo test -p agdb_server --offline --target-dir $TGT --bin agdb_server -- --exact $FILTER 2>&1 | tail -12; }
echo "--- demo on HEAD" > $DST/confirm.log
run_demo >> $DST/confirm.log; grep -q "test result: ok. 1 passed" $DST/confirm.log && HEAD_OK=True || HEAD_OK=False
git apply $DST/patch.diff || echo "patch does not apply" >> $DST/confirm.log
echo "--- demo with patch" >> $DST/confirm.log
run_demo > $DST/.tmp; cat $DST/.tmp >> $DST/confirm.log
grep -q "test result: FAILED\|panicked" $DST/.tmp && PATCH_FAILS=True || PATCH_FAILS=False
echo "--- existing unit tests of the binary with patch (demo skipped)" >> $DST/confirm.log
timeout 3000 cargo test -p agdb_server --offline --target-dir $TGT --bin agdb_server -- --skip seed_demo 2>&1 | grep -E "^test result|FAILED|failed" > $DST/.tmp
cat $DST/.tmp >> $DST/confirm.log
if grep -Eq "FAILED|[1-9][0-9]* failed" $DST/.tmp; then TESTS_OK=False; else TESTS_OK=True; fi
grep -q "test result: ok" $DST/.tmp || TESTS_OK=False
rm -f $DST/.tmp
python3 - <<PY
import json
m=json.load(open("$DST/meta.json"))
m["confirmed_by_integrator"]={"repo_head":"$(git -C /repo rev-parse --short HEAD)","demo_passes_on_head":$HEAD_OK,"demo_fails_with_patch":$PATCH_FAILS,"existing_unit_tests_pass_with_patch":$TESTS_OK,"note":"integration tests agdb_server/tests: as run by the seeding agent (meta.ran); integrator re-ran the binary's unit tests only","command":"tools/confirm_seed_diff.sh"}
json.dump(m,open("$DST/meta.json","w"),indent=1)
print("$PROP/$NAME", m["confirmed_by_integrator"])
PY
cd /; git -C /repo worktree remove --force $WT
