#!/usr/bin/env python3
"""Regenerates DESIGN.md section 11 (between <!-- SEEDED:BEGIN/END -->) from seeded/*/*/meta.json, seeded/RESULTS.md (last row per
(property, change)) and seeded/NOTES.json (hand-written: what was strengthened for a change the checks first missed)."""
import glob, json, os, re
V = os.path.dirname(os.path.dirname(os.path.abspath(__file__)))
res = {}
for l in open(os.path.join(V, "seeded", "RESULTS.md")):
    c = [x.strip() for x in l.strip().strip("|").split("|")]
    if len(c) >= 4 and re.match(r"C\d\d$", c[0]):
        res[(c[0], c[1])] = (c[2], c[3])
notes = {}
try:
    notes = json.load(open(os.path.join(V, "seeded", "NOTES.json")))
except Exception:
    pass
rows = ["| property | change | what it does (file) | needs to manifest | confirmed (demo passes on HEAD / fails with change / existing tests pass) | check on the changed tree | remark |",
        "|---|---|---|---|---|---|---|"]
def short(s, n):
    s = " ".join(str(s).split()).replace("|", "/")
    return s if len(s) <= n else s[:n - 1] + "…"
for d in sorted(glob.glob(os.path.join(V, "seeded", "C*", "*"))):
    if not os.path.exists(os.path.join(d, "patch.diff")):
        continue
    prop, name = os.path.basename(os.path.dirname(d)), os.path.basename(d)
    try:
        m = json.load(open(os.path.join(d, "meta.json")))
    except Exception:
        m = {}
    files = sorted(set(re.findall(r"^\+\+\+ b/(\S+)", open(os.path.join(d, "patch.diff")).read(), re.M)))
    title = m.get("title") or m.get("summary") or m.get("what") or m.get("description") or ""
    needs = m.get("needs_to_manifest") or m.get("needs") or m.get("manifests_when") or ""
    c = m.get("confirmed_by_integrator", {})
    tests_ok = c.get("existing_tests_pass_with_patch", c.get("existing_unit_tests_pass_with_patch"))
    conf = "%s / %s / %s" % (c.get("demo_passes_on_head", "?"), c.get("demo_fails_with_patch", "?"), tests_ok if tests_ok is not None else "?")
    r = res.get((prop, name))
    if r is None:
        verdict = "not run"
    else:
        how = "oracle (concrete failing input)" if "-oracle.json" in r[1] else ("broken correspondence/proof, no-failing-input-found" if "no-failing-input-found" in r[1] else ("VIOLATION" if "rc=1" in r[0] else "MISSED"))
        verdict = "%s — %s" % (r[0], how)
    rows.append("| %s | %s | %s (`%s`) | %s | %s | %s | %s |" % (prop, name, short(title, 260), ", ".join(os.path.basename(f) for f in files), short(needs, 260), conf, verdict, notes.get(prop + "/" + name, "")))
p = os.path.join(V, "DESIGN.md")
s = open(p).read()
b, e = "<!-- SEEDED:BEGIN -->", "<!-- SEEDED:END -->"
if b in s:
    s = s[:s.index(b) + len(b)] + "\n" + "\n".join(rows) + "\n" + s[s.index(e):]
    open(p, "w").write(s)
print("\n".join(rows[:3]), "\n... %d rows" % (len(rows) - 2))
