#!/usr/bin/env python3
"""Regenerates MANIFEST.json from tools/props/*.py (claimed checks) + properties.jsonl (the rest -> not_applicable)."""
import glob, importlib.util, json, os, subprocess
V = os.path.dirname(os.path.dirname(os.path.abspath(__file__)))
props = [json.loads(l) for l in open(os.path.join(V, "properties.jsonl"))]
CLAIMED = set(json.load(open(os.path.join(V, "tools", "claimed.json"))))
specs = {}
for p in sorted(glob.glob(os.path.join(V, "tools", "props", "C*.py"))):
    sp = importlib.util.spec_from_file_location("m", p)
    m = importlib.util.module_from_spec(sp)
    sp.loader.exec_module(m)
    if m.SPEC["id"] in CLAIMED:
        specs[m.SPEC["id"]] = m.SPEC
na_path = os.path.join(V, "tools", "not_applicable.json")
na_reasons = json.load(open(na_path)) if os.path.exists(na_path) else {}
hooks_commits = []
try:
    out = subprocess.run(["git", "-C", "/repo", "log", "--format=%H %s"], capture_output=True, text=True).stdout
    hooks_commits = [l.split()[0] for l in out.splitlines() if "verif hook" in l.lower()]
except Exception:
    pass
engines = {}
checks = []
for p in props:
    s = specs.get(p["id"])
    if not s:
        continue
    eng = "lean4+" + s["group"]
    engines.setdefault(eng, {"name": eng, "path": "lean/%s + harness/%s" % (s["lean_project"], s["group"]),
                             "serves_properties": [], "kind_free_text":
                             "Lean 4 model + theorems (lake project) tied to the Rust code by a differential correspondence harness"})
    engines[eng]["serves_properties"].append(p["id"])
    checks.append({
        "property_id": p["id"],
        "quick_cmd": "./check %s --tier quick" % p["id"],
        "thorough_cmd": "./check %s --tier thorough" % p["id"],
        "evidence_file": "/verif/evidence/%s.json" % p["id"],
        "replay_cmd_template": "./check %s --replay {path}" % p["id"],
        "engine": eng,
        "level_claimed": {"category": s.get("level", "other"), "text": s.get("level_text", ""),
                          "design_ref": s.get("design_ref", "DESIGN.md §6 " + p["id"])},
        "level_note": s.get("level_note", ""),
        "technique": s.get("technique", "Lean 4 proof + correspondence check"),
    })
m = {
    "version": 1,
    "setup_cmd": "python3 tools/setup.py",
    "hooks": {
        "guard": "agdb_verif",
        "enable": "RUSTFLAGS=\"--cfg agdb_verif\" (set by tools/vlib.py for every harness build; hooks live in agdb/src/verif.rs and cfg-gated call sites)",
        "baseline_off_cmd": "cd /repo && cargo nextest run --workspace --no-fail-fast --tool-config-file pb:/w/lib/nextest.toml --profile pb --test-threads 8 --offline",
        "source_commits": hooks_commits,
        "add_only": True,
    },
    "engines": list(engines.values()),
    "checks": checks,
    "notes": "One Lean project + one Rust harness per property group; ./check <ID> runs proof verdict, correspondence verdict and oracle verdict (see DESIGN.md §3.3).",
    "not_applicable": [{"property_id": p["id"], "reason": na_reasons.get(p["id"], "check not finished in this round; planned theorem and tie in DESIGN.md §6")}
                       for p in props if p["id"] not in specs],
}
json.dump(m, open(os.path.join(V, "MANIFEST.json"), "w"), indent=1)
print("claimed:", [c["property_id"] for c in checks])
