"""Spec for C31 (group server). The harness builds the real agdb_server from $VERIF_REPO into
/verif/.target/server_bin (RUSTFLAGS --cfg agdb_verif) and starts one process per run."""

SPEC = {'id': 'C31',
 'group': 'server',
 'lean_project': 'AgdbServer',
 'driver': 'servermodel',
 'harness_bin': 'harness_server',
 'compare': 'lines',
 'props_module': 'AgdbServer.Props.C31',
 'audit_file': 'AgdbServer/Audit/C31.lean',
 'full_theorems': ['C31_once',
                   'C31_in_order_sequential',
                   'C31_in_order',
                   'C31_nodes_agree',
                   'C31_hook_order_seq'],
 'partial_theorems': [],
 'counterexamples': ['C31_order_counterexample',
                     'C31_nodes_diverge_counterexample',
                     'C31_hook_order_legacy_example'],
 'level': 'proof',
 'level_text': 'Machine-checked (Lean 4) over ALL event sequences (appends, commits with arbitrary indexes, '
               'scheduler choices): each committed entry is handed to the executor exactly once (both '
               'designs); with the single FIFO executor of the repaired code the executed sequence is '
               'exactly 1,2,…,k, so quiescent nodes with the same commit index executed the same sequence; '
               'the spawn-per-entry design is refuted by a decided two-entry schedule; the real binary (hook '
               'H3) is run under adversarial delay schedules and its printed execution order compared.',
 'level_note': 'Stream limitation (DESIGN §11, seeded C31/s1 missed): no failing actions and no node restart (replay of unexecuted logs by ClusterStorage::new) are driven. Holds for the code WITH proposed_fixes/C31-sequential-executor.diff (unchanged code: 39 of '
               "40 quick-tier schedules execute out of order, also with no injected delay). tokio's "
               "scheduler is abstracted as 'any runnable task may run'; crash/restart (re-execution of "
               'committed-but-unmarked entries in ClusterStorage::new) is outside the quantifier. Needs hook '
               'H3 (proposed_hooks/H3-server.diff).',
 'technique': 'transition system + inductive invariants (permutation for spawn-per-entry, list equality for '
              'FIFO); runtime schedule stress through a cfg(agdb_verif) entry point',
 'design_ref': 'DESIGN.md §6 C31',
 'assumptions': ['actions are deterministic functions of the server state',
                 'no crash between execution and log_executed'],
 'quick': {'extra_args': []},
 'thorough': {'extra_args': []}}
