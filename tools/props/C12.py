SPEC = {
    "id": "C12",
    "group": "codec",
    "lean_project": "AgdbCodec",
    "props_module": "AgdbCodec.Props.C12",
    "audit_file": "AgdbCodec/Audit/C12.lean",
    "full_theorems": ["C12_store_defined", "C12_roundtrip", "C12_stable", "C12_key_value_roundtrip", "C12_float_bits"],
    "partial_theorems": [],
    "counterexamples": [],
    "driver": "codecmodel",
    "harness_bin": "harness_codec",
    "level": "proof",
    "level_text": ("Lean 4 theorems C12_roundtrip / C12_key_value_roundtrip: for EVERY DbValue of all nine variants (any length — the "
                   "15/16-byte inline boundary is a case split of the proof —, floats as 64-bit patterns so every NaN payload and signed "
                   "zero is covered), store_db_value followed by load_db_value returns the same value, as key and as value of the 32-byte "
                   "DbKeyValue record, and keeps doing so after any later stores (C12_stable); the model has the exact 16-byte "
                   "DbValueIndex packing (type nibble, size nibble, inline payload / storage index) over an abstract index->bytes store, "
                   "out-of-line payloads are the C20 codec. Tie: the `kv` stream inserts generated keys/values through the public API into "
                   "DbMemory, DbFile and the memory-mapped Db, reads them back (plain select and select-by-key), reopens the files and reads "
                   "again; outputs are compared with the model, and the oracle checks bit-for-bit equality on the real code."),
    "level_note": ("Trusted: Lean kernel; model faithfulness (DbValueIndex is crate-private: its byte layout is compared byte for byte — "
                   "`vrt`/`vld` ops, incl. damaged indexes and the panic sites of load_db_value — only when the tree carries the optional "
                   "hook proposed_hooks/codec-value-index.diff, otherwise it is validated through behaviour only); the abstract store stands for Storage<D> (insert_bytes returns a fresh non-zero index, "
                   "value_as_bytes returns what was inserted — the storage layer's own properties C04/C05); persistence across reopen is "
                   "exercised by the harness only; std: from_utf8_lossy is the identity on valid UTF-8, f64 le-bytes bit-exact."),
    "technique": "Lean 4 proof over the concrete 16-byte index representation + abstract store; differential + oracle through the public API on three storage variants with reopen",
    "design_ref": "DESIGN.md §6 C12",
    "assumptions": ["Storage::insert_bytes returns an unused non-zero index < 2^64 and value_as_bytes returns the inserted bytes",
                    "serialized payload length < 2^64", "one property per fresh element (map semantics of several keys are C09)"],
    "quick": {"extra_args": []},
    "thorough": {"extra_args": []},
    "compare": "lines",
}
