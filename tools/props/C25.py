"""Spec for C25 (group server). The harness builds the real agdb_server from $VERIF_REPO into
/verif/.target/server_bin (RUSTFLAGS --cfg agdb_verif) and starts one process per run."""

SPEC = {'id': 'C25',
 'group': 'server',
 'lean_project': 'AgdbServer',
 'driver': 'servermodel',
 'harness_bin': 'harness_server',
 'compare': 'lines',
 'props_module': 'AgdbServer.Props.C25',
 'audit_file': 'AgdbServer/Audit/C25.lean',
 'full_theorems': ['C25_batch_atomic',
                   'C25_batch_all_or_nothing',
                   'C25_audit',
                   'C25_kind_table',
                   'C25_read_batch_pure', 'C25_rename_audit_dir'],
 'partial_theorems': [],
 'counterexamples': ['C25_rename_audit_dir_counterexample'],
 'level': 'proof',
 'level_text': 'Machine-checked (Lean 4): the exec_mut loop (one transaction around the whole batch, '
               'result-reference injection, audit vector) is all-or-nothing and produces exactly the '
               'mutating queries of the batch in order with the submitting user; a request answered with an '
               'error leaves the whole server state unchanged; compared line by line with a real agdb_server '
               '(results, audit endpoint) and checked by an independent before/after oracle.',
 'level_note': "Stream limitation (DESIGN §11, seeded C25/s2 missed): batches are built from 7 query kinds (no index queries); the audited-kind table C25_kind_table is tied to the code only through those kinds. The rollback of agdb's transaction_mut itself is property C13 (db group) and is assumed "
               'here; the query language in the stream is a 7-query fragment (insert nodes / aliases, '
               'remove, remove aliases, select ids / aliases / node count) with :N references.',
 'technique': 'functional model of UserDb::exec_mut + induction over the batch; differential run over HTTP '
              'incl. audit endpoint',
 'design_ref': 'DESIGN.md §6 C25',
 'assumptions': ['transaction_mut rolls back on error (C13)',
                 'audit file append succeeds after commit (no I/O fault in the quantifier)'],
 'quick': {'extra_args': []},
 'thorough': {'extra_args': []}}
