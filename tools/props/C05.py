SPEC = {
    "id": "C05",
    "group": "crash",
    "lean_project": "AgdbCrash",
    "props_module": "AgdbCrash.Props.C05",
    "audit_file": "AgdbCrash/Audit/C05.lean",
    "full_theorems": ["C05_frame", "C05_optimize_compact", "C05_vec_shrink_preserves",
                      "C05_vec_from_storage_capacity_irrelevant", "C05_vec_open_image",
                      "C05_vecW_open_image", "C05_graph_open_image", "C05_map_open_image"],
    "partial_theorems": ["C05_open_image_partial", "C05_store_open_image_partial"],
    "counterexamples": [],
    "driver": "crashmodel",
    "harness_bin": "harness_crash",
    "level": "other",
    "level_text": ("Lean 4: (i) frame lemma C05_frame — any observation that is a function of the storage abstraction index->bytes is unchanged "
                   "by optimize_storage (modelled as re-positioning of records), backup, copy and rename; (ii) staged per-structure lemmas: for the "
                   "vector layout (length + fixed-size elements) from_storage/value rebuild exactly the live length and elements for every content "
                   "and capacity (C05_vec_open_image), the over-estimated capacity is irrelevant and shrink_to_fit preserves every observation "
                   "(C05_vec_shrink_preserves). The full open_image statement over all layouts is kept as C05_open_image_statement and proved for "
                   "[vecLayout] only (C05_open_image_partial); at the level of the whole store (index->bytes, after ANY of the maintenance operations, "
                   "composed with the frame lemma) vectors of any fixed element width, GraphDataStorage (index record + four i64 slot vectors) and "
                   "DbMapData (MapDataIndex + states/keys/values vectors) rebuild exactly their live length and every slot "
                   "(C05_vecW_open_image, C05_graph_open_image, C05_map_open_image; C05_store_open_image_partial for [graphLayout, mapLayout]). Tie: generated histories on Db, DbFile, DbMemory and DbAny(x3) with reopen / optimize / "
                   "shrink_to_fit / backup+open / copy / rename / reopen-as-other-variant interleaved; oracle = deep canonical dump (elements, "
                   "values in order, aliases, indexes, index searches in result order, BFS/DFS in both directions from every node, keys, key counts) "
                   "before == after."),
    "level_note": ("Category other: DbIndexes, DbKeyValues (vectors of storage indexes of variable-size values), the database root DbStorageIndex and the "
                   "byte-level read_records (C04_reopen, group storage) are not modelled in this project; what graph and multimap compute FROM their slot "
                   "vectors is C08_arrays_refine / MultiMap_refines (other projects, composed by hand, not by Lean import); the composite layout "
                   "theorems are tied to the code only at observation level (the stream's before/after deep dump), not slot by slot."),
    "technique": "Lean 4 frame lemma + layout round-trip lemma; before/after full-dump differential on all database variants",
    "design_ref": "DESIGN.md §6 C05",
    "assumptions": ["C04: structures read storage only through index -> bytes (Storage::value*)",
                    "observations compared = the canonical deep dump of the harness"],
    "quick": {"extra_args": []},
    "thorough": {"extra_args": []},
    "compare": "lines",
}
