SPEC = {'id': 'C28',
 'group': 'raft',
 'lean_project': 'AgdbRaft',
 'driver': 'raftmodel',
 'harness_bin': 'harness_raft',
 'compare': 'lines',
 'props_module': 'AgdbRaft.Props.C28',
 'audit_file': 'AgdbRaft/Audit/C28.lean',
 'full_theorems': [],
 'partial_theorems': [],
 'counterexamples': ['C28_state_machine_safety_counterexample'],
 'level': 'other',
 'level_text': 'The global part of the property is FALSE of the code (also with the C27 repair): Lean theorem '
               'C28_state_machine_safety_counterexample refutes C28_state_machine_safety_statement with a 21-event schedule on 3 nodes '
               '(append_request accepts an entry of a newer term at log_index+1 without checking the previous entry, the leader counts that '
               "acknowledgement, and heartbeat_request then commits the follower's divergent prefix); the same schedule fails the harness oracle on "
               'the real code (corpus/C28) and random schedules hit it at three commit call sites. Known finding, no small repair (needs a '
               'prev-index/prev-term consistency check = wire format + Storage trait change). The model (Model/Raft.lean, one Lean function per '
               'raft.rs function; Model/Net.lean network + step) is tied to the code on every run: harness/raft/build.rs compiles the CURRENT '
               'agdb_server/src/raft.rs (cut at its test module, std::time::Instant replaced by a virtual clock, nothing else changed) into a '
               'deterministic simulator with an in-memory Storage that mirrors ClusterStorage/ClusterLog; generated adversarial schedules (tick / '
               'adv / deliver k / append, every message deliverable any number of times in any order or never) are executed on the real code and '
               'replayed by the Lean driver, and after EVERY event the complete state of every node (state, term, election timeout, log with commit '
               'flags, storage index/term/commit, per-peer log_index/log_term/log_commit/timer/voted) and every emitted request/response are '
               'compared. Oracle on the real code after every event: commit index (raft and storage) never decreases, a committed entry is never '
               'removed or duplicated at its index, no two nodes ever commit different entries at one index. The two local parts are checked by the '
               'oracle and the correspondence only; their Lean proofs are not finished.',
 'level_note': 'Trusted: Lean kernel; the hand-written model being faithful (validated on every run by the per-event correspondence, not verified); '
               'u64 arithmetic modelled in Nat (terms/indexes grow by one per event); the Storage implementation never fails and behaves like '
               'ClusterStorage (in-memory mirror; the CommitError paths are not exercised); nodes do not crash/restart (Cluster::new re-reads the '
               'term from the log, restarts are outside the property); messages are not forged (a response is paired with its request by the '
               'transport). Local theorems (commit index monotone, committed entries stable) are stated in notes/raft.md but not proved.',
 'technique': 'Lean counterexample (kernel-evaluated schedule) + per-event differential correspondence + oracle on the real raft.rs',
 'design_ref': 'DESIGN.md §6 C28',
 'assumptions': ['no node restarts; storage calls never fail',
                 'u64 counters do not overflow',
                 'responses are delivered together with the request they answer (HTTP request/response pairing), never forged',
                 'cluster hash equal on all nodes in generated schedules (validate_hash is modelled, mismatch not generated)'],
 'quick': {'extra_args': []},
 'thorough': {'extra_args': []}}
