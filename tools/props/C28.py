SPEC = {'id': 'C28',
 'group': 'raft',
 'lean_project': 'AgdbRaft',
 'driver': 'raftmodel',
 'harness_bin': 'harness_raft',
 'compare': 'lines',
 'props_module': 'AgdbRaft.Props.C28',
 'audit_file': 'AgdbRaft/Audit/C28.lean',
 'full_theorems': [],
 'partial_theorems': ['C28_commit_monotone', 'C28_committed_stable', 'C28_commit_monotone_step'],
 'counterexamples': ['C28_state_machine_safety_counterexample'],
 'level': 'other',
 'level_text': ('Two of the three clauses are PROVED in Lean over all reachable states and all event sequences of the model mirroring the current '
               'raft.rs (any cluster size, timers, schedule): C28_commit_monotone (a node\'s commit index - local().log_commit and '
               'Storage::log_commit() - never decreases) and C28_committed_stable (an entry flagged committed, or at an index <= the commit index, is '
               'never removed or replaced on its node: same index/term/payload stays, the committed flag is never cleared, and it remains the only '
               'entry at that index), by a per-node invariant (committed -> index <= log_commit; every entry <= log_index; log strictly increasing by '
               'index; storage commit <= log_commit) plus a message invariant (no node ever sends a request to itself, so update_node / commit never '
               'overwrite the local slot) and the single-node special case. The third, global clause is FALSE of the code (also with the C27 repair): '
               'C28_state_machine_safety_counterexample refutes C28_state_machine_safety_statement with a 21-event schedule on 3 nodes '
               '(append_request accepts an entry of a newer term at log_index+1 without checking the previous entry, the leader counts that '
               'acknowledgement, and heartbeat_request then commits the follower\'s divergent prefix); the same schedule fails the harness oracle on '
               'the real code (corpus/C28) and random schedules hit it at three commit call sites. Known finding, no small repair (needs a '
               'prev-index/prev-term consistency check = wire format + Storage trait change). The model (Model/Raft.lean, one Lean function per raft.rs '
               'function; Model/Net.lean network + step) is tied to the code on every run: harness/raft/build.rs compiles the CURRENT '
               'agdb_server/src/raft.rs (cut at its test module, std::time::Instant replaced by a virtual clock, nothing else changed) into a '
               'deterministic simulator with an in-memory Storage that mirrors ClusterStorage/ClusterLog; generated adversarial schedules are executed '
               'on the real code and replayed by the Lean driver, and after EVERY event the complete state of every node and every emitted message are '
               'compared. Oracle on the real code after every event: commit index (raft and storage) never decreases, a committed entry is never '
               'removed or duplicated at its index, no two nodes ever commit different entries at one index.'),
 'level_note': 'Trusted: Lean kernel; the hand-written model being faithful (validated on every run by the per-event correspondence, not verified); '
               'u64 arithmetic modelled in Nat (terms/indexes grow by one per event); the Storage implementation never fails and behaves like '
               'ClusterStorage (in-memory mirror; the CommitError paths are not exercised); nodes do not crash/restart (Cluster::new re-reads the '
               'term from the log, restarts are outside the property); messages are not forged (a response is paired with its request by the '
               'transport).',
 'technique': 'Lean counterexample (kernel-evaluated schedule) + per-event differential correspondence + oracle on the real raft.rs',
 'design_ref': 'DESIGN.md §6 C28',
 'assumptions': ['no node restarts; storage calls never fail',
                 'u64 counters do not overflow',
                 'responses are delivered together with the request they answer (HTTP request/response pairing), never forged',
                 'cluster hash equal on all nodes in generated schedules (validate_hash is modelled, mismatch not generated)'],
 'quick': {'extra_args': []},
 'thorough': {'extra_args': []}}
