SPEC = {
    'id': 'C14',
    'group': 'search',
    'lean_project': 'AgdbSearch',
    'props_module': 'AgdbSearch.Props.C14',
    'audit_file': 'AgdbSearch/Audit/C14.lean',
    'full_theorems': ['C14_model_is_search', 'C14_origin_first', 'C14_sound', 'C14_sound_any_handler', 'C14_nodup', 'C14_complete', 'C14_exact', 'C14_terminates', 'C14_graph_exact', 'C14_graph_terminates', 'C14_every_history', 'C14_bfs_distance', 'C14_dfs_order', 'C14_dfs_order_unique'],
    'partial_theorems': [],
    'counterexamples': ['C14_edge_origin_counterexample', 'C14_edge_origin_unreachable'],
    'driver': 'searchmodel',
    'harness_bin': 'harness_search',
    'level': 'proof',
    'level_text': ("Lean 4 theorems over ALL graphs (no size bound), both directions (a direction `View`), origin a node OR an edge: "
        "C14_exact — the unconditional traversal (either iterator) returns the origin first, no element twice, and an element iff it is reachable "
        "(node→each edge on its chain, edge→its target); C14_bfs_distance — the (element, distance) pairs handed to the handler are in non-decreasing "
        "distance and each distance is the element's true shortest distance (every node and edge step counts 1); C14_dfs_order(+_unique) — the depth-first "
        "result is exactly the visit order of the recursive pre-order traversal with a global visited set, chains most-recent-first (reference given as a "
        "deterministic big-step relation); C14_sound_any_handler/C14_nodup for every handler (conditions, limit, offset); C14_terminates / "
        "C14_graph_terminates — the loop ends within an explicit potential, and the model's fuel is enough on every well-formed graph; "
        "C14_every_history — all of this for every state of the abstract graph reachable from the empty database by any sequence of insertions, removals with id reuse and value insertions (every operation preserves the well-formedness Graph.wfB). Proved on the model of the code WITH "
        "proposed_fixes/C14-edge-origin.diff; the unchanged code is refuted (C14_edge_origin_counterexample: from(-5) returns [-5,-4,3,2])."),
    'level_note': "Trusted: Lean kernel; the hand-written model (lean/AgdbSearch/AgdbSearch/Model) being a faithful rendering of the Rust search code — validated, not verified, by the `search` correspondence stream (every generated op line compared, public API only, ids included so slot reuse is reproduced); the abstract graph (slot table + most-recent-first chains) standing for graph.rs's four i64 arrays (C08's refinement); rustc/std (`sort_by` stable, VecDeque/Vec). Hypothesis `View.WF` (chains duplicate-free, owned by their node, lead to nodes) is a stated assumption of the theorems about the abstract graph.",
    'technique': 'Lean 4: inductive invariants (soundness, closure-at-termination completeness, strictly decreasing potential) over a generic work-list machine mirroring SearchImpl + the four iterators with lazy sibling chaining; differential correspondence + exhaustive small-graph enumeration against reference BFS/DFS',
    'design_ref': 'DESIGN.md §6 C14',
    'assumptions': ['View.WF follows from the decidable Graph.wfB (wf_viewFwd/wf_viewRev); every state of the ABSTRACT graph reachable by node/edge/remove/kv operations satisfies it (reachable_wfB, Lemmas/GraphOps.lean) and the driver re-checks it before every search; that graph.rs refines this abstract graph (slot arrays, chains, LIFO free list) is C08 and is validated here only by the id-exact correspondence stream', 'statements are about the tree with proposed_fixes/C14-edge-origin.diff applied'],
    'quick': {'extra_args': []},
    'thorough': {'extra_args': []},
    'compare': 'lines',
}
