SPEC = {
    "id": "C02",
    "group": "crash",
    "lean_project": "AgdbCrash",
    "props_module": "AgdbCrash.Props.C02",
    "audit_file": "AgdbCrash/Audit/C02.lean",
    "full_theorems": ["C02_reopen_after_crash"],
    "partial_theorems": ["C02_legacy_between_steps_partial"],
    "counterexamples": ["C02_counterexample"],
    "driver": "crashmodel",
    "harness_bin": "harness_crash",
    "level": "other",
    "level_text": ("Lean 4 theorem C02_reopen_after_crash (composition): with the fixed transaction_mut, at every crash point of every "
                   "history the recovered image opens and reads, GIVEN the explicit hypotheses (ii) every completed step maps a consistent "
                   "image to a consistent image (query/rollback correctness, C08-C13) and (iii) consistent images open and read (C05 open_image); "
                   "it is derived from C03_atomic / C03_single_commit_point, which are proved unconditionally on the transaction-depth model. "
                   "The unchanged code is refuted by C02_counterexample. The hypotheses are validated, not proved, by the stream: every "
                   "(sampled) crash snapshot of generated histories, incl. the defragmentation on close, is reopened with DbFile/Db under "
                   "catch_unwind + watchdog + allocation limit and fully read (elements, values, aliases, indexes, edge counts)."),
    "level_note": ("Category other: the theorem is conditional on L4 consistency and on C05's open_image, which are only validated by the "
                   "crash stream; crash points are at StorageData call granularity (syscall granularity: C01 stream); requires proposed fix "
                   "C03-single-storage-transaction."),
    "technique": "Lean 4 composition theorem over the transaction-depth model + reopen-and-read-everything oracle at every crash point",
    "design_ref": "DESIGN.md §6 C02",
    "assumptions": ["C01 recovery = image at last outermost commit", "C04 storage = map index -> bytes",
                    "completed queries and rollbacks leave a consistent image (C08-C13)", "consistent images open and read (C05)",
                    "requires proposed fix C03-single-storage-transaction"],
    "quick": {"extra_args": []},
    "thorough": {"extra_args": []},
    "compare": "lines",
}
