SPEC = {
    "id": "C22",
    "group": "codec",
    "lean_project": "AgdbCodec",
    "props_module": "AgdbCodec.Props.C22",
    "audit_file": "AgdbCodec/Audit/C22.lean",
    "full_theorems": ["C22_roundtrip", "C22_from_to_db_values", "C22_update_by_id", "C22_update_roundtrip", "C22_update_readback",
                      "kindOk_custom", "kindOk_vi64"],
    "partial_theorems": [],
    "counterexamples": ["C22_flatten_keys_counterexample"],
    "driver": "codecmodel",
    "harness_bin": "harness_codec",
    "level": "proof",
    "level_text": ("Lean 4 theorem C22_roundtrip: for EVERY struct shape the DbType/DbElement derive accepts (plain, Option, flatten to any "
                   "depth, skip, rename, db_id fields of every kind), every value and every database state, insert().element(&v) as a new "
                   "element followed by select().elements::<T>().ids(id) + try_into::<T>() returns v with db_id = Some(id) and skipped "
                   "fields defaulted; C22_update_by_id: inserting with db_id = Some(i) changes only element i, sets exactly the written keys "
                   "and leaves its other keys alone. Field conversions are proved inverse kind by kind (kindOk_*; custom value types reduce "
                   "to the C20 round trip). The theorems hold of the REPAIRED db_keys() (proposed_fixes/C22-flatten-db-keys.diff); "
                   "C22_flatten_keys_counterexample (decide) shows the pinned macro cannot read back a struct that flattens a type with an "
                   "Option field. Tie: the `derive` stream runs 18 real derived types through to_db_values / db_keys / from_db_element "
                   "(incl. mutated elements for the error paths) and through insert/select/update on DbMemory; every output line is "
                   "compared with the model; the oracle checks read-back equality and that updates touch only their element."),
    "level_note": ("Trusted: Lean kernel; model faithfulness (validated by the stream); the element store of the model is the ordered "
                   "key-value list semantics of DbKeyValues (insert_value / insert_or_replace / values_by_keys), whose own refinement to "
                   "storage is C09; ids are never reused in these histories. Assumption DistinctKeys: no two fields of a type share a key "
                   "(documented by the derive as the user's responsibility). #[agdb(flatten)] on Option<T> does not compile and is not modelled. "
                   "Aliases in db_id (QueryId::Alias) are not modelled (C10)."),
    "technique": "Lean 4 proof over field descriptors (mutual structural recursion, permutation-invariance of keyed lookups) + differential stream on real derived types",
    "design_ref": "DESIGN.md §6 C22",
    "assumptions": ["no two fields of a derived type (transitively through flatten) share a key; no field is keyed db_element_id in a DbElement type",
                    "element ids are positive and fresh (no id reuse inside a case)",
                    "f32 fields excluded (f32->f64->f32 may quieten signalling NaNs on the hardware)"],
    "quick": {"extra_args": []},
    "thorough": {"extra_args": []},
    "compare": "lines",
}
