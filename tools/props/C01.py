SPEC = {
    "id": "C01",
    "group": "storage",
    "lean_project": "AgdbStorage",
    "props_module": "AgdbStorage.Props.C01",
    "audit_file": "AgdbStorage/Audit/C01.lean",
    "full_theorems": ["C01_recover_every_crash_point", "C01_drop", "C01_recovered_length", "C01_flush_commits",
                      # nested transactions at the Storage level (Props/C01b.lean) + every call Storage issues is well-formed (Props/C04.lean)
                      "C01b_txn_balanced", "C01b_flush_outermost", "C01b_commit", "C01b_begin", "C01b_error_unchanged",
                      "C01b_never_fails", "C01b_replace_missing", "C01b_replace_error_txn", "C01b_moveAt_early_error",
                      "C01b_moveAt_error_txn", "C04_calls_wellformed"],
    "extra_lean_targets": ["AgdbStorage.Props.C01b", "AgdbStorage.Props.C04"],
    "partial_theorems": [],
    "counterexamples": ["C01_replay_order_counterexample", "C01_zero_len_counterexample",
                        "C01_grow_counterexample", "C01_zero_len_counterexample_newest_first",
                        "C01b_replace_stuck_txn_counterexample"],
    "driver": "storagemodel",
    "harness_bin": "harness_storage",
    "level": "proof",
    "level_text": ("Lean 4 theorem C01_recover_every_crash_point: for every initial content, every well-formed sequence of "
                   "FileStorage write/resize/flush calls and every crash point (between any two mutating file-system calls, or "
                   "inside any write_all on the data file or the log = torn write), recovery yields exactly the content at the last "
                   "completed flush and an empty log; C01_drop for Drop with an unfinished transaction; C01b_flush_outermost: every Storage operation (insert, insert_at, replace, resize, move, remove, optimize) at any nesting depth clears the log exactly when the outermost transaction completes, as its last call; C04_calls_wellformed: every write a Storage operation issues from any reachable state satisfies the well-formedness hypothesis of the recovery theorem. Proved by an inductive "
                   "invariant (log = complete records whose newest-first undo gives the committed image). The model (Model/Wal.lean) is "
                   "tied to the code on every run by the `wal` correspondence stream: the real FileStorage is driven with generated call "
                   "sequences, both files are snapshotted before every mutating fs call (hook H1) and the byte images are compared with the "
                   "model's at every call; independently the oracle reopens every crash state and every torn variant with FileStorage::new."),
    "level_note": ("Trusted: Lean kernel; the hand-written model being faithful (validated, not verified, by the wal stream); "
                   "POSIX semantics at write/ftruncate granularity with torn writes being byte prefixes; no reordering of un-fsynced writes "
                   "(the code never syncs). Well-formedness hypothesis: writes lie inside the file or start exactly at its end "
                   "(proved for the Storage model: C04_calls_wellformed; checked on the real Storage on every call by the st stream). "
                   "Known model-level observation kept visible (C01b_replace_stuck_txn_counterexample): replace() on a missing index returns an error with the depth left incremented (not reachable from the database layer)."),
    "technique": "Lean 4 inductive-invariant proof over syscall prefixes + differential correspondence at every fs call",
    "design_ref": "DESIGN.md §6 C01",
    "assumptions": ["crash = prefix of fs calls, optionally a byte-prefix of one write_all; set_len atomic",
                    "data reaches the file in program order (no fsync in the code; OS write-back reordering not modelled)",
                    "writes are inside the file or start at its end (Storage-issued calls); offsets < 2^64"],
    "quick": {"extra_args": []},
    "thorough": {"extra_args": []},
    "compare": "lines",
}
