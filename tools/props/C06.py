SPEC = {
    "id": "C06",
    "group": "storage",
    "lean_project": "AgdbStorage",
    "props_module": "AgdbStorage.Props.C06",
    "audit_file": "AgdbStorage/Audit/C06.lean",
    "full_theorems": ["C06_backends_equiv"],
    "partial_theorems": [],
    "counterexamples": ["C06_past_end_differs", "C06_past_end_panics"],
    "driver": "storagemodel",
    "harness_bin": "harness_storage",
    "level": "other",
    "level_text": ("Lean 4 theorem C06_backends_equiv: from equal bytes, after ANY sequence of StorageData write/resize/flush calls whose writes "
                   "do not start past the end, the MemoryStorage, FileStorage and FileStorageMemoryMapped models all succeed, hold identical "
                   "bytes/len and answer every in-range read identically (separate models of the three back-ends, simulation proof). "
                   "Everything above (Storage<D>, Db) is generic Rust code that touches its back-end only through these calls, so equal "
                   "observations give equal query results; that step is argued (parametricity), not proved, hence level `other`. "
                   "Ties: (1) the `st` stream runs the real Storage on all three real back-ends side by side on generated histories and compares "
                   "every result, length, record table, free list, emitted call trace and byte image with each other and with the Lean model; (2) harness_db runs every generated query history (nodes/edges/values/aliases/indexes/removals/failing queries/transactions/selects/searches, with close-and-reopen of the file-backed variants) on DbMemory, DbFile, Db and DbAny(memory/file/mapped) side by side and requires byte-identical outputs, DbMemory being also compared with the Lean Db model."),
    "level_note": ("Trusted: Lean kernel; hand-written back-end models (validated by the st stream); the hypothesis that Storage never issues a "
                   "write starting past the end (checked on the real code by the st stream on every call; Lean statement C04_calls_wellformed); "
                   "Rust generics: Storage<D>/DbImpl<D> observe D only through the StorageData trait. AnyStorage delegates by a match."),
    "technique": "Lean 4 simulation proof between three back-end models + side-by-side differential run of the real back-ends",
    "design_ref": "DESIGN.md §6 C06",
    "assumptions": ["writes issued by Storage start at or before the end of the store", "generic code above StorageData is parametric in the back-end"],
    "quick": {"extra_args": []},
    "thorough": {"extra_args": []},
    "compare": "lines",
    # second tie, at the query level: every generated query history on DbMemory, DbFile, Db and DbAny (3 inner kinds)
    # side by side (oracle: byte-identical outputs incl. error kinds), DbMemory's output compared with the Lean Db model
    "extra_runs": [{
        "name": "db", "group": "db", "harness_bin": "harness_db", "lean_project": "AgdbDb", "driver": "dbmodel",
        "props_module": "AgdbDb.Props.C08", "audit_file": "AgdbDb/Audit/C08.lean",
        "full_theorems": [], "partial_theorems": [], "counterexamples": [],
    }],
}
