SPEC = {
    'id': 'C17',
    'group': 'search',
    'lean_project': 'AgdbSearch',
    'props_module': 'AgdbSearch.Props.C17',
    'audit_file': 'AgdbSearch/Audit/C17.lean',
    'full_theorems': ['C17_filter', 'C17_cost', 'C17_valid', 'C17_optimal', 'C17_empty_iff', 'C17_static_conditions'],
    'partial_theorems': ['C17_optimal_partial'],
    'counterexamples': ['C17_distance_dependent_counterexample'],
    'driver': 'searchmodel',
    'harness_bin': 'harness_search',
    'level': 'other',
    'level_text': ("Recorded finding: with distance-dependent conditions the property is FALSE of the code (C17_distance_dependent_counterexample, "
        "known finding C17/distance-dependent/PathSearch::process_index: empty result although a usable path exists). What IS proved in Lean 4, for every graph "
        "(no size bound): C17_valid — for ANY conditions the path found is empty or an alternating directed node/edge path origin→destination over usable elements "
        "with flags = the conditions' answers and cost = sum of 1/2 element costs; C17_filter — the listed ids are its elements that pass; and for all conditions that "
        "do not depend on the distance (C17_static_conditions: every tree without a `distance` atom) C17_optimal — no usable path is cheaper (Dijkstra invariant over "
        "the re-sorted path list with lazy deletion) and C17_empty_iff — the path is empty exactly when origin = destination, an endpoint is not an existing node, or "
        "no usable path exists. The harness compares with a reference Dijkstra (static) and a brute-force optimum over simple paths (distance conditions, small graphs)."),
    'level_note': "Trusted: Lean kernel; the hand-written model (lean/AgdbSearch/AgdbSearch/Model) being a faithful rendering of the Rust search code — validated, not verified, by the `search` correspondence stream (every generated op line compared, public API only, ids included so slot reuse is reproduced); the abstract graph (slot table + most-recent-first chains) standing for graph.rs's four i64 arrays (C08's refinement); rustc/std (`sort_by` stable, VecDeque/Vec). 'Result empty exactly when…' is read on the path found; the listed ids are additionally empty when no element of the cheapest path passes the conditions (C17_filter).",
    'technique': 'Lean 4: loop invariants of PathSearch (every queued path is a real usable path with its true cost; settled nodes carry their optimal cost; frontier domination) with a structurally recursive stable insertion sort standing for sort_by; differential correspondence + reference Dijkstra oracle on exhaustive small multigraphs and random graphs',
    'design_ref': 'DESIGN.md §6 C17',
    'assumptions': ['with distance-dependent conditions optimality / the empty-iff clause are FALSE (C17_distance_dependent_counterexample; known finding C17/distance-dependent/PathSearch::process_index); only C17_valid and C17_filter hold there', 'path-search distances follow proposed_fixes/C15-path-edge-distance.diff'],
    'quick': {'extra_args': []},
    'thorough': {'extra_args': []},
    'compare': 'lines',
}
