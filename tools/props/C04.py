SPEC = {
    "id": "C04",
    "group": "storage",
    "lean_project": "AgdbStorage",
    "props_module": "AgdbStorage.Props.C04",
    "audit_file": "AgdbStorage/Audit/C04.lean",
    "full_theorems": ["C04_refines", "C04_read_back", "C04_removed_unreadable", "C04_frame", "C04_optimize", "C04_reopen", "C04_calls_wellformed", "C04_invariant"],
    "partial_theorems": [],
    "counterexamples": ["C04_reopen_unbounded_counterexample"],
    "driver": "storagemodel",
    "harness_bin": "harness_storage",
    "level": "proof",
    "level_text": ("Lean 4 refinement theorem C04_refines: from EVERY state reachable by any history of insert, insert_at (incl. beyond the end), replace, "
                   "resize, move, remove, optimize, reopen and nested begin/commit, each operation of the record-allocator model (Model/Storage.lean, a function-for-function "
                   "rendering of Storage<D>/StorageRecords incl. free-space selection, coalescing, in-place/move/at-end growth, shrink, defragmentation and re-reading the "
                   "record table from bytes) has exactly the effect of the specification step on the map index -> bytes, fails exactly when the specification says so, and "
                   "insert returns an unused non-zero index; corollaries C04_read_back, C04_removed_unreadable, C04_frame, C04_optimize (no unused space: len = 24 + sum(16+size), "
                   "free list empty), C04_reopen. Proved through a layout invariant (SInv: slot table + free-index chain, live and free regions tile [24,len), headers on disk). "
                   "The model is tied to the code on every run: real Storage on all three back-ends vs the model on generated histories, comparing every result, record table, "
                   "free list, emitted StorageData call and byte image; an independent index->bytes reference map is the oracle."),
    "level_note": "Trusted: Lean kernel; the hand-written model being faithful (validated, not verified, by the st stream); explicit hypotheses: data length < 2^64 and slot count <= 2^64 whenever the table is re-read from bytes (Fits; the statement without it is false of the unbounded-Nat model: C04_reopen_unbounded_counterexample). Back-end equivalence is C06.",
    "technique": "Lean 4 refinement proof (record allocator -> index-to-bytes map) + differential correspondence on all three back-ends",
    "design_ref": "DESIGN.md §6 C04",
    "assumptions": ["file length < 2^64 and number of record slots <= 2^64 at every reopen (u64 fields)", "version-0 (legacy) file upgrade path not modelled"],
    "quick": {"extra_args": []},
    "thorough": {"extra_args": []},
    "compare": "lines",
}
