SPEC = {
    "id": "C04",
    "group": "storage",
    "lean_project": "AgdbStorage",
    "props_module": "AgdbStorage.Props.C04",
    "audit_file": "AgdbStorage/Audit/C04.lean",
    "full_theorems": [],
    "partial_theorems": [],
    "counterexamples": [],
    "driver": "storagemodel",
    "harness_bin": "harness_storage",
    "level": "other",
    "level_text": ("Differential correspondence: the Lean model of the record allocator (Model/Storage.lean, function-for-function rendering of "
                   "Storage<D>/StorageRecords) and the real Storage are run on the same generated histories (insert, insert_at incl. beyond end, "
                   "replace, resize, move, remove, optimize, reopen, nested transactions) on all three back-ends; every result, record table, free list, "
                   "emitted StorageData call and byte image is compared; independently an index->bytes reference map checks read-back, unreadability of "
                   "removed values and compactness after optimize on the real code. The full-strength refinement statements (Props/C04.lean) are stated in "
                   "Lean over all reachable states; theorems proved so far are listed in the evidence, the rest is stated but not yet proved — hence level `other`."),
    "level_note": "Trusted: hand-written model validated by the st stream; reference map oracle; Lean kernel for the proved part.",
    "technique": "Lean 4 refinement proof (record allocator -> index-to-bytes map) + differential correspondence on all three back-ends",
    "design_ref": "DESIGN.md §6 C04",
    "assumptions": [],
    "quick": {"extra_args": []},
    "thorough": {"extra_args": []},
    "compare": "lines",
}
