SPEC = {
    "id": "C32",
    "group": "crash",
    "lean_project": "AgdbCrash",
    "props_module": "AgdbCrash.Props.C32",
    "audit_file": "AgdbCrash/Audit/C32.lean",
    "full_theorems": ["C32_depth_restored", "C32_later_work_durable", "C32_depth_restored_tolerant"],
    "partial_theorems": ["C32_no_effect_partial"],
    "counterexamples": ["C32_stuck_transaction_counterexample", "C32_no_effect_counterexample", "C32_plain_commit_tolerant_counterexample"],
    "driver": "crashmodel",
    "harness_bin": "harness_crash",
    "level": "other",
    "level_text": ("Lean 4: with the proposed fix (one storage transaction around transaction_mut, closed by Storage::commit_outermost) "
                   "C32_depth_restored and C32_later_work_durable hold for every history and every placement of failing storage calls: the nesting "
                   "counter returns to 0 and the log is cleared after every step, so what later steps write is what a reopen sees. The unchanged code "
                   "is refuted by C32_stuck_transaction_counterexample. The clause 'the failed query has no effect' is FALSE of the code even with the "
                   "fix (C32_no_effect_counterexample; proved only for failures before the first write: C32_no_effect_partial) and is a recorded "
                   "finding. Tie: the real DbImpl runs on a public fault-injecting StorageData wrapper (k-th write/resize/flush fails once or from "
                   "then on); the oracle checks error reporting, in-process state vs a fault-free twin history, log cleared after later steps, and "
                   "the state after close + reopen; the driver predicts traces, flush placement and log state."),
    "level_note": ("Stream limitation (DESIGN §11, seeded C32/s1 missed): transaction closures in the stream always propagate a failed query's error; closures that swallow it are covered by the theorem C32_depth_restored_tolerant on the model only. Category other: the property as stated is violated by the code (known findings C32/*); the proved part is the storage-level "
                   "bracket discipline. In-memory caches (record table, vector lengths, graph/map state) that diverge from the file after a failed "
                   "write are outside the model; their consequences (read errors, panics, unreadable file) are reported by the oracle."),
    "technique": "Lean 4 invariant proof over bracketed event traces with failing calls + fault injection through a StorageData wrapper",
    "design_ref": "DESIGN.md §6 C32",
    "assumptions": ["a failing StorageData call has no effect on the file (ENOSPC before any byte is written)",
                    "C01, C04 as in C03", "requires proposed fix C03-single-storage-transaction for the depth/log part"],
    "quick": {"extra_args": [], "timeout": 1500},
    "thorough": {"extra_args": []},
    "compare": "lines",
}
