"""Spec for C26 (group server). The harness builds the real agdb_server from $VERIF_REPO into
/verif/.target/server_bin (RUSTFLAGS --cfg agdb_verif) and starts one process per run."""

SPEC = {'id': 'C26',
 'group': 'server',
 'lean_project': 'AgdbServer',
 'driver': 'servermodel',
 'harness_bin': 'harness_server',
 'compare': 'lines',
 'props_module': 'AgdbServer.Props.C26',
 'audit_file': 'AgdbServer/Audit/C26.lean',
 'full_theorems': ['C26_inside',
                   'C26_disjoint',
                   'C26_files_not_dirs',
                   'C26_owner_dirs_apart',
                   'C26_rejected',
                   'C26_rejected_rename',
                    'C26_only_valid_names_reach_the_pool'],
 'partial_theorems': [],
 'counterexamples': ['C26_traversal_counterexample',
                     'C26_escape_counterexample',
                     'C26_wal_collision_counterexample',
                     'C26_reserved_counterexample',
                     'C26_rollback_temp_counterexample',
                     'C26_absolute_counterexample'],
 'level': 'proof',
 'level_text': 'Machine-checked (Lean 4) for ALL data directories and ALL names: with the name validation of '
               'the repaired code every file of a database (db file, both views of the WAL, backup, backup '
               'audit, audit, rollback temp files — built with a model of Path::join and resolved lexically) '
               'lies strictly inside data_dir/owner, files of different databases are disjoint and never '
               'equal the backups/audit directories, and invalid names are rejected by every '
               'name-introducing route; the unrepaired code is refuted by six decided counterexamples; the '
               "model's file listing is compared with the real file system of a real agdb_server after every "
               'request.',
 'level_note': 'Holds for the code WITH proposed_fixes/C26-db-name-validation.diff (the unchanged code '
               'violates the property: ../x, .a, backups, a.bak). Lexical resolution equals kernel '
               'resolution only without symlinks (the server creates none). Memory databases and '
               'convert/rollback are not in the stream.',
 'technique': 'string-level model of PathBuf::push + component splitting + lexical normalisation; decoder '
              'argument for disjointness; real-server file-system diff',
 'design_ref': 'DESIGN.md §6 C26',
 'assumptions': ['no symlinks below the data directory', "Unix path semantics ('/' separator)"],
 'quick': {'extra_args': []},
 'thorough': {'extra_args': []}}
