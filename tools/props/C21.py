SPEC = {
    "id": "C21",
    "group": "codec",
    "lean_project": "AgdbCodec",
    "props_module": "AgdbCodec.Props.C21",
    "audit_file": "AgdbCodec/Audit/C21.lean",
    "full_theorems": ["C21_total", "C21_total_cases", "C21_advance_bounded", "C21_tovec_total"],
    "partial_theorems": [],
    "counterexamples": ["C21_len_overflow_counterexample", "C21_bytes_len_overflow_counterexample",
                        "C21_capacity_counterexample", "C21_duration_counterexample",
                        "C21_vec_offset_counterexample", "C21_derive_offset_counterexample",
                        "C21_tovec_duration_counterexample"],
    "driver": "codecmodel",
    "harness_bin": "harness_codec",
    "level": "proof",
    "level_text": ("Lean 4 theorem C21_total: for EVERY type descriptor and EVERY byte string (length < 2^63) the decoder returns Ok or "
                   "Err — on a model in which every crash site of the real decoders is explicit under Rust debug semantics (checked "
                   "usize/u64 additions, &b[off..] slicing, Vec::with_capacity by an untrusted length, Duration::new); C21_tovec_total the "
                   "same for Vec<T>::try_from(DbValue::Bytes). The theorem is about the REPAIRED decoders (proposed_fixes/C21-*.diff); "
                   "six _counterexample theorems (closed by decide) show the pinned code violates it at four sites. Tie: the `ser` "
                   "malformed stream feeds mutated/garbage bytes to ~70 real deserializers under catch_unwind with an allocation-limiting "
                   "global allocator; outcome class, error kind, decoded value and panic site are compared with the model line by line; "
                   "the oracle flags any panic / allocation > 256 MiB on the real code."),
    "level_note": ("Trusted: Lean kernel; model faithfulness (validated by the stream); 'enormous allocation' is formalised as "
                   "with_capacity(n) with n > input length (threshold-free), the harness allocator uses 256 MiB. Time is not modelled: "
                   "Vec<zero-sized derived struct> with a huge length prefix loops for `len` iterations without allocating or panicking "
                   "(not a violation of the statement as written; excluded from generation)."),
    "technique": "Lean 4 totality proof over an explicit Outcome type (panic/hugeAlloc sites modelled) + malformed-input differential stream",
    "design_ref": "DESIGN.md §6 C21",
    "assumptions": ["input slices are shorter than 2^63 bytes (Rust slices never exceed isize::MAX)",
                    "to_string() of an IpAddr/SocketAddr is at most 58 bytes",
                    "64-bit target (usize = u64)"],
    "quick": {"extra_args": []},
    "thorough": {"extra_args": []},
    "compare": "lines",
}
