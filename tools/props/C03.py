SPEC = {
    "id": "C03",
    "group": "crash",
    "lean_project": "AgdbCrash",
    "props_module": "AgdbCrash.Props.C03",
    "audit_file": "AgdbCrash/Audit/C03.lean",
    "full_theorems": ["C03_single_commit_point", "C03_atomic", "C03_history"],
    "partial_theorems": [],
    "counterexamples": ["C03_counterexample", "C03_legacy_not_atomic_counterexample"],
    "driver": "crashmodel",
    "harness_bin": "harness_crash",
    "level": "proof",
    "level_text": ("Lean 4 theorems C03_single_commit_point / C03_atomic / C03_history over the transaction-depth model of "
                   "Storage + DbImpl::transaction_mut (with proposed fix C03-single-storage-transaction): for EVERY closure and rollback "
                   "event sequence built from bracketed storage operations (any nesting, any early error return, closure verdict Ok or Err), "
                   "every history of such steps and every crash point, the image a reopen recovers is the image before or the image after the "
                   "interrupted step, and every step ends with depth 0 and an empty log. The unchanged code (txnLegacy) is refuted by "
                   "C03_counterexample (decide). Tie: the real Db is driven through a public StorageData wrapper; both files are snapshotted "
                   "before every write/resize/flush call, each (sampled) snapshot is reopened with DbFile/Db and fully dumped; the oracle "
                   "compares with the in-process dumps before/after the step; the driver predicts flush positions, log-empty flags and "
                   "the before/after class of every crash point from the call kinds."),
    "level_note": ("Trusted: the model abstracts storage as a map cell->content (C04) and the WAL as an abstract undo log whose "
                   "newest-first replay is what a reopen sees (C01, proved by group storage at byte level and validated here by reopening the "
                   "real files at every crash point); equal images give equal observations (C05). Crash points are at StorageData call "
                   "granularity (syscall granularity is C01's stream). The step line of the correspondence stream carries the observed call "
                   "kinds as a checked input (the model does not derive the number of storage calls of a query)."),
    "technique": "Lean 4 invariant proof over bracketed event traces + crash-point differential check through a StorageData wrapper",
    "design_ref": "DESIGN.md §6 C03",
    "assumptions": ["C01: recovery = data image at the last outermost commit (validated per crash point by the oracle)",
                    "C04: Storage behaves as a map index -> bytes",
                    "crash points at StorageData call granularity; no fsync reordering",
                    "requires proposed fix C03-single-storage-transaction (unchanged code: known defect, C03_counterexample)"],
    "quick": {"extra_args": []},
    "thorough": {"extra_args": []},
    "compare": "lines",
}
