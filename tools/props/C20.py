SPEC = {
    "id": "C20",
    "group": "codec",
    "lean_project": "AgdbCodec",
    "props_module": "AgdbCodec.Props.C20",
    "audit_file": "AgdbCodec/Audit/C20.lean",
    "full_theorems": ["C20_roundtrip", "C20_size", "C20_roundtrip_and_size", "C20_decoded_size",
                      "C20_dbKeyValue_roundtrip"],
    "partial_theorems": [],
    "counterexamples": ["C20_path_lossy_counterexample"],
    "driver": "codecmodel",
    "harness_bin": "harness_codec",
    "level": "proof",
    "level_text": ("Lean 4 theorems C20_roundtrip / C20_size: for EVERY type descriptor (all built-in AgdbSerialize impls and "
                   "every type the DbSerialize derive can generate: any nesting of named/tuple/unit structs, enums with "
                   "unit/tuple/struct variants, vectors), every value of that type and every trailing byte string, "
                   "deserialize(serialize(v) ++ rest) = Ok(v) and serialized_size(v) = serialize(v).len(); C20_decoded_size: the offset "
                   "advance used by Vec<T>/derived decoders equals serialized_size of the decoded value. Proved by mutual structural "
                   "recursion on the typing derivation (no bound on nesting or length). The model (Model/Schema.lean, Model/Addr.lean) is "
                   "tied to the code on every run by the `ser` stream: ~70 real Rust types (built-ins, agdb's own derived types, a corpus "
                   "of user types using the derive) are serialized/deserialized in-process and bytes, sizes and decoded values are "
                   "compared line by line with the model; independently the oracle checks deserialize(serialize(x)) == x and "
                   "serialized_size(x) == len on the real code."),
    "level_note": ("Trusted: Lean kernel; the hand-written model being faithful (validated by the ser stream, incl. the port of "
                   "core::net's address parser/printer); std assumptions: to_le_bytes/from_le_bytes bit-exact, String::from_utf8 = the "
                   "UTF-8 DFA of Model/Basic.lean, parse(to_string(addr)) = addr for IpAddr/SocketAddr with flowinfo 0, SystemTime = Unix "
                   "timespec. Recursive query types (QueryCondition and everything containing it, incl. QueryType) are covered through "
                   "depth-unrolled schemas: each value is checked against the schema unrolled to its own nesting depth. Two lossy "
                   "encodings are genuine violations of the statement and listed as known findings: non-UTF-8 PathBuf, SocketAddrV6 flowinfo."),
    "technique": "Lean 4 proof by mutual structural recursion over a universe of type descriptors + differential correspondence on real derived types",
    "design_ref": "DESIGN.md §6 C20",
    "assumptions": ["serialized length < 2^64 (a Vec<u8> cannot be longer)",
                    "PathBuf is valid UTF-8 and SocketAddrV6.flowinfo = 0 (otherwise the encoding is lossy: known findings)",
                    "std: le-bytes bit-exact; from_utf8 accepts exactly well-formed UTF-8; IpAddr/SocketAddr parse∘to_string = id"],
    "quick": {"extra_args": []},
    "thorough": {"extra_args": []},
    "compare": "lines",
}
