SPEC = {
    "id": "C10",
    "group": "coll",
    "lean_project": "AgdbColl",
    "props_module": "AgdbColl.Props.C10",
    "audit_file": "AgdbColl/Audit/C10.lean",
    "full_theorems": ["C10_inv_step", "C10_inv_history", "C10_one_to_one", "C10_insert_alias_effect",
                      "C10_remove_alias_effect", "C10_remove_node_effect", "C10_rejected_without_effect",
                      "C10_alias_never_resolves_to_edge", "C10_select_agrees"],
    "partial_theorems": [],
    "counterexamples": ["C10_edge_alias_counterexample", "C10_empty_alias_counterexample"],
    "driver": "collmodel",
    "harness_bin": "harness_coll",
    "level": "proof",
    "level_text": ("Lean 4 theorems over a model of IndexedMapImpl (two maps, exact insert / remove_key logic), DbImpl's alias "
                   "operations incl. the undo stack, the alias-related queries and the element-id allocator (LIFO reuse), mirroring the "
                   "code with the proposed fix C10-alias-validation. FULL: C10_inv_step / C10_inv_history: after EVERY finite history of "
                   "queries (insert nodes with/without aliases, insert nodes over ids, insert edges, insert aliases with any number of "
                   "pairs incl. failing ones and their rollback, remove aliases, remove nodes/edges by id or alias, insert values "
                   "creating nodes, selects, index ops) the alias maps are mutually inverse, list every alias once, and every aliased id "
                   "is positive, a live node, with a non-empty alias (C10_one_to_one); C10_insert_alias_effect (new mapping = old mapping "
                   "with the node's previous alias dropped and the alias taken from its holder); C10_remove_alias_effect; "
                   "C10_remove_node_effect (alias of the removed node unresolvable, all others unchanged); C10_rejected_without_effect "
                   "(empty alias anywhere / literal edge id anywhere in InsertAliasesQuery, empty alias in InsertNodesQuery and "
                   "InsertValuesQuery, edge id in insert-nodes-over-ids: error and state unchanged); C10_select_agrees (select ids by "
                   "alias, select aliases of an id, select all aliases = exactly the pairs of the mapping, each once). COUNTEREXAMPLES "
                   "on the pinned code (decide): alias on an edge survives the edge; empty alias accepted by InsertNodesQuery. Tie: "
                   "query-level differential stream through the public API on DbMemory + an independent reference bijection oracle."),
    "level_note": ("Trusted: Lean kernel; faithfulness of the hand-written model (validated by the db stream: every output line incl. "
                   "allocated ids and error category/type); the two alias DbMaps are modelled through the MapImpl interface (association "
                   "list) - that the open-addressing table implements this interface is property C19's refinement, validated by the mm "
                   "stream, not proved here; rollback of a failing multi-pair query is modelled as the code does it (without restoring "
                   "a stolen alias, C13) and the generator avoids inputs where that matters."),
    "technique": "Lean 4: inductive invariant (alias bijection onto live nodes) over all query histories + differential correspondence at query level + reference-bijection oracle",
    "design_ref": "DESIGN.md §6 C10",
    "assumptions": ["fix C10-alias-validation applied (on the pinned code the property is false: 2 counterexample theorems + corpus/C10)",
                    "alias maps behave as finite maps (MapImpl interface); storage I/O errors not modelled",
                    "database created empty by this version (no pre-existing alias on an edge)"],
    "quick": {"extra_args": []},
    "thorough": {"extra_args": []},
    "compare": "lines",
}
