SPEC = {'id': 'C30',
 'group': 'raft',
 'lean_project': 'AgdbRaft',
 'driver': 'raftmodel',
 'harness_bin': 'harness_raft',
 'compare': 'lines',
 'props_module': 'AgdbRaft.Props.C30n3r',
 'audit_file': 'AgdbRaft/Audit/C30.lean',
 'full_theorems': ['exploreSetP_sound',
                   'exploreSet_sound',
                   'reachesWithinP_seq',
                   'C30_n1',
                   'C30_n2',
                   'C30_n3_election',
                   'C30_n3_replication',
                   'C30_n3',
                   'C30_post_partition'],
 'partial_theorems': [],
 'counterexamples': [],
 'level': 'other',
 'level_text': 'Lean: a breadth-first explorer with duplicate elimination over ALL fault-free executions (every message delivered exactly once in '
               'any order, time advancing by a fixed quantum only at quiescence followed by one timer pass of every node, the client appending at '
               'the leader) with general soundness theorems exploreSetP_sound / exploreSet_sound (explorer true => every execution reaches the '
               'target within the bound) and a sequential composition lemma reachesWithinP_seq, instantiated by kernel evaluation (decide +kernel '
               'only): C30_n1, C30_n2 and C30_n3 - clusters of 1, 2 and 3 nodes elect exactly one leader (all others its followers, nothing in '
               'flight) and an entry appended at the leader becomes present and committed on every node, in EVERY delivery order (3 nodes: '
               'C30_n3_election reaches one of two explicit post-election states within 13 steps, C30_n3_replication from both within 12, composed '
               'to 25); C30_post_partition - the same goal from a post-partition start state (prefix of corpus/C28: leader with an uncommitted entry '
               'nobody received, both other nodes timed out into Election, all earlier messages lost). These are proofs for those finite '
               'configurations with the default timer ratios; clusters above 3 nodes, other timer ratios and other post-partition states are covered '
               'only by the harness: fault-free schedules (from the initial state and after an adversarial prefix) on the real code, goal evaluated '
               'by the oracle after a step bound of 3*(term_timeout + size*election_factor) + 5*heartbeat of virtual time. The model '
               '(Model/Raft.lean, one Lean function per raft.rs function; Model/Net.lean network + step) is tied to the code on every run: '
               'harness/raft/build.rs compiles the CURRENT agdb_server/src/raft.rs (cut at its test module, std::time::Instant replaced by a virtual '
               'clock, nothing else changed) into a deterministic simulator with an in-memory Storage that mirrors ClusterStorage/ClusterLog; '
               'generated adversarial schedules (tick / adv / deliver k / append, every message deliverable any number of times in any order or '
               'never) are executed on the real code and replayed by the Lean driver, and after EVERY event the complete state of every node (state, '
               'term, election timeout, log with commit flags, storage index/term/commit, per-peer log_index/log_term/log_commit/timer/voted) and '
               'every emitted request/response are compared. ',
 'level_note': 'Trusted: Lean kernel; the hand-written model being faithful (validated on every run by the per-event correspondence, not verified); '
               'u64 arithmetic modelled in Nat (terms/indexes grow by one per event); the Storage implementation never fails and behaves like '
               'ClusterStorage (in-memory mirror; the CommitError paths are not exercised); nodes do not crash/restart (Cluster::new re-reads the '
               'term from the log, restarts are outside the property); messages are not forged (a response is paired with its request by the '
               'transport). The fault-free scheduler of the Lean explorer is defined on the node functions directly (same functions as `step`).',
 'technique': 'verified BFS explorer + kernel evaluation for n=1..3 and one post-partition state; fault-free randomized schedules on the real '
              'raft.rs with a liveness oracle',
 'design_ref': 'DESIGN.md §6 C30',
 'assumptions': ['no node restarts; storage calls never fail',
                 'u64 counters do not overflow',
                 'responses are delivered together with the request they answer (HTTP request/response pairing), never forged',
                 'cluster hash equal on all nodes in generated schedules (validate_hash is modelled, mismatch not generated)',
                 'default timer ratios (election factor = heartbeat, term timeout = 3 x heartbeat)'],
 'extra_runs': [{'name': 'adversarial', 'prop_arg': 'C27', 'full_theorems': [], 'partial_theorems': [], 'counterexamples': []}],
 'quick': {'extra_args': []},
 'thorough': {'extra_args': []},
 'extra_lean_targets': ['AgdbRaft.Props.C30pp']}
