"""Spec for C24 (group server). The harness builds the real agdb_server from $VERIF_REPO into
/verif/.target/server_bin (RUSTFLAGS --cfg agdb_verif) and starts one process per run."""

SPEC = {'id': 'C24',
 'group': 'server',
 'lean_project': 'AgdbServer',
 'driver': 'servermodel',
 'harness_bin': 'harness_server',
 'compare': 'lines',
 'props_module': 'AgdbServer.Props.C24',
 'audit_file': 'AgdbServer/Audit/C24.lean',
 'full_theorems': ['C24_no_effect',
                   'C24_authenticated',
                   'C24_admin_only',
                   'C24_authorized_token',
                   'C24_read_role_immutable',
                   'C24_db_admin_only',
                   'C24_no_role_no_access',
                   'C24_owner_only',
                   'C24_revocation_logout',
                   'C24_revocation_role',
                   'C24_required_role_table'],
 'partial_theorems': [],
 'counterexamples': [],
 'level': 'proof',
 'level_text': 'Machine-checked (Lean 4) over an abstract model of the server (42 routes: extractors, '
               'handler decision order, action effects): every request without a valid token is 401 with no '
               'effect, admin routes need the admin token, read-role callers cannot use exec_mut, role/owner '
               'guarded routes are refused with no effect, logout and role removal revoke access; the model '
               'is compared line by line with a real agdb_server process on generated multi-user request '
               'sequences and an independent permission oracle checks the real responses.',
 'level_note': 'Modelled, not verified: the role lookups are graph searches in the server database '
               '(find_user_db_query / user_db_role / is_db_admin); the model keeps the graph in its '
               'documented shape (at most one role edge per user and database) — that refinement is assumed, '
               'not proved. Token expiry is modelled (tick) but the stream does not wait for real expiry. '
               'Routes convert, rollback, shutdown, set_log_level, cluster/* and session-specific logout are '
               'not modelled.',
 'technique': 'abstract state machine + per-route theorems by exhaustive case split; differential run '
              'against the real server over HTTP; independent permission oracle with before/after state '
              'fingerprints',
 'design_ref': 'DESIGN.md §6 C24',
 'assumptions': ['server graph has at most one role edge per (user, db) (insert_db_user updates in place)',
                 'agdb graph search returns the role edge / db node as modelled (db group properties '
                 'C14/C15)',
                 'one single-node server process; requests are sequential'],
 'quick': {'extra_args': []},
 'thorough': {'extra_args': []}}
