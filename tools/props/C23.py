SPEC = {
    "id": "C23",
    "group": "storage",
    "lean_project": "AgdbStorage",
    "props_module": "AgdbStorage.Props.C23",
    "audit_file": "AgdbStorage/Audit/C23.lean",
    "full_theorems": ["C23_reads_correct", "C23_mutual_exclusion"],
    "partial_theorems": [],
    "counterexamples": ["C23_without_lock_counterexample"],
    "driver": "storagemodel",
    "harness_bin": "harness_storage",
    "level": "other",
    "level_text": ("Lean 4 theorem C23_reads_correct: in the small-step interleaving model of FileStorage::read (one shared handle with one cursor "
                   "guarded by try_lock, private handle otherwise; seek and read separate atomic steps), for ANY number of threads and ANY schedule every "
                   "completed read(pos,n) returns exactly bytes [pos,pos+n) of the unchanging file (or the same EOF error) = its sequential result; "
                   "C23_mutual_exclusion; witness that without the mutex the result is wrong. Partial by nature (hence `other`): the model cannot exhibit OS "
                   "descriptor semantics, std::sync::Mutex or torn kernel reads. Tie: schedule-exact replay of generated schedules in which the real lock holder "
                   "is paused inside the critical section (hook) while real threads read through the private-handle branch; plus a 16-thread stress run of "
                   "read queries on shared DbFile and Db against the sequential baseline (oracle)."),
    "level_note": ("Trusted: Lean kernel; model of read() (validated by the rd stream); std Mutex::try_lock and File semantics (pread-like independence of "
                   "separately opened handles); everything above read() is a pure function of read results; readers hold the database RwLock (no concurrent writer)."),
    "technique": "Lean 4 invariant proof over all interleavings of a small-step model + schedule-exact replay with forced contention + thread stress oracle",
    "design_ref": "DESIGN.md §6 C23",
    "assumptions": ["file content immutable while readers run (documented RwLock)", "std::sync::Mutex::try_lock is a correct mutex", "separately opened file handles have independent cursors"],
    "quick": {"extra_args": []},
    "thorough": {"extra_args": []},
    "compare": "lines",
}
