SPEC = {'id': 'C27',
 'group': 'raft',
 'lean_project': 'AgdbRaft',
 'driver': 'raftmodel',
 'harness_bin': 'harness_raft',
 'compare': 'lines',
 'props_module': 'AgdbRaft.Props.C27',
 'audit_file': 'AgdbRaft/Audit/C27.lean',
 'full_theorems': ['C27_election_safety', 'C27_vote_once_per_term', 'C27_leader_has_quorum'],
 'partial_theorems': [],
 'counterexamples': ['C27_revote_counterexample', 'C27_stale_vote_counterexample', 'C27_legacy_counterexample'],
 'level': 'proof',
 'level_text': 'Lean 4 theorem C27_election_safety: in EVERY reachable state of the cluster model (any cluster size, any timer configuration, any '
               'sequence of timer ticks, clock advances, client appends and message deliveries in any order, any number of times or never) no two '
               'nodes are in Leader state with the same term. Proved for raft.rs with proposed_fixes/C27-vote-once-per-term.diff applied, by an '
               'inductive invariant with a history variable (votes granted per (voter, term): at most one per pair because a grant raises the '
               "voter's term; a candidate's vote flags are backed by grants of its current term; a leader of term t holds grants of term t from a "
               'majority; two majorities intersect). The code at the pinned commit violates the property in two independent ways '
               '(C27_revote_counterexample: a voter re-votes in the same term after term_timeout; C27_stale_vote_counterexample: answers to an '
               'earlier candidacy are counted for a later one) - both reproduced on the real code by the harness oracle (corpus/C27). The model '
               '(Model/Raft.lean, one Lean function per raft.rs function; Model/Net.lean network + step) is tied to the code on every run: '
               'harness/raft/build.rs compiles the CURRENT agdb_server/src/raft.rs (cut at its test module, std::time::Instant replaced by a virtual '
               'clock, nothing else changed) into a deterministic simulator with an in-memory Storage that mirrors ClusterStorage/ClusterLog; '
               'generated adversarial schedules (tick / adv / deliver k / append, every message deliverable any number of times in any order or '
               'never) are executed on the real code and replayed by the Lean driver, and after EVERY event the complete state of every node (state, '
               'term, election timeout, log with commit flags, storage index/term/commit, per-peer log_index/log_term/log_commit/timer/voted) and '
               'every emitted request/response are compared. The harness detects by behaviour which variant of the code it was built from and the '
               'driver mirrors that variant, so the correspondence also holds on the unpatched tree, where the oracle reports the violation.',
 'level_note': 'Trusted: Lean kernel; the hand-written model being faithful (validated on every run by the per-event correspondence, not verified); '
               'u64 arithmetic modelled in Nat (terms/indexes grow by one per event); the Storage implementation never fails and behaves like '
               'ClusterStorage (in-memory mirror; the CommitError paths are not exercised); nodes do not crash/restart (Cluster::new re-reads the '
               'term from the log, restarts are outside the property); messages are not forged (a response is paired with its request by the '
               'transport).',
 'technique': 'Lean 4 inductive invariant over all schedules (history variables, quorum intersection) + per-event differential correspondence '
              'against the real raft.rs in a virtual-time simulator',
 'design_ref': 'DESIGN.md §6 C27',
 'assumptions': ['no node restarts; storage calls never fail',
                 'u64 counters do not overflow',
                 'responses are delivered together with the request they answer (HTTP request/response pairing), never forged',
                 'cluster hash equal on all nodes in generated schedules (validate_hash is modelled, mismatch not generated)'],
 'quick': {'extra_args': []},
 'thorough': {'extra_args': []}}
