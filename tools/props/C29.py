SPEC = {'id': 'C29',
 'group': 'raft',
 'lean_project': 'AgdbRaft',
 'driver': 'raftmodel',
 'harness_bin': 'harness_raft',
 'compare': 'lines',
 'props_module': 'AgdbRaft.Props.C29',
 'audit_file': 'AgdbRaft/Audit/C29.lean',
 'full_theorems': [],
 'partial_theorems': ['C29_vote_requires_log_check', 'C29_prevote_requires_log_check', 'C29_grant_recorded', 'C29_rule_is_conjunctive'],
 'counterexamples': ['C29_leader_completeness_counterexample'],
 'level': 'other',
 'level_text': 'Proved locally (every node state, every request): C29_vote_requires_log_check / C29_prevote_requires_log_check - a vote or pre-vote '
               "is granted only if the voter's last log_index, last log_term and log_commit are EACH <= the candidate's (a conjunction, not the "
               "lexicographic (term, index) rule of Raft: C29_rule_is_conjunctive), only for a term above the voter's and only from Election / "
               'Voted(lower term) state; C29_grant_recorded ties it to the cluster step and the grant history. Nothing below the last entry is ever '
               'compared, hence: The property is FALSE of the code (also with the C27 repair): Lean theorem C29_leader_completeness_counterexample '
               'refutes C29_leader_completeness_statement (history variable: entries committed by a node acting as leader) with a 27-event schedule '
               "on 3 nodes: node 1 commits an entry as leader of term 2, node 0 - whose log diverges below its last entry - is granted node 2's vote "
               'because validate_log_for_vote compares only last index/term/commit, and becomes leader of term 3 without the entry. Reproduced on '
               'the real code by the harness oracle (corpus/C29); known finding (same root cause as C28). The model (Model/Raft.lean, one Lean '
               'function per raft.rs function; Model/Net.lean network + step) is tied to the code on every run: harness/raft/build.rs compiles the '
               'CURRENT agdb_server/src/raft.rs (cut at its test module, std::time::Instant replaced by a virtual clock, nothing else changed) into '
               'a deterministic simulator with an in-memory Storage that mirrors ClusterStorage/ClusterLog; generated adversarial schedules (tick / '
               'adv / deliver k / append, every message deliverable any number of times in any order or never) are executed on the real code and '
               'replayed by the Lean driver, and after EVERY event the complete state of every node (state, term, election timeout, log with commit '
               'flags, storage index/term/commit, per-peer log_index/log_term/log_commit/timer/voted) and every emitted request/response are '
               'compared. ',
 'level_note': 'Trusted: Lean kernel; the hand-written model being faithful (validated on every run by the per-event correspondence, not verified); '
               'u64 arithmetic modelled in Nat (terms/indexes grow by one per event); the Storage implementation never fails and behaves like '
               'ClusterStorage (in-memory mirror; the CommitError paths are not exercised); nodes do not crash/restart (Cluster::new re-reads the '
               'term from the log, restarts are outside the property); messages are not forged (a response is paired with its request by the '
               'transport).',
 'technique': 'Lean counterexample (kernel-evaluated schedule) + per-event differential correspondence + oracle on the real raft.rs',
 'design_ref': 'DESIGN.md §6 C29',
 'assumptions': ['no node restarts; storage calls never fail',
                 'u64 counters do not overflow',
                 'responses are delivered together with the request they answer (HTTP request/response pairing), never forged',
                 'cluster hash equal on all nodes in generated schedules (validate_hash is modelled, mismatch not generated)'],
 'quick': {'extra_args': []},
 'thorough': {'extra_args': []}}
