def compare(ops, impl, model):
    """The model covers the open path up to Storage::read_records; where it answers `beyond` the
    rest of the open path / the read queries decide and any implementation outcome is accepted
    (the oracle still judges it). Everywhere else the lines must be equal."""
    out = []
    n = max(len(ops), len(impl), len(model))
    for i in range(n):
        o = ops[i] if i < len(ops) else "<missing>"
        a = impl[i] if i < len(impl) else "<missing>"
        b = model[i] if i < len(model) else "<missing>"
        if b == "beyond" and a != "<missing>" and o.startswith("open "):
            continue
        if a != b:
            out.append({"line": i, "op": o[:200], "impl": a, "model": b})
    return out


SPEC = {
    "id": "C07",
    "group": "crash",
    "lean_project": "AgdbCrash",
    "props_module": "AgdbCrash.Props.C07",
    "audit_file": "AgdbCrash/Audit/C07.lean",
    "full_theorems": ["C07_wal_repair_total", "C07_wal_records_total"],
    "partial_theorems": ["C07_open_total_partial"],
    "counterexamples": ["C07_set_record_counterexample", "C07_open_total_counterexample",
                        "C07_memory_read_panic_counterexample", "C07_file_read_hugealloc_counterexample",
                        "C07_wal_repair_hang_counterexample", "C07_wal_records_alloc_counterexample"],
    "driver": "crashmodel",
    "harness_bin": "harness_crash",
    "level": "other",
    "level_text": ("Lean 4, over ALL data/log byte contents and the three back-ends: with the proposed bound checks (C07-open-path-bounds) the open "
                   "path up to and including Storage::read_records (WAL repair/records/replay, version record, record scan, record-table growth) "
                   "never hangs and can panic or over-allocate only in StorageRecords::set_record (C07_open_total_partial); WAL repair and "
                   "reading always terminate without allocation by untrusted length (C07_wal_repair_total, C07_wal_records_total). The full "
                   "statement is false (C07_open_total_counterexample: 40-byte file, 103 GB table) and the unchanged code is refuted per site "
                   "(MemoryStorage::read panic, FileStorage::read allocation, WAL repair hang, WAL records allocation). Tie: mutants of valid "
                   "files (truncation, bit flips, overwritten sizes/indexes/values, garbage and truncated logs, random files) are opened with "
                   "DbFile/Db/DbMemory under catch_unwind + watchdog + 256 MiB allocation limit and fully read; the driver predicts the outcome "
                   "class and site for the modelled prefix."),
    "level_note": ("Category other: DbImpl::try_new_with_storage, the from_storage loaders, DbValue::load_db_value and all read queries are "
                   "outside the model (driver answers `beyond`); their panic/allocation sites are found by the mutant stream and recorded as "
                   "findings keyed by site."),
    "technique": "Lean 4 totality proof of the byte-level open path + mutant-file differential stream with outcome/site comparison",
    "design_ref": "DESIGN.md §6 C07",
    "assumptions": ["allocation requests above 256 MiB count as 'enormous'", "reads/opens bounded by a 5 s / 10 s watchdog",
                    "requires proposed fix C07-open-path-bounds for the proved part"],
    "quick": {"extra_args": []},
    "thorough": {"extra_args": []},
    "compare": "compare",
}
