SPEC = {
    "id": "C19",
    "group": "coll",
    "lean_project": "AgdbColl",
    "props_module": "AgdbColl.Props.C19",
    "audit_file": "AgdbColl/Audit/C19.lean",
    "full_theorems": ["C19_inv_reachable", "C19_mutators_terminate", "C19_insert_terminates",
                      "C19_insert_or_replace_terminates", "C19_remove_key_terminates",
                      "C19_remove_value_terminates", "C19_reserve_terminates", "C19_value_terminates", "C19_index_nowrap", "C19_values_terminates",
                      "C19_values_terminates_partial", "C19_index_chain", "MultiMap_refines", "MultiMap_refines_values",
                      "C19_every_history_runs"],
    "partial_theorems": ["MultiMap_refines_partial"],
    "counterexamples": ["C19_tombstone_counterexample"],
    "driver": "collmodel",
    "harness_bin": "harness_coll",
    "level": "other",
    "level_text": ("Lean 4 theorems over a concrete fuel-indexed model of MultiMapImpl (slot array Empty/Valid/Deleted, exact "
                   "probing, 15/16 and 7/16 load factors, rehash grow / shrink / same-capacity no-op, len-underflow and %0 as panics) "
                   "mirroring multi_map.rs with the proposed fix C19-insert-or-replace-wrap. FULL (C19_mutators_terminate and the "
                   "per-operation theorems): for an arbitrary hash function and EVERY finite history of insert / insert_or_replace "
                   "(any predicate) / remove_key / remove_value / reserve from the empty map, each further operation, including every "
                   "rehash loop it runs, returns ok for every fuel >= 6*capacity+200 (terminates, no panic), via the inductive "
                   "invariant len = #Valid slots and len <= max_len (C19_inv_reachable); every history runs to completion "
                   "(C19_every_history_runs); a single MultiMapIterator::next (value / contains) terminates on any table "
                   "(C19_value_terminates). FULL (C19_values_terminates, via C19_index_nowrap): draining iter_key (values / values_count / "
                   "contains_value; in the database only the index multimap does this) returns after EVERY history of the operations "
                   "the index multimap uses (insert / remove_key / remove_value / reserve with all rehashes): free_index and the "
                   "rehash probe place a pair at the first free slot from its home, so under the 15/16 load limit no pair sits in the "
                   "slot before its home, which is the only way the iterator can be restarted (for tables ALSO filled through "
                   "insert_or_replace that can happen - latent, observed only in the hook-level stream, no database map is used both "
                   "ways). REFINEMENT (MultiMap_refines, MultiMap_refines_values, C19_index_chain): on every index-multimap state the slot "
                   "table is a multiset of pairs: len = #Valid; insert adds exactly the pair; remove_value removes exactly one stored "
                   "(k,v) or nothing; remove_key leaves no pair of the key and touches no other; reserve / every rehash change no count; "
                   "value/contains and values agree with the stored pairs (values as a set; multiplicities and insert_or_replace are not "
                   "proved: MultiMap_refines_statement). COUNTEREXAMPLE "
                   "(C19_tombstone_counterexample): on the pinned code the 65th insert_or_replace after 64 insert/remove cycles "
                   "diverges for every fuel (general divergence lemma + decide +kernel fact about the reachable 64-tombstone table). "
                   "Tie: slot-level differential stream on the real MultiMapStorage<u64,u64> (hook H2-coll: per-op state/key/value dump, "
                   "len, capacity, iteration order) + stable_hash stream + query-level stream on DbMemory (alias and indexed-value "
                   "churn) with a per-call watchdog (worker process killed after 3 s / 10 s) as the termination oracle."),
    "level_note": ("Graph unlink loops / searches / storage loops are outside this group's model (see C08, C14, C17, C01). Trusted: Lean kernel; the "
                   "hand-written model being faithful (validated per slot by the mm stream when hook H2-coll is in the tree, otherwise "
                   "only at query level); watchdog time bound as the meaning of 'never returns'; u64 arithmetic modelled on Nat "
                   "(capacity*15 does not overflow for capacities < 2^60)."),
    "technique": "Lean 4: inductive invariant over all operation histories of a fuel-indexed concrete model of the open-addressing multimap + differential correspondence (slot-level) + per-call watchdog",
    "design_ref": "DESIGN.md §6 C19",
    "assumptions": ["storage reads/writes of the three DbVecs succeed (I/O errors not modelled)",
                    "capacity * 15 < 2^64", "hash function arbitrary but fixed; keys compared by ==",
                    "fix C19-insert-or-replace-wrap applied (on the pinned code the property is false: counterexample theorem + corpus/C19)"],
    "quick": {"extra_args": []},
    "thorough": {"extra_args": []},
    "compare": "lines",
}
