#!/usr/bin/env python3
"""Runs the registered checks against every seeded breaking change under seeded/<prop>/<name>/patch.diff.
Usage: tools/run_seeded.py [PROP ...]   (applies the patch to /repo, runs ./check PROP, ALWAYS restores /repo)."""
import glob, json, os, subprocess, sys, time
V = os.path.dirname(os.path.dirname(os.path.abspath(__file__)))
want = set(sys.argv[1:])
rows = []
def git(*a):
    return subprocess.run(["git", "-C", "/repo"] + list(a), capture_output=True, text=True)
if git("status", "--porcelain", "--untracked-files=no").stdout.strip():
    sys.exit("/repo has uncommitted changes; refusing to run")
for d in sorted(glob.glob(os.path.join(V, "seeded", "*", "*"))):
    patch = os.path.join(d, "patch.diff")
    if not os.path.exists(patch):
        continue
    prop = os.path.basename(os.path.dirname(d))
    if want and prop not in want:
        continue
    meta = {}
    try:
        meta = json.load(open(os.path.join(d, "meta.json")))
    except Exception:
        pass
    checks = meta.get("run_checks", [prop])
    r = git("apply", "--3way", patch)
    if r.returncode != 0:
        rows.append((prop, os.path.basename(d), "PATCH-DOES-NOT-APPLY", r.stderr.strip()[:200]))
        git("checkout", "--", "."); git("reset", "-q", "--hard", "HEAD")
        continue
    try:
        for c in checks:
            t0 = time.time()
            ev = os.path.join(V, "evidence", c + ".json")
            keep = open(ev).read() if os.path.exists(ev) else None
            p = subprocess.run([os.path.join(V, "check"), c, "--tier", "quick"], cwd=V, capture_output=True, text=True)
            if keep is not None:  # evidence must describe the unchanged tree, never a seeded one
                open(ev, "w").write(keep)
            lines = [l for l in p.stdout.splitlines() if l.startswith("VIOLATION") or l.startswith("KNOWN-FINDING")]
            rows.append((prop, os.path.basename(d), "%s rc=%d %.0fs" % (c, p.returncode, time.time() - t0), " | ".join(lines)[:300]))
            print(rows[-1], flush=True)
    finally:
        git("reset", "-q", "--hard", "HEAD")
        git("checkout", "--", ".")
out = os.path.join(V, "seeded", "RESULTS.md")
prev = open(out).read() if os.path.exists(out) else "# Seeded breaking changes vs checks\n\n| property | change | check result | lines |\n|---|---|---|---|\n"
for r in rows:
    prev += "| %s | %s | %s | %s |\n" % r
open(out, "w").write(prev)
