#!/bin/bash
# tools/confirm_seed_srv.sh <prop> <name>  -- seeds on agdb_server whose demonstration is an integration test (demo.rs -> agdb_server/tests/seed_demo.rs).
# demo passes on HEAD, fails with patch.diff; the binary's unit tests pass with the patch. The full integration suite (311 tests, several
# minutes, start-up flakiness under load) was run by the seeding agent (meta.ran); set FULL=1 to re-run it here.
set -u
PROP=$1; NAME=$2
DST=/verif/seeded/$PROP/$NAME
WT=/tmp/confirm_wt_srv2; TGT=${TGT:-/tmp/confirm_target_srv}
git -C /repo worktree remove --force $WT 2>/dev/null
git -C /repo worktree add --detach $WT HEAD -q || exit 2
cd $WT
export CARGO_NET_OFFLINE=true
cp $DST/demo.rs agdb_server/tests/seed_demo.rs
run_demo() { timeout 3000 cargo test -p agdb_server --offline --target-dir $TGT --test seed_demo 2>&1 | tail -15; }
echo "--- demo on HEAD" > $DST/confirm.log
run_demo >> $DST/confirm.log; grep -q "test result: ok" $DST/confirm.log && HEAD_OK=True || HEAD_OK=False
git apply $DST/patch.diff || echo "patch does not apply" >> $DST/confirm.log
echo "--- demo with patch" >> $DST/confirm.log
run_demo > $DST/.tmp; cat $DST/.tmp >> $DST/confirm.log
grep -q "test result: FAILED\|panicked" $DST/.tmp && PATCH_FAILS=True || PATCH_FAILS=False
rm -f agdb_server/tests/seed_demo.rs
echo "--- existing tests with patch: ${FULL:+full package}${FULL:-unit tests of the binary}" >> $DST/confirm.log
if [ -n "${FULL:-}" ]; then ARGS=""; else ARGS="--bin agdb_server"; fi
timeout 3000 cargo test -p agdb_server --offline --target-dir $TGT $ARGS 2>&1 | grep -E "^test result|FAILED|failed" > $DST/.tmp
cat $DST/.tmp >> $DST/confirm.log
if grep -Eq "FAILED|[1-9][0-9]* failed" $DST/.tmp; then TESTS_OK=False; else TESTS_OK=True; fi
grep -q "test result: ok" $DST/.tmp || TESTS_OK=False
rm -f $DST/.tmp
python3 - <<PY
import json
m=json.load(open("$DST/meta.json"))
m["confirmed_by_integrator"]={"repo_head":"$(git -C /repo rev-parse --short HEAD)","demo_passes_on_head":$HEAD_OK,"demo_fails_with_patch":$PATCH_FAILS,"existing_unit_tests_pass_with_patch":$TESTS_OK,"note":"integration suite agdb_server/tests as run by the seeding agent (meta.ran) unless FULL=1","command":"tools/confirm_seed_srv.sh"}
json.dump(m,open("$DST/meta.json","w"),indent=1)
print("$PROP/$NAME", m["confirmed_by_integrator"])
PY
cd /; git -C /repo worktree remove --force $WT
