#!/usr/bin/env python3
"""Regenerates the per-property status table of DESIGN.md (between the STATUS markers) from tools/props/*.py,
known_findings.json, seeded/ and the evidence files."""
import glob, importlib.util, json, os, re
V = os.path.dirname(os.path.dirname(os.path.abspath(__file__)))
claimed = set(json.load(open(os.path.join(V, "tools", "claimed.json"))))
kf = json.load(open(os.path.join(V, "known_findings.json")))
rows = []
for l in open(os.path.join(V, "properties.jsonl")):
    p = json.loads(l)
    f = os.path.join(V, "tools", "props", p["id"] + ".py")
    if not os.path.exists(f):
        rows.append("| %s | — | not built yet | | | |" % p["id"]); continue
    sp = importlib.util.spec_from_file_location("m", f); m = importlib.util.module_from_spec(sp); sp.loader.exec_module(m); s = m.SPEC
    known = [k["key"] for k in kf if k["property"] == p["id"] and k["status"] == "known"]
    fixed = [k["commit"] for k in kf if k["property"] == p["id"] and k["status"] == "fixed"]
    seeds = sorted(os.path.basename(d) for d in glob.glob(os.path.join(V, "seeded", p["id"], "*")) if os.path.isdir(d))
    ev = {}
    try: ev = json.load(open(os.path.join(V, "evidence", p["id"] + ".json")))
    except Exception: pass
    c = ev.get("coverage", {})
    rows.append("| %s | %s / `%s` | %s%s | full: %s%s%s | %s | %s |" % (
        p["id"], s["lean_project"], s["group"], s.get("level", "?"), "" if p["id"] in claimed else " (not claimed)",
        ", ".join("`%s`" % t for t in s.get("full_theorems", [])) or "—",
        ("; partial: " + ", ".join("`%s`" % t for t in s.get("partial_theorems", []))) if s.get("partial_theorems") else "",
        ("; witnesses: " + ", ".join("`%s`" % t for t in s.get("counterexamples", []))) if s.get("counterexamples") else "",
        ("fixed " + ", ".join(fixed) if fixed else "") + ("; " if fixed and known else "") + ("KNOWN: " + ", ".join("`%s`" % k for k in known) if known else ""),
        ("%s op lines, %s cases (%s distinct non-trivial)" % (c.get("op_lines", "?"), c.get("evaluations", "?"), c.get("distinct_nontrivial", "?"))) + ("; seeds: " + ", ".join(seeds) if seeds else "")))
txt = "| id | Lean project / harness | level | theorems (see `lean/<Proj>/<Proj>/Props/<id>.lean`) | defects: repaired (commit) / recorded | last quick run; seeded changes |\n|---|---|---|---|---|---|\n" + "\n".join(rows) + "\n"
p = os.path.join(V, "DESIGN.md"); s = open(p).read()
b, e = "<!-- STATUS:BEGIN -->", "<!-- STATUS:END -->"
if b in s:
    s = s[:s.index(b) + len(b)] + "\n" + txt + s[s.index(e):]
    open(p, "w").write(s)
print(txt[:500])
