#!/bin/bash
# tools/confirm_seed.sh <seed_src_dir> <prop> <name> [package]  -- confirms a seeded change in a scratch worktree:
# demo passes on HEAD, fails with the patch; the package's existing tests pass with the patch. Copies it to seeded/<prop>/<name>/.
set -u
SRC=$1; PROP=$2; NAME=$3; PKG=${4:-agdb}
WT=/tmp/confirm_wt_$PROP$NAME; TGT=/tmp/confirm_target_${PKG}_${LANE:-0}
DST=/verif/seeded/$PROP/$NAME
mkdir -p $DST
git -C /repo worktree remove --force $WT 2>/dev/null
git -C /repo worktree add --detach $WT HEAD -q || exit 2
cd $WT
DEMO=$PKG/tests/seed_demo_$PROP$NAME.rs
cp $SRC/demo.rs $DEMO
export CARGO_NET_OFFLINE=true
run_demo() { RUSTFLAGS="--cfg agdb_verif -Awarnings" timeout 1800 cargo test -p $PKG --offline --target-dir $TGT/v --test seed_demo_$PROP$NAME 2>&1 | tail -15; }
echo "--- demo on HEAD" > $DST/confirm.log
run_demo >> $DST/confirm.log; grep -q "test result: ok" <(tail -8 $DST/confirm.log) && HEAD_OK=true || HEAD_OK=false
git apply $SRC/patch.diff || { echo "patch does not apply" >> $DST/confirm.log; APPLY=false; }
echo "--- demo with patch" >> $DST/confirm.log
run_demo > $DST/.tmp; cat $DST/.tmp >> $DST/confirm.log
grep -q "test result: FAILED\|panicked\|error: test failed" $DST/.tmp && PATCH_FAILS=true || PATCH_FAILS=false
rm -f $DEMO $DST/.tmp
echo "--- existing tests with patch (guard off)" >> $DST/confirm.log
timeout 3600 cargo test -p $PKG --offline --target-dir $TGT/p 2>&1 | grep -E "^test result|FAILED|failed" > $DST/.tmp
cat $DST/.tmp | tail -40 >> $DST/confirm.log
if grep -Eq "FAILED|[1-9][0-9]* failed" $DST/.tmp; then TESTS_OK=false; else TESTS_OK=true; fi
NPASS=$(grep -c "test result: ok" $DST/.tmp)
rm -f $DST/.tmp
cp $SRC/patch.diff $DST/patch.diff; cp $SRC/demo.rs $DST/demo.rs
python3 - <<PY
import json
m=json.load(open("$SRC/meta.json"))
m["confirmed_by_integrator"]={"repo_head":"$(git -C /repo rev-parse --short HEAD)","demo_passes_on_head":$( [ $HEAD_OK = true ] && echo True || echo False ),"demo_fails_with_patch":$( [ $PATCH_FAILS = true ] && echo True || echo False ),"existing_tests_pass_with_patch":$( [ $TESTS_OK = true ] && echo True || echo False ),"test_result_ok_groups":$NPASS,"command":"tools/confirm_seed.sh (demo: RUSTFLAGS=--cfg agdb_verif cargo test -p $PKG --test <demo>; suite: cargo test -p $PKG --offline, guard off)"}
json.dump(m,open("$DST/meta.json","w"),indent=1)
print("$PROP/$NAME", m["confirmed_by_integrator"])
PY
cd /; git -C /repo worktree remove --force $WT
