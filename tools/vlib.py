#!/usr/bin/env python3
"""Shared pipeline for ./check <ID>: proof verdict, correspondence verdict, oracle verdict,
known findings, shrinking, replay files and evidence.  See tools/INTERFACE.md."""
import hashlib
import importlib.util
import json
import os
import re
import shutil
import subprocess
import sys
import time

VERIF = os.path.dirname(os.path.dirname(os.path.abspath(__file__)))
REPO = os.environ.get("VERIF_REPO", "/repo")
ALLOWED_AXIOMS = {"propext", "Classical.choice", "Quot.sound"}
FORBIDDEN = re.compile(
    r"\bsorry\b|\badmit\b|^\s*axiom\s|native_decide|bv_decide|implemented_by|\bunsafe\s|maxHeartbeats\s+0")
ENV_OFFLINE = {"CARGO_NET_OFFLINE": "true", "GOPROXY": "off", "PIP_NO_INDEX": "1"}


def log(msg):
    print(msg, flush=True)


def sh(cmd, cwd=None, env=None, timeout=None, stdin=None, stdout=subprocess.PIPE):
    e = dict(os.environ)
    e.update(ENV_OFFLINE)
    if env:
        e.update(env)
    return subprocess.run(cmd, cwd=cwd, env=e, timeout=timeout, stdin=stdin, stdout=stdout,
                          stderr=subprocess.STDOUT if stdout == subprocess.PIPE else subprocess.PIPE,
                          text=True, errors="replace")


def load_spec(pid):
    path = os.path.join(VERIF, "tools", "props", pid + ".py")
    if not os.path.exists(path):
        raise SystemExit("no spec for %s (%s)" % (pid, path))
    spec = importlib.util.spec_from_file_location("prop_" + pid, path)
    mod = importlib.util.module_from_spec(spec)
    spec.loader.exec_module(mod)
    return mod.SPEC, mod


# ----------------------------------------------------------------------------- proof verdict

def strip_lean_comments(text):
    out, i, depth, n = [], 0, 0, len(text)
    while i < n:
        if text.startswith("/-", i):
            depth += 1
            i += 2
        elif depth and text.startswith("-/", i):
            depth -= 1
            i += 2
        elif depth:
            if text[i] == "\n":
                out.append("\n")
            i += 1
        elif text.startswith("--", i):
            while i < n and text[i] != "\n":
                i += 1
        elif text[i] == '"':
            j = i + 1
            while j < n and text[j] != '"':
                j += 2 if text[j] == "\\" else 1
            out.append('""')
            i = j + 1
        else:
            out.append(text[i])
            i += 1
    return "".join(out)


def source_grep(projdir):
    hits = []
    for root, dirs, files in os.walk(projdir):
        dirs[:] = [d for d in dirs if d not in (".lake",)]
        for f in files:
            if not f.endswith(".lean"):
                continue
            p = os.path.join(root, f)
            is_driver = f == "Main.lean"
            body = strip_lean_comments(open(p, errors="replace").read())
            for ln, line in enumerate(body.split("\n"), 1):
                if FORBIDDEN.search(line):
                    hits.append("%s:%d: %s" % (os.path.relpath(p, VERIF), ln, line.strip()[:120]))
                if not is_driver and re.search(r"\bpartial\s+def\b", line) and "/Model/" in p.replace("\\", "/"):
                    hits.append("%s:%d: partial def in model" % (os.path.relpath(p, VERIF), ln))
    return hits


def parse_axioms(text):
    """returns {theorem: [axioms]} from `#print axioms` output"""
    res = {}
    flat = re.sub(r"\n\s+", " ", text)
    for m in re.finditer(r"'([^']+)' depends on axioms: \[([^\]]*)\]", flat):
        res[m.group(1)] = [a.strip() for a in m.group(2).split(",") if a.strip()]
    for m in re.finditer(r"'([^']+)' does not depend on any axioms", flat):
        res[m.group(1)] = []
    return res


def proof_verdict(spec, tier, work):
    proj = os.path.join(VERIF, "lean", spec["lean_project"])
    out = {"obligations": 0, "discharged": 0, "broken": [], "axioms": {}, "grep_hits": [], "build_ok": False,
           "checker_cmd": "", "theorems": []}
    ext = os.path.join(VERIF, "tools", "extract_consts_%s.py" % spec["lean_project"])
    if os.path.exists(ext):
        r = sh([sys.executable, ext, REPO], cwd=VERIF)
        out["constants"] = r.stdout.strip()[-2000:]
        if r.returncode != 0:
            out["broken"].append("constants-extractor failed")
    audit_mod = spec["audit_file"][:-5].replace("/", ".")
    targets = [spec["props_module"], audit_mod] + list(spec.get("extra_lean_targets", []))
    if spec.get("driver"):
        targets.append(spec["driver"])
    cmd = ["lake", "build"] + targets
    out["checker_cmd"] = "cd lean/%s && %s && lake env lean %s  (#print axioms audit + source grep)" % (
        spec["lean_project"], " ".join(cmd), spec["audit_file"])
    r = sh(cmd, cwd=proj, timeout=3600)
    open(os.path.join(work, "lake_build.log"), "w").write(r.stdout)
    out["build_ok"] = r.returncode == 0
    wanted = list(spec.get("full_theorems", [])) + list(spec.get("partial_theorems", [])) + \
        list(spec.get("counterexamples", []))
    out["theorems"] = wanted
    out["obligations"] = len(wanted)
    if not out["build_ok"]:
        errs = [l for l in r.stdout.split("\n") if "error" in l.lower()][:10]
        out["broken"].append("lake build failed: " + " | ".join(errs)[:1500])
        # try to learn which theorems still check: build props only
    r2 = sh(["lake", "env", "lean", spec["audit_file"]], cwd=proj, timeout=1800)
    open(os.path.join(work, "audit.log"), "w").write(r2.stdout)
    ax = parse_axioms(r2.stdout)
    out["axioms"] = ax
    for t in wanted:
        key = t if t in ax else next((k for k in ax if k.split(".")[-1] == t), None)
        if key is None:
            out["broken"].append("theorem %s not found by audit (missing, renamed, or no longer checks)" % t)
            continue
        bad = [a for a in ax[key] if a not in ALLOWED_AXIOMS and a not in spec.get("accepted_axioms", [])]
        if bad:
            out["broken"].append("theorem %s depends on %s" % (t, ",".join(bad)))
        else:
            out["discharged"] += 1
    hits = source_grep(proj)
    out["grep_hits"] = hits
    if hits:
        out["broken"].append("forbidden constructs: " + "; ".join(hits[:5]))
    if tier == "thorough" and out["build_ok"]:
        r3 = sh(["lake", "env", "leanchecker", spec["props_module"]], cwd=proj, timeout=3600)
        out["leanchecker_rc"] = r3.returncode
        if r3.returncode != 0:
            out["broken"].append("leanchecker rejected %s: %s" % (spec["props_module"], r3.stdout[-300:]))
        out["checker_cmd"] += " && lake env leanchecker " + spec["props_module"]
    used = set()
    for v in ax.values():
        used.update(v)
    out["axioms_used"] = sorted(used)
    return out


# ----------------------------------------------------------------------------- harness

def harness_dir(spec):
    return os.path.join(VERIF, "harness", spec["group"])


def build_harness(spec, work):
    hdir = harness_dir(spec)
    tin = os.path.join(hdir, "Cargo.toml.in")
    txt = open(tin).read().replace("@REPO@", REPO)
    tout = os.path.join(hdir, "Cargo.toml")
    if not os.path.exists(tout) or open(tout).read() != txt:
        open(tout, "w").write(txt)
    lock_src = os.path.join(REPO, "Cargo.lock")
    lock_dst = os.path.join(hdir, "Cargo.lock")
    if not os.path.exists(lock_dst):
        shutil.copy(lock_src, lock_dst)
    target = os.path.join(VERIF, ".target", spec["group"])
    env = {"RUSTFLAGS": os.environ.get("VERIF_RUSTFLAGS", "--cfg agdb_verif -Awarnings"),
           "VERIF_REPO": REPO}
    cmd = ["cargo", "build", "--offline", "--target-dir", target] + list(spec.get("cargo_args", []))
    r = sh(cmd, cwd=hdir, env=env, timeout=3600)
    if r.returncode != 0 and "Cargo.lock" in r.stdout and "needs to be updated" in r.stdout:
        shutil.copy(lock_src, lock_dst)
        r = sh(cmd, cwd=hdir, env=env, timeout=3600)
    open(os.path.join(work, "cargo_build.log"), "w").write(r.stdout)
    profile = "release" if "--release" in spec.get("cargo_args", []) else "debug"
    binp = os.path.join(target, profile, spec["harness_bin"])
    return r.returncode == 0 and os.path.exists(binp), binp, r.stdout[-3000:]


def driver_path(spec):
    return os.path.join(VERIF, "lean", spec["lean_project"], ".lake", "build", "bin", spec["driver"])


def run_model(spec, ops_path, out_path, timeout=1800):
    drv = driver_path(spec)
    if not os.path.exists(drv):
        return False, "driver binary missing: " + drv
    with open(ops_path) as fi, open(out_path, "w") as fo:
        e = dict(os.environ)
        p = subprocess.run([drv] + list(spec.get("driver_args", [])), stdin=fi, stdout=fo, stderr=subprocess.PIPE,
                           timeout=timeout, env=e)
    if p.returncode != 0:
        return False, "driver exited %d: %s" % (p.returncode, p.stderr.decode(errors="replace")[-500:])
    return True, ""


def read_lines(p):
    if not os.path.exists(p):
        return []
    return open(p, errors="replace").read().split("\n")[:-1] if os.path.getsize(p) else []


def split_cases(ops):
    """returns list of (start, end) line index ranges, one per `case` block"""
    starts = [i for i, l in enumerate(ops) if l.startswith("case ")]
    if not starts or starts[0] != 0:
        starts = [0] + starts
    starts = sorted(set(starts))
    return [(s, (starts[k + 1] if k + 1 < len(starts) else len(ops))) for k, s in enumerate(starts)]


def compare_lines(ops, impl, model, mod=None, spec=None):
    """list of disagreements {line, op, impl, model}"""
    cmpf = None
    if spec and spec.get("compare") not in (None, "lines") and mod is not None:
        cmpf = getattr(mod, spec["compare"])
    if cmpf:
        return cmpf(ops, impl, model)
    dis = []
    n = max(len(ops), len(impl), len(model))
    for i in range(n):
        a = impl[i] if i < len(impl) else "<missing>"
        b = model[i] if i < len(model) else "<missing>"
        if a != b:
            dis.append({"line": i, "op": ops[i] if i < len(ops) else "<none>", "impl": a, "model": b})
    return dis


def run_harness(binp, mode, spec, args, outdir, timeout):
    os.makedirs(outdir, exist_ok=True)
    cmd = [binp, mode, "--prop", spec.get("prop_arg", spec["id"])] + args + ["--out", outdir]
    try:
        r = sh(cmd, cwd=VERIF, timeout=timeout, env={"VERIF_REPO": REPO, "VERIF_ROOT": VERIF})
        return r.returncode, r.stdout[-4000:]
    except subprocess.TimeoutExpired:
        return 124, "harness timed out after %ss" % timeout


def read_oracle(outdir):
    res = []
    for l in read_lines(os.path.join(outdir, "oracle.jsonl")):
        l = l.strip()
        if l:
            try:
                res.append(json.loads(l))
            except Exception:
                res.append({"key": "unparsable-oracle-line", "raw": l[:300]})
    return res


def load_findings():
    p = os.path.join(VERIF, "known_findings.json")
    try:
        return json.load(open(p))
    except Exception:
        return []


# ----------------------------------------------------------------------------- shrinking

def ddmin(lines, test, budget_s=60):
    """classic ddmin over a list; test(list)->bool (True = still fails)"""
    t0 = time.time()
    n = 2
    cur = list(lines)
    while len(cur) >= 2 and time.time() - t0 < budget_s:
        chunk = max(1, len(cur) // n)
        subsets = [cur[i:i + chunk] for i in range(0, len(cur), chunk)]
        reduced = False
        for i in range(len(subsets)):
            comp = [x for j, s in enumerate(subsets) if j != i for x in s]
            if comp and test(comp):
                cur = comp
                n = max(n - 1, 2)
                reduced = True
                break
            if time.time() - t0 > budget_s:
                break
        if not reduced:
            if n >= len(cur):
                break
            n = min(len(cur), n * 2)
    return cur


def replay_ops(spec, mod, binp, ops, outdir, with_model=True, timeout=300):
    os.makedirs(outdir, exist_ok=True)
    opsf = os.path.join(outdir, "in.ops")
    open(opsf, "w").write("".join(l + "\n" for l in ops))
    rc, tail = run_harness(binp, "replay", spec, ["--ops", opsf], outdir, timeout)
    impl = read_lines(os.path.join(outdir, "impl.txt"))
    oracle = read_oracle(outdir)
    model, dis = [], []
    if with_model:
        ok, msg = run_model(spec, opsf, os.path.join(outdir, "model.txt"))
        model = read_lines(os.path.join(outdir, "model.txt"))
        if ok:
            dis = compare_lines(ops, impl, model, mod, spec)
        else:
            dis = [{"line": -1, "op": "<driver>", "impl": "", "model": msg}]
    return rc, impl, model, oracle, dis


def shrink_case(spec, mod, binp, case_ops, pred, work, budget_s):
    """pred(oracle, dis) -> bool"""
    header = [case_ops[0]] if case_ops and case_ops[0].startswith("case ") else []
    body = case_ops[len(header):]
    cnt = [0]

    def test(sub):
        cnt[0] += 1
        d = os.path.join(work, "shrink")
        shutil.rmtree(d, ignore_errors=True)
        rc, impl, model, oracle, dis = replay_ops(spec, mod, binp, header + sub, d, with_model=True, timeout=120)
        return pred(oracle, dis)

    if not test(body):
        return case_ops, 0  # not reproducible in isolation
    small = ddmin(body, test, budget_s)
    return header + small, cnt[0]


# ----------------------------------------------------------------------------- main pipeline

def write_replay(spec, name, payload):
    d = os.path.join(VERIF, "replays")
    os.makedirs(d, exist_ok=True)
    p = os.path.join(d, name)
    json.dump(payload, open(p, "w"), indent=1)
    return p


def write_evidence(spec, tier, seed, level, coverage, assumptions, wall, violations):
    d = os.path.join(VERIF, "evidence")
    os.makedirs(d, exist_ok=True)
    ev = {"property_id": spec["id"], "tier": tier, "seed": seed, "level": level, "coverage": coverage,
          "assumptions": assumptions, "wall_s": round(wall, 2), "violations": violations}
    json.dump(ev, open(os.path.join(d, spec["id"] + ".json"), "w"), indent=1)


def run_check_single(pid, tier="quick", seed=None, replay=None, spec_override=None, mod_override=None, suffix=""):
    t0 = time.time()
    if spec_override is not None:
        spec, mod = spec_override, mod_override
    else:
        spec, mod = load_spec(pid)
    if seed is None:
        seed = int(os.environ.get("VERIF_SEED", "20260921"))
    tier = os.environ.get("VERIF_TIER", tier) if tier is None else tier
    work = os.path.join(VERIF, ".work", pid + suffix)
    shutil.rmtree(work, ignore_errors=True)
    os.makedirs(work, exist_ok=True)
    findings = [f for f in load_findings() if f.get("property") == pid]
    known = {f["key"]: f for f in findings if f.get("status") == "known"}

    log("== %s (%s, seed %d) repo=%s" % (pid, tier, seed, REPO))
    # 1. proof
    pv = proof_verdict(spec, tier, work)
    log("proof: %d/%d obligations discharged%s" % (pv["discharged"], pv["obligations"],
                                                    "" if not pv["broken"] else "  BROKEN: " + "; ".join(pv["broken"])[:600]))
    # 2. harness
    ok, binp, tail = build_harness(spec, work)
    if not ok:
        log("harness build FAILED:\n" + tail)
        # The harness is our machinery; if /repo's API changed under it we cannot tie the model to the code.
        rp = write_replay(spec, "%s%s-%d-harness-build.json" % (pid, suffix, seed),
                          {"property": pid, "broken": {"stream": "harness build", "log_tail": tail}})
        cov = {"explanation": "harness failed to build against the current tree; correspondence cannot be checked",
               "obligations": pv["obligations"], "discharged": pv["discharged"], "checker_cmd": pv["checker_cmd"],
               "trusted_base": [], "evaluations": 0, "distinct_nontrivial": 0}
        print("VIOLATION property=%s replay=%s no-failing-input-found" % (pid, rp))
        return 1, "other", cov, 1

    if replay:
        rj = json.load(open(replay))
        ops = rj["ops"]
        rc, impl, model, oracle, dis = replay_ops(spec, mod, binp, ops, os.path.join(work, "replay"))
        log("replay: %d ops; proof broken=%d; correspondence disagreements=%d; oracle violations=%d" % (
            len(ops), len(pv["broken"]), len(dis), len(oracle)))
        for o in oracle[:5]:
            log("  oracle: " + json.dumps(o)[:400])
        for d in dis[:5]:
            log("  diff: " + json.dumps(d)[:400])
        return (1 if (oracle or dis) else 0), spec.get("level", "other"), {}, len(oracle)

    tcfg = spec.get(tier, {})
    gen_args = ["--seed", str(seed), "--tier", tier] + list(tcfg.get("extra_args", []))
    corpus = os.path.join(VERIF, "corpus", pid)
    if os.path.isdir(corpus):
        gen_args += ["--corpus", corpus]
    outdir = os.path.join(work, "gen")
    rc, tail = run_harness(binp, "gen", spec, gen_args, outdir, tcfg.get("timeout", 1500 if tier == "quick" else 7200))
    ops = read_lines(os.path.join(outdir, "ops.txt"))
    impl = read_lines(os.path.join(outdir, "impl.txt"))
    oracle = read_oracle(outdir)
    try:
        stats = json.load(open(os.path.join(outdir, "stats.json")))
    except Exception:
        stats = {}
    harness_broken = None
    if rc != 0 or not ops:
        harness_broken = "harness gen exited %s: %s" % (rc, tail[-800:])
        log(harness_broken)

    # 3. correspondence
    model_path = os.path.join(outdir, "model.txt")
    dis = []
    corr_broken = None
    if ops:
        okm, msg = run_model(spec, os.path.join(outdir, "ops.txt"), model_path)
        model = read_lines(model_path)
        if not okm:
            corr_broken = msg
        else:
            dis = compare_lines(ops, impl, model, mod, spec)
    else:
        model = []
    # known-divergence markers
    n_dis_all = len(dis)
    log("correspondence: %d op lines, %d disagreements%s" % (len(ops), n_dis_all, (" (" + corr_broken + ")") if corr_broken else ""))

    # 4. oracle
    unknown = [o for o in oracle if o.get("key") not in known]
    hit_known = {}
    for o in oracle:
        if o.get("key") in known:
            hit_known.setdefault(o["key"], 0)
            hit_known[o["key"]] += 1
    for k, c in sorted(hit_known.items()):
        print("KNOWN-FINDING: property=%s %s [%s] (%d occurrence(s) this run)" % (pid, known[k].get("what", ""), k, c), flush=True)
    # findings listed as known that were expected to show on the corpus but did not are not an error.

    violations = 0
    rc_final = 0
    cases = split_cases(ops)

    def case_of(line):
        for (a, b) in cases:
            if a <= line < b:
                return (a, b)
        return (0, len(ops))

    shrink_budget = 45 if tier == "quick" else 180
    if unknown:
        violations += len(unknown)
        first = unknown[0]
        a, b = case_of(first.get("line", 0)) if "line" in first else (cases[first.get("case", 0)] if first.get("case", 0) < len(cases) else (0, len(ops)))
        case_ops = ops[a:b]
        key = first.get("key")
        small, tries = shrink_case(spec, mod, binp, case_ops, lambda orc, ds: any(o.get("key") == key for o in orc), work, shrink_budget)
        rp = write_replay(spec, "%s%s-%d-oracle.json" % (pid, suffix, seed), {
            "property": pid, "run": suffix.lstrip("-"), "tier": tier, "seed": seed, "kind": "oracle-violation", "key": key,
            "ops": small, "original_case_ops": len(case_ops), "shrink_tries": tries,
            "oracle": first, "all_unlisted_keys": sorted({o.get("key", "?") for o in unknown}),
            "replay_cmd": "./check %s --replay <this file>" % pid})
        print("VIOLATION property=%s replay=%s" % (pid, rp), flush=True)
        rc_final = 1
    elif pv["broken"] or dis or corr_broken or harness_broken:
        # the model or its tie no longer checks: search for a failing input with an enlarged budget
        found = None
        budget = 60 if tier == "quick" else 600
        ts = time.time()
        k = 0
        while time.time() - ts < budget and not harness_broken:
            k += 1
            d2 = os.path.join(work, "search%d" % k)
            rc2, _ = run_harness(binp, "gen", spec, ["--seed", str(seed + 7919 * k), "--tier", "thorough" if k > 1 else tier] +
                                 list(spec.get("thorough", {}).get("extra_args", [])), d2, max(30, int(budget - (time.time() - ts))))
            orc2 = [o for o in read_oracle(d2) if o.get("key") not in known]
            if orc2:
                ops2 = read_lines(os.path.join(d2, "ops.txt"))
                cs2 = split_cases(ops2)
                ln = orc2[0].get("line", 0)
                a, b = next(((x, y) for (x, y) in cs2 if x <= ln < y), (0, len(ops2)))
                found = (orc2[0], ops2[a:b])
                break
            shutil.rmtree(d2, ignore_errors=True)
        broken = {"theorems": pv["broken"], "stream": spec["group"],
                  "first_diff": dis[0] if dis else None, "disagreements": len(dis),
                  "driver": corr_broken, "harness": harness_broken}
        if found:
            key = found[0].get("key")
            small, tries = shrink_case(spec, mod, binp, found[1], lambda orc, ds: any(o.get("key") == key for o in orc), work, shrink_budget)
            rp = write_replay(spec, "%s%s-%d-oracle.json" % (pid, suffix, seed), {
                "property": pid, "run": suffix.lstrip("-"), "tier": tier, "seed": seed, "kind": "oracle-violation(found by enlarged search)",
                "key": key, "ops": small, "oracle": found[0], "broken": broken})
            print("VIOLATION property=%s replay=%s" % (pid, rp), flush=True)
        else:
            small = []
            if dis:
                a, b = case_of(dis[0]["line"])
                small, tries = shrink_case(spec, mod, binp, ops[a:b], lambda orc, ds: len(ds) > 0, work, shrink_budget)
            rp = write_replay(spec, "%s%s-%d-broken.json" % (pid, suffix, seed), {
                "property": pid, "run": suffix.lstrip("-"), "tier": tier, "seed": seed, "kind": "proof-or-correspondence-broken",
                "broken": broken, "ops": small,
                "note": "no input violating the property itself was found; the named theorem(s)/stream no longer check, so the property is no longer shown to hold"})
            print("VIOLATION property=%s replay=%s no-failing-input-found" % (pid, rp), flush=True)
        violations += 1
        rc_final = 1

    # 5. evidence
    level = spec.get("level", "other")
    trusted = ["Lean 4.33.0 kernel", "axioms: " + (", ".join(pv["axioms_used"]) or "none")] + list(spec.get("trusted_base", []))
    cov = {
        "obligations": pv["obligations"], "discharged": pv["discharged"],
        "checker_cmd": pv["checker_cmd"], "trusted_base": trusted,
        "theorems": {"full": spec.get("full_theorems", []), "partial": spec.get("partial_theorems", []),
                     "counterexample": spec.get("counterexamples", [])},
        "broken_obligations": pv["broken"],
        "evaluations": int(stats.get("evaluations", 0)),
        "distinct_nontrivial": int(stats.get("distinct_nontrivial", 0)),
        "rule": stats.get("rule", ""),
        "samples": stats.get("samples", [])[:5] or ([ops[:12]] if ops else []),
        "histogram": stats.get("histogram", {}),
        "op_lines": len(ops),
        "disagreements_checked": len(ops),
        "disagreements": n_dis_all,
        "oracle_violations": len(oracle),
        "oracle_violations_unlisted": len(unknown),
        "known_findings_hit": hit_known,
        "exhaustive": bool(stats.get("exhaustive", False)),
        "explanation": spec.get("level_text", ""),
        "repo": REPO,
    }
    for k, v in stats.items():
        if k not in cov:
            cov[k] = v
    if level == "proof" and pv["discharged"] != pv["obligations"]:
        level = "other"
    if rc_final == 0:
        shutil.rmtree(work, ignore_errors=True)
    return rc_final, level, cov, violations


def kill_strays():
    """kill processes (e.g. agdb_server children of a harness that died) whose cwd is under /verif/.work"""
    me = os.getpid()
    for d in os.listdir("/proc"):
        if not d.isdigit() or int(d) == me:
            continue
        try:
            cwd = os.readlink("/proc/%s/cwd" % d)
            exe = os.readlink("/proc/%s/exe" % d)
        except OSError:
            continue
        if cwd.startswith(os.path.join(VERIF, ".work")) and "agdb_server" in exe:
            try:
                os.kill(int(d), 9)
            except OSError:
                pass


def run_check(pid, tier="quick", seed=None, replay=None):
    """main run + the spec's `extra_runs` (other harness/driver pairs serving the same property)"""
    try:
        return _run_check(pid, tier, seed, replay)
    finally:
        kill_strays()


def _run_check(pid, tier="quick", seed=None, replay=None):
    t0 = time.time()
    spec, mod = load_spec(pid)
    if seed is None:
        seed = int(os.environ.get("VERIF_SEED", "20260921"))
    if replay:
        rj = json.load(open(replay))
        run_name = rj.get("run", "")
        if run_name:
            for k, ex in enumerate(spec.get("extra_runs", [])):
                if ex.get("name", "x%d" % k) == run_name:
                    sub = dict(spec); sub.update(ex)
                    return run_check_single(pid, tier, seed, replay, sub, mod, "-" + run_name)[0]
        return run_check_single(pid, tier, seed, replay)[0]
    rc, level, cov, violations = run_check_single(pid, tier, seed, None)
    extras = []
    for k, ex in enumerate(spec.get("extra_runs", [])):
        sub = dict(spec)
        sub.update(ex)
        sub["extra_runs"] = []
        name = ex.get("name", "x%d" % k)
        rc2, level2, cov2, v2 = run_check_single(pid, tier, seed, None, sub, mod, "-" + name)
        rc = max(rc, rc2)
        violations += v2
        extras.append({"run": name, "group": sub.get("group"), "lean_project": sub.get("lean_project"),
                       **{kk: cov2.get(kk) for kk in ("obligations", "discharged", "evaluations", "distinct_nontrivial", "rule",
                                                      "op_lines", "disagreements", "oracle_violations", "oracle_violations_unlisted",
                                                      "known_findings_hit", "histogram", "broken_obligations", "checker_cmd", "samples")}})
        # totals
        cov["evaluations"] = cov.get("evaluations", 0) + (cov2.get("evaluations") or 0)
        cov["distinct_nontrivial"] = cov.get("distinct_nontrivial", 0) + (cov2.get("distinct_nontrivial") or 0)
        cov["disagreements_checked"] = cov.get("disagreements_checked", 0) + (cov2.get("disagreements_checked") or 0)
        if sub.get("props_module") != spec.get("props_module"):
            cov["obligations"] = cov.get("obligations", 0) + (cov2.get("obligations") or 0)
            cov["discharged"] = cov.get("discharged", 0) + (cov2.get("discharged") or 0)
    if extras:
        cov["extra_runs"] = extras
    if level == "proof" and cov.get("discharged") != cov.get("obligations"):
        level = "other"
    write_evidence(spec, tier, seed, level, cov, spec.get("assumptions", []), time.time() - t0, violations)
    log("== %s done in %.1fs: %s" % (pid, time.time() - t0, "OK" if rc == 0 else "VIOLATION"))
    return rc
